import PcbV.Lemmas.Screen
/-
  C35 — the displayed picture always equals the emulator's screen state.

  The model (`PcbV.Model.Screen`) has the page buffers of `display/buffers.py` (several pages, one
  visible), the video signals they emit, and the reference consumer of `interface/video_sdl2.py`
  (pixels) / `video_curses.py` (characters).  Glyph rendering and the background of an attribute are
  parameters, the geometry is arbitrary (pixel size = text size × font size, as in every video mode
  whose rows fit the canvas; the byte-row → unicode-cell conversion `Env.conv` is a parameter too, so
  the theorems hold for single-byte AND double-byte codepages, where a written byte re-pairs with its
  neighbours and changes cells left and right of the written range; Hercules graphics, 348 = 25·14 − 2 lines, is covered by the run-time
  oracle only).  Operation histories are arbitrary lists of page operations on arbitrary pages
  (visible or not), page switches and page copies; `validOps` asks for coordinates inside the page
  and that `clear_rows` is not called inside `collect_updates` (true of every caller).
-/
namespace PcbV.C35
open PcbV PcbV.Screen PcbV.ScreenLemmas

/-- **display_tracks_buffer.**  After a mode switch (`_set_mode`: fresh pages, set_mode signal,
    `set_page v`) and ANY valid history of page operations (text output with or without
    `collect_updates`, clearing, scrolling up/down, pixel writes — each on any page, visible or not),
    page switches and page copies: the page flagged visible is the display's visible page, every
    pixel of the canvas obtained by folding the reference consumer over the emitted signals equals
    that page's pixel buffer, and every character cell equals the page's character buffer except
    cells still waiting in a dirty range inside `collect_updates`; outside `collect_updates`
    (statement boundaries) all character cells are equal.  `oldv` is the visible-page number left
    over from the previous mode and is ARBITRARY — in particular it may be `≥ npages` (mode change
    into a mode with fewer pages while a high page was visible: `WIDTH 40: SCREEN ,,5,5: WIDTH 80`):
    the new visible page is switched on and resubmitted all the same. -/
theorem display_tracks_buffer (e : Env) (npages attr oldv v : Nat) (ops : List Op)
    (hth : 0 < e.g.th) (htw : 0 < e.g.tw) (hv : v < npages)
    (hval : validOps e (initDisp npages attr oldv) (Op.setPage v :: ops)) :
    let r := runOps e (initDisp npages attr oldv) (Op.setPage v :: ops)
    let cv := consume Canvas.empty (modeSignal e :: r.2)
    let p := r.1.pages r.1.vnum
    p.visible = true ∧
    (∀ y x, y < e.g.H → x < e.g.W → cv.px y x = p.px y x) ∧
    (∀ row c, row < e.g.th → c < e.g.tw → cv.tx row c ≠ p.utext row c → Cov p row c) ∧
    (p.locked = false → ∀ row c, row < e.g.th → c < e.g.tw → cv.tx row c = p.utext row c) := by
  intro r cv p
  have hi0 : Inv e (initDisp npages attr oldv) (consume1 Canvas.empty (modeSignal e)) :=
    ⟨mode_geom e _ hth htw, fun i h => by simp [initDisp, blankPage] at h,
     fun h => by simp [initDisp, blankPage] at h, fun i h r => rfl⟩
  -- the first operation makes page v visible
  have h1 := step_inv e _ _ (Op.setPage v) hi0 hval.1
  have hvis1 : (((Op.setPage v).run e (initDisp npages attr oldv)).1.pages
      ((Op.setPage v).run e (initDisp npages attr oldv)).1.vnum).visible = true := by
    have hvn : v < (initDisp npages attr oldv).npages := hv
    simp only [Op.run, hvn, if_true, setPageAt]
    have hinv : (if v = (initDisp npages attr oldv).vnum
        then (setVisible e ((initDisp npages attr oldv).pages (initDisp npages attr oldv).vnum) false).1
        else (initDisp npages attr oldv).pages v).visible = false := by
      split_ifs
      · exact (setVisible_off e _).1
      · rfl
    exact (setVisible_on e _ (consume1 Canvas.empty (modeSignal e)) hinv (mode_geom e _ hth htw)).1
  have h2 := run_inv e ops _ _ h1.1 hval.2
  have hvis : p.visible = true := h2.2 hvis1
  have hcv : cv = consume (consume (consume1 Canvas.empty (modeSignal e))
      ((Op.setPage v).run e (initDisp npages attr oldv)).2)
      (runOps e ((Op.setPage v).run e (initDisp npages attr oldv)).1 ops).2 := by
    simp only [cv, r, runOps, consume, List.foldl_cons, List.foldl_append]
  have ht : TD e p cv := by rw [hcv]; exact h2.1.shows hvis
  refine ⟨hvis, ht.2.1, fun row c hr hc hne => (ht.2.2 row c hr hc hne).1, fun hl row c hr hc => ?_⟩
  have hclean := h2.1.clean r.1.vnum hl
  exact (ht.clean hclean).2.2 row c hr hc


/-- **resubmit_redraws.**  What an attached / resumed session sends (`Display.rebuild`: set_mode, then
    every page resubmits itself) reproduces the visible page on ANY display state, pixels and characters,
    whatever the pages contain (even inside `collect_updates`). -/
theorem resubmit_redraws (e : Env) (d : Disp) (cv0 : Canvas) (hth : 0 < e.g.th) (htw : 0 < e.g.tw)
    (hvn : d.vnum < d.npages) (honly : ∀ i, (d.pages i).visible = true → i = d.vnum)
    (hvis : (d.pages d.vnum).visible = true) :
    let cv := consume cv0 (rebuild e d)
    (∀ y x, y < e.g.H → x < e.g.W → cv.px y x = (d.pages d.vnum).px y x) ∧
    (∀ row c, row < e.g.th → c < e.g.tw → cv.tx row c = (d.pages d.vnum).utext row c) := by
  intro cv
  have := rebuild_fold e d (List.range d.npages) (consume1 cv0 (modeSignal e)) (mode_geom e _ hth htw)
    honly hvis (Or.inl (List.mem_range.mpr hvn))
  exact this.2

/-- the states reached by histories satisfy the hypotheses of `resubmit_redraws` -/
theorem reachable_redraws (e : Env) (npages attr oldv v : Nat) (ops : List Op) (cv0 : Canvas)
    (hth : 0 < e.g.th) (htw : 0 < e.g.tw) (hv : v < npages)
    (hval : validOps e (initDisp npages attr oldv) (Op.setPage v :: ops)) :
    let d := (runOps e (initDisp npages attr oldv) (Op.setPage v :: ops)).1
    let cv := consume cv0 (rebuild e d)
    (∀ y x, y < e.g.H → x < e.g.W → cv.px y x = (d.pages d.vnum).px y x) ∧
    (∀ row c, row < e.g.th → c < e.g.tw → cv.tx row c = (d.pages d.vnum).utext row c) := by
  intro d cv
  have hvn : d.vnum < d.npages := by
    have h0 : ((Op.setPage v).run e (initDisp npages attr oldv)).1.vnum <
        ((Op.setPage v).run e (initDisp npages attr oldv)).1.npages := by
      have hvn : v < (initDisp npages attr oldv).npages := hv
      simp only [Op.run, hvn, if_true, setPageAt]
    exact run_vnum e ops _ h0
  have hi0 : Inv e (initDisp npages attr oldv) (consume1 Canvas.empty (modeSignal e)) :=
    ⟨mode_geom e _ hth htw, fun i h => by simp [initDisp, blankPage] at h,
     fun h => by simp [initDisp, blankPage] at h, fun i h r => rfl⟩
  have hmain := display_tracks_buffer e npages attr oldv v ops hth htw hv hval
  have h2 := run_inv e (Op.setPage v :: ops) _ _ hi0 hval
  exact resubmit_redraws e d cv0 hth htw hvn h2.1.only hmain.1

/-! ### the defect repaired for this property (D12) -/

/-- a 2×1-cell text page with 1×1 "glyphs"; text-mode background `(attr >> 4) & 7` -/
def tinyEnv : Env :=
  { g := { th := 2, tw := 1, fh := 1, fw := 1 }, glyph := fun _ a _ _ => a, backOf := fun a => a / 16 % 8,
    conv := sbcsConv, dbcs := false }

def tinyPage : Page := { blankPage 7 with visible := true }
def tinyCanvas : Canvas := consume1 Canvas.empty (modeSignal tinyEnv)

/-- **D12.**  With `scroll_up` as it was (vacated pixel row left at the zeros of `ByteMatrix.move`),
    scrolling a shown, in-sync page with background 1 leaves the display (told to paint 1) and the
    pixel buffer (0) different: the tracking property fails. -/
theorem scroll_old_counterexample :
    Tracks tinyEnv tinyPage tinyCanvas ∧
    (POp.scrollUp 1 2 16).valid tinyEnv tinyPage ∧
    (consume tinyCanvas (scrollUpOld tinyEnv tinyPage 1 2 16).2).px 1 0 = 1 ∧
    (scrollUpOld tinyEnv tinyPage 1 2 16).1.px 1 0 = 0 ∧
    ¬ Tracks tinyEnv (scrollUpOld tinyEnv tinyPage 1 2 16).1
        (consume tinyCanvas (scrollUpOld tinyEnv tinyPage 1 2 16).2) := by
  have h1 : (consume tinyCanvas (scrollUpOld tinyEnv tinyPage 1 2 16).2).px 1 0 = 1 := by decide
  have h2 : (scrollUpOld tinyEnv tinyPage 1 2 16).1.px 1 0 = 0 := by decide
  refine ⟨⟨⟨rfl, rfl, rfl, rfl, rfl, rfl⟩, fun _ _ _ _ => rfl, fun _ _ _ _ => rfl⟩, by decide, h1, h2, ?_⟩
  intro h
  have := h.2.1 1 0 (by decide) (by decide)
  rw [h1, h2] at this
  cases this

/-- the same defect when the scroll area is a single row (`VIEW PRINT n TO n`): `move` of an empty
    source does nothing, so the old pixels of the row stay although the display clears it -/
theorem scroll_single_row_old_counterexample :
    let p : Page := { tinyPage with px := fun _ _ => 5 }
    let cv : Canvas := { tinyCanvas with px := fun _ _ => 5 }
    Tracks tinyEnv p cv ∧
    (consume cv (scrollUpOld tinyEnv p 2 2 7).2).px 1 0 = 0 ∧
    (scrollUpOld tinyEnv p 2 2 7).1.px 1 0 = 5 := by
  refine ⟨⟨⟨rfl, rfl, rfl, rfl, rfl, rfl⟩, fun _ _ _ _ => rfl, fun _ _ _ _ => rfl⟩, by decide, by decide⟩

/-- **scroll_down, character buffer.**  In the repaired `scroll_down` the character buffer and the
    unicode buffer (which the display receives) move identically, so equal buffers stay equal … -/
theorem scroll_down_keeps_chars_equal_text (e : Env) (p : Page) (frm to attr : Nat)
    (h : ∀ r c, (forceSubmit e p).1.chars r c = (forceSubmit e p).1.utext r c) :
    ∀ r c, (scrollDown e p frm to attr).1.chars r c = (scrollDown e p frm to attr).1.utext r c := by
  intro r c
  simp only [scrollDown, scrollDownOld, rowsDown]
  split_ifs <;> first | rfl | exact h _ _

/-- … whereas the row bookkeeping of the old code (`insert` before `del`) dropped old row `to-1` and kept old
    row `to`: on a 3-row page whose rows read 0,1,2, scrolling rows 1..3 down leaves `2` in the bottom row of
    the character buffer while the display (and `_dbcs_text`) show `1`; and a one-row scroll cleared the
    display but not the character buffer. -/
theorem scroll_down_old_chars_counterexample :
    rowsDownOld (fun r _ => r) 1 3 32 2 0 = 2 ∧ rowsDown (fun r _ => r) 1 3 32 2 0 = 1 ∧
    rowsDownOld (fun r _ => r) 2 2 32 1 0 = 1 ∧ rowsDown (fun r _ => r) 2 2 32 1 0 = 32 := by decide

/-- **PCOPY aliasing.**  With the old `copy_from` (row objects shared), clearing a row of the SOURCE page
    in place also blanks that row of the destination page's text although the destination received no
    operation and emitted no signal: after `PCOPY 0,1` and a clear on page 0, page 1 reports a blank where
    its display still shows `A`. -/
theorem copy_alias_old_counterexample :
    let h0 : TextHeap := { store := fun _ _ => 65, rows := fun p r => 10 * p + r }
    (copyRowsOld h0 0 1).utext 1 0 0 = 65 ∧
    (clearRowInPlace (copyRowsOld h0 0 1) 0 0).utext 1 0 0 = 32 ∧
    (clearRowInPlace h0 0 0).utext 1 0 0 = 65 := by decide

/-- **full-width glyph on a half-width range.**  With `_draw_text_chunk` as it was, redrawing only the lead
    cell of a double-byte character (its byte rewritten in another colour: dirty range = that one cell)
    rendered the two-cell glyph and so repainted the trail cell as well, but only the lead cell is
    submitted: the display keeps the old trail cell while the pixel buffer has the new one. -/
theorem draw_wide_old_counterexample :
    let e : Env := { tinyEnv with g := { th := 1, tw := 2, fh := 1, fw := 1 } }
    let p : Page := { blankPage 7 with
      visible := true
      px := fun _ _ => 7
      attrs := fun _ c => if c = 0 then 30 else 7 }
    let cv : Canvas := { consume1 Canvas.empty (modeSignal e) with px := fun _ _ => 7 }
    let p' : Page := { p with px := drawTextWide e p 1 1 1 }
    Tracks e p cv ∧ p'.px 0 1 = 30 ∧ (consume cv (submit e p' 1 1 1 1)).px 0 1 = 7 := by
  refine ⟨⟨⟨rfl, rfl, rfl, rfl, rfl, rfl⟩, fun _ _ _ _ => rfl, fun _ _ _ _ => rfl⟩, by decide, by decide⟩

/-! ### non-vacuity -/

/-- a valid history exists for the tiny environment (so `display_tracks_buffer` is not vacuous) … -/
example : validOps tinyEnv (initDisp 2 7 0)
    [Op.setPage 0, Op.page 0 (POp.putChar 2 1 65 23), Op.page 0 (POp.scrollUp 1 2 16),
     Op.page 1 (POp.putChar 1 1 66 7), Op.pcopy 1 0, Op.setPage 1, Op.page 1 (POp.clearRows 1 2 32),
     Op.page 1 (POp.setPixels 0 1 0 1 (fun _ _ => 3))] := by
  decide

/-- the stale visible-page number of the previous mode may lie beyond the new page list: page 0 of a
    2-page mode is shown although page 5 was visible before the mode change -/
example :
    let r := runOps tinyEnv (initDisp 2 7 5) [Op.setPage 0, Op.page 0 (POp.putChar 1 1 65 23)]
    r.1.vnum = 0 ∧ (r.1.pages 0).visible = true ∧
    (consume Canvas.empty (modeSignal tinyEnv :: r.2)).px 0 0 = 23 ∧ (r.1.pages 0).px 0 0 = 23 := by decide

/-- a DBCS row of 4 cells (GBK ranges, no box protection): writing a lone lead byte `B0` in front of an
    existing `C` turns cell 3 into the trail marker — a change to the RIGHT of the written column.  The
    dirty range is widened to it, the cell is submitted, and the canvas shows what the page reports. -/
def dbcsEnv : Env :=
  { g := { th := 1, tw := 4, fh := 1, fw := 1 }, glyph := fun _ a _ _ => a, backOf := fun a => a / 16 % 8,
    conv := pairConv (fun b => decide (129 ≤ b ∧ b ≤ 254)) (fun b => decide (64 ≤ b ∧ b ≤ 254 ∧ b ≠ 127)) 4,
    dbcs := true }

example :
    let ops := [Op.setPage 0, Op.page 0 (POp.putChar 1 1 65 7), Op.page 0 (POp.putChar 1 2 66 7),
                Op.page 0 (POp.putChar 1 3 67 7), Op.page 0 (POp.putChar 1 4 68 7),
                Op.page 0 (POp.putChar 1 2 176 7)]
    let r := runOps dbcsEnv (initDisp 1 7 0) ops
    let cv := consume Canvas.empty (modeSignal dbcsEnv :: r.2)
    validOps dbcsEnv (initDisp 1 7 0) ops ∧
    (r.1.pages 0).utext 0 1 = 256 * 176 + 67 ∧ (r.1.pages 0).utext 0 2 = 65535 ∧
    cv.tx 0 1 = 256 * 176 + 67 ∧ cv.tx 0 2 = 65535 ∧ cv.tx 0 3 = 68 := by decide

/-- … and on it the repaired scroll does paint the background: the bottom pixel is 1 on both sides -/
example :
    let r := runOps tinyEnv (initDisp 2 7 0)
      [Op.setPage 0, Op.page 0 (POp.putChar 2 1 65 23), Op.page 0 (POp.scrollUp 1 2 16)]
    (r.1.pages 0).px 1 0 = 1 ∧ (consume Canvas.empty (modeSignal tinyEnv :: r.2)).px 1 0 = 1 ∧
    (r.1.pages 0).px 0 0 = 23 := by decide

end PcbV.C35
