"""C37 — The keyboard buffer is a 15-key FIFO mirrored in BIOS memory."""
import collections
import contextlib
import signal

from vlib import basic, translated

LEVEL = 'proof'
RULE = ('a case is one history: a list of key-down events sent through the input queue (so the buffer-full check '
        'applies), Session.press_keys injections, INKEY$ / INPUT$(1) reads, PEEKs of 1050..1085, the clearing idiom '
        'POKE 1050,PEEK(1052), pointer POKEs (1050..1053, valid and out-of-range values) and slot POKEs (1054..1085), '
        'each history on a fresh Session and ending with a full PEEK dump and a drain; profiles: bursts to and beyond '
        'the limit, steady typing with wrap-around, clear-heavy, poke-heavy, injection; plus LINE INPUT scenarios; '
        'non-trivial = the history contains at least one key press and one read or PEEK')
EXPLANATION = ('theorems (PcbV.Props.C37): fifo_refinement (all histories of presses, injections, reads, PEEKs and '
               'clearing POKEs deliver exactly what a queue bounded at 15 delivers), waiting_le_15, ring_mirror '
               '(every reachable state: slots head..tail hold the waiting keys, pointer bytes as PEEKed), '
               'pointer_poke_keeps_slots, clear_poke_empties, counterexamples for the unrepaired ring_set_boundaries; '
               'correspondence: every history is run on the real interpreter and on the compiled Lean model and all '
               'INKEY$/PEEK results are compared; oracle: an independent 16-slot BIOS ring / deque reference'
               '; source tie: KeyboardBuffer._ring_index, length, start, stop and the ring-full test of append are '
               'translated mechanically from the current Python AST (PcbV.Gen.Translated.kb*, gen/py2lean.py), '
               'proved equal to the model at ring length 16 (translated_kbRingIndex_eq, translated_kbLength_eq, '
               'translated_kbStart_eq, translated_kbStop_eq, translated_kbFull_eq) and compared with a real '
               'KeyboardBuffer (vlib/translated.py)')
TRUSTED_BASE = ['model PcbV.Model.KeyBuf is a hand transcription of keyboard.py:KeyboardBuffer, the append/getc path of '
                'Keyboard and machine.py:Memory._get/_set_low_memory for 1050..1085',
                'translator gen/py2lean.py + PcbV.PyInt (Python int semantics in Lean), validated by '
                'vlib/translated.py against the real functions; it covers the listed functions only']
ASSUMPTIONS = ['no function-key (F1..F12) keystrokes: their macro expansion in Keyboard._read_kybd_byte is outside the model',
               'no input stream attached (input_streams=None), no KEY/ON KEY traps enabled, codepage 437',
               'EventQueues.tick is set to 0 on the session object so that INKEY$ does not sleep 6 ms per call']

HEAD, TAIL, SLOTS = 1050, 1052, 1054
SAFE_SCANS = [s for s in list(range(1, 0x45)) + [0x47, 0x48, 0x49, 0x4b, 0x4d, 0x4f, 0x50, 0x51, 0x52]
              if s not in (0x45, 0x46, 0x58)]
EXTENDED = [u'\0H', u'\0P', u'\0K', u'\0M', u'\0G', u'\0O', u'\0I', u'\0Q', u'\0R', u'\0S', u'\0\x0f', u'\0\0']
PLAIN = [chr(c) for c in range(32, 127)] + [u'\r', u'\x08', u'\x1b', u'\t', u'\x01', u'\x1a', u'\xe9', u'\xe0', u'░']


class Hang(BaseException):
    pass


@contextlib.contextmanager
def deadline(seconds):
    """Raise Hang in the main thread if the block runs longer (keeps the outer alarm of vlib.main)."""
    def on_alarm(signum, frame):
        raise Hang()
    remaining = signal.alarm(0)
    old = signal.signal(signal.SIGALRM, on_alarm)
    signal.setitimer(signal.ITIMER_REAL, seconds)
    try:
        yield
    finally:
        signal.setitimer(signal.ITIMER_REAL, 0)
        signal.signal(signal.SIGALRM, old)
        if remaining:
            signal.alarm(remaining)


def hexs(b):
    return ''.join('%02x' % x for x in bytearray(b)) or '-'


# ---------------------------------------------------------------------------------------------------------------
# the real implementation

class Impl(object):
    """One fresh interpreter session; keys travel through the interface input queue and the event cycle."""

    def __init__(self):
        from pcbasic.basic.base import signals
        self.signals = signals
        self.session = basic.new_session()
        self.session.execute(b'DEF SEG=0')
        self.impl = self.session._impl
        self.impl.queues.tick = 0
        self.cp = self.impl.codepage

    def close(self):
        try:
            self.session.close()
        except Exception:
            pass

    def to_bytes(self, uc):
        return bytes(self.cp.unicode_to_bytes(uc))

    def do(self, op):
        """Execute one op; returns the output token or None."""
        kind = op[0]
        s = self.session
        if kind == 'k':
            self.impl.queues.inputs.put(self.signals.Event(self.signals.KEYB_DOWN, (op[1], op[2], [])))
            self.impl.queues.check_events()
            return None
        if kind == 'j':
            s.press_keys(op[1])
            return None
        if kind == 'r':
            return 'r' + hexs(s.evaluate(b'INKEY$'))
        if kind == 'i':
            # INPUT$(1): blocking read; only issued when a key is waiting
            return 'r' + hexs(s.evaluate(b'INPUT$(1)'))
        if kind == 'p':
            return 'p%d' % s.evaluate(b'PEEK(%d)' % op[1])
        if kind == 'w':
            out = s.execute(b'POKE %d,%d' % (op[1], op[2]))
            if out.strip():
                raise RuntimeError('POKE printed %r' % out)
            return None
        if kind == 'c':
            out = s.execute(b'POKE 1050, PEEK(1052)')
            if out.strip():
                raise RuntimeError('POKE printed %r' % out)
            return None
        raise ValueError(op)


# ---------------------------------------------------------------------------------------------------------------
# the independent reference: a BIOS keyboard ring as the statement describes it

UNKNOWN = None


class Ref(object):
    """16 two-byte slots at 0:041E, head pointer at 0:041A, tail at 0:041C; at most 15 keys wait.
    A slot is [c, scan] with c the bytes INKEY$ must deliver, or UNKNOWN where the statement says nothing
    (never-written slots, the free slot after a dropped key, slots edited into a shape the statement does not cover)."""

    def __init__(self):
        self.slots = [UNKNOWN] * 16
        self.head = 0
        self.tail = 0
        # keys injected beyond the ring (Session.press_keys ignores the limit): plain unbounded FIFO
        self.over = None

    def count(self):
        return (self.tail - self.head) % 16 if self.over is None else len(self.over)

    def press(self, c, scan):
        if not c:
            return 'ignored'
        if self.over is not None:
            if len(self.over) >= 15:
                return 'dropped'
            self.over.append([c, scan])
            return 'stored'
        if (self.tail + 1) % 16 == self.head:
            self.slots[self.tail] = UNKNOWN
            return 'dropped'
        self.slots[self.tail] = [c, scan]
        self.tail = (self.tail + 1) % 16
        return 'stored'

    def inject(self, c):
        if not c:
            return
        if self.over is None and (self.tail + 1) % 16 != self.head:
            self.slots[self.tail] = [c, 0]
            self.tail = (self.tail + 1) % 16
            return
        if self.over is None:
            # leave the ring picture: from now on only order and completeness are specified
            self.over = collections.deque(self.window())
            self.slots = [UNKNOWN] * 16
        self.over.append([c, 0])

    def window(self):
        return [self.slots[(self.head + k) % 16] for k in range((self.tail - self.head) % 16)]

    def read(self):
        """-> (expected bytes | UNKNOWN for unspecified content, consumed?)"""
        if self.over is not None:
            if not self.over:
                return b'', False
            k = self.over.popleft()
            return (k[0] if k is not UNKNOWN else UNKNOWN), True
        if self.head == self.tail:
            return b'', False
        k = self.slots[self.head]
        self.head = (self.head + 1) % 16
        return (k[0] if k is not UNKNOWN else UNKNOWN), True

    def clear(self):
        if self.over is not None:
            self.over = None
            self.head = self.tail = UNKNOWN
            return
        self.head = self.tail

    def expect_peek(self, addr):
        """Expected PEEK value or UNKNOWN."""
        if self.over is not None or self.head is UNKNOWN:
            return 0 if addr in (1051, 1053) else UNKNOWN
        if addr == 1050:
            return 30 + 2 * self.head
        if addr == 1052:
            return 30 + 2 * self.tail
        if addr in (1051, 1053):
            return 0
        i, odd = divmod(addr - SLOTS, 2)
        if (i - self.head) % 16 >= (self.tail - self.head) % 16:
            return UNKNOWN
        k = self.slots[i]
        if k is UNKNOWN or k[0] is UNKNOWN:
            return UNKNOWN
        if odd:
            return k[1]
        return bytearray(k[0])[0] if k[0] else 0

    def poke_slot(self, addr, val):
        i, odd = divmod(addr - SLOTS, 2)
        k = self.slots[i]
        if self.over is not None:
            return
        if odd:
            if k is UNKNOWN:
                return
            # the scancode byte changes; what an extended key then delivers is not covered by the statement
            self.slots[i] = [k[0] if k[0] is not UNKNOWN and len(k[0]) == 1 else UNKNOWN, val]
        else:
            scan = k[1] if k is not UNKNOWN else UNKNOWN
            if val in (0, 0xe0):
                self.slots[i] = UNKNOWN if scan is UNKNOWN else [UNKNOWN, scan]
            elif scan is UNKNOWN:
                self.slots[i] = UNKNOWN
            else:
                self.slots[i] = [bytes(bytearray([val])), scan]


class HistoryFailure(Exception):
    def __init__(self, key, index, what):
        Exception.__init__(self, what)
        self.key, self.index, self.what = key, index, what


def run_history(ops, stats=None):
    """Run one history on a fresh session.  Returns (tokens, failure or None): the oracle's first complaint."""
    im = Impl()
    ref = Ref()
    tokens = []
    failure = None

    def fail(key, i, what):
        return HistoryFailure(key, i, 'op %d %r: %s' % (i, ops[i], what))

    def resync(i):
        """after an operation the statement does not specify: take the pointers as PEEKed (they must be well-formed)"""
        h, t = im.session.evaluate(b'PEEK(1050)'), im.session.evaluate(b'PEEK(1052)')
        for name, v in (('head', h), ('tail', t)):
            if not (30 <= v <= 60 and v % 2 == 0):
                raise fail('pointer:ill-formed', i, 'after the POKE the %s pointer reads %d (must be 30..60, even)' % (name, v))
        ref.head, ref.tail = (h - 30) // 2, (t - 30) // 2

    try:
        for i, op in enumerate(ops):
            kind = op[0]
            try:
                with deadline(2):
                    tok = im.do(op)
            except Hang:
                raise fail('hang:%s' % ('pointer-poke' if kind in 'wc' else kind), i,
                           'the operation did not return within 2 s (infinite loop)')
            except Exception as e:  # a host exception escaping the interpreter
                raise fail('exception:%s:%s' % (kind, type(e).__name__), i, 'raised %s: %s' % (type(e).__name__, e))
            if tok is not None:
                tokens.append(tok)
            try:
                if kind == 'k':
                    c = im.to_bytes(op[1])
                    r = ref.press(c, op[2])
                    if stats is not None:
                        stats('press:' + r)
                elif kind == 'j':
                    n = 0
                    buf = u''
                    for ch in op[1]:
                        # e-ASCII: NUL + one char is one keystroke
                        if buf or ch != u'\0':
                            ref.inject(im.to_bytes(buf + ch))
                            buf = u''
                        else:
                            buf = ch
                elif kind in 'ri':
                    before = ref.count()
                    exp, consumed = ref.read()
                    got = tok[1:]
                    if stats is not None:
                        stats('read:%s' % ('empty' if not consumed else 'key' if exp is not UNKNOWN else 'unspecified-content'))
                        stats('read-at-depth:%d' % min(before, 16))
                    if exp is not UNKNOWN and got != hexs(exp):
                        why = ('a key was delivered from an empty buffer' if not consumed else
                               'nothing delivered although %d keys wait' % before if got == '-' else
                               'wrong key (lost, repeated or out of order)')
                        raise fail('fifo:%s' % ('phantom' if not consumed else 'lost' if got == '-' else 'order'), i,
                                   'INKEY$ returned %s, expected %s: %s' % (got, hexs(exp), why))
                elif kind == 'p':
                    exp = ref.expect_peek(op[1])
                    if stats is not None:
                        stats('peek:%s' % ('unspecified' if exp is UNKNOWN else
                                           'pointer' if op[1] < SLOTS else 'waiting-slot'))
                    if exp is not UNKNOWN and tok != 'p%d' % exp:
                        raise fail('mirror:%s' % ('head' if op[1] in (1050, 1051) else 'tail' if op[1] in (1052, 1053)
                                                  else 'slot'), i,
                                   'PEEK(%d) = %s, expected %d (head=%s tail=%s, %d keys waiting)'
                                   % (op[1], tok[1:], exp, ref.head, ref.tail, ref.count()))
                elif kind == 'c':
                    ref.clear()
                    if ref.head is UNKNOWN:
                        resync(i)
                        if ref.head != ref.tail:
                            raise fail('clear:not-empty', i, 'head and tail differ after POKE 1050,PEEK(1052)')
                    if stats is not None:
                        stats('clear')
                elif kind == 'w':
                    a, v = op[1], op[2]
                    if a in (1051, 1053):
                        pass
                    elif a in (1050, 1052):
                        if ref.over is not None:
                            raise ValueError('generator: no pointer pokes in injection histories')
                        if 30 <= v <= 60 and v % 2 == 0:
                            if a == 1050:
                                ref.head = (v - 30) // 2
                            else:
                                ref.tail = (v - 30) // 2
                            if stats is not None:
                                stats('poke:pointer-valid')
                        else:
                            # pointer outside the ring: unspecified, but it must return and leave well-formed pointers
                            resync(i)
                            if stats is not None:
                                stats('poke:pointer-out-of-range')
                    else:
                        ref.poke_slot(a, v)
                        if stats is not None:
                            stats('poke:slot')
            except HistoryFailure as f:
                failure = f
                break
    except HistoryFailure as f:
        failure = f
    finally:
        im.close()
    return tokens, failure


# ---------------------------------------------------------------------------------------------------------------
# generator

def gen_key(rng):
    x = rng.random()
    if x < 0.70:
        c = rng.choice(PLAIN)
    elif x < 0.92:
        c = rng.choice(EXTENDED)
    else:
        c = u''      # a modifier key on its own: no character
    return ('k', c, rng.choice(SAFE_SCANS))


def dump():
    return [('p', a) for a in range(1050, 1086)]


def drain(n=18):
    return [('r',)] * n


def gen_history(rng, profile, length):
    ops = []
    # start from a varied ring position: type and read a few keys first
    if rng.random() < 0.7:
        n = rng.choice([0, 1, 2, 5, 13, 14, 15, 16, 17, 31, 33, 40])
        for _ in range(n):
            ops.append(gen_key(rng))
            ops.append(('r',))
    inj = profile == 'inject'
    while len(ops) < length:
        x = rng.random()
        if profile == 'burst':
            n = rng.choice([13, 14, 15, 16, 17, 20, 33])
            ops += [gen_key(rng) for _ in range(n)]
            ops += rng.choice([[], dump(), [('p', 1050), ('p', 1052)]])
            ops += [('r',)] * rng.choice([1, 2, 14, 15, 16, 17])
            if rng.random() < 0.3:
                ops.append(('c',))
        elif profile == 'steady':
            if x < 0.45:
                ops.append(gen_key(rng))
            elif x < 0.80:
                ops.append(('r',) if rng.random() < 0.8 else ('i',))
            elif x < 0.97:
                ops.append(('p', rng.randrange(1050, 1086)))
            else:
                ops.append(('c',))
        elif profile == 'clear':
            ops += [gen_key(rng) for _ in range(rng.choice([0, 1, 3, 7, 14, 15, 16, 20]))]
            ops += [('r',)] * rng.choice([0, 0, 1, 2, 5])
            if rng.random() < 0.5:
                ops += [('p', 1050), ('p', 1052)]
            ops.append(('c',))
            ops += rng.choice([[], dump(), [('p', 1050), ('p', 1052)]])
            ops += [('r',)] * rng.choice([0, 1, 2, 17])
        elif profile == 'poke':
            if x < 0.35:
                ops.append(gen_key(rng))
            elif x < 0.55:
                ops.append(('r',))
            elif x < 0.70:
                ops.append(('p', rng.randrange(1050, 1086)))
            elif x < 0.80:
                ops.append(('w', rng.randrange(1054, 1086), rng.choice([0, 1, 13, 32, 65, 97, 0xe0, 255, rng.randrange(256)])))
            elif x < 0.92:
                ops.append(('w', rng.choice([1050, 1052]), rng.randrange(30, 62)))
            elif x < 0.95:
                ops.append(('w', rng.choice([1050, 1052]), rng.choice([0, 1, 28, 29, 62, 63, 64, 128, 254, 255, rng.randrange(256)])))
            elif x < 0.97:
                ops.append(('w', rng.choice([1051, 1053]), rng.randrange(256)))
            else:
                ops.append(('c',))
        elif inj:
            if x < 0.25:
                n = rng.choice([1, 2, 3, 10, 15, 16, 17, 20, 40])
                s = u''.join(rng.choice(PLAIN + EXTENDED) for _ in range(n))
                ops.append(('j', s))
            elif x < 0.45:
                ops.append(gen_key(rng))
            elif x < 0.85:
                ops.append(('r',))
            elif x < 0.95:
                ops.append(('p', rng.randrange(1050, 1086)))
            else:
                ops.append(('c',))
    return ops + dump() + drain(48 if inj else 18)


def guard_blocking(ops):
    """INPUT$(1) blocks on an empty buffer: keep it only where a queue bounded at 15 has a key (else use INKEY$)."""
    n = 0
    out = []
    for op in ops:
        k = op[0]
        if k == 'k':
            if op[1] != u'' and n < 15:
                n += 1
        elif k in ('w', 'j'):
            n = -10 ** 6      # after raw pokes / injections do not use the blocking read any more
        elif k == 'c':
            n = 0 if n >= 0 else n
        elif k == 'r':
            n = max(n - 1, 0) if n >= 0 else n
        elif k == 'i':
            if n >= 1:
                n -= 1
            else:
                op = ('r',)
        out.append(op)
    return out


def model_line(ops, to_bytes):
    words = []
    for op in ops:
        k = op[0]
        if k == 'k':
            words.append('k:%s:%d' % (hexs(to_bytes(op[1])), op[2]))
        elif k == 'j':
            buf = u''
            for ch in op[1]:
                if buf or ch != u'\0':
                    words.append('j:%s' % hexs(to_bytes(buf + ch)))
                    buf = u''
                else:
                    buf = ch
        elif k in 'ri':
            words.append('r')
        elif k == 'p':
            words.append('p:%d' % op[1])
        elif k == 'w':
            words.append('w:%d:%d' % (op[1], op[2]))
        elif k == 'c':
            words.append('c')
    return 'run ' + (';'.join(words) or '-')


def ops_json(ops):
    return [list(op) for op in ops]


def ops_from_json(l):
    return [tuple(op) for op in l]


def shrink(ops, key, budget=120):
    """Greedy removal of ops while the same oracle complaint persists."""
    best = list(ops)
    i = 0
    chunk = max(1, len(best) // 4)
    while budget > 0 and chunk >= 1:
        changed = False
        i = 0
        while i < len(best) and budget > 0:
            cand = best[:i] + best[i + chunk:]
            budget -= 1
            _, f = run_history(guard_blocking(cand))
            if f is not None and f.key == key:
                best = cand[:f.index + 1]
                changed = True
            else:
                i += chunk
        if not changed:
            chunk //= 2
    return best


_SHRUNK = set()


def check_history(ctx, ops, label, cases, outs, lines, cp):
    ops = guard_blocking(ops)
    tokens, f = run_history(ops, ctx.count)
    ctx.case((label, tuple(ops)))
    ctx.count('profile:' + label)
    ctx.count('ops', len(ops))
    if f is not None:
        small = ops[:f.index + 1]
        if not ctx.replay_mode and f.key not in _SHRUNK:
            _SHRUNK.add(f.key)
            small = shrink(small, f.key, budget=12 if f.key.startswith('hang') else 80)
        ctx.fail(f.key, {'ops': ops_json(small)}, f.what + ' [history of %d ops, minimised to %d]' % (len(ops), len(small)))
        return f
    cases.append({'ops': ops_json(ops) if len(ops) < 80 else '%d ops' % len(ops), 'profile': label})
    outs.append('ok ' + (','.join(tokens) or '-'))
    lines.append(model_line(ops, cp))
    return None


# ---------------------------------------------------------------------------------------------------------------
# fixed boundary histories

def K(s, scan=30):
    return [('k', ch, scan) for ch in s]


def boundary_histories():
    hs = []
    # D13: the documented clearing idiom
    hs.append(K(u'abc') + [('c',)] + dump() + drain(20))
    for n in (0, 1, 14, 15, 16, 17, 31, 32):
        hs.append(K(u'x' * n) + dump() + [('c',)] + dump() + K(u'yz') + dump() + drain(20))
        hs.append(K(u'abcdefghijklmnopqrstuvwxyz'[:n % 26 + 1]) + [('r',)] * (n // 2) + [('c',)] + K(u'12') + dump() + drain(5))
    # exactly 15 / 16 keys, wrap-around at every start position
    for pre in range(0, 18):
        h = []
        for _ in range(pre):
            h += K(u'p') + [('r',)]
        hs.append(h + K(u'ABCDEFGHIJKLMNOPQ') + dump() + drain(18) + dump())
    # clearing after long use of the session
    for pre in (16, 17, 32, 33, 48, 100):
        h = []
        for j in range(pre):
            h += K(chr(65 + j % 26)) + [('r',)]
        hs.append(h + K(u'abc') + [('c',)] + dump() + drain(5) + K(u'de') + dump() + drain(4))
        hs.append(h + K(u'abcde') + [('w', 1050, 30 + 2 * ((pre + 2) % 16))] + dump() + drain(5))
        hs.append(h + K(u'abcde') + [('w', 1052, 30 + 2 * ((pre + 3) % 16))] + dump() + drain(5))
    # the other idiom: tail := head
    hs.append(K(u'abc') + [('w', 1052, 30)] + dump() + drain(5))
    # pointer pokes with every value
    for v in range(0, 256, 1):
        if v % 16 in (0, 1, 14, 15) or 28 <= v <= 64:
            hs.append(K(u'abcde') + [('r',), ('w', 1050, v)] + dump() + drain(18))
            hs.append(K(u'abcde') + [('r',), ('w', 1052, v)] + dump() + drain(18))
    # extended keys, empty keys, slot pokes into waiting keys
    hs.append([('k', u'\0H', 72), ('k', u'', 42), ('k', u'a', 30), ('k', u'\0\0', 3)] + dump() + drain(5))
    hs.append(K(u'abc') + [('w', 1054, 65), ('w', 1057, 99), ('w', 1058, 0), ('w', 1062, 66)] + dump() + drain(5))
    # injection beyond the ring
    hs.append([('j', u'The quick brown fox jumps\r')] + dump() + [('r',)] * 10 + K(u'zz') + drain(30))
    hs.append([('j', u'0123456789abcdefghij')] + [('c',)] + dump() + K(u'ok') + dump() + drain(5))
    hs.append([('j', u'ab\0Hcd')] + dump() + drain(6))
    return hs


def line_input_scenarios(ctx, n):
    """INPUT / LINE INPUT consume typed keys in order up to CR; the rest stays in the buffer."""
    rng = ctx.rng
    letters = u'abcdefghijklmnopqrstuvwxyzABCDEFGHIJKLMNOPQRSTUVWXYZ0123456789 .;:!?'
    for j in range(n):
        im = Impl()
        try:
            pre = rng.choice([0, 0, 1, 3, 15, 17, 30])
            for _ in range(pre):
                im.do(('k', u'q', 16))
                im.do(('r',))
            text = u''.join(rng.choice(letters) for _ in range(rng.choice([0, 1, 2, 5, 10, 13, 14])))
            rest = u''.join(rng.choice(letters) for _ in range(rng.choice([0, 1, 3, 8])))
            typed = (text + u'\r' + rest)
            stored = typed[:15]
            for ch in typed:
                im.do(('k', ch, rng.choice(SAFE_SCANS)))
            stmt = rng.choice([b'LINE INPUT A$', b'INPUT A$', b'A$=INPUT$(%d)' % (len(text) + 1)])
            if u'\r' not in stored:
                stmt = b'A$=INPUT$(15)'
            case = {'typed': typed, 'pre': pre, 'stmt': stmt.decode()}
            try:
                with deadline(5):
                    im.session.execute(stmt)
                    got = im.session.get_variable('A$')
            except Hang:
                ctx.fail('input:blocked', case, '%s blocked although the typed line was in the buffer' % stmt.decode())
                continue
            if stmt.startswith(b'A$=INPUT$'):
                n_read = 15 if u'\r' not in stored else len(text) + 1
                want = stored[:n_read].encode('ascii')
                left = stored[n_read:]
            else:
                # the line editor drops trailing blanks of the entered line
                want = text.encode('ascii').rstrip(b' ')
                if stmt == b'INPUT A$':
                    # INPUT strips leading/trailing blanks of an unquoted field
                    want = want.strip(b' ')
                    got = got.strip(b' ')
                left = stored[len(text) + 1:]
            ctx.case(('input', typed, pre, stmt))
            ctx.count('input:' + stmt.decode().split('(')[0].split()[0])
            if got != want:
                ctx.fail('input:wrong-text', case, '%s delivered %r, expected %r' % (stmt.decode(), got, want))
                continue
            rem = b''
            for _ in range(17):
                rem += im.session.evaluate(b'INKEY$')
            if rem != left.encode('ascii'):
                ctx.fail('input:wrong-rest', case, 'after %s the buffer delivered %r, expected %r' % (stmt.decode(), rem, left.encode('ascii')))
        except Exception as e:
            ctx.fail('input:exception:%s' % type(e).__name__, {'scenario': j}, 'raised %s: %s' % (type(e).__name__, e))
        finally:
            im.close()


def run(ctx):
    translated.check_keybuf(ctx)
    rng = ctx.rng
    probe = Impl()
    cp = probe.to_bytes
    cases, outs, lines = [], [], []
    failed_keys = set()

    def one(ops, label):
        f = check_history(ctx, ops, label, cases, outs, lines, cp)
        if f is not None:
            failed_keys.add(f.key)

    for h in boundary_histories():
        if len(ctx.failures) >= 8:
            break
        one(h, 'boundary')
    ctx.log('%d boundary histories done' % len(cases))
    n = 260 if ctx.quick else 6000
    profiles = ['burst', 'steady', 'clear', 'poke', 'inject']
    for j in range(n):
        if len(ctx.failures) >= 8:
            break
        p = profiles[j % len(profiles)]
        length = rng.choice([10, 30, 60, 120] if ctx.quick else [10, 30, 60, 120, 400])
        one(gen_history(rng, p, length), p)
    ctx.log('%d histories run on the implementation' % (len(cases)))
    ctx.compare(cases, outs, lines, label='history')
    if cases:
        ctx.sample({'ops': boundary_histories()[0][:4] + ['...'], 'impl': outs[0][:120]})
    line_input_scenarios(ctx, 60 if ctx.quick else 600)
    probe.close()


def replay(ctx, payload):
    case = payload.get('case', {})
    key = payload.get('key')
    if 'ops' in case:
        ops = guard_blocking(ops_from_json(case['ops']))
        tokens, f = run_history(ops)
        if f is not None:
            return f.what
        # also compare with the model if it is available
        im = Impl()
        try:
            line = model_line(ops, im.to_bytes)
        finally:
            im.close()
        m = ctx.model([line])
        if m is not None and m[0] != 'ok ' + (','.join(tokens) or '-'):
            return 'model and implementation disagree: impl %s model %s' % (','.join(tokens), m[0])
        return None
    import random
    sub = _Sub(ctx, random.Random(payload.get('seed', 0)))
    line_input_scenarios(sub, 60)
    hits = [f for f in sub.failures if f['key'] == key]
    return hits[0]['what'] if hits else None


class _Sub(object):
    def __init__(self, ctx, rng):
        self.rng = rng
        self.failures = []
        self.quick = True
        self.replay_mode = True

    def fail(self, key, case, what):
        self.failures.append({'key': key, 'case': case, 'what': what})

    def case(self, key):
        pass

    def count(self, key, n=1):
        pass

    def log(self, msg):
        pass
