import PcbV.Model.Using
/-
  Support lemmas for PcbV.Props.C08: the grammar of well-formed numeric field specs, how the pieces of
  `NumberField.__init__` (`numPrefix`, `numBody`/`numLoop`, `numPost`) run over the text of a spec,
  prefix/progress facts for arbitrary input, and the `%`/fill step.
-/
namespace PcbV.Using
open PcbV

/-! ### the grammar -/

/-- the `$`/`*` prefix of a numeric field -/
inductive Pre where
  | none | dollars | stars | starsDollar
deriving DecidableEq, Repr

def Pre.text : Pre → Bytes
  | .none => []
  | .dollars => [36, 36]
  | .stars => [42, 42]
  | .starsDollar => [42, 42, 36]

/-- digit positions a prefix stands for -/
def Pre.positions : Pre → Nat
  | .none => 0
  | .dollars => 1
  | .stars => 2
  | .starsDollar => 2

/-- trailing sign character -/
inductive Trail where
  | none | plus | minus
deriving DecidableEq, Repr

def Trail.text : Trail → Bytes
  | .none => []
  | .plus => [43]
  | .minus => [45]

/-- a numeric field spec: `[+] [$$|**|**$] (#|,)* [. #*] [^^^^] [+|-]`; in the integer part `true` is a comma -/
structure Spec where
  plus : Bool
  pre : Pre
  ints : List Bool
  dot : Bool
  places : Nat
  caret : Bool
  trail : Trail
deriving DecidableEq, Repr

def intText (l : List Bool) : Bytes := l.map (fun b => if b then 44 else 35)

def Spec.positions (s : Spec) : Nat := s.pre.positions + s.ints.length + s.places

def Spec.fraction (s : Spec) : Bytes := if s.dot then 46 :: List.replicate s.places 35 else []

def Spec.post (s : Spec) : Bytes := (if s.caret then carets else []) ++ s.trail.text

def Spec.text (s : Spec) : Bytes :=
  (if s.plus then [43] else []) ++ s.pre.text ++ intText s.ints ++ s.fraction ++ s.post

/-- well-formed: the integer part does not begin with a comma, decimals need a point, a leading `+`
    excludes a trailing sign, and there is at least one digit position -/
structure Spec.WF (s : Spec) : Prop where
  noLeadComma : s.ints.head? ≠ some true
  needDot : s.dot = false → s.places = 0
  oneSign : s.plus = true → s.trail = .none
  some : 0 < s.positions

/-- the text after the field cannot extend it: it is empty or starts with a character that is not one
    of `# , . ^ + - $` -/
def NonField (rest : Bytes) : Prop :=
  ∀ c, rest.head? = some c → c ≠ 35 ∧ c ≠ 44 ∧ c ≠ 46 ∧ c ≠ 94 ∧ c ≠ 43 ∧ c ≠ 45 ∧ c ≠ 36

/-! ### the digit loop over spec text -/

theorem numLoop_stop (rest : Bytes) (dot : Bool)
    (h : ∀ c, rest.head? = some c → c ≠ 35 ∧ c ≠ 44 ∧ c ≠ 46) :
    numLoop rest dot = ⟨[], 0, 0, false, rest⟩ := by
  cases rest with
  | nil => rfl
  | cons c r =>
    have hc := h c rfl
    unfold numLoop
    simp [hc.1, hc.2.1, hc.2.2]

theorem numLoop_places (n : Nat) (rest : Bytes)
    (h : ∀ c, rest.head? = some c → c ≠ 35 ∧ c ≠ 44 ∧ c ≠ 46) :
    numLoop (List.replicate n 35 ++ rest) true = ⟨List.replicate n 35, 0, n, false, rest⟩ := by
  induction n with
  | zero =>
    cases rest with
    | nil => rfl
    | cons c r =>
      have hc := h c rfl
      simp only [List.replicate_zero, List.nil_append]
      unfold numLoop
      simp [hc.1]
  | succ k ih =>
    simp only [List.replicate_succ, List.cons_append]
    unfold numLoop
    simp [ih]

theorem numLoop_ints (l : List Bool) (t : Bytes) :
    numLoop (intText l ++ t) false =
      ⟨intText l ++ (numLoop t false).word, l.length + (numLoop t false).before, (numLoop t false).after,
       l.contains true || (numLoop t false).comma, (numLoop t false).rest⟩ := by
  induction l with
  | nil => simp [intText]
  | cons b l ih =>
    cases b with
    | false =>
      simp only [intText, List.map_cons, List.cons_append] at ih ⊢
      rw [numLoop]
      simp [ih]
      omega
    | true =>
      simp only [intText, List.map_cons, List.cons_append] at ih ⊢
      rw [numLoop]
      simp [ih]
      omega

/-- the fraction and what follows it, read by the loop that has not yet seen a point -/
theorem numLoop_fraction (s : Spec) (rest : Bytes)
    (h : ∀ c, rest.head? = some c → c ≠ 35 ∧ c ≠ 44 ∧ c ≠ 46) :
    numLoop (s.fraction ++ rest) false = ⟨s.fraction, 0, (if s.dot then s.places else 0), false, rest⟩ := by
  unfold Spec.fraction
  cases hd : s.dot with
  | false => simpa using numLoop_stop rest false h
  | true =>
    simp only [if_true, List.cons_append]
    rw [numLoop]
    simp [numLoop_places s.places rest h]

/-- the head of the post characters is no digit-loop character -/
theorem post_head (s : Spec) (rest : Bytes) (hr : NonField rest) :
    ∀ c, (s.post ++ rest).head? = some c → c ≠ 35 ∧ c ≠ 44 ∧ c ≠ 46 ∧ c ≠ 36 := by
  intro c hc
  unfold Spec.post carets at hc
  cases hcar : s.caret <;> cases htr : s.trail <;> simp [hcar, htr, Trail.text] at hc
  · have := hr c hc; omega
  all_goals omega

theorem numBody_spec (s : Spec) (rest : Bytes) (hw : s.WF) (hr : NonField rest) :
    numBody (intText s.ints ++ s.fraction ++ s.post ++ rest) =
      ⟨intText s.ints ++ s.fraction, s.ints.length, (if s.dot then s.places else 0), s.ints.contains true,
       s.post ++ rest⟩ := by
  have hp : ∀ c, (s.post ++ rest).head? = some c → c ≠ 35 ∧ c ≠ 44 ∧ c ≠ 46 := by
    intro c hc; have := post_head s rest hr c hc; omega
  have hfr := numLoop_fraction s (s.post ++ rest) hp
  cases hi : s.ints with
  | nil =>
    simp only [intText, List.map_nil, List.nil_append, List.length_nil, List.contains_nil]
    -- the body starts with the fraction or directly with the post characters
    unfold Spec.fraction at hfr ⊢
    cases hd : s.dot with
    | false =>
      simp only [hd] at hfr ⊢
      simp only [Bool.false_eq_true, if_false, List.nil_append]
      cases hpr : s.post ++ rest with
      | nil => rfl
      | cons c r =>
        have hc := hp c (by rw [hpr]; rfl)
        unfold numBody
        simp [hc.1, hc.2.2]
    | true =>
      simp only [hd, if_true, List.cons_append, List.append_assoc] at hfr ⊢
      unfold numBody
      simp [numLoop_places s.places (s.post ++ rest) hp]
  | cons b l =>
    have hb : b = false := by
      have := hw.noLeadComma
      rw [hi] at this
      cases b <;> simp_all
    subst hb
    have key := numLoop_ints (false :: l) (s.fraction ++ (s.post ++ rest))
    rw [hfr] at key
    simp only [intText, List.map_cons, Bool.false_eq_true, if_false, List.cons_append, List.append_assoc] at key ⊢
    unfold numBody
    simp only [show (35 : Nat) ≠ 46 by decide, if_false, if_true]
    rw [key]
    simp

/-! ### the prefix -/

theorem numPrefix_spec (p : Pre) (t : Bytes) (ht : ∀ c, t.head? = some c → c ≠ 36)
    (hn : p = .none → ∀ c, t.head? = some c → c ≠ 42) :
    numPrefix (p.text ++ t) = some (p.text, p.positions, t) := by
  cases p with
  | none =>
    simp only [Pre.text, List.nil_append, Pre.positions]
    cases t with
    | nil => rfl
    | cons c r =>
      have h1 := ht c rfl
      have h2 := hn rfl c rfl
      unfold numPrefix
      simp [h1, h2]
  | dollars => simp [Pre.text, Pre.positions, numPrefix]
  | stars =>
    cases t with
    | nil => simp [Pre.text, Pre.positions, numPrefix]
    | cons c r =>
      have h1 := ht c rfl
      simp [Pre.text, Pre.positions, numPrefix, h1]
  | starsDollar => simp [Pre.text, Pre.positions, numPrefix]

/-! ### the post characters -/

theorem numPost_spec (s : Spec) (rest : Bytes) (hw : s.WF) (hr : NonField rest) :
    numPost s.plus (s.post ++ rest) = (s.post, rest) := by
  have hrest : ∀ c r, rest = c :: r → c ≠ 94 ∧ c ≠ 43 ∧ c ≠ 45 := by
    intro c r h; have := hr c (by rw [h]; rfl); omega
  unfold Spec.post
  cases hcar : s.caret <;> cases htr : s.trail <;> cases hpl : s.plus
  all_goals (first | (have := hw.oneSign hpl; simp_all; done) | skip)
  all_goals
    simp only [Trail.text, carets, if_true, if_false, Bool.false_eq_true, List.append_nil, List.nil_append,
      List.cons_append]
  all_goals
    cases hre : rest with
    | nil => simp [numPost, carets]
    | cons c r =>
      have hc := hrest c r hre
      simp [numPost, carets, hc.1, hc.2.1, hc.2.2]
  all_goals (try (intro h; omega))

/-! ### the whole spec -/

/-- what follows the prefix of a spec: never `$`; after an empty prefix neither `*` nor `+` -/
theorem body_head (s : Spec) (rest : Bytes) (hw : s.WF) (hr : NonField rest) :
    ∀ c, (intText s.ints ++ s.fraction ++ s.post ++ rest).head? = some c →
      c ≠ 36 ∧ (s.pre = .none → c ≠ 42 ∧ c ≠ 43) := by
  intro c hc
  cases hi : s.ints with
  | cons b l =>
    have hb : b = false := by
      have := hw.noLeadComma; rw [hi] at this; cases b <;> simp_all
    subst hb
    simp [hi, intText] at hc
    omega
  | nil =>
    cases hd : s.dot with
    | true =>
      simp [hi, intText, Spec.fraction, hd] at hc
      omega
    | false =>
      have hpl := hw.needDot hd
      have hpos := hw.some
      simp only [Spec.positions, hi, List.length_nil, hpl] at hpos
      have hpre : s.pre ≠ .none := by
        intro h; rw [h] at hpos; simp [Pre.positions] at hpos
      simp only [hi, intText, List.map_nil, List.nil_append, Spec.fraction, hd, Bool.false_eq_true, if_false] at hc
      unfold Spec.post carets at hc
      cases hcar : s.caret <;> cases htr : s.trail <;> simp [hcar, htr, Trail.text] at hc
      · have := hr c hc
        exact ⟨by omega, fun h => absurd h hpre⟩
      all_goals exact ⟨by omega, fun h => absurd h hpre⟩

theorem spec_count (s : Spec) (hw : s.WF) :
    s.pre.positions + s.ints.length + (if s.dot then s.places else 0) = s.positions := by
  unfold Spec.positions
  cases hd : s.dot with
  | true => simp
  | false => simp [hw.needDot hd]

/-! ### arbitrary input: what is parsed is a prefix of the input, and it is not empty -/

theorem numLoop_prefix : ∀ (inp : Bytes) (dot : Bool), inp = (numLoop inp dot).word ++ (numLoop inp dot).rest := by
  intro inp
  induction inp with
  | nil => intro dot; rfl
  | cons c r ih =>
    intro dot
    unfold numLoop
    by_cases h1 : dot = false ∧ c = 46
    · simp only [h1, and_self, if_true]
      have := ih true
      simp only [List.cons_append]
      rw [← this]
    · simp only [h1, if_false]
      by_cases h2 : c = 35 ∨ (dot = false ∧ c = 44)
      · simp only [h2, if_true, List.cons_append]
        rw [← ih dot]
      · simp [h2]

theorem numLoop_count : ∀ (inp : Bytes) (dot : Bool),
    (numLoop inp dot).before + (numLoop inp dot).after ≤ (numLoop inp dot).word.length := by
  intro inp
  induction inp with
  | nil => intro dot; simp [numLoop]
  | cons c r ih =>
    intro dot
    unfold numLoop
    by_cases h1 : dot = false ∧ c = 46
    · simp only [h1, and_self, if_true, List.length_cons]
      have := ih true
      omega
    · simp only [h1, if_false]
      by_cases h2 : c = 35 ∨ (dot = false ∧ c = 44)
      · simp only [h2, if_true, List.length_cons]
        have := ih dot
        cases dot <;> simp <;> omega
      · simp [h2]

theorem numBody_prefix (inp : Bytes) : inp = (numBody inp).word ++ (numBody inp).rest := by
  cases inp with
  | nil => rfl
  | cons c r =>
    unfold numBody
    by_cases h1 : c = 46
    · simp only [h1, if_true, List.cons_append]
      rw [← numLoop_prefix r true]
    · simp only [h1, if_false]
      by_cases h2 : c = 35
      · simp only [h2, if_true]
        exact numLoop_prefix _ false
      · simp [h2]

theorem numBody_count (inp : Bytes) : (numBody inp).before + (numBody inp).after ≤ (numBody inp).word.length := by
  cases inp with
  | nil => simp [numBody]
  | cons c r =>
    unfold numBody
    by_cases h1 : c = 46
    · simp only [h1, if_true, List.length_cons]
      have := numLoop_count r true
      omega
    · simp only [h1, if_false]
      by_cases h2 : c = 35
      · simp only [h2, if_true]
        exact numLoop_count _ false
      · simp [h2]

theorem take_one_tail (t : Bytes) : t = List.take 1 t ++ t.tail := by
  cases t <;> simp

theorem numPrefix_prefix (inp w r : Bytes) (d : Nat) (h : numPrefix inp = some (w, d, r)) :
    inp = w ++ r ∧ (0 < d → 0 < w.length) := by
  cases inp with
  | nil => simp [numPrefix] at h; obtain ⟨rfl, rfl, rfl⟩ := h; simp
  | cons c t =>
    unfold numPrefix at h
    by_cases hc : c = 36 ∨ c = 42
    · simp only [hc, if_true] at h
      split at h
      · cases h
      · by_cases h42 : c = 42
        · subst h42
          simp only [if_true] at h
          split at h
          · rename_i hd
            simp only [Option.some.injEq, Prod.mk.injEq] at h
            obtain ⟨rfl, rfl, rfl⟩ := h
            cases t with
            | nil => simp at hd
            | cons a t2 =>
              cases t2 with
              | nil => simp at hd
              | cons b t3 =>
                simp only [List.drop_succ_cons, List.drop_zero, List.head?_cons, Option.some.injEq] at hd
                subst hd
                simp
          · simp only [Option.some.injEq, Prod.mk.injEq] at h
            obtain ⟨rfl, rfl, rfl⟩ := h
            simp
            exact take_one_tail t
        · simp only [h42, if_false] at h
          simp only [Option.some.injEq, Prod.mk.injEq] at h
          obtain ⟨rfl, rfl, rfl⟩ := h
          simp
          exact take_one_tail t
    · simp only [hc, if_false, Option.some.injEq, Prod.mk.injEq] at h
      obtain ⟨rfl, rfl, rfl⟩ := h
      simp

theorem numPost_prefix (lp : Bool) (inp : Bytes) : inp = (numPost lp inp).1 ++ (numPost lp inp).2 := by
  unfold numPost
  by_cases h4 : inp.take 4 = carets
  · simp only [h4, if_true]
    have hsplit : inp = carets ++ inp.drop 4 := by
      conv => lhs; rw [← List.take_append_drop 4 inp]
      rw [h4]
    cases hd : inp.drop 4 with
    | nil => simp only [hd] at hsplit ⊢; simpa using hsplit
    | cons c r2 =>
      simp only [hd] at hsplit ⊢
      by_cases hs : lp = false ∧ (c = 45 ∨ c = 43)
      · simp only [hs, and_self, if_true]; simpa using hsplit
      · simp only [hs, if_false]; simpa using hsplit
  · simp only [h4, if_false]
    cases inp with
    | nil => rfl
    | cons c r2 =>
      by_cases hs : lp = false ∧ (c = 45 ∨ c = 43)
      · simp [hs]
      · simp [hs]

/-! ### sign, `$` and the optional leading zero -/

theorem signPrefix_cases (m : SignMode) (neg : Bool) :
    signPrefix m neg = [] ∨ signPrefix m neg = [43] ∨ signPrefix m neg = [45] := by
  cases m <;> cases neg <;> simp [signPrefix]

theorem signSuffix_cases (m : SignMode) (neg : Bool) :
    signSuffix m neg = [] ∨ signSuffix m neg = [43] ∨ signSuffix m neg = [45] ∨ signSuffix m neg = [32] := by
  cases m <;> cases neg <;> simp [signSuffix]

theorem leadZero_cons (b : Nat) (bs : Bytes) (hb : b ≠ 46) (h43 : b ≠ 43) (h45 : b ≠ 45) :
    leadZero (b :: bs) = b :: bs := by
  unfold leadZero
  split <;> simp_all

theorem leadZero_sign (sg b : Nat) (bs : Bytes) (hs : sg = 43 ∨ sg = 45) (hb : b ≠ 46) :
    leadZero (sg :: b :: bs) = sg :: b :: bs := by
  unfold leadZero
  split <;> simp_all

/-- `leadZero` inserts at most one `0`, directly in front of a decimal point that starts the digits,
    and never when a `$` stands there -/
theorem leadZero_shape (pre dol body suf : Bytes) (hpre : pre = [] ∨ pre = [43] ∨ pre = [45])
    (hdol : dol = [] ∨ dol = [36]) (hsuf : suf = [] ∨ suf = [43] ∨ suf = [45] ∨ suf = [32])
    (hbody : ∀ c, body.head? = some c → c ≠ 43 ∧ c ≠ 45) :
    leadZero (pre ++ dol ++ body ++ suf) = pre ++ dol ++ body ++ suf ∨
    (dol = [] ∧ body.head? = some 46 ∧ leadZero (pre ++ dol ++ body ++ suf) = pre ++ 48 :: body ++ suf) := by
  rcases hdol with hd | hd
  · subst hd
    cases body with
    | nil =>
      left
      rcases hpre with hp | hp | hp <;> rcases hsuf with hs | hs | hs | hs <;> subst hp <;> subst hs <;>
        simp [leadZero]
    | cons b bs =>
      by_cases hb : b = 46
      · subst hb
        right
        refine ⟨rfl, rfl, ?_⟩
        rcases hpre with hp | hp | hp <;> subst hp <;> simp [leadZero]
      · left
        rcases hpre with hp | hp | hp <;> subst hp
        · simp only [List.append_nil, List.nil_append, List.cons_append]
          have := hbody b rfl
          exact leadZero_cons b _ hb this.1 this.2
        · simp only [List.append_nil, List.cons_append, List.nil_append]
          exact leadZero_sign 43 b _ (Or.inl rfl) hb
        · simp only [List.append_nil, List.cons_append, List.nil_append]
          exact leadZero_sign 45 b _ (Or.inr rfl) hb
  · subst hd
    left
    rcases hpre with hp | hp | hp <;> subst hp <;> simp [leadZero]

/-! ### the `%` / fill step -/

theorem rjust_length (s : Bytes) (n fill : Nat) (h : s.length ≤ n) : (rjust s n fill).length = n := by
  unfold rjust; simp; omega

end PcbV.Using
