"""C32 — PAINT fills exactly the enclosed region."""
import collections
import logging
import signal

from vlib import basic

LEVEL = 'proof'
RULE = ('per (adapter, SCREEN mode, active page): pictures of border / background / other / pre-filled pixels '
        '(noise, mazes, spirals, thin diagonal walls, combs, rings, open regions touching the viewport edge) are '
        'written into the pixel buffer inside a VIEW, VIEW SCREEN or unclipped area; histories of 1-3 PAINT / '
        'PAINT STEP / DRAW "P" statements (solid and tiled, with background patterns) with seeds inside, on borders, '
        'on the viewport edge and outside are executed by a real Session; every statement is one case, compared '
        'with the Lean model (final picture of the area) and judged by a breadth-first reference fill over the '
        'whole page; PAINT with non-integer seed coordinates (exact halves, .49/.51, negative halves; literals, STEP '
        'offsets, single/double variables) without and with WINDOW / WINDOW SCREEN under VIEW / VIEW SCREEN / no '
        'viewport, where the seed pixel is the one PSET addresses for the same coordinate expression (a fixed '
        'family over all fractions and statement forms, then random ones); plus every 3x3 (thorough: also every 4x3 with all seeds and every 4x4 with all non-border seeds) border/'
        'background bitmap through Graphics._flood_fill; non-trivial = the statement changed at least one pixel')
EXPLANATION = ('theorems (PcbV.Props.C32): for every picture, bounds, seed, attributes and fuel the modelled scanline '
               'fill changes only pixels of the 4-connected non-border region of the seed inside the viewport and '
               'sets them to the fill attribute (also for tiled fills: to the tile), nothing happens for a seed '
               'outside / on a border, the main loop terminates within 2*W*H*(W+2)+1 iterations for every picture '
               '(paint_terminates), and above that fuel a region without pre-filled pixels is filled completely '
               '(paint_complete, paint_exact); correspondence: model vs Session picture after every PAINT; '
               'oracle: breadth-first fill written from the statement (changed pixels within region and = fill; '
               'complete when the region had no pre-filled pixel)')
TRUSTED_BASE = ['the logical-to-physical conversion of the seed (WINDOW scaling, rounding; host floats) is not '
                'modelled in Lean: the pixel is taken from PSET with the same coordinate expression on a blank '
                'page, and the flood fill from that pixel is what model and oracle judge',
                'model PcbV.Model.Paint is a hand transcription of graphics.py _flood_fill/_scanline_until/'
                '_check_scanline and of framebuffer.py PackedTileBuilder/PlanedTileBuilder',
                'the harness writes pictures into and reads them from display.pages[apage]._pixels._rows '
                '(a fraction of the pictures is drawn with PSET instead and must behave the same)',
                'EventQueues.tick is set to 0 on the session object so that PAINT does not sleep 6 ms per four rows',
                'the exhaustive small-bitmap part calls Graphics._flood_fill directly (the anchored function)']
ASSUMPTIONS = ['the iteration count of the model is compared with the proved fuel bound of paint_terminates on every '
               'solid case (a consistency check of model and theorem, not an assumption of the proof)',
               'the default foreground attribute after SCREEN n is the highest attribute of the mode']

logging.getLogger().setLevel(logging.ERROR)

CONFIGS = [('cga', 1, 0), ('cga', 2, 0), ('ega', 7, 1), ('ega', 9, 0)]
TILE_KIND = {1: 'p2', 2: 'p1', 7: 'e4', 9: 'e4'}
FUEL = 5000
WATCHDOG_SECONDS = 20
IFC = b'Illegal function call'


# ---------------------------------------------------------------------------------------------- oracle

def region_of(pic, bounds, seed, border):
    """4-connected component of non-border pixels containing the seed inside the bounds (set of (x, y))."""
    x0, y0, x1, y1 = bounds
    sx, sy = seed
    if not (x0 <= sx <= x1 and y0 <= sy <= y1) or pic[sy][sx] == border:
        return set()
    seen = {(sx, sy)}
    todo = collections.deque(seen)
    while todo:
        x, y = todo.popleft()
        for nx, ny in ((x + 1, y), (x - 1, y), (x, y + 1), (x, y - 1)):
            if x0 <= nx <= x1 and y0 <= ny <= y1 and (nx, ny) not in seen and pic[ny][nx] != border:
                seen.add((nx, ny))
                todo.append((nx, ny))
    return seen


def unpack_tile(kind, pattern):
    """Tile rows from the pattern string, written from the documentation of PAINT tiling: packed modes hold one
    row per byte, most significant pixel first; EGA modes hold one bit plane per byte, four bytes per row."""
    if kind[0] == 'p':
        bpp = int(kind[1:])
        return [[(byte >> (8 - bpp - sh)) & ((1 << bpp) - 1) for sh in range(0, 8, bpp)] for byte in pattern]
    planes = int(kind[1:])
    pattern = list(pattern)
    while len(pattern) % planes:
        pattern.append(0)
    rows = []
    for r in range(0, len(pattern), planes):
        rows.append([sum(((pattern[r + p] >> (7 - i)) & 1) << p for p in range(planes)) for i in range(8)])
    return rows


def changed_cells(before, after):
    res = []
    for y, (a, b) in enumerate(zip(before, after)):
        if a != b:
            for x in range(len(a)):
                if a[x] != b[x]:
                    res.append((x, y))
    return res


# ---------------------------------------------------------------------------------------------- pictures

def frame(rows, b, sides='tblr'):
    h, w = len(rows), len(rows[0])
    for x in range(w):
        if 't' in sides:
            rows[0][x] = b
        if 'b' in sides:
            rows[h - 1][x] = b
    for y in range(h):
        if 'l' in sides:
            rows[y][0] = b
        if 'r' in sides:
            rows[y][w - 1] = b


def gen_picture(rng, w, h, b, f, nattr):
    """rows of attributes; returns (rows, kind)"""
    nonborder = [a for a in range(nattr) if a != b]
    plain = [a for a in nonborder if a != f] or nonborder
    bg = rng.choice(plain)
    rows = [[bg] * w for _ in range(h)]
    kind = rng.choice(['noise', 'noise', 'maze', 'spiral', 'diag', 'diag', 'comb', 'rings', 'open', 'blobs', 'empty',
                       'zigzag'])
    if kind == 'noise':
        p = rng.choice([0.08, 0.2, 0.35, 0.5, 0.65])
        for y in range(h):
            for x in range(w):
                if rng.random() < p:
                    rows[y][x] = b
    elif kind == 'maze':
        for y in range(h):
            for x in range(w):
                if x % 2 == 1 and y % 2 == 1:
                    rows[y][x] = b
                elif (x % 2 == 1 or y % 2 == 1) and rng.random() < 0.55:
                    rows[y][x] = b
    elif kind == 'spiral':
        x0, y0, x1, y1 = 0, 0, w - 1, h - 1
        k = 0
        while x1 - x0 >= 2 and y1 - y0 >= 2:
            for x in range(x0, x1 + 1):
                rows[y0][x] = b
            for y in range(y0, y1 + 1):
                rows[y][x1] = b
            for x in range(x0 + 2, x1 + 1):
                rows[y1][x] = b
            for y in range(y0 + 2, y1 + 1):
                rows[y][x0 + 2 if x0 + 2 <= x1 else x0] = b
            rows[y0 + 1][x0] = bg if k == 0 else rows[y0 + 1][x0]
            x0, y0, x1, y1 = x0 + 2, y0 + 2, x1 - 2, y1 - 2
            k += 1
        # one door in the outer wall so that the spiral can be entered
        rows[rng.randrange(h)][rng.randrange(w)] = bg
    elif kind == 'diag':
        # thin diagonal walls: pixels touching only at corners still separate 4-connected regions
        for _ in range(rng.randint(1, 4)):
            x, y = rng.randrange(w), rng.choice([0, h - 1, rng.randrange(h)])
            dx, dy = rng.choice([1, -1]), rng.choice([1, -1])
            while 0 <= x < w and 0 <= y < h:
                rows[y][x] = b
                if rng.random() < 0.12:
                    x += dx          # a 4-connected step in the wall now and then
                    if 0 <= x < w:
                        rows[y][x] = b
                x += dx
                y += dy
    elif kind == 'comb':
        gap = rng.choice([1, 2, 3])
        for i, x in enumerate(range(1, w, gap + 1)):
            for y in range(h):
                if (i % 2 == 0 and y < h - 1 - rng.randint(0, 1)) or (i % 2 == 1 and y > rng.randint(0, 1)):
                    rows[y][x] = b
    elif kind == 'zigzag':
        gap = rng.choice([1, 2])
        for i, y in enumerate(range(1, h, gap + 1)):
            for x in range(w):
                if (i % 2 == 0 and x < w - 1) or (i % 2 == 1 and x > 0):
                    rows[y][x] = b
    elif kind == 'rings':
        for _ in range(rng.randint(1, 4)):
            rw, rh = rng.randint(3, max(3, w)), rng.randint(3, max(3, h))
            ox, oy = rng.randint(-1, max(0, w - rw)), rng.randint(-1, max(0, h - rh))
            for x in range(ox, ox + rw):
                for y in (oy, oy + rh - 1):
                    if 0 <= x < w and 0 <= y < h:
                        rows[y][x] = b
            for y in range(oy, oy + rh):
                for x in (ox, ox + rw - 1):
                    if 0 <= x < w and 0 <= y < h:
                        rows[y][x] = b
            if rng.random() < 0.4:
                gx, gy = rng.randrange(w), rng.randrange(h)
                rows[gy][gx] = bg
    elif kind == 'open':
        for _ in range(rng.randint(0, 5)):
            if rng.random() < 0.5:
                y = rng.randrange(h)
                a, c = sorted((rng.randrange(w), rng.randrange(w)))
                for x in range(a, c + 1):
                    rows[y][x] = b
            else:
                x = rng.randrange(w)
                a, c = sorted((rng.randrange(h), rng.randrange(h)))
                for y in range(a, c + 1):
                    rows[y][x] = b
    elif kind == 'blobs':
        for _ in range(rng.randint(1, 6)):
            bw, bh = rng.randint(1, max(1, w // 3)), rng.randint(1, max(1, h // 3))
            ox, oy = rng.randrange(w), rng.randrange(h)
            for y in range(oy, min(h, oy + bh)):
                for x in range(ox, min(w, ox + bw)):
                    rows[y][x] = b
    # other non-border colours
    if len(plain) > 1 and rng.random() < 0.5:
        for _ in range(rng.randint(1, max(1, w * h // 6))):
            x, y = rng.randrange(w), rng.randrange(h)
            if rows[y][x] != b:
                rows[y][x] = rng.choice(plain)
    # pre-filled pixels (the "already painted" stop rule)
    pre = rng.random()
    if f != b and pre < 0.25:
        mode = rng.choice(['dots', 'row', 'rect', 'col'])
        if mode == 'dots':
            for _ in range(rng.randint(1, 4)):
                x, y = rng.randrange(w), rng.randrange(h)
                if rows[y][x] != b:
                    rows[y][x] = f
        elif mode == 'row':
            y = rng.randrange(h)
            a, c = sorted((rng.randrange(w), rng.randrange(w)))
            if rng.random() < 0.5:
                a, c = 0, w - 1
            for x in range(a, c + 1):
                if rows[y][x] != b:
                    rows[y][x] = f
        elif mode == 'col':
            x = rng.randrange(w)
            for y in range(h):
                if rows[y][x] != b:
                    rows[y][x] = f
        else:
            ox, oy = rng.randrange(w), rng.randrange(h)
            for y in range(oy, min(h, oy + rng.randint(1, 4))):
                for x in range(ox, min(w, ox + rng.randint(1, 5))):
                    if rows[y][x] != b:
                        rows[y][x] = f
        kind += '+pre'
    return rows, kind


# ---------------------------------------------------------------------------------------------- the real thing

class Hang(BaseException):
    """raised by the watchdog inside a statement that does not come back"""


def _on_alarm(signum, frame):
    raise Hang()


class Runner(object):
    def __init__(self, video, mode, apage):
        self.video, self.mode, self.apage = video, mode, apage
        self.session = basic.new_session(video=video)
        self.session._impl.queues.tick = 0
        cmd = b'SCREEN %d' % mode if not apage else b'SCREEN %d,,%d,0' % (mode, apage)
        out = self.session.execute(cmd)
        if out.strip():
            raise RuntimeError('%r on %s: %r' % (cmd, video, out))
        self.display = self.session._impl.display
        self.gfx = self.display.graphics
        m = self.display.mode
        self.W, self.H = m.pixel_width, m.pixel_height
        self.nattr = self.gfx._num_attr
        self.fg = self.nattr - 1
        self.view = None
        self.win = None
        self.dead = False

    def close(self):
        self.session.close()

    def rows(self):
        return self.display.pages[self.display.apagenum]._pixels._rows

    def clear(self):
        for r in self.rows():
            r[:] = bytes(len(r))

    def snapshot(self):
        return [bytes(r) for r in self.rows()]

    def execute(self, text):
        """output bytes, '<<EXC ...>>' for an escaping host exception, '<<HANG>>' if the statement did not
        return within WATCHDOG_SECONDS (the session is unusable afterwards)"""
        old = signal.signal(signal.SIGALRM, _on_alarm)
        signal.alarm(WATCHDOG_SECONDS)
        try:
            return self.session.execute(text.encode('latin-1'))
        except Hang:
            self.dead = True
            return b'<<HANG>>'
        except Exception as e:   # noqa
            return b'<<EXC %s: %s>>' % (type(e).__name__.encode(), str(e).encode('latin-1', 'replace')[:120])
        finally:
            signal.alarm(0)
            signal.signal(signal.SIGALRM, old)

    def set_view(self, view):
        if view is None:
            out = self.execute('VIEW')
        else:
            x0, y0, x1, y1, absolute = view
            out = self.execute('VIEW %s(%d,%d)-(%d,%d)' % ('SCREEN ' if absolute else '', x0, y0, x1, y1))
        if out.strip():
            raise RuntimeError('VIEW %r: %r' % (view, out))
        self.view = view

    def set_window(self, stmt):
        """`WINDOW ...` statement text, or None to switch the logical window off"""
        if stmt is None and self.win is None:
            return
        out = self.execute(stmt or 'WINDOW')
        if out.strip():
            raise RuntimeError('%r: %r' % (stmt, out))
        self.win = stmt

    def put(self, ax, ay, pic, with_pset=False):
        if with_pset:
            saved = self.view
            if self.win is not None:
                raise RuntimeError('PSET pictures are not drawn under a WINDOW')
            self.set_view(None)
            for j, row in enumerate(pic):
                for i, a in enumerate(row):
                    out = self.execute('PSET (%d,%d),%d' % (ax + i, ay + j, a))
                    if out.strip():
                        raise RuntimeError('PSET: %r' % out)
            self.set_view(saved)
        else:
            rows = self.rows()
            for j, row in enumerate(pic):
                rows[ay + j][ax:ax + len(row)] = bytes(row)

    def bounds(self):
        if self.view is None:
            return (0, 0, self.W - 1, self.H - 1)
        return tuple(self.view[:4])

    def offset(self):
        """viewport coordinates + offset = absolute coordinates"""
        if self.view is None or self.view[4]:
            return (0, 0)
        return (self.view[0], self.view[1])


def cur_hex(page, ax, ay, w, h):
    return ''.join(page[ay + j][ax:ax + w].hex() for j in range(h))


def zero_rows_adjacent(kind, pattern):
    """the tile has two (cyclically) consecutive all-zero rows: such a tiled fill never recognises painted
    rows (`has_same_pattern` excludes zero rows) and can circle around an obstacle for ever"""
    tile = unpack_tile(kind, pattern)
    z = [not any(row) for row in tile]
    return any(z[i] and z[(i + 1) % len(z)] for i in range(len(z)))


def chr_expr(data):
    return '+'.join('CHR$(%d)' % c for c in data)


def fmt_coord(v):
    return ('%d' % v) if isinstance(v, int) else ('%.1f' % v)


def step_text(st):
    if 'text' in st:
        return st['text']
    x, y = st['xy']
    if st['how'] == 'draw':
        return 'DRAW "BM%d,%d P%d,%d"' % (x, y, st['fill'], st['border'])
    head = 'PAINT %s(%s,%s)' % ('STEP ' if st['how'] == 'step' else '', fmt_coord(x), fmt_coord(y))
    if st['kind'] == 'tile':
        s = head + ',' + chr_expr(st['pattern'])
        if st.get('border_given', True) or st.get('bg') is not None:
            s += ',' + ('%d' % st['border'] if st.get('border_given', True) else '')
        if st.get('bg') is not None:
            s += ',' + chr_expr(st['bg'])
        return s
    if not st.get('fill_given', True):
        return head + ',,%d' % st['border']
    if not st.get('border_given', True):
        return head + ',%d' % st['fill']
    return head + ',%d,%d' % (st['fill'], st['border'])


def run_case(ctx, r, case, lines, cases, outs, iters_lines):
    """Execute one history on the runner; append model lines / impl replies; judge with the oracle."""
    r.clear()
    r.set_window(None)
    r.set_view(case['view'])
    r.set_window(case.get('window'))
    ax, ay, w, h = case['rect']
    pic = [list(bytes.fromhex(case['pix'])[j * w:(j + 1) * w]) for j in range(h)]
    bx0, by0, bx1, by1 = r.bounds()
    ox, oy = r.offset()
    if case['steps'] and case['steps'][0].get('probe'):
        # which pixel does this coordinate expression denote?  PSET with the same expression on the blank page
        st0 = case['steps'][0]
        for pre in st0.get('pre', []):
            r.execute(pre)
        out = r.execute(st0['probe'])
        hit = [(x, y) for y, row in enumerate(r.rows()) if any(row) for x in range(len(row)) if row[x]]
        if out.strip() or len(hit) > 1:
            ctx.count('probe:rejected')
            r.clear()
            if out.startswith(b'<<'):
                ctx.fail('host-exception:probe', dict(case, text=st0['probe']), 'probe raised %r' % out)
            return
        if hit and bx0 <= hit[0][0] <= bx1 and by0 <= hit[0][1] <= by1:
            seed = [hit[0][0] - ox, hit[0][1] - oy]
            ctx.count('probe:pixel')
        else:
            seed = [bx0 - ox - 1, by0 - oy]       # nothing drawn: the point is outside the viewport
            ctx.count('probe:outside')
        case = dict(case, steps=[dict(st0, seed=seed)] + case['steps'][1:])
        r.clear()
        # VIEW puts the last point (what STEP refers to) back to the middle of the viewport
        r.set_window(None)
        r.set_view(case['view'])
        r.set_window(case.get('window'))
    r.put(ax, ay, pic, with_pset=case.get('pset', False))
    zero = bytes(r.W)
    tag = '%s/%d' % (r.video, r.mode)
    for k, st in enumerate(case['steps']):
        before = r.snapshot()
        # the model sees `0` outside the rectangle: true for the first step, checked for the later ones
        uniform = all((row == zero) if not (ay <= y < ay + h) else
                      (row[:ax] == zero[:ax] and row[ax + w:] == zero[ax + w:]) for y, row in enumerate(before))
        for pre in st.get('pre', []):
            out = r.execute(pre)
            if out.strip() or r.snapshot() != before:
                raise RuntimeError('%r changed the picture: %r' % (pre, out))
        if st['how'] == 'step':
            px, py = st['last']
            out = r.execute('PSET (%d,%d),%d' % (px, py, before[py + oy][px + ox]))
            if out.strip() or r.snapshot() != before:
                raise RuntimeError('PSET to set the last point changed the picture: %r' % out)
        text = step_text(st)
        out = r.execute(text)
        after = r.snapshot()
        key = (tag, case['id'], k)
        ctx.case(key)
        ctx.count('stmt:%s/%s' % (st['how'], st['kind']))
        info = dict(case, step=k, text=text)
        sx, sy = st['seed']            # viewport coordinates
        seed_abs = (sx + ox, sy + oy)
        border, fill = st['border'], st['fill']
        err = None
        if out == b'<<HANG>>':
            ctx.count('hang:%s' % st['kind'])
            if st['kind'] == 'solid':
                ctx.fail('hang:solid', info, '%s did not return within %d s' % (text, WATCHDOG_SECONDS))
            else:
                # tiled fills are outside the statement; recorded as evidence only
                ctx.notes.setdefault('tiled_fill_hangs', [])
                if len(ctx.notes['tiled_fill_hangs']) < 5:
                    ctx.notes['tiled_fill_hangs'].append({'config': tag, 'view': case['view'], 'rect': case['rect'],
                                                          'pix': cur_hex(before, ax, ay, w, h), 'text': text})
            return
        if out.startswith(b'<<EXC'):
            ctx.count('host-exception')
            ctx.fail('host-exception:%s' % out[6:].split(b':')[0].decode(), info, 'PAINT raised %r' % out)
            return
        if IFC in out:
            err = 5
        elif out.strip():
            ctx.fail('unexpected-output', info, 'PAINT printed %r' % out)
            return
        # --- model line
        cur = cur_hex(before, ax, ay, w, h)
        common = '%d %d %d %d %d %d %d 0 %s %d %d' % (bx0 - ox, by0 - oy, bx1 - ox, by1 - oy, ax - ox, ay - oy, w,
                                                     cur, sx, sy)
        if uniform:
            impl = 'err 5' if err else 'ok 1 ' + ''.join(after[ay + j][ax:ax + w].hex() for j in range(h))
            if st['kind'] == 'solid':
                lines.append('paint %s %d %d %d' % (common, fill, border, FUEL))
                cases.append(info)
                outs.append(impl)
                # the tiled loop with a constant 1x8 tile must give the same as the solid model
                lines.append('tile %s %d %d s %02x -' % (common, border, FUEL, fill))
                cases.append(info)
                outs.append(impl)
                iters_lines.append(('iters %s %d %d %d' % (common, fill, border, FUEL),
                                    (bx1 - bx0 + 1), (by1 - by0 + 1)))
            else:
                lines.append('tile %s %d %d %s %s %s' % (common, border, FUEL, TILE_KIND[r.mode],
                                                         bytes(st['pattern']).hex(),
                                                         bytes(st['bg']).hex() if st.get('bg') is not None else '-'))
                cases.append(info)
                outs.append(impl)
        else:
            ctx.count('model-skipped:outside-not-uniform')
        if err:
            ctx.count('result:err 5')
            if st['kind'] == 'solid':
                ctx.fail('solid-paint-error', info, 'solid PAINT gave %r' % out)
            return   # the error text is on the page: the history ends here
        # --- oracle
        region = region_of(before, (bx0, by0, bx1, by1), seed_abs, border)
        changed = changed_cells(before, after)
        ctx.count('changed:some' if changed else 'changed:none')
        ctx.count('region:%s' % ('empty' if not region else 'small' if len(region) < 8 else 'large'))
        inside = bx0 <= seed_abs[0] <= bx1 and by0 <= seed_abs[1] <= by1
        ctx.count('seed:%s' % ('outside' if not inside else 'border' if not region else 'region'))
        if st['kind'] == 'solid':
            bad = [(x, y) for (x, y) in changed if (x, y) not in region or after[y][x] != fill]
            if bad:
                x, y = bad[0]
                what = ('outside the region' if (x, y) not in region else
                        'set to %d, not the fill attribute %d' % (after[y][x], fill))
                ctx.fail('changed-%s:%s' % ('outside-region' if (x, y) not in region else 'wrong-attribute',
                                            case['kind']),
                         dict(info, cell=[x, y]),
                         '%s changed %d pixel(s) wrongly; first (%d,%d) %s' % (text, len(bad), x, y, what))
            prefilled = any(before[y][x] == fill for (x, y) in region)
            if region and not prefilled:
                ctx.count('complete-demanded')
                missing = [(x, y) for (x, y) in region if after[y][x] != fill]
                if missing:
                    x, y = min(missing, key=lambda p: (p[1], p[0]))
                    ctx.fail('incomplete:%s' % case['kind'], dict(info, cell=[x, y]),
                             '%s left %d of %d region pixels unfilled (no pre-filled pixel in the region); '
                             'first (%d,%d)' % (text, len(missing), len(region), x, y))
            elif region:
                # reported separately: the statement does not demand completeness here
                missing = sum(1 for (x, y) in region if after[y][x] != fill)
                ctx.count('prefilled-region:%s' % ('fully-filled' if not missing else 'partly-filled'))
        else:
            tile = unpack_tile(TILE_KIND[r.mode], st['pattern'])
            th, tw = len(tile), len(tile[0])
            bad = [(x, y) for (x, y) in changed
                   if (x, y) not in region or after[y][x] != tile[(y - oy) % th][(x - ox) % tw]]
            if bad:
                x, y = bad[0]
                ctx.fail('tile-changed-%s' % ('outside-region' if (x, y) not in region else 'wrong-attribute'),
                         dict(info, cell=[x, y]),
                         '%s changed %d pixel(s) wrongly; first (%d,%d)' % (text, len(bad), x, y))


# ---------------------------------------------------------------------------------------------- generator

def gen_case(rng, r, idx, allow_leak):
    W, H, nattr = r.W, r.H, r.nattr
    b = rng.randrange(nattr)
    f = rng.randrange(nattr)
    if nattr > 2 and rng.random() < 0.8:
        while f == b:
            f = rng.randrange(nattr)
    w, h = rng.randint(2, 26), rng.randint(2, 16)
    if rng.random() < 0.15:
        w, h = rng.choice([(2, 2), (3, 2), (2, 5), (40, 3), (3, 24), (8, 8)])
    vk = rng.choice(['rel', 'rel', 'abs', 'abs', 'none'])
    pos = rng.choice(['tl', 'br', 'tr', 'bl', 'rand', 'rand', 'rand'])
    fw, fh = w, h                      # size of the rectangle written (with frame for 'none')
    sides = ''
    leak = False
    if vk == 'none':
        leak = allow_leak and rng.random() < 0.08
        if not leak:
            sides = 'tblr'
    if pos == 'tl':
        ax, ay = 0, 0
    elif pos == 'br':
        ax, ay = W - w, H - h
    elif pos == 'tr':
        ax, ay = W - w, 0
    elif pos == 'bl':
        ax, ay = 0, H - h
    else:
        ax, ay = rng.randint(0, W - w), rng.randint(0, H - h)
    pic, kind = gen_picture(rng, w, h, b, f, nattr)
    if vk == 'none':
        view = None
        if not leak:
            # closed by a border frame, except on sides lying on the screen edge
            s = ''.join(c for c, on_edge in (('t', ay == 0), ('b', ay + h == H), ('l', ax == 0), ('r', ax + w == W))
                        if not on_edge)
            frame(pic, b, s)
        else:
            kind += '+leak'
        seedbox = (ax, ay, ax + w - 1, ay + h - 1)
        off = (0, 0)
    else:
        view = [ax, ay, ax + w - 1, ay + h - 1, vk == 'abs']
        seedbox = (ax, ay, ax + w - 1, ay + h - 1)
        off = (0, 0) if vk == 'abs' else (ax, ay)
    steps = []
    last = None
    for k in range(rng.choice([1, 1, 2, 3])):
        # seed in absolute coordinates first
        q = rng.random()
        x0, y0, x1, y1 = seedbox
        if q < 0.72:
            sx, sy = rng.randint(x0, x1), rng.randint(y0, y1)
            free = [(ax + i, ay + j) for j in range(h) for i in range(w) if pic[j][i] != b]
            if free and rng.random() < 0.6:
                sx, sy = rng.choice(free)
        elif q < 0.84:
            sx, sy = rng.choice([x0, x1]), rng.choice([y0, y1])
        elif q < 0.9:
            cands = [(ax + i, ay + j) for j in range(h) for i in range(w) if pic[j][i] == b]
            sx, sy = rng.choice(cands) if cands else (x0, y0)
        else:
            sx, sy = rng.choice([(x0 - rng.randint(1, 3), rng.randint(y0, y1)), (x1 + rng.randint(1, 3), rng.randint(y0, y1)),
                                 (rng.randint(x0, x1), y0 - rng.randint(1, 3)), (rng.randint(x0, x1), y1 + rng.randint(1, 3)),
                                 (x0 - 1, y0 - 1), (x1 + 1, y1 + 1)])
            if vk == 'none':
                # without a viewport "outside" would be another part of the screen: stay inside
                sx, sy = min(max(sx, x0), x1), min(max(sy, y0), y1)
        vx, vy = sx - off[0], sy - off[1]        # viewport coordinates of the seed
        st = {'seed': [vx, vy], 'fill': f, 'border': b, 'kind': 'solid', 'how': 'paint', 'xy': [vx, vy]}
        how = rng.random()
        tiled = rng.random() < 0.22
        if tiled:
            st['kind'] = 'tile'
            n = rng.choice([1, 1, 2, 3, 4, 4, 5, 8])
            pat = [rng.choice([0, 0xff, 0x55, 0xaa, rng.randrange(256), rng.randrange(256)]) for _ in range(n)]
            while zero_rows_adjacent(TILE_KIND[r.mode], pat):
                pat[rng.randrange(n)] = rng.randrange(1, 256)
            st['pattern'] = pat
            if rng.random() < 0.4:
                st['bg'] = [rng.choice([0, 0xff, pat[0], rng.randrange(256)])
                            for _ in range(rng.choice([1, 1, 2, 4]))]
            if rng.random() < 0.15:
                st['border_given'] = False
                st['border'] = r.fg
        else:
            if how < 0.12 and last is not None:
                st['how'] = 'step'
                st['last'] = last
                st['xy'] = [vx - last[0], vy - last[1]]
            elif how < 0.24 and vx >= 0 and vy >= 0:
                st['how'] = 'draw'
            elif how < 0.30:
                st['xy'] = [vx + rng.choice([-0.4, 0.3, 0.4]), vy + rng.choice([-0.3, 0.2, 0.4])]
            elif how < 0.36:
                st['fill_given'] = False
                st['fill'] = r.fg
            elif how < 0.42:
                st['border_given'] = False
                st['border'] = st['fill']
        steps.append(st)
        # a point inside the viewport to hang a later STEP on
        last = [min(max(vx, seedbox[0] - off[0]), seedbox[2] - off[0]), min(max(vy, seedbox[1] - off[1]), seedbox[3] - off[1])]
        # next step: often another fill attribute and seed, same border
        if rng.random() < 0.6:
            f = rng.randrange(nattr)
        if rng.random() < 0.25:
            b = rng.randrange(nattr)
    return {'id': idx, 'video': r.video, 'mode': r.mode, 'apage': r.apage, 'view': view,
            'rect': [ax, ay, w, h], 'pix': ''.join(bytes(row).hex() for row in pic), 'kind': kind.split('+')[0],
            'kinds': kind, 'steps': steps, 'pset': (w * h <= 60 and rng.random() < 0.25)}


# ---------------------------------------------------------------------------------------------- seed coordinates

FRACTIONS = [0.5, -0.5, 0.49, -0.49, 0.51, -0.51, 0.25, -0.25, 0.0]
WINDOWS = [(0, 0, 1, 1), (-1, -1, 1, 1), (0, 0, 100, 50), (-3.5, 2, 8.25, 40), (10, 10, 11, 12), (0, 0, 639, 199)]


def fnum(v):
    s = ('%.4f' % v).rstrip('0').rstrip('.')
    return s if s not in ('', '-', '-0') else '0'


def rooms_picture(w, h, b, bg):
    """one-pixel rooms at the even/even positions, walls everywhere else: a seed that is one pixel off hits a wall"""
    return [[bg if (i % 2 == 0 and j % 2 == 0) else b for i in range(w)] for j in range(h)]


def gen_coord_case(rng, r, idx, forced=None):
    """PAINT with non-integer seed coordinates (exact halves, .49/.51, negative halves; literal, STEP offset or
    single/double variables), without and with WINDOW / WINDOW SCREEN, under VIEW / VIEW SCREEN / no viewport.
    The pixel the coordinates denote is asked from PSET with the same expression (run_case)."""
    W, H, nattr = r.W, r.H, r.nattr
    b = nattr - 1 if rng.random() < 0.5 else rng.randrange(1, nattr)
    f = rng.choice([a for a in range(1, nattr) if a != b] or [b])
    forced = forced or {}
    wk = forced.get('wk', rng.choice(['none', 'none', 'window', 'screen']))
    vk = forced.get('vk', rng.choice(['rel', 'abs', 'none']) if wk == 'none' else rng.choice(['rel', 'abs']))
    w, h = rng.randint(5, 21), rng.randint(5, 13)
    ax, ay = rng.choice([(0, 0), (rng.randint(0, W - w), rng.randint(0, H - h)), (2 * rng.randint(0, (W - w) // 2), 2 * rng.randint(0, (H - h) // 2))])
    bg = 0 if b != 0 else 1
    pk = forced.get('pk', rng.choice(['rooms', 'rooms', 'other']))
    if pk == 'rooms':
        pic, kind = rooms_picture(w, h, b, bg), 'rooms'
    else:
        pic, kind = gen_picture(rng, w, h, b, f, nattr)
        kind = kind.split('+')[0]
    if vk == 'none':
        view = None
        if kind != 'rooms':
            frame(pic, b, ''.join(c for c, on_edge in (('t', ay == 0), ('b', ay + h == H), ('l', ax == 0),
                                                          ('r', ax + w == W)) if not on_edge))
        off = (0, 0)
    else:
        view = [ax, ay, ax + w - 1, ay + h - 1, vk == 'abs']
        off = (0, 0) if vk == 'abs' else (ax, ay)
    # target pixel in viewport coordinates (for the rooms picture: mostly a room)
    ti, tj = rng.randrange(w), rng.randrange(h)
    if kind == 'rooms' and rng.random() < 0.85:
        ti, tj = ti - ti % 2, tj - tj % 2
    tx, ty = ax + ti - off[0], ay + tj - off[1]
    window = None
    pre = []
    how = forced.get('how', rng.choice(['lit', 'lit', 'lit', 'step', 'var']))
    if wk == 'none':
        dx, dy = forced.get('d', (rng.choice(FRACTIONS), rng.choice(FRACTIONS)))
        cx, cy = tx + dx, ty + dy
        if how == 'step':
            # an offset from the last point, which VIEW has put in the middle of the viewport
            k = forced.get('k', (rng.randint(-4, 4), rng.randint(-3, 3)))
            cx, cy = k[0] + dx, k[1] + dy
    else:
        l0, t0, l1, t1 = forced.get('win', rng.choice(WINDOWS + [(round(rng.uniform(-50, 50), 2), round(rng.uniform(-50, 50), 2),
                                                                   round(rng.uniform(60, 400), 2), round(rng.uniform(60, 400), 2))]))
        window = 'WINDOW %s(%s,%s)-(%s,%s)' % ('SCREEN ' if wk == 'screen' else '', fnum(l0), fnum(t0), fnum(l1), fnum(t1))
        # logical coordinates of (roughly) the target pixel, plus a fraction of a pixel
        u = (ti + rng.choice(FRACTIONS)) / float(max(1, w - 1))
        v = (tj + rng.choice(FRACTIONS)) / float(max(1, h - 1))
        if wk == 'window':
            v = 1 - v
        cx, cy = l0 + u * (l1 - l0), t0 + v * (t1 - t0)
        if how == 'step':
            # a logical offset from the last point (the middle of the viewport); PSET STEP tells which pixel that is
            cx, cy = (l1 - l0) * rng.choice([0.0, 0.013, 0.1, -0.07]), (t1 - t0) * rng.choice([0.0, 0.021, 0.09, -0.05])
    if how == 'var':
        xs, ys = rng.choice([('X!', 'Y!'), ('X#', 'Y#'), ('X!', 'Y#')])
        pre = pre + ['%s=%s:%s=%s' % (xs, fnum(cx), ys, fnum(cy))]
        coord = '(%s,%s)' % (xs, ys)
    else:
        coord = '%s(%s,%s)' % ('STEP ' if how == 'step' else '', fnum(cx), fnum(cy))
    st = {'seed': None, 'fill': f, 'border': b, 'kind': 'solid', 'how': 'coord-' + how, 'pre': pre,
          'text': 'PAINT %s,%d,%d' % (coord, f, b), 'probe': 'PSET %s,1' % coord}
    return {'id': 'c%d' % idx, 'video': r.video, 'mode': r.mode, 'apage': r.apage, 'view': view, 'window': window,
            'rect': [ax, ay, w, h], 'pix': ''.join(bytes(row).hex() for row in pic), 'kind': kind,
            'kinds': kind + '+coord', 'steps': [st], 'pset': False}


def coord_part(ctx, r, n):
    """the statement family must agree on the coordinate -> pixel mapping: PAINT fills the region of the pixel
    that PSET addresses for the same coordinate expression"""
    rng = ctx.rng
    lines, cases, outs, iters = [], [], [], []
    # a deterministic family first: every fraction in x and in y on the rooms picture, every statement form,
    # and fractional logical coordinates under the fixed windows
    forced = []
    for d in FRACTIONS:
        forced.append({'wk': 'none', 'pk': 'rooms', 'd': (d, 0.0), 'how': 'lit'})
        forced.append({'wk': 'none', 'pk': 'rooms', 'd': (0.0, d), 'how': 'var'})
        forced.append({'wk': 'none', 'pk': 'rooms', 'd': (d, d), 'how': 'step', 'k': (2, -2)})
    for win in WINDOWS:
        forced.append({'wk': 'screen', 'win': win, 'how': 'lit'})
        forced.append({'wk': 'window', 'win': win, 'how': 'lit'})
    for i in range(n):
        if r.dead:
            return
        case = gen_coord_case(rng, r, i, forced[i] if i < len(forced) else None)
        ctx.count('coord:%s/%s' % ('window' if case['window'] else 'plain', case['steps'][0]['how']))
        if i in (0, len(forced)):
            ctx.sample({'config': '%s SCREEN %d' % (r.video, r.mode), 'view': case['view'], 'window': case['window'],
                        'statements': case['steps'][0]['pre'] + [case['steps'][0]['text']],
                        'probe': case['steps'][0]['probe']})
        run_case(ctx, r, case, lines, cases, outs, iters)
    ctx.compare(cases, outs, lines, label='coord %s/%d' % (r.video, r.mode))
    check_iters(ctx, iters)
    r.set_window(None)


# ---------------------------------------------------------------------------------------------- exhaustive part

def exhaustive(ctx, r, w, h, seeds_of, label):
    """every border/background bitmap of a w x h viewport through Graphics._flood_fill (border 3 or 1, fill 2 or 1)"""
    border = min(3, r.nattr - 1)
    fill = 2 if r.nattr > 2 else 1
    ax, ay = 5, 3
    r.clear()
    r.set_view([ax, ay, ax + w - 1, ay + h - 1, False])
    rows = r.rows()
    n = w * h
    lines, cases, outs, iters = [], [], [], []
    guard = [bytes(rows[y]) for y in range(r.H)]
    for bits in range(1 << n):
        pic = [[border if (bits >> (j * w + i)) & 1 else 0 for i in range(w)] for j in range(h)]
        hexpic = ''.join(bytes(row).hex() for row in pic)
        for (sx, sy) in seeds_of(bits, pic):
            for j in range(h):
                rows[ay + j][ax:ax + w] = bytes(pic[j])
            try:
                r.gfx._flood_fill((sx, sy, False), fill, None, border, None)
            except Exception as e:   # noqa
                ctx.fail('host-exception:%s' % type(e).__name__, {'exhaustive': [w, h, bits, sx, sy]}, repr(e))
                continue
            res = [list(rows[ay + j][ax:ax + w]) for j in range(h)]
            ctx.case((label, bits, sx, sy))
            info = {'exhaustive': [w, h, bits, sx, sy], 'video': r.video, 'mode': r.mode, 'fill': fill,
                    'border': border}
            common = '0 0 %d %d 0 0 %d 0 %s %d %d %d %d %d' % (w - 1, h - 1, w, hexpic, sx, sy, fill, border, FUEL)
            lines.append('paint ' + common)
            cases.append(info)
            outs.append('ok 1 ' + ''.join(bytes(row).hex() for row in res))
            iters.append(('iters ' + common, w, h))
            region = region_of(pic, (0, 0, w - 1, h - 1), (sx, sy), border)
            for j in range(h):
                for i in range(w):
                    if (i, j) in region:
                        if res[j][i] != fill:
                            ctx.fail('incomplete:exhaustive', info, 'pixel (%d,%d) of the region not filled' % (i, j))
                    elif res[j][i] != pic[j][i]:
                        ctx.fail('changed-outside-region:exhaustive', info, 'pixel (%d,%d) changed' % (i, j))
            ctx.count('%s:%s' % (label, 'region' if region else 'no-region'))
        if len(lines) >= 50000:
            ctx.compare(cases, outs, lines, label=label)
            check_iters(ctx, iters)
            lines, cases, outs, iters = [], [], [], []
    # nothing outside the viewport may have changed
    for y in range(r.H):
        row = bytes(rows[y])
        if ay <= y < ay + h:
            row = row[:ax] + guard[y][ax:ax + w] + row[ax + w:]
        if row != guard[y]:
            ctx.fail('changed-outside-viewport:exhaustive', {'exhaustive': [w, h], 'row': y},
                     'row %d outside the %dx%d viewport changed' % (y, w, h))
            break
    ctx.compare(cases, outs, lines, label=label)
    check_iters(ctx, iters)
    r.set_view(None)
    r.clear()


def check_iters(ctx, iters):
    """iteration count of the model against the fuel bound stated in PcbV.C32.PaintComplete"""
    if not iters:
        return
    worst = ctx.notes.get('max_iterations_over_bound', 0.0)
    for i in range(0, len(iters), 50000):
        chunk = iters[i:i + 50000]
        res = ctx.model([c[0] for c in chunk])
        if res is None:
            return
        for (line, w, h), rep in zip(chunk, res):
            parts = rep.split()
            if len(parts) != 3 or parts[0] != 'ok':
                ctx.disagree({'label': 'iters', 'line': line}, 'ok 1 <n>', rep)
                continue
            nit = int(parts[2])
            bound = 2 * w * h * (w + 2) + 1
            worst = max(worst, nit / float(bound))
            ctx.notes['max_iterations'] = max(ctx.notes.get('max_iterations', 0), nit)
            if parts[1] != '1' or nit > bound:
                ctx.count('fuel-bound-exceeded')
                ctx.disagree({'label': 'fuel bound of PaintComplete exceeded', 'line': line},
                             'at most %d iterations' % bound, rep)
    ctx.notes['max_iterations_over_bound'] = round(worst, 4)


# ---------------------------------------------------------------------------------------------- entry points

def tile_builder_part(ctx, r):
    """PackedTileBuilder / PlanedTileBuilder against the model and the independent unpacking"""
    rng = ctx.rng
    kind = TILE_KIND[r.mode]
    lines, cases, outs = [], [], []
    for _ in range(12 if ctx.quick else 60):
        n = rng.randint(1, 9)
        pat = bytes(rng.choice([0, 255, rng.randrange(256)]) for _ in range(n))
        t = r.display.mode.build_tile(bytearray(pat))
        rows = [list(row) for row in t._rows]
        lines.append('build %s %s' % (kind, pat.hex()))
        cases.append({'mode': r.mode, 'pattern': pat.hex()})
        outs.append('ok %d %d %s' % (t.height, t.width, ''.join(bytes(row).hex() for row in rows)))
        ctx.case(('tile', r.mode, pat))
        if rows != unpack_tile(kind, pat):
            ctx.count('tile-builder-differs-from-documentation')
    ctx.compare(cases, outs, lines, label='build_tile %s/%d' % (r.video, r.mode))


def config_part(ctx, video, mode, apage, n_cases, ex_small):
    rng = ctx.rng
    r = Runner(video, mode, apage)
    try:
        ctx.count('config:%s/%d' % (video, mode))
        tile_builder_part(ctx, r)
        lines, cases, outs, iters = [], [], [], []
        for i in range(n_cases):
            if r.dead:
                r = Runner(video, mode, apage)     # the old session is abandoned inside its statement
            case = gen_case(rng, r, i, allow_leak=(mode == 1))
            ctx.count('picture:%s' % case['kind'])
            ctx.count('view:%s' % ('none' if case['view'] is None else 'screen' if case['view'][4] else 'relative'))
            if i < 2:
                ctx.sample({'config': '%s SCREEN %d' % (video, mode), 'view': case['view'], 'rect': case['rect'],
                            'statements': [step_text(s) for s in case['steps']]})
            run_case(ctx, r, case, lines, cases, outs, iters)
        ctx.compare(cases, outs, lines, label='%s/%d' % (video, mode))
        check_iters(ctx, iters)
        if r.dead:
            r = Runner(video, mode, apage)
        if r.nattr >= 4 and mode != 9:
            coord_part(ctx, r, 110 if ctx.quick else 700)
        elif not ctx.quick:
            coord_part(ctx, r, 250)
        if ex_small:
            ex_small(ctx, r)
    finally:
        if not r.dead:
            r.close()


def all_seeds(w, h):
    return lambda bits, pic: [(i, j) for j in range(h) for i in range(w)]


def free_seeds(w, h):
    """every non-border pixel, and one border pixel (seeds on border pixels do nothing; all of them are
    enumerated for the smaller sizes)"""
    def f(bits, pic):
        free = [(i, j) for j in range(h) for i in range(w) if pic[j][i] == 0]
        walls = [(i, j) for j in range(h) for i in range(w) if pic[j][i] != 0]
        return free + ([walls[bits % len(walls)]] if walls else [])
    return f


def run(ctx):
    for video, mode, apage in CONFIGS:
        ex = None
        # SCREEN 9 pages are 640x350: snapshots cost four times as much
        n = (130 if mode != 9 else 50) if ctx.quick else (400 if mode != 9 else 170)
        if (video, mode) == ('cga', 1):
            if ctx.quick:
                ex = lambda c, r: exhaustive(c, r, 3, 3, all_seeds(3, 3), 'all-3x3')
            else:
                def ex(c, r):
                    exhaustive(c, r, 3, 3, all_seeds(3, 3), 'all-3x3')
                    exhaustive(c, r, 4, 3, all_seeds(4, 3), 'all-4x3')
                    exhaustive(c, r, 4, 4, free_seeds(4, 4), 'all-4x4')
        config_part(ctx, video, mode, apage, n, ex)
        ctx.log('%s SCREEN %d done' % (video, mode))
    ctx.notes['exhaustive_parts'] = ('every 3x3 border/background bitmap x every seed' if ctx.quick else
                                     'every 3x3 and 4x3 bitmap x every seed; every 4x4 bitmap (2^16) x every '
                                     'non-border seed and one border seed')


class Sub(object):
    """thin proxy so that replay can reuse the judging code without touching the outer evidence"""

    def __init__(self, ctx):
        self.__dict__.update(ctx.__dict__)
        self._ctx = ctx
        self.failures = []
        self.disagreements = []

    def __getattr__(self, name):
        return getattr(self._ctx.__class__, name).__get__(self)


def replay(ctx, payload):
    case = payload.get('case', {})
    sub = Sub(ctx)
    if 'exhaustive' in case:
        w, h, bits, sx, sy = case['exhaustive']
        r = Runner(case.get('video', 'cga'), case.get('mode', 1), 0)
        try:
            exhaustive(sub, r, w, h, lambda b, pic: [(sx, sy)] if b == bits else [], 'replay')
        finally:
            r.close()
    elif 'steps' in case:
        r = Runner(case['video'], case['mode'], case.get('apage', 0))
        try:
            run_case(sub, r, case, [], [], [], [])
        finally:
            r.close()
    else:
        return None
    hits = [f for f in sub.failures if f['key'] == payload.get('key')]
    return hits[0]['what'] if hits else None
