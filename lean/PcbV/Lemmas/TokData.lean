import PcbV.Lemmas.TokStep
/-
  Lemmas for C17: DATA statements, the `?` shorthand, respelled keywords (one tokeniser / lister
  iteration per item).
-/
namespace PcbV.TokL
open PcbV PcbV.Gen PcbV.Gen.Tokens PcbV.Tok PcbV.Lst

/-! ## DATA -/

def printable (c : Nat) : Bool := decide (32 ≤ c ∧ c ≤ 126)

/-- the raw body `b` of a DATA statement followed by `R`: outside quoted items printable characters other
    than `:`, inside quoted items any string character (`strChar`), and the statement ends where `b` ends
    (end of line, or a `:` outside quotes) -/
def dataOK (R : Bytes) : Bool → Bytes → Bool
  | q, [] => R.isEmpty || (!q && R.head? == some 58)
  | false, c :: cs => printable c && c != 58 && dataOK R (c == 34) cs
  | true, c :: cs => (c == 34 || strChar c) && dataOK R (c != 34) cs

theorem tokData_body (R : Bytes) : ∀ (b : Bytes) (q : Bool), dataOK R q b = true → tokData q (b ++ R) = (b, R) := by
  intro b
  induction b with
  | nil =>
    intro q h
    cases R with
    | nil => cases q <;> rfl
    | cons r R' =>
      simp only [dataOK, List.isEmpty_cons, Bool.false_or, Bool.and_eq_true, Bool.not_eq_true', List.head?_cons,
        beq_iff_eq, Option.some.injEq] at h
      obtain ⟨rfl, rfl⟩ := h
      simp [tokData]
  | cons c b ih =>
    intro q h
    cases q with
    | false =>
      simp only [dataOK, Bool.and_eq_true, printable, decide_eq_true_eq, bne_iff_ne] at h
      obtain ⟨⟨hp, h58⟩, hrec⟩ := h
      have := ih _ hrec
      simp [tokData, show c ≠ 13 by omega, show c ≠ 0 by omega, h58, this]
    | true =>
      simp only [dataOK, Bool.and_eq_true, Bool.or_eq_true, beq_iff_eq] at h
      obtain ⟨hp, hrec⟩ := h
      have hc : c ≠ 13 ∧ c ≠ 0 := by
        rcases hp with rfl | hp
        · decide
        · have := strChar_facts hp; exact ⟨this.2.2.1, this.1⟩
      have := ih _ hrec
      simp [tokData, hc.1, hc.2, this]

theorem tok_data (old : Bool) (t : Table) (cd : Codec) (f : Nat) (s : St) (c : Nat) (w' out b R : Bytes)
    (hc : isLetter c = true) (hscan : scanWord t [] (c :: (w' ++ (b ++ R))) = (kwData, out, b ++ R))
    (hb : dataOK R false b = true) :
    tokLoop old t cd (f + 1) s (c :: (w' ++ (b ++ R))) = prepend (out ++ b) (tokLoop old t cd f s R) := by
  obtain ⟨f1, f2, f3, f4, f5, f6, f7, f8, f9, f10⟩ := letter_facts hc
  have f8' : c ∉ asciiOperators := by simpa using f8
  have h1 : ¬ (kwData = kwRem ∨ kwData = kwOrem) := by decide
  rw [tokLoop]
  simp [f1, f2, f3, f4, f5, f6, f7, f8', f9, f10, hc, hscan, h1, tokData_body R b false hb]

/-- quote state of the lister behind a run of bytes -/
def quoteFlip (q : Bool) (b : Bytes) : Bool := b.foldl (fun q c => if c == 34 then !q else q) q

theorem lst_data (old : Bool) (t : Table) (cd : Codec) (R E : Bytes) : ∀ (b : Bytes) (f : Nat) (lit : Bool) (out : Bytes),
    dataOK R lit b = true →
    listLoop old t cd (f + b.length) lit false out (b ++ E) = listLoop old t cd f (quoteFlip lit b) false (out ++ b) E := by
  intro b
  induction b with
  | nil => intro f lit out _; simp [quoteFlip]
  | cons c b ih =>
    intro f lit out h
    have e : f + (c :: b).length = (f + b.length) + 1 := by simp; omega
    rw [e, List.cons_append]
    by_cases h34 : c = 34
    · subst h34
      have hb : dataOK R (!lit) b = true := by
        cases lit <;> simpa [dataOK, printable] using h
      rw [lst_quote, ih f _ _ hb]; simp [quoteFlip]
    · have e34 : (c == 34) = false := by simpa using h34
      cases lit with
      | false =>
        simp only [dataOK, Bool.and_eq_true, e34] at h
        have hc : 32 ≤ c ∧ c ≤ 126 := by simpa [printable] using h.1.1
        rw [lst_char old t cd _ false false out c _ (by omega) h34 (not_lead_of_ge hc.1) (Or.inr (Or.inr hc)),
          ih f _ _ h.2]
        simp [quoteFlip, h34]
      | true =>
        simp only [dataOK, Bool.and_eq_true, e34, Bool.false_or] at h
        have hc := strChar_facts h.1
        have hb : dataOK R true b = true := by
          have e : (c != 34) = true := by simpa using h34
          have h2 := h.2
          rw [e] at h2
          exact h2
        rw [lst_char old t cd _ true false out c _ hc.1 h34 hc.2.2.2 (Or.inr (Or.inl rfl)), ih f _ _ hb]
        simp [quoteFlip, h34]

/-- a DATA body that ends before a `:` ends outside a quoted item -/
theorem dataOK_flip (R : Bytes) (hR : R ≠ []) : ∀ (b : Bytes) (q : Bool), dataOK R q b = true → quoteFlip q b = false := by
  intro b
  induction b with
  | nil =>
    intro q h
    cases R with
    | nil => exact absurd rfl hR
    | cons r R' =>
      simp only [dataOK, List.isEmpty_cons, Bool.false_or, Bool.and_eq_true, Bool.not_eq_true'] at h
      simpa [quoteFlip] using h.1
  | cons c b ih =>
    intro q h
    cases q with
    | false =>
      simp only [dataOK, Bool.and_eq_true] at h
      have := ih _ h.2
      by_cases h34 : c = 34
      · subst h34; simpa [quoteFlip] using this
      · have e : (c == 34) = false := by simpa using h34
        rw [e] at this
        simpa [quoteFlip, h34] using this
    | true =>
      simp only [dataOK, Bool.and_eq_true] at h
      have := ih _ h.2
      by_cases h34 : c = 34
      · subst h34; simpa [quoteFlip] using this
      · have e : (c != 34) = true := by simpa using h34
        rw [e] at this
        simpa [quoteFlip, h34] using this

/-! ## `?` -/

theorem tok_qmark (t : Table) (cd : Codec) (f : Nat) (s : St) (R : Bytes) :
    tokLoop false t cd (f + 1) s (63 :: R) = prepend [tPRINT] (tokLoop false t cd f { s with aj := false, an := true } R) := by
  simp [tokLoop, isBlank, isDigit, asciiOperators]


/-! ## `GO TO`, `GO SUB` -/

theorem upper_eq_facts {c : Nat} : (upper c = 71 → isNameChar c = true) := by
  intro h
  have : isNameChar (upper c) = true := by rw [h]; decide
  rwa [isNameChar_upper] at this

/-- `GO` followed by something `_tokenise_wide_goto_gosub` accepts -/
theorem scanWord_go (t : Table) (g o : Nat) (cs word tok r : Bytes) (allow : Bool) (hg : upper g = 71) (ho : upper o = 79)
    (hG : toToken t [71] = none) (hw : wideGo cs = some (word, r, allow)) (ht : toToken t word = some tok) :
    scanWord t [] (g :: o :: cs) = (word, emitKw word tok, r) := by
  have h1 : (([71] : Bytes) == kwGo) = false := by decide
  have hn := upper_eq_facts hg
  have e1 : scanWord t [] (g :: o :: cs) = scanWord t [71] (o :: cs) := by
    conv => lhs; unfold scanWord
    simp only [List.nil_append, hg, h1, Bool.false_eq_true, if_false, hG, hn, Bool.not_true]
  have h2 : ([71] ++ [upper o] == kwGo) = true := by rw [ho]; decide
  rw [e1]
  conv => lhs; unfold scanWord
  simp only [h2, if_true, hw, ht]

theorem wideGo_sub (s u b : Nat) (R : Bytes) (hs : upper s = 83) (hu : upper u = 85) (hb : upper b = 66) :
    wideGo (32 :: s :: u :: b :: R) = some (kwGosub, R, true) := by
  have h32 : upper 32 = 32 := by decide
  simp [wideGo, hs, hu, hb, h32]

theorem wideGo_to1 (tt oo x : Nat) (R : Bytes) (ht : upper tt = 84) (ho : upper oo = 79) (hx : isNameChar x = false) :
    wideGo (32 :: tt :: oo :: x :: R) = some (kwGoto, x :: R, false) := by
  have h32 : upper 32 = 32 := by decide
  have hx' : isNameChar (upper x) = false := by rw [isNameChar_upper]; exact hx
  simp [wideGo, ht, ho, h32, hx']

theorem dropWhile_spaces (n : Nat) (c : Nat) (R : Bytes) (hc : c ≠ 32) :
    (List.replicate n 32 ++ c :: R).dropWhile (· == 32) = c :: R := by
  induction n with
  | zero => simp [List.dropWhile, hc]
  | succ n ih => simp [List.replicate_succ, List.dropWhile, ih]

theorem wideGo_toN (n : Nat) (tt oo : Nat) (R : Bytes) (ht : upper tt = 84) (ho : upper oo = 79) :
    wideGo (32 :: 32 :: (List.replicate n 32 ++ tt :: oo :: R)) = some (kwGoto, R, true) := by
  have h32 : upper 32 = 32 := by decide
  have htt : tt ≠ 32 := by intro e; subst e; simp [h32] at ht
  have hd : (32 :: 32 :: (List.replicate n 32 ++ tt :: oo :: R)).dropWhile (· == 32) = tt :: oo :: R := by
    simp [List.dropWhile, dropWhile_spaces n tt (oo :: R) htt]
  unfold wideGo
  rw [hd]
  cases n with
  | zero => simp [h32, ht, ho]
  | succ n =>
    cases n with
    | zero => simp [h32, ht, ho, List.replicate]
    | succ n => simp [h32, ht, ho, List.replicate]

end PcbV.TokL
