import PcbV.Model.ErrTrap
/-
  Driver for C21: `sess <fixed 0|1> <fuel> <program> <direct line> <direct line> …`
    program: lines separated by `|`, a line is `<number>:<stmt>;<stmt>…` (`-` = empty program);
    a direct line is `<stmt>;<stmt>…`; statement fields are separated by `,`:
      M,k  P  E,n  F,e  C,v,e  S,e  T,v  U,n  R  G,n  O,n  Z  ZN  ZL,n  X  I  Q,n  RUN
      N  D,k  K,k+k…,v,e  A,v,e  B
  Reply: `ok <exec>/<exec>/…`, one `<items>:<status>` per direct line; items `m<k>`, `e<err>.<erl>`, `s<e>`
  comma separated or `-`; status `ok`, `err<e>@<line>`, `err<e>` (message without line), `fuel`.
-/
namespace PcbV.Drv.C21
open PcbV PcbV.ErrTrap

def parseStmt (s : String) : Option Stmt :=
  match s.splitOn "," with
  | ["M", k] => k.toNat?.map .mark
  | ["P"] => some .printErr
  | ["E", n] => n.toNat?.map .error
  | ["F", e] => e.toNat?.map .fault
  | ["C", v, e] => do pure (.cfault (← v.toNat?) (← e.toNat?))
  | ["S", e] => e.toNat?.map .soft
  | ["T", v] => v.toNat?.map .setFlag
  | ["U", n] => n.toNat?.map .gosub
  | ["R"] => some .ret
  | ["G", n] => n.toNat?.map .goto
  | ["O", n] => n.toNat?.map .onErr
  | ["Z"] => some .resume
  | ["ZN"] => some .resumeNext
  | ["ZL", n] => n.toNat?.map .resumeLine
  | ["X"] => some .end_
  | ["I"] => some .inc
  | ["Q", n] => n.toNat?.map .endIf
  | ["RUN"] => some .run
  | ["N"] => some .nop
  | ["D", k] => k.toNat?.map .defFn
  | ["K", ks, v, e] => do pure (.fnc (← (ks.splitOn "+").mapM (·.toNat?)) (← v.toNat?) (← e.toNat?))
  | ["A", v, e] => do pure (.forc (← v.toNat?) (← e.toNat?))
  | ["B"] => some .nextq
  | _ => none

def parseStmts (s : String) : Option (List Stmt) := (s.splitOn ";").mapM parseStmt

def parseLine (s : String) : Option Line :=
  match s.splitOn ":" with
  | [n, body] => do pure ⟨← n.toNat?, ← parseStmts body⟩
  | _ => none

def parseProg (s : String) : Option (List Line) :=
  if s == "-" then some [] else (s.splitOn "|").mapM parseLine

def showItem : Item → String
  | .mark k => "m" ++ toString k
  | .errerl e l => "e" ++ toString e ++ "." ++ toString l
  | .soft e => "s" ++ toString e

def showItems (l : List Item) : String := if l.isEmpty then "-" else ",".intercalate (l.map showItem)

def showStatus : Status → String
  | .ok => "ok"
  | .err e (some n) => "err" ++ toString e ++ "@" ++ toString n
  | .err e none => "err" ++ toString e
  | .fuel => "fuel"

def handle : List String → String
  | "sess" :: fixed :: fuel :: prog :: dls =>
    match fuel.toNat?, parseProg prog, dls.mapM parseStmts with
    | some fuel, some p, some dls =>
      let r := session (fixed == "1") (flatten p) fuel St.init dls
      "ok " ++ "/".intercalate (r.map (fun x => showItems x.1 ++ ":" ++ showStatus x.2))
    | _, _, _ => "bad-op"
  | _ => "bad-op"

end PcbV.Drv.C21
