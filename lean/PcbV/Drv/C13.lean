import PcbV.Model.Program
namespace PcbV.Drv.C13
open PcbV PcbV.Program

/-- digest of a list of numbers (same function in props/c13.py) -/
def digest (l : List Nat) : Nat := l.foldl (fun h x => (h * 257 + x + 1) % 1000000007) 7

def flat (d : List (Nat × Nat)) : List Nat := d.flatMap (fun e => [e.1, e.2])

/-- Python dict built by successive item assignment, shown sorted by key -/
def canonIns (e : Nat × Nat) : List (Nat × Nat) → List (Nat × Nat)
  | [] => [e]
  | f :: fs => if e.1 < f.1 then e :: f :: fs else if e.1 = f.1 then e :: fs else f :: canonIns e fs

def canon (d : List (Nat × Nat)) : List (Nat × Nat) := d.foldl (fun acc e => canonIns e acc) []

def parseRec (w : String) : Option Rec :=
  match w.splitOn "." with
  | [n, body] => do
      let n ← n.toNat?
      let b ← ofHex body
      pure (n, b)
  | _ => none

def parseOp (w : String) : Option (PState → R PState) :=
  match w.splitOn ":" with
  | ["n"] => some (fun s => .ok (new s))
  | ["s", n, body] => do
      let n ← n.toNat?
      let b ← ofHex body
      pure (fun s => store s n b)
  | ["so", n, body] => do
      let n ← n.toNat?
      let b ← ofHex body
      pure (fun s => storeG true s n b)
  | ["d", a, b] => do
      let a ← if a == "-" then some none else a.toNat?.map some
      let b ← if b == "-" then some none else b.toNat?.map some
      pure (fun s => deleteOpt s a b)
  | ["x", e] => do
      -- an operation outside the model (RENUM) that was refused: state unchanged, error e
      let e ← e.toNat?
      pure (fun _ => .error e)
  | ["l", recs] => do
      -- re-synchronisation after an operation outside the model (an accepted RENUM): the state that
      -- represents the given records `n.hexbody,n.hexbody,…` (`-` = no lines)
      let rs ← if recs == "-" then some [] else (recs.splitOn ",").mapM parseRec
      pure (fun s => .ok { s with code := ser (s.codeStart + 1) rs, dict := dictOf rs })
  | _ => none

def showChain (c : List (Nat × Nat) × Option Nat) : List Nat :=
  flat c.1 ++ [match c.2 with | some p => p + 1 | none => 0]

def showStep (st : String) (s : PState) : String :=
  let ll := listLines s
  st ++ ":" ++ toString s.code.length ++ ":" ++ toString (digest s.code) ++ ":" ++
    toString (digest (flat s.dict)) ++ ":" ++ toString (digest (flat (canon (rescan s.code)))) ++ ":" ++
    toString (digest (showChain (chain s))) ++ ":" ++ toString (digest (ll.map (·.1)))

def runOps (s : PState) : List (PState → R PState) → List String → PState × List String
  | [], acc => (s, acc.reverse)
  | f :: fs, acc =>
    match f s with
    | .ok s' => runOps s' fs (showStep "ok" s' :: acc)
    | .error e => runOps s fs (showStep ("e" ++ toString e) s :: acc)

def handle : List String → String
  | ["run", cs, limit, ops] =>
    match cs.toNat?, limit.toNat?, (ops.splitOn ";").mapM parseOp with
    | some cs, some limit, some fs =>
      let (s, outs) := runOps (init cs limit) fs []
      "ok " ++ " ".intercalate outs ++ " | " ++ toHex s.code ++ " " ++ showNats (flat s.dict) ++ " " ++
        showNats ((listLines s).map (·.1))
    | _, _, _ => "bad-op"
  | ["wf", body] =>
    match ofHex body with
    | some b => "ok " ++ showBool (wfBody b) ++ " " ++ showBool (bodyEmpty b)
    | none => "bad-op"
  | ["rescan", old, code] =>
    match ofHex code with
    | some c => "ok " ++ showNats (flat (canon (rescanG (old == "1") c)))
    | none => "bad-op"
  | _ => "bad-op"

end PcbV.Drv.C13
