/-
  C24 — Sequential files return what was written.

  Model: PcbV.Model.SeqFile (TextFile / TextFileBase / InputMixin / NewlineWrapper / Files.write_ on byte lists).
  `soft = true` is the option soft_linefeed=True (the stream is read raw, as GW-BASIC does); `soft = false` is the
  default, where codepage.NewlineWrapper delivers CR LF as CR and every other LF as CR.

  Numbers: the number printer and parser are parameters.  A WRITE# number item carries the text `showNum v`; the
  theorems say that INPUT# hands exactly that text to the parser, hence the value read is `readNum (showNum v)`
  ("the value of the written representation"; how close that is to `v` is property C07).  The contract on the
  text is `numOk`: not empty, fewer than 255 bytes, none of blank, NUL, LF, CR, comma, 1A.

  Exclusions (exactly what the code needs; each has a counterexample theorem below or is in the statement):
    strings : no `"` (22), no NUL, no 1A, fewer than 255 bytes; with soft = false also no LF
    lines   : no CR, no 1A, at most 254 bytes, last byte not LF; with soft = false no LF at all
    WRITE# statements have at least one item (the interpreter rejects `WRITE #1` without items)

  Vocabulary (PcbV.Lemmas.C24Defs): `Val` = a string or a number; `Val.item showNum` its WRITE# item; `Val.back` what
  it must come back as; `valOk` the exclusions; `readBack` = INPUT# of every item + from_repr; `writtenFile ss` =
  OPEN FOR OUTPUT, WRITE# …, CLOSE; `printedFile ls` the same with PRINT# lines; `appendSession file ss` = one more
  OPEN FOR APPEND … CLOSE.  `strOk`, `numOk`, `lineOk`, `itemOk`, `expect` are in PcbV.Lemmas.SeqFileEntry/Write.
-/
import PcbV.Lemmas.C24Defs
namespace PcbV.C24
open PcbV PcbV.SeqFile

/-- **WRITE# then INPUT# returns what was written.**  For every list of WRITE# statements (each with at least one
item) whose strings obey the exclusions and whose number texts obey the printer contract, in both newline modes:
reading the items back in order with INPUT# yields every string unchanged and every number as the value of its
written text. -/
theorem write_input_roundtrip {V : Type} (showNum : V → Bytes) (readNum : Bytes → V) (soft : Bool)
    (vss : List (List (Val V))) (hne : ∀ vs ∈ vss, vs ≠ [])
    (hok : ∀ vs ∈ vss, ∀ v ∈ vs, valOk showNum soft v) :
    readBack readNum (vss.flatten.map (fun v => (v.item showNum).isStr))
      (openIn soft (writtenFile (vss.map (List.map (Val.item showNum)))))
    = vss.flatten.map (fun v => .ok (v.back showNum readNum)) := by
  have hi := items_ok showNum soft vss hok
  have hne' : ∀ st ∈ vss.map (List.map (Val.item showNum)), st ≠ [] := by
    intro st hst; simp at hst; obtain ⟨vs, hvs, rfl⟩ := hst
    simpa using hne vs hvs
  have h := (roundtrip_core soft _ hne' hi.1 hi.2).1
  have hf : (vss.map (List.map (Val.item showNum))).flatten = vss.flatten.map (Val.item showNum) := by
    simp [List.map_flatten]
  rw [hf] at h
  unfold readBack
  rw [writtenFile_eq]
  have hk : vss.flatten.map (fun v => (v.item showNum).isStr) = (vss.flatten.map (Val.item showNum)).map Item.isStr := by
    rw [List.map_map]; rfl
  rw [hk, h]
  exact zip_decode showNum readNum vss.flatten

/-- with a printer/parser pair that round-trips (the contract discharged by C07 for the real pair on the values
it covers), exactly the values written come back -/
theorem write_input_roundtrip_exact {V : Type} (showNum : V → Bytes) (readNum : Bytes → V) (soft : Bool)
    (hrt : ∀ v, readNum (showNum v) = v)
    (vss : List (List (Val V))) (hne : ∀ vs ∈ vss, vs ≠ [])
    (hok : ∀ vs ∈ vss, ∀ v ∈ vs, valOk showNum soft v) :
    readBack readNum (vss.flatten.map (fun v => (v.item showNum).isStr))
      (openIn soft (writtenFile (vss.map (List.map (Val.item showNum)))))
    = vss.flatten.map (fun v => .ok v) := by
  rw [write_input_roundtrip showNum readNum soft vss hne hok]
  apply List.map_congr_left
  intro v _
  cases v <;> simp [Val.back, hrt]

/-- **PRINT# of lines then LINE INPUT# returns the same lines** (lines of at most 254 bytes without CR/1A, not
ending in LF; without any LF in the default newline mode). -/
theorem print_lineinput_roundtrip (soft : Bool) (ls : List Bytes) (hok : ∀ l ∈ ls, lineOk l)
    (hlf : soft = false → ∀ l ∈ ls, 10 ∉ l) :
    (readLines ls.length (openIn soft (printedFile ls))).1.map (·.1) = ls.map (fun l => .ok l) := by
  rw [printedFile_eq, (lines_core soft ls hok hlf).1, expectLines_words]

/-- **EOF becomes true exactly after the last item** (INPUT# after WRITE#): EOF(f) straight after OPEN is true iff
nothing was written, and EOF(f) evaluated after the i-th item (0-based) is true iff i + 1 = number of items. -/
theorem eof_exactly_after_last (soft : Bool) (ss : List (List Item)) (hne : ∀ st ∈ ss, st ≠ [])
    (hok : ∀ st ∈ ss, ∀ it ∈ st, itemOk it) (hlf : soft = false → ∀ st ∈ ss, ∀ it ∈ st, 10 ∉ it.bytes) :
    (openIn soft (writtenFile ss)).eof.1 = ss.flatten.isEmpty ∧
    (readEntries (ss.flatten.map Item.isStr) (openIn soft (writtenFile ss))).1.map (·.2)
      = ss.flatten.zipIdx.map (fun p => decide (p.2 + 1 = ss.flatten.length)) := by
  have h := roundtrip_core soft ss hne hok hlf
  rw [writtenFile_eq]
  exact ⟨h.2.2, by rw [h.1, expect_flags]⟩

/-- the same for LINE INPUT# after PRINT# -/
theorem eof_exactly_after_last_line (soft : Bool) (ls : List Bytes) (hok : ∀ l ∈ ls, lineOk l)
    (hlf : soft = false → ∀ l ∈ ls, 10 ∉ l) :
    (openIn soft (printedFile ls)).eof.1 = ls.isEmpty ∧
    (readLines ls.length (openIn soft (printedFile ls))).1.map (·.2)
      = ls.zipIdx.map (fun p => decide (p.2 + 1 = ls.length)) := by
  have h := lines_core soft ls hok hlf
  rw [printedFile_eq]
  exact ⟨h.2.2, by rw [h.1, expectLines_flags]⟩

/-- **LOF is the number of bytes in the file**: while writing (OUTPUT or APPEND on any existing file, default
width) it is the length of what is on disk so far — the kept old content plus every byte written —, straight
after OPEN FOR INPUT it is the file length, and it still is after all items/lines were read. -/
theorem lof_is_length (soft : Bool) (old : Bytes) (ss : List (List Item)) (ls : List Bytes) :
    (writeAll ss (openAppend old)).lof = (stripEof old).length + (stmtsBytes ss).length ∧
    (printAll ls (openAppend old)).lof = (stripEof old).length + (linesBytes ls).length ∧
    (writeAll ss openOut).lof = (stmtsBytes ss).length ∧
    (openIn soft old).lof = old.length ∧
    ((∀ st ∈ ss, st ≠ []) → (∀ st ∈ ss, ∀ it ∈ st, itemOk it) →
      (soft = false → ∀ st ∈ ss, ∀ it ∈ st, 10 ∉ it.bytes) →
      (readEntries (ss.flatten.map Item.isStr) (openIn soft (writtenFile ss))).2.lof = (writtenFile ss).length) ∧
    ((∀ l ∈ ls, lineOk l) → (soft = false → ∀ l ∈ ls, 10 ∉ l) →
      (readLines ls.length (openIn soft (printedFile ls))).2.lof = (printedFile ls).length) := by
  refine ⟨?_, ?_, ?_, rfl, ?_, ?_⟩
  · rw [Wr.lof, (writeAll_spec ss (openAppend old) rfl).1]; simp [openAppend]
  · rw [Wr.lof, (printAll_spec ls (openAppend old) rfl).1]; simp [openAppend]
  · rw [Wr.lof, (writeAll_spec ss openOut rfl).1]; simp [openOut]
  · intro hne hok hlf
    rw [writtenFile_eq]
    exact (roundtrip_core soft ss hne hok hlf).2.1
  · intro hok hlf
    rw [printedFile_eq]
    exact (lines_core soft ls hok hlf).2.1

/-- **APPEND adds after the existing content.**  On any host file: one trailing 1A (if present) is cut, the new
statements follow the old bytes, and CLOSE ends the file with 1A again.  Hence a file written in several
OPEN/CLOSE sessions is byte-identical to the file written in one session. -/
theorem append_after_existing (old : Bytes) (ss ss1 ss2 : List (List Item)) :
    appendSession old ss = stripEof old ++ stmtsBytes ss ++ [26] ∧
    (∀ d, old = d ++ [26] → appendSession old ss = d ++ stmtsBytes ss ++ [26]) ∧
    (old.getLast? ≠ some 26 → appendSession old ss = old ++ stmtsBytes ss ++ [26]) ∧
    appendSession (writtenFile ss1) ss2 = writtenFile (ss1 ++ ss2) ∧
    appendSession [] ss = writtenFile ss := by
  have h : appendSession old ss = stripEof old ++ stmtsBytes ss ++ [26] := by
    rw [appendSession, close_writeAll ss (openAppend old) rfl]; simp [openAppend]
  refine ⟨h, ?_, ?_, ?_, ?_⟩
  · intro d hd; rw [h, hd, stripEof_snoc]
  · intro hl; rw [h, stripEof_other old hl]
  · rw [appendSession, close_writeAll ss2 (openAppend (writtenFile ss1)) rfl]
    simp [openAppend, writtenFile_eq, stripEof_snoc, stmtsBytes]
  · rw [appendSession, close_writeAll ss (openAppend []) rfl]
    simp [openAppend, writtenFile_eq, stripEof]

/-- the round trip across sessions: items written in a first session and appended in a second come back in order -/
theorem write_input_roundtrip_sessions (soft : Bool) (ss1 ss2 : List (List Item))
    (hne : ∀ st ∈ ss1 ++ ss2, st ≠ []) (hok : ∀ st ∈ ss1 ++ ss2, ∀ it ∈ st, itemOk it)
    (hlf : soft = false → ∀ st ∈ ss1 ++ ss2, ∀ it ∈ st, 10 ∉ it.bytes) :
    (readEntries ((ss1 ++ ss2).flatten.map Item.isStr) (openIn soft (appendSession (writtenFile ss1) ss2))).1
      = expect (ss1 ++ ss2).flatten := by
  rw [(append_after_existing [] [] ss1 ss2).2.2.2.1, writtenFile_eq]
  exact (roundtrip_core soft (ss1 ++ ss2) hne hok hlf).1

/-! ### target variables typed by DEFSTR/DEFINT/DEFSNG/DEFDBL -/

/-- **Which type INPUT# / LINE INPUT# / WRITE# give a variable** (Memory.complete_name): an explicit sigil
decides, whatever the DEFtype table says; a name without sigil has the DEFtype of its initial letter (case
folded); and after `DEFxxx a-b` exactly the letters a..b have the new type. -/
theorem var_type_from_completed_name (tab : DefTab) (c l : Nat) (mid : Bytes) :
    (isSigil l = true → varIsStr tab (c :: mid ++ [l]) = decide (l = 36)) ∧
    (isSigil l = false → varIsStr tab (c :: mid ++ [l]) = decide (tab.getD (upperByte c - 65) 33 = 36)) ∧
    (isSigil c = false → varIsStr tab [c] = decide (tab.getD (upperByte c - 65) 33 = 36)) ∧
    (∀ sg a b, tab.length = 26 → b < 26 → isSigil l = false →
      varIsStr (defType tab sg a b) (c :: mid ++ [l]) =
        if a ≤ upperByte c - 65 ∧ upperByte c - 65 ≤ b then decide (sg = 36) else varIsStr tab (c :: mid ++ [l])) := by
  have hbare : ∀ t : DefTab, isSigil l = false →
      varIsStr t (c :: mid ++ [l]) = decide (t.getD (upperByte c - 65) 33 = 36) := by
    intro t hs
    rw [List.cons_append, varIsStr_snoc]; simp [hs]
  refine ⟨?_, hbare tab, ?_, ?_⟩
  · intro hs
    rw [List.cons_append, varIsStr_snoc]; simp [hs]
  · intro hs
    simp [varIsStr, completeName, hs]
  · intro sg a b hlen hb hs
    rw [hbare _ hs, hbare _ hs, (defType_spec tab sg a b (upperByte c - 65) hlen hb).2]
    split <;> rfl

/-- **The round trip with variables**: every WRITE# item is a variable (written name, content) and is read back
into a variable whose completed name has the same type (by sigil or by DEFtype); then INPUT# returns the items
written, EOF exactly after the last. -/
theorem write_input_roundtrip_vars (soft : Bool) (tab : DefTab) (vss : List (List (Bytes × Bytes × Bytes)))
    (hne : ∀ vs ∈ vss, vs ≠ [])
    (htype : ∀ vs ∈ vss, ∀ v ∈ vs, varIsStr tab v.2.2 = varIsStr tab v.1)
    (hok : ∀ vs ∈ vss, ∀ v ∈ vs, itemOk (itemOfVar tab v.1 v.2.1))
    (hlf : soft = false → ∀ vs ∈ vss, ∀ v ∈ vs, 10 ∉ (itemOfVar tab v.1 v.2.1).bytes) :
    (readVars tab (vss.flatten.map (·.2.2))
      (openIn soft (writtenFile (vss.map (List.map (fun v => itemOfVar tab v.1 v.2.1)))))).1
    = expect (vss.flatten.map (fun v => itemOfVar tab v.1 v.2.1)) := by
  have hf : (vss.map (List.map (fun v => itemOfVar tab v.1 v.2.1))).flatten
      = vss.flatten.map (fun v => itemOfVar tab v.1 v.2.1) := by simp [List.map_flatten]
  have hk : (vss.flatten.map (·.2.2)).map (varIsStr tab)
      = (vss.flatten.map (fun v => itemOfVar tab v.1 v.2.1)).map Item.isStr := by
    rw [List.map_map, List.map_map]
    apply List.map_congr_left
    intro v hv
    obtain ⟨vs, hvs, hv'⟩ := List.mem_flatten.mp hv
    simp [itemOfVar_isStr, htype vs hvs v hv']
  have h := roundtrip_core_words soft (vss.map (List.map (fun v => itemOfVar tab v.1 v.2.1)))
    (by intro st hst; obtain ⟨vs, hvs, rfl⟩ := List.mem_map.mp hst; simpa using hne vs hvs)
    (by intro st hst it hit; obtain ⟨vs, hvs, rfl⟩ := List.mem_map.mp hst
        obtain ⟨v, hv, rfl⟩ := List.mem_map.mp hit; exact hok vs hvs v hv)
    (by intro hs st hst it hit; obtain ⟨vs, hvs, rfl⟩ := List.mem_map.mp hst
        obtain ⟨v, hv, rfl⟩ := List.mem_map.mp hit; exact hlf hs vs hvs v hv)
  rw [hf] at h
  unfold readVars
  rw [hk]; exact h

/-- LINE INPUT# into a variable whose completed name is not a string is a Type mismatch and consumes nothing;
into a string variable (by sigil or DEFSTR) it is LINE INPUT# -/
theorem line_input_var_type (tab : DefTab) (r : Rd) (name : Bytes) :
    (varIsStr tab name = false → r.lineInputVar tab name = (.error Gen.E.type_mismatch, r)) ∧
    (varIsStr tab name = true → r.lineInputVar tab name = r.lineInput) := by
  constructor <;> intro h <;> simp [Rd.lineInputVar, h]

/-- non-vacuity: DEFSTR R-S makes `R0` and `s1(` string variables, leaves `N0` numeric, and `R0%` stays numeric -/
example : varIsStr (defType defaultTab 36 17 18) [82, 48] = true ∧ varIsStr (defType defaultTab 36 17 18) [115] = true ∧
    varIsStr (defType defaultTab 36 17 18) [78, 48] = false ∧ varIsStr (defType defaultTab 36 17 18) [82, 48, 37] = false ∧
    varIsStr defaultTab [82, 48] = false := by decide

/-! ### non-vacuity -/

example : strOk [32, 44, 65, 13, 10, 255, 9] := by
  refine ⟨?_, by decide⟩
  intro b hb; simp at hb; rcases hb with rfl | rfl | rfl | rfl | rfl | rfl | rfl <;> decide

example : numOk [45, 51, 46, 50, 53, 68, 43, 50, 48] := by   -- "-3.25D+20"
  refine ⟨by decide, ?_, by decide⟩
  intro b hb; simp at hb
  rcases hb with rfl | rfl | rfl | rfl | rfl | rfl | rfl | rfl | rfl <;> simp [numByteOk]

example : lineOk [65, 10, 0, 34, 44, 66] := by
  refine ⟨?_, by decide, by decide⟩
  intro b hb; simp at hb; rcases hb with rfl | rfl | rfl | rfl | rfl | rfl <;> decide

/-- a concrete two-statement file in both modes, computed by the model -/
example : (readEntries [true, false, true] (openIn false (writtenFile [[.str [97, 44, 32], .num [49, 50]], [.str []]]))).1
    = [(.ok [97, 44, 32], false), (.ok [49, 50], false), (.ok [], true)] := by decide
example : (readEntries [true, false] (openIn true (writtenFile [[.str [13, 10, 113], .num [49]]]))).1
    = [(.ok [13, 10, 113], false), (.ok [49], true)] := by decide

/-! ### the deviations, on the model -/

/-- the defect repaired by pending fix C24-quoted-leading-crlf: the code before the repair (soft_linefeed=True)
lost the LF of a CR LF at the start of a quoted string; the repaired code returns the string -/
theorem quoted_leading_crlf_counterexample :
    ((openIn true (writtenFile [[.str [13, 10, 113]]])).inputEntryOld true).1 = .ok ([13, 113], [13]) ∧
    ((openIn true (writtenFile [[.str [13, 10, 113]]])).inputEntry true).1 = .ok ([13, 10, 113], [13]) := by
  decide

/-- known finding S7: in the default newline mode an LF inside a quoted string comes back as CR -/
theorem lf_default_mode_counterexample :
    ((openIn false (writtenFile [[.str [97, 10, 98]]])).inputEntry true).1 = .ok ([97, 13, 98], [13]) := by
  decide

/-- known finding S8: with soft_linefeed a line ending in LF is joined with the next one (LF CR is no line end) -/
theorem line_trailing_lf_counterexample :
    ((openIn true (printedFile [[97, 10], [98]])).lineInput).1 = .ok [97, 10, 13, 10, 98] := by
  decide

/-- known finding S5: after a 255-byte string the closing quote is left unread; the next numeric item reads `"`
(so the hypothesis `length < 255` of `strOk` cannot be dropped) -/
theorem write_input_255_counterexample :
    (readEntries [true, false] (openIn true (writtenFile [[.str (List.replicate 255 65), .num [49]]]))).1.map (·.1)
      = [.ok (List.replicate 255 65), .ok [34]] := by
  decide +kernel

/-- known finding S6: after a 255-byte line LINE INPUT# leaves the line end unread; the next call returns an empty
line and EOF is reached one call late (so `length ≤ 254` in `lineOk` cannot be relaxed) -/
theorem print_lineinput_255_counterexample :
    (readLines 3 (openIn true (printedFile [List.replicate 255 65, [66]]))).1
      = [(.ok (List.replicate 255 65), false), (.ok [], false), (.ok [66], true)] := by
  decide +kernel

end PcbV.C24
