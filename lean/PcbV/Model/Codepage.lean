import PcbV.Basic
import PcbV.Gen.Codepages
/-
  Model of `pcbasic/basic/codepage.py`:
    * `Converter` (the buffered DBCS splitter `_mark` / `_process*` / `_flush`, with box-drawing
      protection) as a state machine over bytes with ABSTRACT predicates lead / trail / box-left /
      box-right / preserve (`Preds`), fed in chunks;
    * `Codepage.__init__` (printable-ASCII substitution, lead/trail/box sets, NUL fill, inverse
      dictionaries), `_split_unicode`, `_from_unicode`, `unicode_to_bytes`, `codepoint_to_unicode`,
      `bytes_to_unicode`, `Converter.to_unicode_list`.
  Unicode clusters are lists of code points AFTER `unicodedata.normalize('NFC', ·)` – NFC is a host
  function and is not modelled (the harness normalises what it sends).
  Modelling preconditions (true of every shipped .ucp file, checked by the harness):
  the codepage dict has keys of length 1 or 2 and non-empty clusters; `preserve` holds single bytes.
-/
namespace PcbV.Codepage
open PcbV

abbrev Cluster := List Nat

/-! ## Converter -/

/-- what the Converter reads from its codepage and its `preserve` set -/
structure Preds where
  lead : Nat → Bool
  trail : Nat → Bool
  /-- `c in codepage._box_left[bset]` -/
  boxL : Nat → Nat → Bool
  /-- `c in codepage._box_right[bset]` -/
  boxR : Nat → Nat → Bool
  preserve : Nat → Bool

/-- `_buf`, `_bset` (`none` = -1), `_last` (`none` = b'') -/
structure St where
  buf : Bytes := []
  bset : Option Nat := none
  last : Option Nat := none
deriving DecidableEq, Repr

/-- `Codepage.connects(c, d, bset)`; `c` is a bytes object of length 0 or 1 (`none` = b'') -/
def connects (p : Preds) (c : Option Nat) (d : Nat) (b : Nat) : Bool :=
  match c with
  | some c => p.boxR b c && p.boxL b d
  | none => false

/-- a whole buffer used as a set key: only a one-byte buffer can be a member -/
def whole : Bytes → Option Nat
  | [x] => some x
  | _ => none

/-- `_flush(num)` -/
def flushN (s : St) (n : Nat) : St × List Bytes :=
  ({ s with buf := s.buf.drop n }, if s.buf = [] then [] else [s.buf.take n])

/-- `_flush()` -/
def flush (s : St) : St × List Bytes := flushN s s.buf.length

def case0 (p : Preds) (s : St) (c : Nat) : St × List Bytes :=
  if !p.lead c then (s, [[c]]) else ({ s with buf := s.buf ++ [c] }, [])

def case1 (p : Preds) (s : St) (c : Nat) : St × List Bytes :=
  if !p.trail c then ((flush s).1, (flush s).2 ++ [[c]])
  else if connects p (whole s.buf) c 0 then ({ s with bset := some 0, buf := s.buf ++ [c] }, [])
  else if connects p (whole s.buf) c 1 then ({ s with bset := some 1, buf := s.buf ++ [c] }, [])
  else ({ s with buf := s.buf ++ [c] }, [])

def case2 (p : Preds) (s : St) (c : Nat) : St × List Bytes :=
  if !p.lead c then ((flush s).1, (flush s).2 ++ [[c]])
  else if connects p s.buf.getLast? c 0 then
    let r := flushN { s with bset := some 0 } 1
    ({ r.1 with buf := r.1.buf ++ [c] }, r.2)
  else if connects p s.buf.getLast? c 1 then
    let r := flushN { s with bset := some 1 } 1
    ({ r.1 with buf := r.1.buf ++ [c] }, r.2)
  else
    let r := flush s
    ({ r.1 with buf := r.1.buf ++ [c] }, r.2)

def case3 (p : Preds) (s : St) (c : Nat) (b : Nat) : St × List Bytes :=
  if !p.lead c then ((flush s).1, (flush s).2 ++ [[c]])
  else if connects p s.buf.getLast? c b then
    let r1 := flushN { s with last := s.buf.getLast? } 1
    let r2 := flushN r1.1 1
    (r2.1, r1.2 ++ r2.2 ++ [[c]])
  else
    let r := flush s
    ({ r.1 with buf := [c], bset := none }, r.2)

def case4 (p : Preds) (s : St) (c : Nat) (b : Nat) : St × List Bytes :=
  if !p.lead c then (s, [[c]])
  else if connects p s.last c b then ({ s with last := some c }, [[c]])
  else ({ s with buf := s.buf ++ [c], bset := none }, [])

/-- `_process` with box protection; the two "not allowed" branches emit nothing (and lose `c`) -/
def processBox (p : Preds) (s : St) (c : Nat) : St × List Bytes :=
  if p.preserve c then
    ({ (flush s).1 with bset := none, last := none }, (flush s).2 ++ [[c]])
  else match s.bset with
    | none =>
      match s.buf with
      | [] => case0 p s c
      | [_] => case1 p s c
      | [_, _] => case2 p s c
      | _ => (s, [])
    | some b =>
      match s.buf with
      | [_, _] => case3 p s c b
      | [] => case4 p s c b
      | _ => (s, [])

/-- `_process_nobox` -/
def processNobox (p : Preds) (s : St) (c : Nat) : St × List Bytes :=
  if p.preserve c then ((flush s).1, (flush s).2 ++ [[c]])
  else if s.buf ≠ [] ∧ p.trail c then flush { s with buf := s.buf ++ [c] }
  else
    let r := if s.buf ≠ [] then flush s else (s, [])
    if p.lead c then ({ r.1 with buf := [c] }, r.2) else (r.1, r.2 ++ [[c]])

def process (p : Preds) (box : Bool) (s : St) (c : Nat) : St × List Bytes :=
  if box then processBox p s c else processNobox p s c

/-- the comprehension `[seq for c in s for seq in self._process(c)]` -/
def feed (p : Preds) (box : Bool) : St → Bytes → St × List Bytes
  | s, [] => (s, [])
  | s, c :: r =>
    let r1 := process p box s c
    let r2 := feed p box r1.1 r
    (r2.1, r1.2 ++ r2.2)

/-- `Converter._mark(s, flush)` -/
def mark (p : Preds) (dbcs box : Bool) (s : St) (bytes : Bytes) (fl : Bool) : St × List Bytes :=
  if !dbcs then (s, bytes.map fun c => [c])
  else
    let r := feed p box s bytes
    if fl then ((flush r.1).1, r.2 ++ (flush r.1).2) else r

/-- a history of `_mark(chunk, flush)` calls on one Converter -/
def convert (p : Preds) (dbcs box : Bool) : St → List (Bytes × Bool) → St × List Bytes
  | s, [] => (s, [])
  | s, (ch, fl) :: rest =>
    let r1 := mark p dbcs box s ch fl
    let r2 := convert p dbcs box r1.1 rest
    (r2.1, r1.2 ++ r2.2)

/-- feed the chunks without flushing, flush once at the end; the emitted sequences -/
def convertAll (p : Preds) (dbcs box : Bool) (chunks : List Bytes) : List Bytes :=
  (convert p dbcs box {} (chunks.map (fun c => (c, false)) ++ [([], true)])).2

/-- non-streaming specification of the splitter without box protection: scan left to right,
    a non-preserved lead byte immediately followed by a non-preserved trail byte is one
    two-byte sequence, every other byte is a sequence of its own -/
def greedy (p : Preds) : Bytes → List Bytes
  | [] => []
  | [c] => [[c]]
  | c :: d :: r =>
    if !p.preserve c && p.lead c && !p.preserve d && p.trail d then [c, d] :: greedy p r
    else [c] :: greedy p (d :: r)
termination_by l => l.length

/-! ## Codepage tables -/

abbrev Table := List (Bytes × Cluster)

structure Cp where
  /-- `_cp_to_unicode.items()` in dict order -/
  cpToU : Table
  /-- `_substitutes.items()` in dict order -/
  subst : Table
  lead : List Nat
  trail : List Nat
  boxL : List (List Nat)
  boxR : List (List Nat)
  dbcs : Bool
  /-- `Codepage.box_protect` -/
  boxProtect : Bool

def printable (k : Bytes) : Option Nat :=
  match k with
  | [b] => if 0x20 ≤ b ∧ b < 0x7F then some b else none
  | _ => none

def hasKey (t : Table) (k : Bytes) : Bool := t.any fun e => e.1 == k

/-- `cluster in BOXSTRING` (substring test on a unicode string) for a non-empty cluster -/
def isInfix (u s : Cluster) : Bool :=
  (List.range (s.length + 1)).any fun i => (s.drop i).take u.length == u

def boxSet (dict : Table) (box : Cluster) : List Nat :=
  dict.filterMap fun e =>
    if e.1.length = 2 then none
    else if isInfix e.2 box then e.1.head? else none

/-- `_cp_to_unicode` after the loop over the dict: printable ASCII keys map to themselves -/
def mainOf (dict : Table) : Table :=
  dict.map fun e =>
    match printable e.1 with
    | some b => (e.1, [b])
    | none => e

/-- `_substitutes`: printable ASCII keys whose cluster is not the ASCII character -/
def substOf (dict : Table) : Table :=
  dict.filter fun e =>
    match printable e.1 with
    | some b => e.2 != [b]
    | none => false

/-- "fill up any undefined 1-byte codepoints" with NUL, in increasing order -/
def fillOf (main : Table) : Table :=
  ((List.range 256).filter fun c => !hasKey main [c]).map fun c => ([c], [0])

/-- `Codepage.__init__` on a dict given as its item list (unique keys), clusters already NFC -/
def build (dict : Table) (boxProtect : Bool) : Cp :=
  let dbl := dict.filter fun e => e.1.length == 2
  { cpToU := mainOf dict ++ fillOf (mainOf dict)
    subst := substOf dict
    lead := dbl.map fun e => e.1.headD 0
    trail := dbl.map fun e => e.1.getD 1 0
    boxL := PcbV.Gen.Codepages.boxLeft.map (boxSet dict)
    boxR := PcbV.Gen.Codepages.boxRight.map (boxSet dict)
    dbcs := !dbl.isEmpty
    boxProtect := boxProtect }

def Cp.preds (cp : Cp) (preserve : List Nat) : Preds :=
  { lead := fun c => cp.lead.contains c
    trail := fun c => cp.trail.contains c
    boxL := fun b c => (cp.boxL.getD b []).contains c
    boxR := fun b c => (cp.boxR.getD b []).contains c
    preserve := fun c => preserve.contains c }

/-- `dict.get(k)` on an item list with unique keys -/
def lookup : Table → Bytes → Option Cluster
  | [], _ => none
  | (k, v) :: r, q => if k = q then some v else lookup r q

/-- `dict(reversed(item) for item in t.items()).get(u)`: the LAST key mapped to `u` wins -/
def lookupLast : Table → Cluster → Option Bytes
  | [], _ => none
  | (k, v) :: r, u =>
    match lookupLast r u with
    | some k' => some k'
    | none => if v = u then some k else none

/-- length of the longest multi-code-point cluster of the table that is a prefix of `ucs`, else 1
    (`_unicode_clusters` is sorted by decreasing length, so the first match is a longest one) -/
def matchLen : Table → Cluster → Nat
  | [], _ => 1
  | (_, v) :: r, ucs =>
    let m := matchLen r ucs
    if v.length > 1 ∧ v.isPrefixOf ucs ∧ v.length > m then v.length else m

def eascii (ucs : Cluster) : Bool :=
  match ucs with
  | 0 :: c1 :: _ => c1 < 256
  | _ => false

/-- `_split_unicode` after NFC (fuel = length of the string) -/
def splitAux (t : Table) : Nat → Cluster → List Cluster
  | 0, _ => []
  | _ + 1, [] => []
  | f + 1, c :: r =>
    let ucs := c :: r
    let len := if eascii ucs then 2 else matchLen t ucs
    ucs.take len :: splitAux t f (ucs.drop len)

def splitUnicode (cp : Cp) (ucs : Cluster) : List Cluster := splitAux cp.cpToU ucs.length ucs

/-- `uc.encode('ascii', errors)`, errors = 'ignore' or 'replace' -/
def asciiEncode (uc : Cluster) (replace : Bool) : Bytes :=
  uc.flatMap fun c => if c < 128 then [c] else if replace then [63] else []

/-- `_from_unicode` -/
def fromUnicode (cp : Cp) (uc : Cluster) (replace : Bool) : Bytes :=
  if uc.head? = some 0 then uc.map (fun c => min 255 c)
  else match lookupLast cp.subst uc with
    | some k => k
    | none =>
      match lookupLast cp.cpToU uc with
      | some k => k
      | none => asciiEncode uc replace

/-- `unicode_to_bytes` (argument already NFC) -/
def unicodeToBytes (cp : Cp) (ucs : Cluster) (replace : Bool := false) : Bytes :=
  (splitUnicode cp ucs).flatMap fun uc => fromUnicode cp uc replace

/-- `codepoint_to_unicode(cp, replace=u'', use_substitutes)` -/
def codepointToUnicode (cp : Cp) (k : Bytes) (useSubst : Bool) : Cluster :=
  match (if useSubst ∧ cp.subst ≠ [] then lookup cp.subst k else none) with
  | some u => u
  | none => (lookup cp.cpToU k).getD []

/-- `Converter.to_unicode_list` for the sequences `_mark` produced -/
def toUnicodeList (cp : Cp) (preserve : List Nat) (useSubst : Bool) (seqs : List Bytes) : List Cluster :=
  (seqs.flatMap fun q => if q.length = 1 then [q] else [q, []]).map fun q =>
    match q with
    | [b] => if preserve.contains b then q.filter (· < 128) else codepointToUnicode cp q useSubst
    | _ => codepointToUnicode cp q useSubst

/-- `Converter.__init__`: `box_protect or codepage.box_protect` -/
def effBox (cp : Cp) (arg : Option Bool) : Bool := arg.getD false || cp.boxProtect

/-- `Codepage.bytes_to_unicode(cps, preserve, box_protect, use_substitutes)` -/
def bytesToUnicode (cp : Cp) (bytes : Bytes) (preserve : List Nat := []) (boxArg : Option Bool := none)
    (useSubst : Bool := false) : Cluster :=
  (toUnicodeList cp preserve useSubst
    (mark (cp.preds preserve) cp.dbcs (effBox cp boxArg) {} bytes true).2).flatten

/-- keys whose Unicode mapping is unique in the table -/
def uniqueIn (t : Table) (u : Cluster) : Bool := (t.filter fun e => e.2 == u).length == 1

end PcbV.Codepage
