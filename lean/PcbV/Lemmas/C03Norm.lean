import PcbV.Lemmas.C03Nat
/-
  `_normalise` on an already normalised mantissa `M·256 + c` (2^(w-1) ≤ M < 2^w, carry byte c):
  no shifting, round half to even on the carry byte, renormalise on mantissa overflow.
  Used for `Double.to_single` and for the subtraction in `ifloor`.
-/
namespace PcbV.Mbf

theorem normalise_normal {f : Fmt} (hf : f.WF) (e : Nat) (he0 : e ≠ 0) (M c : Nat) (neg : Bool)
    (hM1 : 2 ^ (f.w - 1) ≤ M) (hM2 : M < 2 ^ f.w) (hc : c < 256) :
    normalise f (e : Int) (M * 256 + c) neg =
      if c > 128 ∨ (c = 128 ∧ M % 2 = 1) then
        (if M + 1 = 2 ^ f.w then checkLimits f (packMan f (2 ^ (f.w - 1)) neg) ((e : Int) + 1) neg
         else checkLimits f (packMan f (M + 1) neg) e neg)
      else checkLimits f (packMan f M neg) e neg := by
  obtain ⟨h8, hbias, hd, hu, hcm, hs, hmk, hp⟩ := hf
  have h2p := two_mul_pow_pred f.w (by omega)
  have hpos : 0 < 2 ^ (f.w - 1) := Nat.two_pow_pos _
  have hd' : f.denMask = 2 ^ (f.w - 1) * 256 := by
    rw [hd, show f.w + 7 = (f.w - 1) + 8 by omega, Nat.pow_add]
  have hu' : f.denUpper = 2 ^ f.w * 256 := by rw [hu, Nat.pow_add]
  unfold normalise
  have h0 : ¬ (M * 256 + c = 0 ∨ (e : Int) ≤ 0) := by omega
  simp only [h0, if_false]
  obtain ⟨k, _, hsu, _, _, hk0⟩ := shiftUp_spec (f.denMask - 1) (f.w + 8) (e : Int) (M * 256 + c) (by omega)
    (Nat.le_trans (by omega : f.denMask - 1 ≤ M * 256 + c) (Nat.le_mul_of_pos_right _ (Nat.two_pow_pos _)))
  have hk : k = 0 := hk0 (by omega)
  subst hk
  rw [hsu]
  simp only [Nat.pow_zero, Nat.mul_one]
  have a1 : (M * 256 + c) % 256 = c := by omega
  have a2 : (M * 256 + c) / 256 % 2 = M % 2 := by omega
  have a3 : (M * 256 + c) % f.denUpper / 256 * 256 = M * 256 := by
    rw [hu', Nat.mod_eq_of_lt (by omega)]; omega
  rw [a1, a2, a3, hu']
  have e0 : (e : Int) - ((0 : Nat) : Int) = e := by omega
  rw [e0]
  by_cases hru : c > 128 ∨ (c = 128 ∧ M % 2 = 1)
  · simp only [hru, if_true]
    by_cases hov : M + 1 = 2 ^ f.w
    · have g : M * 256 + 256 ≥ 2 ^ f.w * 256 := by omega
      simp only [g, hov, if_true]
      have : (M * 256 + 256) / 2 / 256 = 2 ^ (f.w - 1) := by omega
      rw [this]
    · have g : ¬ (M * 256 + 256 ≥ 2 ^ f.w * 256) := by omega
      simp only [g, hov, if_false]
      have : (M * 256 + 256) / 256 = M + 1 := by omega
      rw [this]
  · rw [if_neg hru, if_neg hru]
    have g : ¬ (M * 256 + 0 ≥ 2 ^ f.w * 256) := by omega
    rw [if_neg g, if_neg g, Nat.add_zero, Nat.mul_div_cancel _ (by decide : 0 < 256)]

theorem checkLimits_ok (f : Fmt) (m e : Nat) (neg : Bool) (he0 : e ≠ 0) (he : e < 256) :
    checkLimits f m (e : Int) neg = .ok ⟨m, e⟩ := by
  unfold checkLimits
  have e1 : ¬ ((e : Int) > 255) := by omega
  have e2 : ¬ ((e : Int) ≤ 0) := by omega
  simp only [e1, e2, if_false, Int.toNat_natCast]

theorem checkLimits_succ (f : Fmt) (m e : Nat) (neg : Bool) (he : e < 256) :
    checkLimits f m ((e : Int) + 1) neg =
      if e = 255 then .error (overflow, if neg then f.negMax else f.posMax) else .ok ⟨m, e + 1⟩ := by
  unfold checkLimits
  by_cases h : e = 255
  · subst h; simp
  · have e1 : ¬ ((e : Int) + 1 > 255) := by omega
    have e2 : ¬ ((e : Int) + 1 ≤ 0) := by omega
    have e3 : ((e : Int) + 1).toNat = e + 1 := by omega
    simp only [e1, e2, h, if_false, e3]

/-- `Double.to_single`: the top 24 mantissa bits, rounded half-to-even on the next byte only
    (the lowest three bytes of the double are ignored) -/
theorem toSingle_eq (x : F) (hx : F.Valid double x) (he : x.e ≠ 0) :
    toSingle x =
      if x.m / 2 ^ 24 % 256 > 128 ∨ (x.m / 2 ^ 24 % 256 = 128 ∧ manOf single ⟨x.m / 2 ^ 32, x.e⟩ % 2 = 1) then
        (if manOf single ⟨x.m / 2 ^ 32, x.e⟩ + 1 = 2 ^ 24 then
          (if x.e = 255 then .error (overflow, if isNeg single ⟨x.m / 2 ^ 32, x.e⟩ then single.negMax else single.posMax)
           else .ok ⟨packMan single (2 ^ 23) (isNeg single ⟨x.m / 2 ^ 32, x.e⟩), x.e + 1⟩)
         else .ok ⟨packMan single (manOf single ⟨x.m / 2 ^ 32, x.e⟩ + 1) (isNeg single ⟨x.m / 2 ^ 32, x.e⟩), x.e⟩)
      else .ok ⟨packMan single (manOf single ⟨x.m / 2 ^ 32, x.e⟩) (isNeg single ⟨x.m / 2 ^ 32, x.e⟩), x.e⟩ := by
  have hm : x.m < 2 ^ 56 := hx.1
  have he2 : x.e < 256 := hx.2
  have hs : F.Valid single ⟨x.m / 2 ^ 32, x.e⟩ := ⟨by show x.m / 2 ^ 32 < 2 ^ 24; omega, he2⟩
  have hmb := manOf_bounds single_wf hs
  unfold toSingle
  simp only
  rw [denorm_man single_wf hs]
  show normalise single (x.e : Int) _ (isNeg single ⟨x.m / 2 ^ 32, x.e⟩) = _
  rw [normalise_normal single_wf x.e he _ _ _ hmb.1 hmb.2 (Nat.mod_lt _ (by decide))]
  rw [checkLimits_succ _ _ _ _ he2, checkLimits_ok _ _ _ _ he he2, checkLimits_ok _ _ _ _ he he2]
  rfl

end PcbV.Mbf
