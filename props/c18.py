"""C18 — Expressions evaluate with GW-BASIC precedence, associativity and typing."""
import contextlib
import itertools
import struct
from decimal import Decimal, getcontext
from fractions import Fraction

from vlib import basic

LEVEL = 'proof'
RULE = ('(A) token level: every token sequence of length <= 4 over a 13-symbol alphabet, random token soup up to '
        'length 14, and random operator trees of depth <= 6 (all 21 binary spellings, 3 unary operators) rendered '
        'with minimal / full / random redundant parentheses, with random blanks and several operand encodings, '
        'parsed by the real ExpressionParser.parse with recording operators; (B) value level: random typed trees '
        'of depth <= 6 over integer/single/double/string literals and variables plus every ordered pair of binary '
        'operators and every unary placement over several operand triples, plus zeros of every provenance (literals, '
        'zero variables, unary minus on each, negated zero subexpressions, stored negated zeros, products with zero, '
        'underflows, CVS/CVD exponent-0 patterns) under every relational/binary/unary operator and SGN ABS INT FIX CINT, '
        'every number-token class as a leaf (one-byte constants, byte/int tokens, &H/&O, single/double suffix and '
        'exponent forms) and line-number tokens (figures after ERL, ERL set by earlier errors, ON ERROR handlers '
        'dispatching on ERL in programs with line numbers above 32767), '
        'evaluated in one long-lived Session '
        'through parse_expression, Session.evaluate, PRINT and stored program lines; one case = one expression '
        'text or token sequence; non-trivial = contains at least one operator')
EXPLANATION = ('theorems (PcbV.Props.C18): parse_prints/parse_show/parse_show_full — the stack machine rebuilds '
               'exactly the operator tree of any rendering (unary operators included), grouping and unary-scope '
               'corollaries, missing-operand/syntax-error spec, no IndexError for any token sequence, result-type '
               'table; correspondence: real parse() with recording operators vs the Lean model on trees and on '
               'token soup, printer vs Lean showMin/showFull, values.* result classes vs the typing model; oracle: '
               'independent precedence-climbing evaluator with exact rational arithmetic (value, type, error)')
TRUSTED_BASE = ['model PcbV.Model.Expr is a hand transcription of ExpressionParser.parse/_drain (operands are opaque '
                'tokens; the recursive call for "(" is an explicit stack of caller frames) and of the type rules of '
                'values.py operator functions',
                'operator tables regenerated from operators.py by gen/tables_c18.py']
ASSUMPTIONS = ['unary + and - applied to a string pass it through unchanged (the statement is silent; coded on purpose)',
               'oracle cases are chosen so that every intermediate result is exactly representable (dyadic '
               'rationals, <= 24 significant bits unless all-double; sums and differences only where aligning the '
               'operands loses no bits, since C04 allows + and - two units in the last place otherwise: 2^24-1 is '
               '16777216 in single precision) and never a division by zero; cases where a '
               'type mismatch and an overflow compete inside one operation are skipped',
               'operands of \\ MOD AND OR XOR EQV IMP NOT are rounded to 16-bit integers, out of range = Overflow']

getcontext().prec = 60

# ---------------------------------------------------------------------------------------------------------------
# the statement's operator table (independent of operators.py)

BIN_PREC = {'^': 13, '*': 11, '/': 11, '\\': 10, 'MOD': 9, '+': 8, '-': 8,
            '>': 7, '=': 7, '<': 7, '>=': 7, '=>': 7, '<=': 7, '=<': 7, '<>': 7, '><': 7,
            'AND': 5, 'OR': 4, 'XOR': 3, 'EQV': 2, 'IMP': 1}
UN_PREC = {'-': 12, '+': 12, 'NOT': 6}
BIN_NAME = {'^': 'pow', '*': 'mul', '/': 'div', '\\': 'intdiv', 'MOD': 'mod_', '+': 'add', '-': 'sub',
            '>': 'gt', '=': 'eq', '<': 'lt', '>=': 'gte', '=>': 'gte', '<=': 'lte', '=<': 'lte', '<>': 'neq',
            '><': 'neq', 'AND': 'and_', 'OR': 'or_', 'XOR': 'xor_', 'EQV': 'eqv_', 'IMP': 'imp_'}
UN_NAME = {'-': 'neg', '+': 'ident', 'NOT': 'not_'}
BIN_SYMS = sorted(BIN_PREC)
UN_SYMS = sorted(UN_PREC)
RELS = ('>', '=', '<', '>=', '=>', '<=', '=<', '<>', '><')


def tokmap():
    from pcbasic.basic.base import tokens as tk
    return {'^': tk.O_CARET, '*': tk.O_TIMES, '/': tk.O_DIV, '\\': tk.O_INTDIV, 'MOD': tk.MOD, '+': tk.O_PLUS,
            '-': tk.O_MINUS, '>': tk.O_GT, '=': tk.O_EQ, '<': tk.O_LT, 'AND': tk.AND, 'OR': tk.OR, 'XOR': tk.XOR,
            'EQV': tk.EQV, 'IMP': tk.IMP, 'NOT': tk.NOT}


def sym_bytes(sym, tm):
    """operator symbol -> list of one-byte tokens"""
    if sym in tm:
        return [tm[sym]]
    return [tm[c] for c in sym]


# ---------------------------------------------------------------------------------------------------------------
# trees: ('L', i) | ('U', sym, a) | ('B', sym, a, b)

def show_tree(t):
    if t[0] == 'L':
        return 'L%d' % t[1]
    if t[0] == 'U':
        return '%s(%s)' % (UN_NAME[t[1]], show_tree(t[2]))
    return '%s(%s,%s)' % (BIN_NAME[t[1]], show_tree(t[2]), show_tree(t[3]))


def prefix_tree(t, tm):
    if t[0] == 'L':
        return ['L%d' % t[1]]
    key = '.'.join(str(ord(b)) for b in sym_bytes(t[1], tm))
    if t[0] == 'U':
        return ['U' + key] + prefix_tree(t[2], tm)
    return ['B' + key] + prefix_tree(t[2], tm) + prefix_tree(t[3], tm)


def render(t, lp, rp, mode, rng):
    """abstract tokens ('L',i) | ('O',sym) | '(' | ')' of the tree; mode: 'min' | 'full' | 'rand'.
    Written from the statement: a binary node needs brackets iff its left neighbour binds at least as tightly
    (left-to-right grouping) or its right neighbour binds tighter; a prefix operator's operand extends over
    everything that binds tighter than the prefix operator, so it needs brackets iff the right neighbour does."""
    if t[0] == 'L':
        if mode == 'rand' and rng.random() < 0.1:
            return ['(', t, ')']
        return [t]
    if t[0] == 'U':
        q = UN_PREC[t[1]]
        need = not (rp <= q)
    else:
        p = BIN_PREC[t[1]]
        need = not (lp < p and rp <= p)
    if mode == 'full' or (mode == 'rand' and rng.random() < 0.3):
        need = True
    if need:
        lp, rp = 0, 0
    if t[0] == 'U':
        out = [('O', t[1])] + render(t[2], q, rp, mode, rng)
    else:
        out = render(t[2], lp, p, mode, rng) + [('O', t[1])] + render(t[3], p, rp, mode, rng)
    return ['('] + out + [')'] if need else out


def random_tree(rng, depth, nleaf=10):
    if depth == 0 or rng.random() < 0.18:
        return ('L', rng.randrange(nleaf))
    if rng.random() < 0.25:
        return ('U', rng.choice(UN_SYMS), random_tree(rng, depth - 1, nleaf))
    return ('B', rng.choice(BIN_SYMS), random_tree(rng, depth - 1, nleaf), random_tree(rng, depth - 1, nleaf))


def model_tokens(abs_toks, tm):
    out = []
    for t in abs_toks:
        if t in ('(', ')', 'S', 'E', 'J'):
            out.append(t)
        elif t[0] == 'L':
            out.append('L%d' % t[1])
        elif t[0] == 'O':
            out += ['O%d' % ord(b) for b in sym_bytes(t[1], tm)]
        elif t[0] == 'K':       # a keyword byte that is not an operator
            out.append('O%d' % t[1])
    return out


# ---------------------------------------------------------------------------------------------------------------
# (A) the real parse() with recording operators

def fname(fn):
    name = getattr(fn, '__name__', repr(fn))
    if name == '<lambda>':
        probe = object()
        try:
            name = 'ident' if fn(probe) is probe else 'lambda'
        except Exception:  # noqa
            name = 'lambda'
    return name


class SymImpl(object):
    """ExpressionParser.parse on hand-built token streams; op.BINARY/op.UNARY values replaced by recorders."""

    def __init__(self):
        from pcbasic.basic.base import tokens as tk, error, codestream
        from pcbasic.basic.parser import operators as op
        self.tk, self.error, self.codestream, self.op = tk, error, codestream, op
        self.tm = tokmap()
        self.session = basic.new_session()
        self.impl = self.session._impl
        self.ep = self.impl.parser.expression_parser
        for i in range(10):
            self.session.set_variable('L%d%%' % i, i)

    @contextlib.contextmanager
    def recording(self):
        op = self.op
        saved_b, saved_u = dict(op.BINARY), dict(op.UNARY)
        try:
            for k, f in saved_b.items():
                op.BINARY[k] = (lambda a, b, _n=fname(f): (_n, a, b))
            for k, f in saved_u.items():
                op.UNARY[k] = (lambda a, _n=fname(f): (_n, a))
            yield
        finally:
            op.BINARY.clear()
            op.BINARY.update(saved_b)
            op.UNARY.clear()
            op.UNARY.update(saved_u)

    def encode(self, abs_toks, rng):
        """abstract tokens -> (bytes, list of start offsets of the model-level tokens)"""
        tk = self.tk
        data, starts = b'', []
        n = len(abs_toks)
        for idx, t in enumerate(abs_toks):
            if rng.random() < 0.2:
                data += b' ' * rng.randint(1, 2)
            nxt = abs_toks[idx + 1] if idx + 1 < n else None
            if t == '(' or t == ')':
                starts.append(len(data))
                data += t.encode()
            elif t == 'S':
                starts.append(len(data))
                data += rng.choice([b',', b';', b']'])
            elif t == 'E':
                starts.append(len(data))
                data += rng.choice([b':', b'\0'])
            elif t == 'J':
                starts.append(len(data))
                data += rng.choice([b'#', b'!', b'$'])
            elif t[0] == 'K':
                starts.append(len(data))
                data += bytes(bytearray([t[1]]))
            elif t[0] == 'O':
                for j, b in enumerate(sym_bytes(t[1], self.tm)):
                    if j and rng.random() < 0.3:
                        data += b' '
                    starts.append(len(data))
                    data += b
            else:
                i = t[1]
                starts.append(len(data))
                kind = rng.randrange(6)
                if kind == 0 and i <= 10:
                    data += bytes(bytearray([ord(tk.C_0) + i]))
                elif kind == 1:
                    data += tk.T_INT + struct.pack('<h', i)
                elif kind == 2 and nxt != '(':
                    # a variable (not before "(", which would make it an array reference)
                    data += b'L%d%%' % i
                elif kind == 3:
                    data += b'"%d"' % i
                elif kind == 4:
                    data += tk.ABS + b'(' + tk.T_BYTE + bytes(bytearray([i])) + b')'
                else:
                    data += tk.T_BYTE + bytes(bytearray([i]))
        return data, starts

    def leaf(self, v):
        val = v.to_value()
        return 'L%d' % int(val)

    def show(self, v):
        if isinstance(v, tuple):
            return '%s(%s)' % (v[0], ','.join(self.show(x) for x in v[1:]))
        return self.leaf(v)

    def parse(self, data, starts):
        ins = self.codestream.TokenisedStream()
        ins.write(data)
        ins.seek(0)
        try:
            self.impl.memory.strings.reset_temporaries()
            v = self.ep.parse(ins)
        except self.error.BASICError as e:
            out = 'err %d' % e.err
        except Exception as e:  # noqa
            out = 'exc %s' % type(e).__name__
        else:
            pos = ins.tell()
            out = 'ok %s %d' % (self.show(v), len([s for s in starts if s >= pos]))
        # a failed parse() leaves its units deque on memory._stack (context manager without finally)
        stack = getattr(self.impl.memory, '_stack', None)
        if stack:
            del stack[:]
        return out


SOUP = ['L', '(', ')', 'S', 'E', 'J', ('O', '+'), ('O', '-'), ('O', '*'), ('O', 'NOT'), ('O', '='), ('O', '<'),
        ('O', 'AND')]
SOUP_MORE = [('O', s) for s in ('^', '/', '\\', 'MOD', '>', 'OR', 'XOR', 'EQV', 'IMP')] + [('K', 0xcc), ('K', 0xcd)]


def part_a(ctx):
    rng = ctx.rng
    sym = SymImpl()
    tm = sym.tm

    def concretise(seq):
        return [('L', rng.randrange(10)) if t == 'L' else t for t in seq]

    def run_batch(cases, label):
        """cases: list of (abstract tokens, expected-or-None, key)"""
        lines, outs, keep = [], [], []
        with sym.recording():
            for toks, exp, key in cases:
                data, starts = sym.encode(toks, rng)
                out = sym.parse(data, starts)
                mt = model_tokens(toks, tm)
                lines.append('parse ' + (','.join(mt) or '-'))
                outs.append(out)
                keep.append((toks, exp, key, data))
                ctx.case((label, tuple(mt)))
                ctx.count('A:%s:%s' % (label, out.split()[0] + (out.split()[1] if out.startswith('err') else '')))
        ctx.compare([repr(c[0]) for c in cases], outs, lines, label=label)
        for (toks, exp, key, data), out in zip(keep, outs):
            if out.startswith('exc'):
                ctx.fail('host-exception:parse:' + out.split()[1], {'part': 'A', 'toks': repr(toks)},
                         'parse() raised %s on %r' % (out, data))
            elif exp is not None and out != exp:
                ctx.fail(key, {'part': 'A', 'toks': repr(toks), 'expected': exp},
                         'token stream %r: parse gave %s, the operator tree implies %s' % (data, out, exp))
        return outs

    # 1. exhaustive short sequences
    maxlen = 4 if ctx.quick else 5
    cases = []
    for n in range(0, maxlen + 1):
        for seq in itertools.product(SOUP, repeat=n):
            cases.append((concretise(seq), None, None))
    ctx.log('A: %d exhaustive short token sequences' % len(cases))
    for i in range(0, len(cases), 50000):
        run_batch(cases[i:i + 50000], 'short')
    ctx.notes['exhaustive_short_sequences'] = 'all sequences of length <= %d over %d symbols' % (maxlen, len(SOUP))
    # 2. random soup
    cases = []
    for _ in range(15000 if ctx.quick else 300000):
        n = rng.randint(3, 14)
        alphabet = SOUP + SOUP_MORE
        weights = [6, 3, 3, 1, 1, 1] + [2] * (len(alphabet) - 6)
        seq = rng.choices(alphabet, weights=weights, k=n)
        cases.append((concretise(seq), None, None))
    run_batch(cases, 'soup')
    # 3. trees, three renderings each, with terminators and error suffixes
    cases, printer_lines, printer_mine = [], [], []
    ntrees = 2500 if ctx.quick else 60000
    for n in range(ntrees):
        t = random_tree(rng, rng.randint(1, 6))
        exp_tree = show_tree(t)
        rmin = render(t, 0, 0, 'min', rng)
        rfull = render(t, 0, 0, 'full', rng)
        rrand = render(t, 0, 0, 'rand', rng)
        ctx.count('A:tree-depth:%d' % depth_of(t))
        if len(printer_lines) < 4000:
            pt = ','.join(prefix_tree(t, tm))
            printer_lines += ['showmin ' + pt, 'showfull ' + pt]
            printer_mine += ['ok ' + ','.join(model_tokens(rmin, tm)), 'ok ' + ','.join(model_tokens(rfull, tm))]
        for r, mode in ((rmin, 'min'), (rfull, 'full'), (rrand, 'rand')):
            cases.append((r, 'ok %s 0' % exp_tree, 'tree:%s:%s' % (mode, ops_of(t))))
        which = rng.randrange(6)
        opx = ('O', rng.choice(BIN_SYMS))
        if which == 0:      # terminator left unread
            term = rng.choice([['S'], ['E'], [')'], [('L', 3)], ['J'], [('O', 'NOT'), ('L', 1)], ['(', ('L', 1), ')']])
            cases.append((rmin + term, 'ok %s %d' % (exp_tree, len(model_tokens(term, tm))), 'terminator:' + repr(term[0])))
        elif which == 1:    # missing right operand
            cases.append((rmin + [opx], 'err 22', 'missing-operand:end'))
            cases.append((rmin + [opx, 'E'], 'err 22', 'missing-operand:colon'))
        elif which == 2:
            cases.append((['('] + rmin + [opx, ')'], 'err 2', 'missing-operand:brackets'))
            cases.append((rmin + [opx, 'S'], 'err 2', 'missing-operand:comma'))
        elif which == 3:
            cases.append((['('] + rmin, 'err 2', 'unclosed-bracket'))
            cases.append((['('] + rmin + [opx], 'err 22', 'missing-operand:open-bracket'))
        elif which == 4 and opx[1] not in UN_PREC:
            cases.append(([opx] + rmin, 'err 2', 'binary-at-start'))
    ctx.log('A: %d tree renderings' % len(cases))
    for i in range(0, len(cases), 50000):
        run_batch(cases[i:i + 50000], 'tree')
    # the harness's printer against the Lean printers (the theorems are about showMin / showFull)
    ctx.compare(printer_lines, printer_mine, printer_lines, label='printer')
    ctx.sample({'part': 'A', 'tree': show_tree(t), 'min': ','.join(model_tokens(rmin, tm))})


def depth_of(t):
    if t[0] == 'L':
        return 0
    return 1 + max(depth_of(x) for x in t[2:])


def ops_of(t):
    """short stable key: the operators on the path that matters (root and its children)"""
    if t[0] == 'L':
        return 'L'
    kids = [x[1] if x[0] != 'L' else 'L' for x in t[2:]]
    return '%s[%s]' % (t[1], ','.join(kids))


# ---------------------------------------------------------------------------------------------------------------
# (B) values and types: independent evaluator

class Skip(Exception):
    pass


class BasicErr(Exception):
    def __init__(self, n):
        Exception.__init__(self, n)
        self.n = n


RANK = {'I': 0, 'S': 1, 'D': 2}


def widest(a, b):
    return a if RANK[a] >= RANK[b] else b


def at_least_single(t):
    return 'S' if t == 'I' else t


def sig_bits(x):
    if x == 0:
        return 0
    d = x.denominator
    if d & (d - 1):
        raise Skip('not dyadic')
    n = abs(x.numerator)
    while n % 2 == 0:
        n //= 2
    return n.bit_length()


def aligned(x, y, ty):
    """the smaller of two addends is a multiple of the unit in the last place of the larger one"""
    if x == 0 or y == 0:
        return True
    big, small = (x, y) if abs(x) >= abs(y) else (y, x)
    big = abs(big)
    e = big.numerator.bit_length() - big.denominator.bit_length()
    if Fraction(2) ** e > big:
        e -= 1
    ulp = Fraction(2) ** (e - ((56 if ty == 'D' else 24) - 1))
    return (small / ulp).denominator == 1


def check_exact(x, ty):
    bits = sig_bits(x)
    if ty == 'D':
        ok = bits <= 48
    else:
        ok = bits <= 24
    if not ok or (x != 0 and not (Fraction(1, 2 ** 40) <= abs(x) <= 2 ** 60)):
        raise Skip('inexact')
    return x


class V(object):
    """value with the statement's type `ty` and the type the code is known to produce `tyc` (S5/S6)"""
    __slots__ = ('ty', 'tyc', 'v', 'dev')

    def __init__(self, ty, v, tyc=None, dev=()):
        self.ty, self.v, self.tyc, self.dev = ty, v, tyc or ty, frozenset(dev)


def cint(x):
    """round to a 16-bit integer; halves are avoided (rounding mode is another property)"""
    v = x.v
    fl = v.numerator // v.denominator
    fr = v - fl
    if fr == Fraction(1, 2):
        raise Skip('half')
    n = fl + (1 if fr > Fraction(1, 2) else 0)
    if not -32768 <= n <= 32767:
        raise BasicErr(6)
    return n


def apply_unary(sym, a):
    if sym == '+':
        return a
    if sym == '-':
        if a.ty == 'T':
            return a        # passes unchanged (see ASSUMPTIONS)
        dev = set(a.dev)
        if a.tyc == 'I':
            dev.add('S5')
        tyc = at_least_single(a.tyc)
        if a.ty == 'I' and a.v == -32768:
            raise Skip('-(-32768)')
        return V(a.ty, check_exact(-a.v, tyc), tyc, dev)
    if sym == 'NOT':
        if a.ty == 'T':
            raise BasicErr(13)
        return V('I', Fraction(-cint(a) - 1))
    raise ValueError(sym)


def apply_binary(sym, a, b, dm):
    if sym == '+' and a.ty == 'T' and b.ty == 'T':
        if len(a.v) + len(b.v) > 255:
            raise Skip('long')
        return V('T', a.v + b.v)
    if sym in RELS:
        if (a.ty == 'T') != (b.ty == 'T'):
            raise BasicErr(13)
        x, y = a.v, b.v
        r = {'>': x > y, '=': x == y, '<': x < y, '>=': x >= y, '=>': x >= y, '<=': x <= y, '=<': x <= y,
             '<>': x != y, '><': x != y}[sym]
        return V('I', Fraction(-1 if r else 0))
    strs = (a.ty == 'T') + (b.ty == 'T')
    if sym in ('\\', 'MOD', 'AND', 'OR', 'XOR', 'EQV', 'IMP'):
        if strs == 1:
            # a type mismatch competing with an overflow of the other operand: the order is not in the statement
            try:
                cint(b if a.ty == 'T' else a)
            except BasicErr:
                raise Skip('competing errors')
        if strs:
            raise BasicErr(13)
        x = cint(a)
        y = cint(b)
        if sym in ('\\', 'MOD'):
            if y == 0:
                raise Skip('div0')
            q = abs(x) // abs(y)
            q = q if (x >= 0) == (y >= 0) else -q
            if not -32768 <= q <= 32767:
                raise Skip('-32768\\-1')
            return V('I', Fraction(q if sym == '\\' else x - q * y))
        ux, uy = x & 0xffff, y & 0xffff
        r = {'AND': ux & uy, 'OR': ux | uy, 'XOR': ux ^ uy, 'EQV': ~(ux ^ uy), 'IMP': (~ux) | uy}[sym] & 0xffff
        return V('I', Fraction(r - 65536 if r >= 32768 else r))
    if strs:
        raise BasicErr(13)
    dev = set(a.dev) | set(b.dev)
    ty = widest(a.ty, b.ty)
    tyc = widest(a.tyc, b.tyc)
    if sym in ('+', '-', '*'):
        if tyc == 'I':
            dev.add('S5')
        tyc = at_least_single(tyc)
        if sym != '*' and not aligned(a.v, b.v, tyc):
            # + and - are only exact where aligning the operands loses no bits of the smaller one
            # (elsewhere C04 allows them two units in the last place: 2^24 - 1 is 16777216 in single precision)
            raise Skip('unaligned sum')
        v = {'+': a.v + b.v, '-': a.v - b.v, '*': a.v * b.v}[sym]
    elif sym == '/':
        ty, tyc = at_least_single(ty), at_least_single(tyc)
        if b.v == 0:
            raise Skip('div0')
        v = a.v / b.v
    elif sym == '^':
        ty = at_least_single(ty)
        if dm:
            tyc = at_least_single(tyc)
        else:
            if tyc == 'D':
                dev.add('S6')
            tyc = 'S'
        e = b.v
        if e.denominator != 1 or abs(e) > 12:
            raise Skip('exponent')
        base = a.v
        if base == 0:
            if e < 0:
                raise Skip('0^neg')
            v = Fraction(1 if e == 0 else 0)
        else:
            if sig_bits(base) > 1 and abs(e) > 1:
                # only powers of two (and +-1) are raised exactly by repeated multiplication / libm pow
                raise Skip('base')
            v = base ** int(e)
    else:
        raise ValueError(sym)
    # the computation happens in the coded type; it must be exact there
    check_exact(v, tyc)
    if ty == 'I' and not -32768 <= v <= 32767:
        ty = 'S'        # integer arithmetic that leaves the range continues in single precision (no Overflow)
    return V(ty, v, tyc, dev)


def pc_eval(tokens, dm):
    """precedence climbing over the token list: ('val', V) | ('op', sym) | '(' | ')'"""
    pos = [0]
    n = len(tokens)

    def peek():
        return tokens[pos[0]] if pos[0] < n else None

    def operand():
        t = peek()
        if t is None:
            raise BasicErr(22)
        if t == '(':
            pos[0] += 1
            v = expr(0)
            if peek() != ')':
                raise BasicErr(2)
            pos[0] += 1
            return v
        if t[0] == 'op' and t[1] in UN_PREC:
            pos[0] += 1
            return apply_unary(t[1], expr(UN_PREC[t[1]]))
        if t[0] == 'val':
            pos[0] += 1
            return t[1]
        raise BasicErr(2)

    def expr(minp):
        lhs = operand()
        while True:
            t = peek()
            if t is None or t == ')' or t == '(' or t[0] != 'op' or t[1] not in BIN_PREC or BIN_PREC[t[1]] < minp:
                return lhs
            pos[0] += 1
            rhs = expr(BIN_PREC[t[1]] + 1)
            lhs = apply_binary(t[1], lhs, rhs, dm)

    v = expr(0)
    if pos[0] != n:
        raise BasicErr(2)
    return v


def dec(x):
    s = format(Decimal(x.numerator) / Decimal(x.denominator), 'f')
    if '.' in s:
        s = s.rstrip('0').rstrip('.')
    return s or '0'


VARS = [('A%', 'I', -3), ('B%', 'I', 7), ('C%', 'I', -32768), ('D%', 'I', 32767), ('E%', 'I', 0), ('F%', 'I', 2),
        ('P!', 'S', Fraction(-5, 2)), ('Q!', 'S', Fraction(3, 4)), ('R!', 'S', -4), ('S!', 'S', 16777215),
        ('X#', 'D', Fraction(-1, 8)), ('Y#', 'D', 2 ** 40 + 1), ('Z#', 'D', -8), ('W#', 'D', Fraction(3, 2)),
        ('ZS!', 'S', 0), ('ZD#', 'D', 0), ('NS!', 'S', 0), ('ND#', 'D', 0),
        ('T$', 'T', b'ab'), ('U$', 'T', b''), ('V$', 'T', b'abc')]
# variables whose zero is the result of an earlier negation (the sign-bit zero persists in memory)
INIT = {'NS!': '-ZS!', 'ND#': '-ZD#'}
LITS = [('I', 0), ('I', 1), ('I', 2), ('I', 3), ('I', 4), ('I', 5), ('I', 8), ('I', 10), ('I', 16), ('I', 255),
        ('I', 32767), ('S', Fraction(1, 2)), ('S', Fraction(5, 2)), ('S', Fraction(1, 4)), ('S', 3), ('S', 8),
        ('S', 40000), ('S', 100000), ('S', 0), ('D', 0), ('D', Fraction(3, 2)), ('D', Fraction(1, 8)), ('D', 3), ('D', 4),
        ('D', 2 ** 40 + 1), ('T', b'ab'), ('T', b'b'), ('T', b''), ('T', b'abd')]


# every class of number token the tokeniser produces from program text: (text, type, value)
NUMTOKS = [(str(i), 'I', i) for i in range(11)] + [                               # one-byte constants 0..10
    ('11', 'I', 11), ('100', 'I', 100), ('255', 'I', 255),                         # T_BYTE
    ('256', 'I', 256), ('1000', 'I', 1000), ('32767', 'I', 32767), ('5%', 'I', 5), ('300%', 'I', 300),   # T_INT
    ('&H0', 'I', 0), ('&H10', 'I', 16), ('&H7FFF', 'I', 32767), ('&H8000', 'I', -32768), ('&HFFFF', 'I', -1),
    ('&O17', 'I', 15), ('&17', 'I', 15), ('&O177777', 'I', -1), ('&O100000', 'I', -32768),              # T_HEX T_OCT
    ('.5', 'S', Fraction(1, 2)), ('2.5', 'S', Fraction(5, 2)), ('3!', 'S', 3), ('1.5!', 'S', Fraction(3, 2)),
    ('1E3', 'S', 1000), ('1.25E2', 'S', 125), ('5E-1', 'S', Fraction(1, 2)), ('1.5E+1', 'S', 15),
    ('32768', 'S', 32768), ('40000', 'S', 40000), ('65529', 'S', 65529), ('65536', 'S', 65536),
    ('9999999', 'S', 9999999), ('16777215', 'D', 16777215),                                             # T_SINGLE
    ('1D3', 'D', 1000), ('25D-2', 'D', Fraction(1, 4)), ('1.5D+1', 'D', 15), ('3#', 'D', 3), ('.5#', 'D', Fraction(1, 2)),
    ('1.5#', 'D', Fraction(3, 2)), ('16777217', 'D', 16777217), ('123456789', 'D', 123456789)]          # T_DOUBLE
# figures that the tokeniser stores as LINE NUMBERS (token 0E, unsigned) when they follow ERL
LINENUMS = [0, 1, 10, 255, 256, 32767, 32768, 40000, 65529]


def numtok_leaf(entry):
    text, ty, v = entry
    return ('val', V(ty, Fraction(v)), text)


def leaf_token(rng, want):
    """('val', V, text)"""
    while True:
        if want != 'str' and rng.random() < 0.12:
            return numtok_leaf(rng.choice(NUMTOKS))
        if rng.random() < 0.4:
            name, ty, v = rng.choice(VARS)
            text = name
        else:
            ty, v = rng.choice(LITS)
            if ty == 'T':
                text = '"%s"' % v.decode()
            elif ty == 'I':
                text = str(v)
            elif ty == 'S':
                text = dec(Fraction(v))
                if '.' not in text and Fraction(v) <= 32767:
                    text += '!'
            else:
                text = dec(Fraction(v)) + '#'
        if want == 'num' and ty == 'T' or want == 'str' and ty != 'T':
            continue
        val = V(ty, v if ty == 'T' else Fraction(v))
        return ('val', val, text)


def typed_tree_tokens(rng, depth, want, mode):
    """token list of a random expression, bottom-up; brackets chosen from the statement's precedences by
    building the tree and rendering it with render()"""
    leaves = []

    def gen(d, want):
        if d == 0 or (d < depth and rng.random() < 0.2):
            leaves.append(leaf_token(rng, want))
            return ('L', len(leaves) - 1)
        mis = rng.random() < 0.04      # inject an ill-typed operand now and then
        r = rng.random()
        if want == 'str':
            if r < 0.6:
                return ('B', '+', gen(d - 1, 'str'), gen(d - 1, 'num' if mis else 'str'))
            return ('U', rng.choice(['-', '+']), gen(d - 1, 'str'))
        if r < 0.2:
            return ('U', rng.choice(UN_SYMS), gen(d - 1, 'str' if mis else 'num'))
        if r < 0.32:
            rel = rng.choice(RELS)
            if rng.random() < 0.35:
                return ('B', rel, gen(d - 1, 'str'), gen(d - 1, 'num' if mis else 'str'))
            return ('B', rel, gen(d - 1, 'num'), gen(d - 1, 'str' if mis else 'num'))
        sym = rng.choice(['+', '-', '*', '/', '^', '\\', 'MOD', '+', '-', '*', 'AND', 'OR', 'XOR', 'EQV', 'IMP'])
        a = gen(d - 1, 'str' if (mis and rng.random() < 0.5) else 'num')
        b = gen(d - 1, 'str' if (mis and rng.random() < 0.5) else 'num')
        return ('B', sym, a, b)

    t = gen(depth, want)
    toks = []
    for x in render(t, 0, 0, mode, rng):
        if x in ('(', ')'):
            toks.append(x)
        elif x[0] == 'L':
            toks.append(leaves[x[1]])
        else:
            toks.append(('op', x[1]))
    return t, leaves, toks


def tokens_text(toks, rng):
    parts = []
    for t in toks:
        if t in ('(', ')'):
            parts.append(t)
        elif t[0] == 'val':
            parts.append(t[2])
        else:
            s = t[1]
            if len(s) == 2 and s in RELS and rng.random() < 0.3:
                s = s[0] + ' ' + s[1]
            parts.append(s)
    return ' '.join(parts)


TYLETTER = {'Integer': 'I', 'Single': 'S', 'Double': 'D', 'String': 'T'}


class RealEval(object):
    def __init__(self, dm):
        from pcbasic.basic.base import error
        self.error = error
        self.dm = dm
        self.session = basic.new_session(double=dm)
        self.impl = self.session._impl
        self.set_vars()

    def parse_expression(self, text):
        impl = self.impl
        try:
            tokens = impl.tokeniser.tokenise_line(b'?' + text.encode('latin-1'))
            tokens.read(2)
            val = impl.parser.expression_parser.parse_expression(tokens)
            rest = tokens.read()
        except self.error.BASICError as e:
            return ('err', e.err)
        except Exception as e:  # noqa
            return ('exc', type(e).__name__)
        ty = TYLETTER.get(type(val).__name__, type(val).__name__)
        v = val.to_value()
        return ('ok', ty, v if ty == 'T' else Fraction(v), rest.strip(b' \0'))

    def evaluate(self, text):
        try:
            return ('ok', self.session.evaluate(text))
        except Exception as e:  # noqa
            return ('exc', type(e).__name__)

    def set_vars(self):
        for name, ty, v in VARS:
            self.session.set_variable(name, v if ty == 'T' else (int(v) if ty == 'I' else float(Fraction(v))))
        for name in sorted(INIT):
            self.session.execute(('%s=%s' % (name, INIT[name])).encode())
        # array elements: a plain zero and a negated one
        # (set_vars is only called on cleared memory: at start, after NEW, after RUN - no error may happen
        # here, it would move ERL)
        self.session.execute(b'DIM ZA(2):ZA(1)=-ZA(0)')

    def set_erl(self, line):
        """history that leaves ERL = line: 0 after NEW, 65535 after an error in direct mode, else the line
        of a stored program on which an error occurred"""
        self.session.execute(b'NEW')
        if line == 65535:
            self.session.execute(b'ERROR 5')
        elif line:
            self.session.execute(b'%d ERROR 5' % line)
            self.session.execute(b'RUN')
        self.set_vars()

    def printed(self, text, program):
        """bytes written by PRINT <text>, in direct mode or as a stored program (literals then live in code space);
        RUN clears the variables, so the program assigns them itself"""
        try:
            if program:
                self.session.execute(b'NEW')
                assigns = []
                for name, ty, v in VARS:
                    lit = b'"%s"' % v if ty == 'T' else dec(Fraction(v)).encode() + (b'#' if ty == 'D' else b'')
                    if name in INIT:
                        lit = INIT[name].encode()
                    assigns.append(name.encode() + b'=' + lit)
                self.session.execute(b'10 ' + b':'.join(assigns[:9]))
                self.session.execute(b'20 ' + b':'.join(assigns[9:]) + b':DIM ZA(2):ZA(1)=-ZA(0)')
                self.session.execute(b'30 PRINT ' + text.encode('latin-1'))
                out = self.session.execute(b'RUN')
                self.session.execute(b'NEW')
                self.set_vars()
                return out
            return self.session.execute(b'PRINT ' + text.encode('latin-1'))
        except Exception as e:  # noqa
            return b'<<EXC %s>>' % type(e).__name__.encode()


ERRMSG = {13: b'Type mismatch', 6: b'Overflow', 22: b'Missing operand', 2: b'Syntax error'}


def check_value_case(ctx, real, toks, text, label, model_req=None, deep=False, value_only=False, extra=None):
    """one expression: oracle vs parse_expression, Session.evaluate and (deep) PRINT"""
    try:
        exp = pc_eval([t if t in ('(', ')') else (t[0], t[1]) for t in toks], real.dm)
        want = ('ok', exp)
    except BasicErr as e:
        want = ('err', e.n)
    except Skip as e:
        ctx.count('B:skipped:%s' % e)
        return None
    ctx.case(('B', real.dm, text))
    ctx.count('B:%s:%s' % (label, want[0] + (str(want[1]) if want[0] == 'err' else ':' + want[1].ty)))
    got = real.parse_expression(text)
    case = {'part': 'B', 'text': text, 'dm': real.dm, 'tokens': [t if t in ('(', ')') else
            ([t[0], t[1].ty, t[1].v.decode('latin-1') if t[1].ty == 'T' else str(t[1].v)] if t[0] == 'val'
             else list(t)) for t in toks], 'deep': deep}
    if extra:
        case.update(extra)
    opkey = ' '.join(t[1] for t in toks if t not in ('(', ')') and t[0] == 'op')[:40]
    if got[0] == 'exc':
        ctx.fail('host-exception:%s:%s' % (got[1], opkey), case, '%s: Python %s escaped from parse_expression'
                 % (text, got[1]))
        return got
    if want[0] == 'err':
        if got != want:
            ctx.fail('error:%d:%s' % (want[1], opkey), case, '%s: expected error %d, got %r' % (text, want[1], got))
        elif deep:
            out = real.printed(text, False)
            if ERRMSG[want[1]] not in out:
                ctx.fail('error-print:%d:%s' % (want[1], opkey), case, 'PRINT %s wrote %r' % (text, out))
            ev = real.evaluate(text)
            if ev != ('ok', None):
                ctx.fail('error-evaluate:%s' % opkey, case, 'Session.evaluate(%r) returned %r' % (text, ev))
        return got
    e = want[1]
    if got[0] != 'ok':
        ctx.fail('value:unexpected-error:%s:%s' % (got[1], opkey), case,
                 '%s: expected %s %s, got error %s' % (text, e.ty, e.v, got[1]))
        return got
    _, gty, gv, rest = got
    if rest:
        ctx.fail('value:unread-input:%s' % opkey, case, '%s: parse stopped before %r' % (text, rest))
    if gv != e.v:
        ctx.fail('value:%s' % opkey, case, '%s: expected value %s, got %s' % (text, e.v, gv))
    if gty != e.ty and not value_only:
        if gty == e.tyc and e.dev:
            # the documented deviations of the coded typing from the statement's literal wording
            for d in sorted(e.dev):
                ctx.count('B:deviation:' + d)
            key = 'S6:double-power-yields-single' if e.ty == 'D' else 'S5:integer-arithmetic-yields-single'
            ctx.count('B:known-deviation:' + key[:2])
            if ctx.stats['B:known-deviation:' + key[:2]] <= 3:     # reported a few times, counted always
                ctx.fail(key, case, '%s: statement type %s, implementation type %s' % (text, e.ty, gty))
        else:
            ctx.fail('type:%s>%s:%s' % (e.ty, gty, opkey), case, '%s: expected type %s, got %s (value %s)'
                     % (text, e.ty, gty, gv))
    # public API: Python type and value
    ev = real.evaluate(text)
    pyt = {'I': int, 'S': float, 'D': float, 'T': bytes}[gty]
    if ev[0] != 'ok' or type(ev[1]) is not pyt or (ev[1] if gty == 'T' else Fraction(ev[1])) != e.v:
        ctx.fail('evaluate:%s' % opkey, case, 'Session.evaluate(%r) returned %r, expected %s' % (text, ev, e.v))
    if deep:
        out = real.printed(text, deep == 'program')
        if e.ty == 'T':
            ok = out.rstrip(b'\r\n') == e.v
        elif e.v.denominator == 1 and abs(e.v) < 10 ** 6:
            ok = out.split() == [b'%d' % int(e.v)]
        else:
            ok = True
            ctx.count('B:print-not-compared')
        if not ok:
            ctx.fail('print:%s' % opkey, case, 'PRINT %s wrote %r, expected %s' % (text, out, e.v))
    return got


def part_b(ctx):
    rng = ctx.rng
    tm = tokmap()
    reals = {False: RealEval(False), True: RealEval(True)}
    model_lines, model_cases, model_impl = [], [], []

    def model_type_case(t, leaves, got, dm):
        """typing model vs implementation on the same tree (only where the outcome is decided by types)"""
        if got is None or got[0] == 'exc':
            return
        if got[0] == 'err' and got[1] != 13:
            return
        letters = ''.join(l[1].ty for l in leaves)
        model_lines.append('type %d %s %s' % (1 if dm else 0, letters or 'I', ','.join(prefix_tree(t, tm))))
        model_cases.append(letters)
        model_impl.append('ok %s' % got[1] if got[0] == 'ok' else 'err 13')

    # 0. zeros of every provenance under every operator: a zero is a zero, whatever its encoding
    part_b_zeros(ctx, reals)
    # 0b. every class of number token as a leaf, incl. line-number tokens after ERL
    part_b_numtokens(ctx, reals)
    # 1. every ordered pair of binary operators and every unary placement, several operand triples
    triples = []
    for _ in range(4 if ctx.quick else 12):
        triples.append([leaf_token(rng, 'num') for _ in range(3)])
    triples.append([('val', V('I', Fraction(2)), '2'), ('val', V('I', Fraction(3)), '3'), ('val', V('I', Fraction(4)), '4')])
    triples.append([('val', V('I', Fraction(8)), '8'), ('val', V('I', Fraction(2)), '2'), ('val', V('I', Fraction(2)), '2')])
    triples.append([('val', V('S', Fraction(1, 2)), '.5'), ('val', V('D', Fraction(4)), '4#'), ('val', V('I', Fraction(1)), '1')])
    npair = 0
    for a, b, c in triples:
        real = reals[rng.random() < 0.3]
        for k1 in BIN_SYMS:
            for k2 in BIN_SYMS:
                toks = [a, ('op', k1), b, ('op', k2), c]
                check_value_case(ctx, real, toks, tokens_text(toks, rng), 'pair')
                npair += 1
            for u in UN_SYMS:
                for toks in ([('op', u), a, ('op', k1), b], [a, ('op', k1), ('op', u), b]):
                    check_value_case(ctx, real, toks, tokens_text(toks, rng), 'unary')
                for k2 in (BIN_SYMS if not ctx.quick else rng.sample(BIN_SYMS, 6)):
                    toks = [a, ('op', k1), ('op', u), b, ('op', k2), c]
                    check_value_case(ctx, real, toks, tokens_text(toks, rng), 'unary3')
    ctx.notes['operator_pairs'] = 'all %d ordered pairs of binary operator spellings x %d operand triples' % (
        len(BIN_SYMS) ** 2, len(triples))
    # type-mismatch matrix: every operator with a string on either / both sides, every operand type
    sval = ('val', V('T', b'a'), '"a"')
    for real in (reals[False], reals[True]):
        for num in (('val', V('I', Fraction(1)), '1'), ('val', V('S', Fraction(5, 2)), '2.5'),
                    ('val', V('D', Fraction(3, 2)), '1.5#'), ('val', V('S', Fraction(40000)), '40000')):
            for k in BIN_SYMS:
                for toks in ([num, ('op', k), sval], [sval, ('op', k), num], [sval, ('op', k), sval]):
                    check_value_case(ctx, real, toks, tokens_text(toks, rng), 'mismatch', deep=(k in ('IMP', '+', '=')))
        for u in UN_SYMS:
            toks = [('op', u), sval]
            check_value_case(ctx, real, toks, tokens_text(toks, rng), 'mismatch', deep='direct')
    # named examples of the statement
    for text, val in (('2^-3*4', Fraction(1, 2)), ('-2^2', Fraction(-4)), ('NOT 1 = 2', Fraction(-1)),
                      ('1 + NOT 2 + 3', Fraction(-5)), ('1 < 2 < 3', Fraction(-1)), ('3 > 2 > 1', Fraction(0)),
                      ('2 ^ 3 ^ 2', Fraction(64)), ('7 - 4 - 2', Fraction(1)), ('16 / 4 / 2', Fraction(2)),
                      ('17 \\ 5 MOD 3', Fraction(0)), ('17 MOD 5 \\ 2', Fraction(1)), ('1 OR 2 AND 4', Fraction(1)),
                      ('1 XOR 3 EQV 2 IMP 1', Fraction(1)), ('2 * - 3 + 1', Fraction(-5)), ('- - 2', Fraction(2))):
        got = reals[False].parse_expression(text)
        ctx.case(('B', 'named', text))
        if got[0] != 'ok' or got[2] != val:
            ctx.fail('named:' + text, {'part': 'B', 'text': text, 'dm': False, 'named': str(val)},
                     '%s: expected %s, got %r' % (text, val, got))
    # 2. random typed trees in long-lived sessions (errors and successes interleaved)
    ntree = 3500 if ctx.quick else 60000
    deep_every = 12 if ctx.quick else 25
    done = 0
    attempts = 0
    while done < ntree and attempts < ntree * 6:
        attempts += 1
        dm = rng.random() < 0.3
        real = reals[dm]
        mode = rng.choice(['min', 'min', 'full', 'rand'])
        t, leaves, toks = typed_tree_tokens(rng, rng.randint(1, 6), 'str' if rng.random() < 0.12 else 'num', mode)
        text = tokens_text(toks, rng)
        if len(text) > 240:
            continue
        deep = False
        if done % deep_every == 0:
            deep = 'program' if (done // deep_every) % 3 == 0 else 'direct'
        got = check_value_case(ctx, real, toks, text, 'tree:' + mode, deep=deep)
        if got is None:
            continue
        done += 1
        ctx.count('B:depth:%d' % depth_of(t))
        model_type_case(t, leaves, got, dm)
        if done <= 3:
            ctx.sample({'part': 'B', 'text': text, 'impl': repr(got)})
    ctx.log('B: %d typed trees (%d attempts), %d operator-pair cases' % (done, attempts, npair))
    ctx.compare(model_cases, model_impl, model_lines, label='typeOf')
    # 3. the operator functions themselves against the typing model
    from pcbasic.basic.parser import operators as op
    lines, outs = [], []
    for dm in (False, True):
        real = reals[dm]
        vs = real.impl.values
        samples = {'I': lambda: vs.new_integer().from_int(3), 'S': lambda: vs.new_single().from_int(2),
                   'D': lambda: vs.new_double().from_int(4), 'T': lambda: vs.from_str_at(b'a', None)}
        for fn in sorted(set(op.BINARY.values()), key=fname):
            for l in 'ISDT':
                for r in 'ISDT':
                    lines.append('btype %d %s %s %s' % (dm, fname(fn), l, r))
                    outs.append(call_type(real, fn, samples[l](), samples[r]()))
                    ctx.case(('btype', dm, fname(fn), l, r))
        for fn in sorted(set(op.UNARY.values()), key=fname):
            for a in 'ISDT':
                lines.append('utype %s %s' % (fname(fn), a))
                outs.append(call_type(real, fn, samples[a]()))
                ctx.case(('utype', dm, fname(fn), a))
    ctx.compare(lines, outs, lines, label='optype')
    for l, o in zip(lines, outs):
        if o.startswith('exc'):
            ctx.fail('host-exception:operator:%s' % ':'.join(l.split()[-3:]), {'part': 'optype', 'line': l},
                     '%s: the operator function raised Python %s' % (l, o))


def zero_operands():
    """token groups that evaluate to zero: literals, zero variables of each type, unary minus on each of
    them, negated zero subexpressions, stored negated zeros (variables, array element), products with zero,
    underflowed products, CVS/CVD patterns with exponent byte 0 (sign bit / stray mantissa bits)"""
    zero = Fraction(0)

    def leaf(ty, text):
        return ('val', V(ty, zero), text)
    neg, minus, times = ('op', '-'), ('op', '-'), ('op', '*')
    one = ('val', V('I', Fraction(1)), '1')
    two = ('val', V('I', Fraction(2)), '2')
    lits = [leaf('I', '0'), leaf('S', '0!'), leaf('D', '0#')]
    zvars = [leaf('I', 'E%'), leaf('S', 'ZS!'), leaf('D', 'ZD#')]
    plain = [[x] for x in lits + zvars] + [[leaf('S', 'ZA(0)')], ['(', two, minus, two, ')']]
    signed = [[neg, x] for x in lits + zvars]
    signed += [[leaf('S', 'NS!')], [leaf('D', 'ND#')], [leaf('S', 'ZA(1)')], [neg, leaf('S', 'ZA(0)')],
               [neg, '(', two, minus, two, ')'], [neg, neg, lits[0]], [neg, '(', neg, lits[1], ')'],
               ['(', lits[0], times, neg, one, ')'], ['(', neg, one, times, lits[0], ')'],
               ['(', zvars[2], times, neg, two, ')'],
               [leaf('S', '(1E-30*1E-30)')], [leaf('S', '(-1E-30*1E-30)')], [leaf('D', '(1D-30*-1D-30)')],
               [leaf('S', 'CVS(CHR$(0)+CHR$(0)+CHR$(128)+CHR$(0))')],
               [leaf('S', 'CVS(CHR$(1)+CHR$(2)+CHR$(131)+CHR$(0))')],
               [leaf('S', 'CVS(CHR$(255)+CHR$(255)+CHR$(127)+CHR$(0))')],
               [leaf('D', 'CVD(STRING$(6,0)+CHR$(128)+CHR$(0))')],
               [leaf('D', 'CVD(CHR$(5)+STRING$(5,7)+CHR$(200)+CHR$(0))')],
               [neg, leaf('S', 'CVS(CHR$(1)+CHR$(2)+CHR$(3)+CHR$(0))')]]
    return plain, signed


def part_b_zeros(ctx, reals):
    rng = ctx.rng
    plain, signed = zero_operands()
    zeros = plain + signed
    half = ('val', V('S', Fraction(1, 2)), '.5')
    nonzero = [[('val', V('I', Fraction(1)), '1')], [('op', '-'), ('val', V('I', Fraction(1)), '1')],
               [('op', '-'), half], [('val', V('D', Fraction(5, 2)), '2.5#')], [('val', V('S', Fraction(-5, 2)), 'P!')],
               [('val', V('D', Fraction(-1, 8)), 'X#')], [('val', V('I', Fraction(2)), 'F%')]]
    n = 0

    def go(toks, label, **kw):
        real = reals[rng.random() < 0.25]
        return check_value_case(ctx, real, toks, tokens_text(toks, rng), label, **kw)

    # relational operators: every zero against every plain zero (both orders), and a sample of all pairs
    rel_pairs = [(a, b) for a in zeros for b in plain] + [(b, a) for a in signed for b in plain]
    rel_pairs += [(rng.choice(zeros), rng.choice(zeros)) for _ in range(150 if ctx.quick else 2000)]
    rel_pairs += [(rng.choice(zeros), rng.choice(nonzero)) for _ in range(60 if ctx.quick else 600)]
    rel_pairs += [(rng.choice(nonzero), rng.choice(zeros)) for _ in range(60 if ctx.quick else 600)]
    for a, b in rel_pairs:
        for k in (RELS if not ctx.quick else ('>', '<', '=', rng.choice(['>=', '=>']), rng.choice(['<=', '=<']),
                                              rng.choice(['<>', '><']))):
            go(a + [('op', k)] + b, 'zero-rel')
            n += 1
    # every other binary operator with a zero on either / both sides
    for z in zeros:
        for k in BIN_SYMS:
            if k in RELS:
                continue
            o = rng.choice(nonzero)
            for toks in (z + [('op', k)] + o, o + [('op', k)] + z, z + [('op', k)] + rng.choice(zeros)):
                go(toks, 'zero-bin')
                n += 1
        # unary operators, also doubled, and a comparison of the result
        for u in UN_SYMS:
            go([('op', u)] + z, 'zero-un')
            go([('op', u), '('] + z + [')', ('op', rng.choice(RELS))] + rng.choice(plain), 'zero-un')
            n += 2
        # numeric functions of a zero are zero (result types of functions are not part of the statement)
        ztext = tokens_text(z, rng)
        for fn in ('SGN', 'ABS', 'INT', 'FIX', 'CINT'):
            f = ('val', V('I' if fn in ('SGN', 'CINT') else 'S', Fraction(0)), '%s(%s)' % (fn, ztext))
            k = rng.choice(RELS)
            for toks in ([f], [f, ('op', k)] + rng.choice(plain), rng.choice(plain) + [('op', k), f],
                         [('op', '-'), f, ('op', k)] + rng.choice(zeros)):
                go(toks, 'zero-fn', value_only=True)
                n += 1
    # the same after the negated zero went through a stored program (assignment, IF, array element)
    real = reals[False]
    try:
        real.session.execute(b'NEW')
        for line in (b'10 DX=0:DD#=0:DIM AA(2)', b'20 DX=-DX:DD#=-DD#:AA(1)=-AA(0)',
                     b'30 IF DX>=0 THEN PRINT "A"; ELSE PRINT "a";', b'40 IF 0>DD# THEN PRINT "b"; ELSE PRINT "B";',
                     b'50 IF AA(1)<AA(0) THEN PRINT "c"; ELSE PRINT "C";',
                     b'60 PRINT 0>DX;DX<0;DX=0;0<=DD#;DD#>=0;AA(1)<>0'):
            real.session.execute(line)
        out = real.session.execute(b'RUN')
        real.session.execute(b'NEW')
    except Exception as e:  # noqa
        out = b'<<EXC %s>>' % type(e).__name__.encode()
    real.set_vars()
    ctx.case(('B', 'zero-program'))
    if out.split() != [b'ABC', b'0', b'0', b'-1', b'-1', b'-1', b'0']:
        ctx.fail('zero:program', {'part': 'B', 'zero_program': True},
                 'DX=0: DX=-DX: comparisons of the stored negated zero printed %r, expected ABC 0 0 -1 -1 -1 0' % out)
    ctx.notes['zero_cases'] = '%d expressions over %d zero operands (%d with a sign bit or stray bits)' % (
        n, len(zeros), len(signed))


def erl_leaf(line):
    return ('val', V('S', Fraction(line)), 'ERL')


def linenum_leaf(n):
    """a figure after ERL: same value as anywhere else; a Single when it does not fit an integer"""
    return ('val', V('I' if n <= 32767 else 'S', Fraction(n)), str(n))


def erl_expression(rng, line):
    """ERL <op> figure [<op> figure ...] - operators do not end the tokeniser's line-number mode"""
    toks = [erl_leaf(line)]
    for _ in range(rng.choice([1, 1, 1, 2, 3])):
        toks.append(('op', rng.choice(['=', '<>', '<', '>', '<=', '>=', '-', '+', '-', '+', '=', '*'])))
        if rng.random() < 0.15:
            toks.append(('op', '-'))
        toks.append(linenum_leaf(rng.choice(LINENUMS)))
    return toks


def part_b_numtokens(ctx, reals):
    rng = ctx.rng
    partners = [('val', V('I', Fraction(2)), '2'), ('val', V('S', Fraction(1, 2)), '.5'),
                ('val', V('D', Fraction(4)), '4#'), ('val', V('I', Fraction(-3)), 'A%')]
    n = 0
    # every number token class under every operator, both sides
    for entry in NUMTOKS:
        leaf = numtok_leaf(entry)
        for k in BIN_SYMS:
            for p in (partners if not ctx.quick else [rng.choice(partners)]):
                for toks in ([leaf, ('op', k), p], [p, ('op', k), leaf]):
                    check_value_case(ctx, reals[rng.random() < 0.25], toks, tokens_text(toks, rng), 'numtok')
                    n += 1
        for u in UN_SYMS:
            toks = [('op', u), leaf]
            check_value_case(ctx, reals[False], toks, tokens_text(toks, rng), 'numtok',
                             deep=('direct' if rng.random() < 0.1 else False))
            n += 1
    # line-number tokens: figures after ERL, with ERL left at several values by the preceding history
    real = reals[False]
    for line in (0, 65535, 10, 32768, 40000, 65529):
        real.set_erl(line)
        extra = {'erl': line}
        for fig in LINENUMS:
            for k in BIN_SYMS:
                toks = [erl_leaf(line), ('op', k), linenum_leaf(fig)]
                if rng.random() < 0.2:
                    toks = toks[:2] + ['('] + toks[2:] + [')']
                got = check_value_case(ctx, real, toks, tokens_text(toks, rng), 'erl-figure', extra=extra,
                                       deep=('direct' if rng.random() < 0.03 else False))
                n += 1
                if got is not None and got[0] == 'err':
                    real.set_erl(line)      # (an error reported through the interpreter would move ERL)
        for _ in range(40 if ctx.quick else 400):
            toks = erl_expression(rng, line)
            check_value_case(ctx, real, toks, tokens_text(toks, rng), 'erl-chain', extra=extra)
            toks = [linenum_leaf(rng.choice(LINENUMS)), ('op', rng.choice(BIN_SYMS)), erl_leaf(line)]
            check_value_case(ctx, real, toks, tokens_text(toks, rng), 'erl-right', extra=extra)
            n += 2
    # ON ERROR handlers dispatching on ERL in stored programs with high line numbers
    for _ in range(6 if ctx.quick else 60):
        erl_program(ctx, real, rng, rng.choice([100, 32767, 32768, 40000, 65000]))
        n += 1
    real.session.execute(b'NEW')
    real.set_vars()
    ctx.notes['number_token_cases'] = '%d cases: %d literal spellings, %d line-number figures after ERL' % (
        n, len(NUMTOKS), len(LINENUMS))


def erl_program(ctx, real, rng, line, exprs=None):
    """10 ON ERROR GOTO 60000 / 20 GOTO <line> / <line> ERROR 5 / handler printing expressions in ERL and branching on them"""
    want, texts = [], []
    while len(texts) < 6:
        if exprs is not None:
            if len(texts) == len(exprs):
                break
            toks = exprs[len(texts)]
        else:
            toks = erl_expression(rng, line)
        try:
            v = pc_eval([t if t in ('(', ')') else (t[0], t[1]) for t in toks], False)
        except (Skip, BasicErr):
            if exprs is not None:
                return None
            continue
        if v.v.denominator != 1 or abs(v.v) >= 10 ** 6:
            if exprs is not None:
                return None
            continue
        texts.append((toks, tokens_text(toks, rng), v))
    lines = [b'10 ON ERROR GOTO 60000', b'20 GOTO %d' % line, b'%d ERROR 5' % line, b'%d PRINT "back":END' % (line + 1),
             b'60000 PRINT ' + b';'.join(t[1].encode() for t in texts[:3])]
    want = [b'%d' % int(t[2].v) for t in texts[:3]]
    for i, (toks, text, v) in enumerate(texts[3:]):
        lines.append(b'%d IF %s THEN PRINT "Y"; ELSE PRINT "N";' % (60001 + i, text.encode()))
        want.append(b'Y' if v.v != 0 else b'N')
    lines.append(b'60010 PRINT:RESUME NEXT')
    # the IF results are printed without separators
    want = want[:3] + ([b''.join(want[3:])] if want[3:] else []) + [b'back']
    try:
        real.session.execute(b'NEW')
        for l in lines:
            real.session.execute(l)
        out = real.session.execute(b'RUN')
    except Exception as e:  # noqa
        out = b'<<EXC %s>>' % type(e).__name__.encode()
    ctx.case(('B', 'erl-program', line, tuple(t[1] for t in texts)))
    ctx.count('B:erl-program:%d' % line)
    if out.split() != want:
        case = {'part': 'B', 'erl_program': line,
                'exprs': [[t if t in ('(', ')') else ([t[0], t[1].ty, str(t[1].v), t[2]] if t[0] == 'val' else list(t))
                           for t in toks] for toks, _, _ in texts]}
        msg = 'program %r printed %r, expected %r' % (b' / '.join(lines), out, b' '.join(want))
        ctx.fail('erl-program:%d' % line, case, msg)
        return msg
    return None


def call_type(real, fn, *args):
    try:
        r = fn(*args)
    except real.error.BASICError as e:
        return 'err %d' % e.err
    except Exception as e:  # noqa
        return 'exc %s' % type(e).__name__
    return 'ok %s' % TYLETTER.get(type(r).__name__, type(r).__name__)


def run(ctx):
    part_a(ctx)
    part_b(ctx)


def replay(ctx, payload):
    case = payload.get('case', {})
    key = payload.get('key')
    sub = Ctx2(ctx)
    if case.get('part') == 'B' and 'tokens' in case:
        real = RealEval(bool(case.get('dm')))
        toks = []
        for t in case['tokens']:
            if t in ('(', ')'):
                toks.append(t)
            elif t[0] == 'val':
                toks.append(('val', V(t[1], t[2].encode('latin-1') if t[1] == 'T' else Fraction(t[2])), ''))
            else:
                toks.append(('op', t[1]))
        if case.get('erl') is not None:
            real.set_erl(case['erl'])
        check_value_case(sub, real, toks, case['text'], 'replay', deep=case.get('deep') or False)
    elif case.get('erl_program') is not None:
        exprs = [[t if t in ('(', ')') else (('val', V(t[1], Fraction(t[2])), t[3]) if t[0] == 'val' else ('op', t[1]))
                  for t in e] for e in case['exprs']]
        import random
        return erl_program(sub, RealEval(False), random.Random(0), case['erl_program'], exprs)
    elif case.get('zero_program'):
        sub.rng = __import__('random').Random(payload.get('seed', 0))
        part_b_zeros(sub, {False: RealEval(False), True: RealEval(True)})
    elif case.get('part') == 'B' and 'named' in case:
        got = RealEval(False).parse_expression(case['text'])
        if got[0] != 'ok' or got[2] != Fraction(case['named']):
            return '%s: got %r' % (case['text'], got)
        return None
    elif case.get('part') == 'optype':
        import random
        sub.rng = random.Random(payload.get('seed', 0))
        part_b(sub)
    else:
        import random
        sub.rng = random.Random(payload.get('seed', 0))
        run(sub)
    hits = [f for f in sub.failures if f['key'] == key]
    return hits[0]['what'] if hits else None


class Ctx2(object):
    """thin proxy so replay can reuse the checks without touching the outer evidence"""
    def __init__(self, ctx):
        self.__dict__.update(ctx.__dict__)
        self._ctx = ctx
        self.failures = []
        self.disagreements = []

    def __getattr__(self, name):
        return getattr(self._ctx.__class__, name).__get__(self)
