import PcbV.Model.Mbf
/-
  `Float.imul` of numbers.py AFTER the repair of defect D5: the early "certain underflow" exit
  compares the product exponent with `-(self._shift + 8)` (`_shift = _bias - 129`, i.e. the
  mantissa width minus one: -31 for Single, -63 for Double) instead of the literal `-31`.
  `PcbV.Mbf.imul` (shared model) transcribes the code BEFORE the repair and is kept for the
  counterexample theorem.  Everything else is identical.
-/
namespace PcbV.Mbf

/-- `imul` with the early-exit threshold as a parameter -/
def imulThr (thr : Int) (f : Fmt) (x y : F) : FR :=
  if x.isZero || y.isZero then .ok zero else
  let l := denorm f x
  let r := denorm f y
  let lexp := l.exp + r.exp - f.bias - 8
  let lneg := l.neg != r.neg
  let lman := l.man * r.man
  if lexp < thr then .ok zero else
  let (lman, lexp) := bringToRange lman lexp (f.denMask / 16) (f.denUpper / 16)
  let lman := if lman % 16 = 9 then (lman % f.denUpper) / 256 * 256 + lman % 256 / 2 * 2 else lman
  normalise f lexp lman lneg

/-- `-(self._shift + 8)` with `_shift = _bias - 129` -/
def mulThreshold (f : Fmt) : Int := -(((f.bias : Int) - 129) + 8)

/-- `imul(right)` of the repaired code -/
def imulFixed (f : Fmt) (x y : F) : FR := imulThr (mulThreshold f) f x y

end PcbV.Mbf
