import PcbV.Model.Paint
namespace PcbV.Drv.C32
open PcbV PcbV.Paint

/-
  Requests (after the `C32` prefix):
    paint <bx0> <by0> <bx1> <by1> <rx> <ry> <rw> <dflt> <hex> <sx> <sy> <fill> <border> <fuel>
    tile  <bx0> <by0> <bx1> <by1> <rx> <ry> <rw> <dflt> <hex> <sx> <sy> <border> <fuel> <kind> <pattern> <bg>
    build <kind> <pattern>
  The picture is `dflt` everywhere except in the rectangle with top-left corner (rx, ry), width rw and
  one byte per pixel in <hex> (row by row).  <kind>: `s` solid (pattern = the fill attribute as two hex
  digits), `p<bpp>` packed-pixel tile, `e<planes>` planar tile; <bg> = `-` or the background pattern.
  Reply: `ok <finished> <hex of the rectangle afterwards>` / `err <n>`.
    iters <same arguments as paint>   reply: `ok <finished> <iterations of the main loop>`
-/

def ints (l : List String) : Option (List Int) :=
  l.foldr (fun s acc => match s.toInt?, acc with
    | some i, some r => some (i :: r)
    | _, _ => none) (some [])

def mkGrid (rx ry rw : Int) (dflt : Nat) (data : Array Nat) : Grid :=
  let rh : Int := if rw ≤ 0 then 0 else (data.size : Int) / rw
  fun x y =>
    if rx ≤ x ∧ x < rx + rw ∧ ry ≤ y ∧ y < ry + rh then data.getD ((y - ry) * rw + (x - rx)).toNat dflt
    else dflt

def dump (g : Grid) (rx ry rw : Int) (n : Nat) : String :=
  let w := rw.toNat
  let h := if w = 0 then 0 else n / w
  toHex ((List.range h).flatMap (fun (j : Nat) => (List.range w).map (fun (i : Nat) => g (rx + (i : Int)) (ry + (j : Int)))))

def showResult (r : Result) (rx ry rw : Int) (n : Nat) : String :=
  "ok " ++ showBool r.finished ++ " " ++ dump r.grid rx ry rw n

def buildTile (kind : String) (pat : Bytes) : Option Tile :=
  match kind.toList with
  | 'p' :: rest => (String.ofList rest).toNat?.bind (fun bpp =>
      if bpp = 1 ∨ bpp = 2 ∨ bpp = 4 ∨ bpp = 8 then some ⟨buildTilePacked bpp pat⟩ else none)
  | 'e' :: rest => (String.ofList rest).toNat?.bind (fun pl =>
      if pl = 0 then none else some ⟨buildTilePlaned pl pat⟩)
  | _ => none

def showTile (t : Tile) : String :=
  "ok " ++ toString t.h ++ " " ++ toString t.w ++ " " ++ toHex t.rows.flatten

def handle : List String → String
  | ["paint", bx0, by0, bx1, by1, rx, ry, rw, dflt, hex, sx, sy, fill, border, fuel] =>
    match ints [bx0, by0, bx1, by1, rx, ry, rw, sx, sy], dflt.toNat?, ofHex hex, fill.toNat?, border.toNat?,
        fuel.toNat? with
    | some [bx0, by0, bx1, by1, rx, ry, rw, sx, sy], some dflt, some data, some fill, some border, some fuel =>
      let g := mkGrid rx ry rw dflt data.toArray
      showResult (paint ⟨bx0, by0, bx1, by1⟩ fill border fuel g sx sy) rx ry rw data.length
    | _, _, _, _, _, _ => "bad-op"
  | ["iters", bx0, by0, bx1, by1, rx, ry, rw, dflt, hex, sx, sy, fill, border, fuel] =>
    match ints [bx0, by0, bx1, by1, rx, ry, rw, sx, sy], dflt.toNat?, ofHex hex, fill.toNat?, border.toNat?,
        fuel.toNat? with
    | some [bx0, by0, bx1, by1, rx, ry, rw, sx, sy], some dflt, some data, some fill, some border, some fuel =>
      let g := mkGrid rx ry rw dflt data.toArray
      let r := paint ⟨bx0, by0, bx1, by1⟩ fill border fuel g sx sy
      "ok " ++ showBool r.finished ++ " " ++ toString r.ops.length
    | _, _, _, _, _, _ => "bad-op"
  | ["tile", bx0, by0, bx1, by1, rx, ry, rw, dflt, hex, sx, sy, border, fuel, kind, pattern, bg] =>
    match ints [bx0, by0, bx1, by1, rx, ry, rw, sx, sy], dflt.toNat?, ofHex hex, border.toNat?, fuel.toNat?,
        ofHex pattern with
    | some [bx0, by0, bx1, by1, rx, ry, rw, sx, sy], some dflt, some data, some border, some fuel, some pat =>
      let g := mkGrid rx ry rw dflt data.toArray
      let B : Bounds := ⟨bx0, by0, bx1, by1⟩
      if kind == "s" then
        match pat with
        | [fill] =>
          match paintTile B ⟨[List.replicate 8 fill]⟩ true none border fuel g sx sy with
          | .ok r => showResult r rx ry rw data.length
          | .error e => "err " ++ toString e
        | _ => "bad-op"
      else
        match buildTile kind pat with
        | none => "bad-op"
        | some t =>
          let bgrow : Option (Option (List Nat)) :=
            if bg == "-" then some none
            else match ofHex bg with
              | none => none
              | some bb => (buildTile kind bb).map (fun bt => some (bt.rows.headD []))
          match bgrow with
          | none => "bad-op"
          | some bgrow =>
            match paintTile B t false bgrow border fuel g sx sy with
            | .ok r => showResult r rx ry rw data.length
            | .error e => "err " ++ toString e
    | _, _, _, _, _, _ => "bad-op"
  | ["build", kind, pattern] =>
    match ofHex pattern with
    | some pat =>
      match buildTile kind pat with
      | some t => showTile t
      | none => "bad-op"
    | none => "bad-op"
  | _ => "bad-op"

end PcbV.Drv.C32
