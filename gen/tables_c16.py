"""C16: the statement and function dispatch tables (token -> callback) of parser/statements.py and
parser/expressions.py, as a Lean enumeration of callbacks plus the two tables.

The tables are obtained by calling the real `Parser.init_statements` / `ExpressionParser.init_functions`
with a recording stand-in for the session: every callback is named by the attribute path the source uses
(`session.all_memory.peek_` -> `all_memory.peek_`, `values.cvi_` -> `values.cvi_`,
`self.string_functions.left_` -> `string_functions.left_`, `list` -> `builtin.list`, `None` -> `builtin.none`).
A statement added to (or removed from) the source changes the enumeration, so the classification
theorem PcbV.C16.classification_total has to be re-established.
"""
from gen_tables import generator, HEADER, lean_str


class _Rec(object):
    """Records attribute paths."""

    def __init__(self, path=''):
        object.__setattr__(self, '_path', path)
        object.__setattr__(self, '_set', {})

    def __getattr__(self, name):
        if name.startswith('__'):
            raise AttributeError(name)
        path = object.__getattribute__(self, '_path')
        return _Rec((path + '.' if path else '') + name)

    def __setattr__(self, name, value):
        object.__getattribute__(self, '_set')[name] = value


def callback_name(f):
    if f is None:
        return 'builtin.none'
    if isinstance(f, _Rec):
        return object.__getattribute__(f, '_path')
    if f is list:
        return 'builtin.list'
    mod = getattr(f, '__module__', None)
    name = getattr(f, '__name__', None)
    if mod and name:
        return '%s.%s' % (str(mod).split('.')[-1], name)
    return 'unknown.' + ''.join(c if c.isalnum() else '_' for c in repr(f))[:40]


def dispatch_tables():
    """[(token hex, callback name)] for statements and for functions, in source order."""
    from pcbasic.basic.parser import statements, expressions
    me = _Rec()
    statements.Parser.init_statements(me, _Rec())
    stm = object.__getattribute__(me, '_set')['_callbacks']
    me = _Rec()
    expressions.ExpressionParser.init_functions(me, _Rec())
    fns = object.__getattribute__(me, '_set')['_callbacks']

    def hx(tok):
        return ''.join('%02x' % c for c in bytearray(tok))
    return ([(hx(k), callback_name(v)) for k, v in stm.items()],
            [(hx(k), callback_name(v)) for k, v in fns.items()])


def ctor(name):
    return ''.join(c if c.isalnum() else '_' for c in name)


@generator('Stmts')
def gen_stmts():
    from pcbasic.basic.memory import memory
    from pcbasic.basic.base import error
    stm, fns = dispatch_tables()
    names = sorted(set(n for _, n in stm + fns))
    out = [HEADER, 'namespace PcbV.Gen.Stmts\n']
    out.append('/-- every callback that occurs in the statement or function dispatch table -/')
    out.append('inductive Cb where')
    for n in names:
        out.append('  | %s' % ctor(n))
    out.append('  deriving DecidableEq, Repr\n')
    out.append('def Cb.name : Cb → String')
    for n in names:
        out.append('  | .%s => %s' % (ctor(n), lean_str(n)))
    out.append('')
    out.append('def allCbs : List Cb := [%s]\n' % ', '.join('.' + ctor(n) for n in names))
    out.append('/-- (token bytes in hex, callback) of Parser.init_statements, source order -/')
    out.append('def statements : List (String × Cb) := [\n%s]\n'
               % ',\n'.join('  (%s, .%s)' % (lean_str(k), ctor(n)) for k, n in stm))
    out.append('/-- (token bytes in hex, callback) of ExpressionParser.init_functions, source order -/')
    out.append('def functions : List (String × Cb) := [\n%s]\n'
               % ',\n'.join('  (%s, .%s)' % (lean_str(k), ctor(n)) for k, n in fns))
    out.append('def protectionFlagAddr : Nat := %d' % memory.DataSegment.protection_flag_addr)
    out.append('def ifc : Nat := %d' % error.IFC)
    out.append('\nend PcbV.Gen.Stmts\n')
    return '\n'.join(out)
