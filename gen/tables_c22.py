"""Generate lean/PcbV/Gen/DataTokens.lean: the token constants the DATA scanner depends on."""
from gen_tables import generator, HEADER, lean_list, lean_bytes


@generator('DataTokens')
def gen_datatokens():
    from pcbasic.basic.base import tokens as tk
    from pcbasic.basic.base.codestream import CodeStream, TokenisedStream
    out = [HEADER, 'namespace PcbV.Gen.DataTokens\n']
    out.append('def tData : Nat := %d' % ord(tk.DATA))
    out.append('def tRem : Nat := %d' % ord(tk.REM))
    # END_STATEMENT / END_LINE as byte lists (the empty string = end of stream is structural in the model)
    out.append('def endStatement : List Nat := %s' % lean_list(sorted(ord(c) for c in tk.END_STATEMENT if c)))
    out.append('def endLine : List Nat := %s' % lean_list(sorted(ord(c) for c in tk.END_LINE if c)))
    out.append('def blanks : List Nat := %s' % lean_bytes(CodeStream.blanks))
    out.append('def digits : List Nat := %s' % lean_bytes(tk.DIGITS))
    out.append('def hexDigits : List Nat := %s' % lean_bytes(tk.HEXDIGITS))
    out.append('def octDigits : List Nat := %s' % lean_bytes(tk.OCTDIGITS))
    pb = sorted((ord(k), v) for k, v in tk.PLUS_BYTES.items())
    out.append('def plusBytesTable : List (Nat × Nat) := [%s]' % ', '.join('(%d, %d)' % kv for kv in pb))
    out.append('\nend PcbV.Gen.DataTokens\n')
    return '\n'.join(out)
