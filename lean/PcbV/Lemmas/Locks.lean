import PcbV.Model.Locks
/-
  Vocabulary and invariant lemmas for property C26 (file sharing and record locks):
  record-set reading of lock ranges, the invariant `Inv` (unique file numbers, pairwise disjoint
  held ranges per file name, at most one OUTPUT/APPEND open per name) and its preservation by every
  lock-manager method and every statement of `PcbV.Locks.exec`.  Import-free (core only).
-/
namespace PcbV.C26
open PcbV PcbV.Locks PcbV.Gen

def Rng.has (r : Rng) (k : Nat) : Prop :=
  match r with
  | .whole => True
  | .range s e => s ≤ k ∧ k ≤ e

def Shares (a b : Rng) : Prop := ∃ k, Rng.has a k ∧ Rng.has b k

def UniqueNums (st : State) : Prop := st.Pairwise (fun a b => a.num ≠ b.num)

def LocksDisjoint (st : State) : Prop :=
  ∀ f ∈ st, ∀ g ∈ st, f.name = g.name → ∀ r ∈ f.locks, ∀ q ∈ g.locks,
    (f.num = g.num ∧ r = q) ∨ ¬ Shares r q

def OneWriter (st : State) : Prop :=
  st.Pairwise (fun a b => a.name = b.name → ¬ (isOutMode a.mode = true ∧ isOutMode b.mode = true))

structure Inv (st : State) : Prop where
  uniq : UniqueNums st
  disj : LocksDisjoint st
  writer : OneWriter st

theorem find_mem {st : State} {n : Nat} {f : Entry} (h : find st n = some f) : f ∈ st ∧ f.num = n := by
  unfold find at h
  refine ⟨List.mem_of_find?_eq_some h, ?_⟩
  have := List.find?_some h
  simpa using this

theorem find_of_mem {st : State} {f : Entry} (hu : UniqueNums st) (hf : f ∈ st) : find st f.num = some f := by
  induction st with
  | nil => cases hf
  | cons a t ih =>
    unfold UniqueNums at hu
    rw [List.pairwise_cons] at hu
    unfold find
    rw [List.find?_cons]
    rcases List.mem_cons.mp hf with rfl | hft
    · simp
    · have : a.num ≠ f.num := hu.1 f hft
      have h2 : (a.num == f.num) = false := by simpa using this
      rw [h2]
      exact ih hu.2 hft

theorem mem_listOpen {st : State} {name : Nat} {excl : Option Nat} {g : Entry} :
    g ∈ listOpen st name excl ↔ g ∈ st ∧ g.name = name ∧ some g.num ≠ excl := by
  simp [listOpen, List.mem_filter]

theorem hit_of_shares {s e : Nat} {q : Rng} (h : Shares (.range s e) q) : hit true s e q = true := by
  cases q with
  | whole => rfl
  | range s1 e1 =>
    obtain ⟨k, h1, h2⟩ := h
    simp only [Rng.has] at h1 h2
    simp only [hit, if_true, Bool.and_eq_true, decide_eq_true_eq]
    omega

theorem mem_otherLocks {st : State} {this : Entry} {num : Nat} {as ro : Bool} {q : Rng} :
    q ∈ otherLocks st this num as ro ↔
      ∃ g ∈ st, g.name = this.name ∧ (as = true → g.num ≠ num) ∧ ¬ (isOutMode g.mode = true ∧ ro = true) ∧
        q ∈ g.locks := by
  unfold otherLocks
  simp only [List.mem_flatMap, List.mem_filter, mem_listOpen]
  constructor
  · rintro ⟨g, ⟨⟨hg, hn, hx⟩, hm⟩, hq⟩
    refine ⟨g, hg, hn, ?_, ?_, hq⟩
    · intro h; subst h; simpa using hx
    · cases h1 : isOutMode g.mode <;> cases ro <;> simp_all
  · rintro ⟨g, hg, hn, hx, hm, hq⟩
    refine ⟨g, ⟨⟨hg, hn, ?_⟩, ?_⟩, hq⟩
    · cases as <;> simp_all
    · cases h1 : isOutMode g.mode <;> cases ro <;> simp_all


theorem tryRecordLock_ok {st : State} {num : Nat} {rng : Rng} {as ro : Bool}
    (h : tryRecordLock true st num rng as ro = .ok ()) :
    ∃ this, find st num = some this ∧ ∀ q ∈ otherLocks st this num as ro, ¬ Shares rng q := by
  unfold tryRecordLock at h
  split at h
  · cases h
  · next this hf =>
    refine ⟨this, hf, ?_⟩
    cases rng with
    | whole =>
      simp only at h
      split at h
      · next he =>
        intro q hq
        rw [List.isEmpty_iff.mp he] at hq
        cases hq
      · cases h
    | range s e =>
      simp only at h
      split at h
      · cases h
      · next hn =>
        intro q hq hs
        apply hn
        exact List.any_eq_true.mpr ⟨q, hq, hit_of_shares hs⟩

theorem tryRecordLock_denied {st : State} {num : Nat} {this : Entry} {rng q : Rng} {as ro : Bool}
    (hf : find st num = some this) (hq : q ∈ otherLocks st this num as ro) (hs : Shares rng q) :
    tryRecordLock true st num rng as ro = .error E.permission_denied := by
  unfold tryRecordLock
  rw [hf]
  cases rng with
  | whole =>
    simp only
    have : (otherLocks st this num as ro).isEmpty = false := by
      cases h : otherLocks st this num as ro with
      | nil => rw [h] at hq; cases hq
      | cons a t => rfl
    rw [this]; rfl
  | range s e =>
    simp only
    rw [if_pos (List.any_eq_true.mpr ⟨q, hq, hit_of_shares hs⟩)]

theorem mem_updLocks {st : State} {num : Nat} {g : List Rng → List Rng} {f' : Entry} :
    f' ∈ updLocks st num g ↔
      ∃ f ∈ st, f' = if f.num = num then { f with locks := g f.locks } else f := by
  unfold updLocks
  simp only [List.mem_map]
  constructor
  · rintro ⟨f, hf, rfl⟩; exact ⟨f, hf, rfl⟩
  · rintro ⟨f, hf, rfl⟩; exact ⟨f, hf, rfl⟩

/-- `st'` has no more files and no more locks than `st` -/
def Sub (st' st : State) : Prop :=
  ∀ f' ∈ st', ∃ f ∈ st, f.num = f'.num ∧ f.name = f'.name ∧ ∀ r ∈ f'.locks, r ∈ f.locks

theorem disj_of_sub {st' st : State} (hs : Sub st' st) (h : LocksDisjoint st) : LocksDisjoint st' := by
  intro f' hf' g' hg' hn r hr q hq
  obtain ⟨f, hf, hfn, hfm, hfl⟩ := hs f' hf'
  obtain ⟨g, hg, hgn, hgm, hgl⟩ := hs g' hg'
  have := h f hf g hg (by rw [hfm, hgm, hn]) r (hfl r hr) q (hgl q hq)
  rw [hfn, hgn] at this
  exact this

theorem sub_filter (st : State) (p : Entry → Bool) : Sub (st.filter p) st := by
  intro f hf
  exact ⟨f, (List.mem_filter.mp hf).1, rfl, rfl, fun r hr => hr⟩

theorem mem_setRecpos {st : State} {num p : Nat} {f' : Entry} :
    f' ∈ setRecpos st num p ↔ ∃ f ∈ st, f' = if f.num = num then { f with recpos := p } else f := by
  unfold setRecpos
  simp only [List.mem_map]
  constructor
  · rintro ⟨f, hf, rfl⟩; exact ⟨f, hf, rfl⟩
  · rintro ⟨f, hf, rfl⟩; exact ⟨f, hf, rfl⟩

theorem sub_setRecpos (st : State) (num p : Nat) : Sub (setRecpos st num p) st := by
  intro f' hf'
  obtain ⟨f, hf, rfl⟩ := mem_setRecpos.mp hf'
  refine ⟨f, hf, ?_⟩
  split <;> exact ⟨rfl, rfl, fun r hr => hr⟩

theorem sub_release (st : State) (num : Nat) (rng : Rng) :
    Sub (updLocks st num (fun l => l.filter (fun r => r != rng))) st := by
  intro f' hf'
  obtain ⟨f, hf, rfl⟩ := mem_updLocks.mp hf'
  refine ⟨f, hf, ?_⟩
  split
  · exact ⟨rfl, rfl, fun r hr => (List.mem_filter.mp hr).1⟩
  · exact ⟨rfl, rfl, fun r hr => hr⟩

/-- a map that keeps number, name and mode of every entry keeps the list-shaped invariants -/
theorem pairwise_map_keep {R : Entry → Entry → Prop} {st : State} {m : Entry → Entry}
    (hm : ∀ a b, R a b → R (m a) (m b)) (h : st.Pairwise R) : (st.map m).Pairwise R := by
  rw [List.pairwise_map]
  exact h.imp (fun {a b} hab => hm a b hab)


theorem inv_nil : Inv [] := ⟨List.Pairwise.nil, fun _ h => (by cases h), List.Pairwise.nil⟩

theorem inv_filter {st : State} (p : Entry → Bool) (h : Inv st) : Inv (st.filter p) :=
  ⟨h.uniq.filter p, disj_of_sub (sub_filter st p) h.disj, h.writer.filter p⟩

theorem inv_closeFile {st : State} (n : Nat) (h : Inv st) : Inv (closeFile st n) := inv_filter _ h

theorem inv_setRecpos {st : State} (num p : Nat) (h : Inv st) : Inv (setRecpos st num p) := by
  refine ⟨?_, disj_of_sub (sub_setRecpos st num p) h.disj, ?_⟩
  · exact pairwise_map_keep (fun a b hab => by split <;> split <;> exact hab) h.uniq
  · exact pairwise_map_keep (fun a b hab => by split <;> split <;> exact hab) h.writer

theorem inv_updLocks_shape {st : State} (num : Nat) (g : List Rng → List Rng) (h : Inv st) :
    UniqueNums (updLocks st num g) ∧ OneWriter (updLocks st num g) :=
  ⟨pairwise_map_keep (fun a b hab => by split <;> split <;> exact hab) h.uniq,
   pairwise_map_keep (fun a b hab => by split <;> split <;> exact hab) h.writer⟩

theorem inv_release {st st' : State} {num : Nat} {rng : Rng} (h : Inv st)
    (hr : release st num rng = .ok st') : Inv st' := by
  unfold release at hr
  split at hr
  · cases hr
  · split at hr
    · injection hr with hr; subst hr
      exact ⟨(inv_updLocks_shape _ _ h).1, disj_of_sub (sub_release st num rng) h.disj,
        (inv_updLocks_shape _ _ h).2⟩
    · cases hr

theorem inv_openFile {st st' : State} {name num : Nat} {mode : Mode} {lt : LT} {acc : Acc} (h : Inv st)
    (ho : openFile st name num mode lt acc = .ok st') : Inv st' := by
  unfold openFile at ho
  simp only at ho
  split at ho
  · cases ho
  · next hout =>
    split at ho
    · injection ho with ho; subst ho; exact h
    · split at ho
      · cases ho
      · injection ho with ho; subst ho
        have hf := inv_filter (fun f => f.num != num) h
        refine ⟨?_, ?_, ?_⟩
        · unfold UniqueNums
          rw [List.pairwise_append]
          refine ⟨hf.uniq, List.pairwise_singleton _ _, ?_⟩
          intro a ha b hb
          rw [List.mem_singleton] at hb; subst hb
          simpa using (List.mem_filter.mp ha).2
        · intro f hf1 g hg1 hn r hr q hq
          rw [List.mem_append, List.mem_singleton] at hf1 hg1
          rcases hf1 with hf1 | rfl
          · rcases hg1 with hg1 | rfl
            · exact hf.disj f hf1 g hg1 hn r hr q hq
            · cases hq
          · cases hr
        · unfold OneWriter
          rw [List.pairwise_append]
          refine ⟨hf.writer, List.pairwise_singleton _ _, ?_⟩
          intro a ha b hb hn
          rw [List.mem_singleton] at hb; subst hb
          simp only at hn ⊢
          rintro ⟨_, hm⟩
          -- an OUTPUT/APPEND open is only registered when no file of that name is open
          have ha' : a ∈ listOpen st name none := mem_listOpen.mpr ⟨(List.mem_filter.mp ha).1, hn, by simp⟩
          rw [hm] at hout
          cases hl : listOpen st name none with
          | nil => rw [hl] at ha'; cases ha'
          | cons x t => rw [hl] at hout; simp at hout

theorem mem_upd_add {st : State} {num : Nat} {rng : Rng} :
    ∀ f' ∈ updLocks st num (addLock rng), ∃ f ∈ st, f'.num = f.num ∧ f'.name = f.name ∧
      ∀ r ∈ f'.locks, r ∈ f.locks ∨ (f.num = num ∧ r = rng) := by
  intro f' hf'
  obtain ⟨f, hf, rfl⟩ := mem_updLocks.mp hf'
  refine ⟨f, hf, ?_⟩
  by_cases hfn : f.num = num
  · rw [if_pos hfn]
    refine ⟨rfl, rfl, ?_⟩
    intro r hr
    simp only [addLock] at hr
    split at hr
    · exact Or.inl hr
    · rw [List.mem_append, List.mem_singleton] at hr
      exact hr.imp id (fun e => ⟨hfn, e⟩)
  · rw [if_neg hfn]
    exact ⟨rfl, rfl, fun r hr => Or.inl hr⟩

theorem inv_acquire {st st' : State} {num : Nat} {rng : Rng} (h : Inv st)
    (ha : acquire true st num rng = .ok st') : Inv st' := by
  unfold acquire at ha
  split at ha
  · cases ha
  · next htry =>
    injection ha with ha; subst ha
    obtain ⟨this, hfind, hno⟩ := tryRecordLock_ok htry
    obtain ⟨hthis, hnum⟩ := find_mem hfind
    refine ⟨(inv_updLocks_shape _ _ h).1, ?_, (inv_updLocks_shape _ _ h).2⟩
    -- every old lock on this file name is disjoint from the new range
    have hnew : ∀ g ∈ st, g.name = this.name → ∀ q ∈ g.locks, ¬ Shares rng q := by
      intro g hg hn q hq
      exact hno q (mem_otherLocks.mpr ⟨g, hg, hn, by simp, by simp, hq⟩)
    have hname : ∀ f ∈ st, f.num = num → f = this := by
      intro f hf hfn
      have := find_of_mem h.uniq hf
      rw [hfn, hfind] at this
      injection this with this; exact this.symm
    have shares_symm : ∀ a b, Shares a b → Shares b a := fun a b ⟨k, h1, h2⟩ => ⟨k, h2, h1⟩
    have key := mem_upd_add (st := st) (num := num) (rng := rng)
    intro f' hf' g' hg' hn r hr q hq
    obtain ⟨f, hf, hfn, hfm, hfl⟩ := key f' hf'
    obtain ⟨g, hg, hgn, hgm, hgl⟩ := key g' hg'
    rw [hfn, hgn]
    rw [hfm, hgm] at hn
    rcases hfl r hr with hr | ⟨hfnum, rfl⟩ <;> rcases hgl q hq with hq | ⟨hgnum, rfl⟩
    · exact h.disj f hf g hg hn r hr q hq
    · have e := hname g hg hgnum
      subst e
      exact Or.inr (fun hs => hnew f hf hn r hr (shares_symm _ _ hs))
    · have e := hname f hf hfnum
      subst e
      exact Or.inr (hnew g hg hn.symm q hq)
    · exact Or.inl ⟨hfnum.trans hgnum.symm, rfl⟩


theorem inv_getPut {st : State} (num : Nat) (this : Entry) (pos : Option Nat) (a : Acc) (h : Inv st) :
    Inv (getPut true st num this pos a).1 := by
  unfold getPut
  simp only
  split
  · exact inv_setRecpos _ _ h
  · exact inv_setRecpos _ _ (inv_setRecpos _ _ h)

theorem inv_getPutCmd {st : State} (num : Nat) (pos : Option Nat) (a : Acc) (h : Inv st) :
    Inv (exec.getPutCmd true st num pos a).1 := by
  unfold exec.getPutCmd
  repeat' split
  all_goals first | exact h | exact inv_getPut _ _ _ _ h

theorem inv_exec {mf : Nat} {st : State} (c : Cmd) (h : Inv st) : Inv (exec true mf st c).1 := by
  cases c with
  | «open» name num mode acc lt =>
    simp only [exec]
    repeat' split
    all_goals first | exact h | skip
    next st' ho => exact inv_openFile h ho
  | close num =>
    simp only [exec]
    split
    · exact h
    · exact inv_closeFile _ h
  | closeAll => exact inv_nil
  | lock num s e =>
    simp only [exec]
    repeat' split
    all_goals first | exact h | skip
    next st' ha => exact inv_acquire h ha
  | unlock num s e =>
    simp only [exec]
    repeat' split
    all_goals first | exact h | skip
    next st' hr => exact inv_release h hr
  | get num pos => simp only [exec]; exact inv_getPutCmd _ _ _ h
  | put num pos => simp only [exec]; exact inv_getPutCmd _ _ _ h

theorem inv_run {mf : Nat} (cmds : List Cmd) {st : State} (h : Inv st) : Inv (run true mf st cmds) := by
  induction cmds generalizing st with
  | nil => exact h
  | cons c cs ih => exact ih (inv_exec c h)

theorem tryAccess_error {st : State} {n e : Nat} {a : Acc} {this : Entry} (hf : find st n = some this)
    (h : tryAccess st n a = .error e) : e = E.path_file_access_error := by
  unfold tryAccess at h
  rw [hf] at h
  simp only at h
  repeat' split at h
  all_goals (cases h <;> rfl)

/-- the record a GET/PUT statement addresses -/
def record (this : Entry) (pos : Option Nat) : Nat :=
  match pos with
  | some p => p
  | none => this.recpos + 1

/-- every lock of `st'` is a lock of `st` through the same file number -/
def LockSub (st' st : State) : Prop :=
  ∀ f' ∈ st', ∀ r ∈ f'.locks, ∃ f ∈ st, f.num = f'.num ∧ f.name = f'.name ∧ r ∈ f.locks

theorem Sub.lockSub {st' st : State} (h : Sub st' st) : LockSub st' st := by
  intro f' hf' r hr
  obtain ⟨f, hf, h1, h2, h3⟩ := h f' hf'
  exact ⟨f, hf, h1, h2, h3 r hr⟩

theorem lockSub_refl (st : State) : LockSub st st := fun f hf _ hr => ⟨f, hf, rfl, rfl, hr⟩

theorem lockSub_openFile {st st' : State} {name num : Nat} {mode : Mode} {lt : LT} {acc : Acc}
    (ho : openFile st name num mode lt acc = .ok st') : LockSub st' st := by
  unfold openFile at ho
  simp only at ho
  split at ho
  · cases ho
  · split at ho
    · injection ho with ho; subst ho; exact lockSub_refl _
    · split at ho
      · cases ho
      · injection ho with ho; subst ho
        intro f' hf' r hr
        rw [List.mem_append, List.mem_singleton] at hf'
        rcases hf' with hf' | rfl
        · exact (sub_filter _ _).lockSub f' hf' r hr
        · cases hr

theorem lockSub_release {st st' : State} {num : Nat} {rng : Rng}
    (hr : release st num rng = .ok st') : LockSub st' st := by
  unfold release at hr
  split at hr
  · cases hr
  · split at hr
    · injection hr with hr; subst hr
      exact (sub_release _ _ _).lockSub
    · cases hr

theorem lockSub_getPutCmd (st : State) (num : Nat) (pos : Option Nat) (a : Acc) :
    LockSub (exec.getPutCmd true st num pos a).1 st := by
  unfold exec.getPutCmd
  have hgp : ∀ this, LockSub (getPut true st num this pos a).1 st := by
    intro this
    unfold getPut
    simp only
    split
    · exact (sub_setRecpos _ _ _).lockSub
    · intro f' hf' r hr
      obtain ⟨f1, hf1, a1, a2, a3⟩ := (sub_setRecpos _ _ _).lockSub f' hf' r hr
      obtain ⟨f2, hf2, b1, b2, b3⟩ := (sub_setRecpos _ _ _).lockSub f1 hf1 r a3
      exact ⟨f2, hf2, b1.trans a1, b2.trans a2, b3⟩
  repeat' split
  all_goals first | exact lockSub_refl _ | exact hgp _

theorem pairwise_mem {α : Type} {R : α → α → Prop} (hsymm : ∀ a b, R a b → R b a) {l : List α}
    (h : l.Pairwise R) {a b : α} (ha : a ∈ l) (hb : b ∈ l) : a = b ∨ R a b := by
  induction l with
  | nil => cases ha
  | cons x t ih =>
    rw [List.pairwise_cons] at h
    rcases List.mem_cons.mp ha with rfl | ha' <;> rcases List.mem_cons.mp hb with rfl | hb'
    · exact Or.inl rfl
    · exact Or.inr (h.1 b hb')
    · exact Or.inr (hsymm _ _ (h.1 a ha'))
    · exact ih h.2 ha' hb'

end PcbV.C26
