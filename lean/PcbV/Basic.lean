/-
  PcbV.Basic — shared vocabulary of the models (import-free).
  Bytes are `List Nat` with every element < 256; errors are BASIC error numbers
  (named constants are regenerated from /repo into `PcbV.Gen.Errors`).
-/
namespace PcbV

abbrev Bytes := List Nat
abbrev R (α : Type) := Except Nat α

deriving instance DecidableEq for Except

def Bytes.ok (b : Bytes) : Prop := ∀ x ∈ b, x < 256

/-- Python `//` (floor division; sign of the divisor). -/
def pyFloorDiv (a b : Int) : Int := Int.fdiv a b
/-- Python `%` (sign of the divisor). -/
def pyMod (a b : Int) : Int := Int.fmod a b

/-! ### text helpers used only by the driver (never by a theorem) -/

def hexDigit (n : Nat) : Char :=
  if n < 10 then Char.ofNat (48 + n) else Char.ofNat (87 + n)

def hexByte (n : Nat) : String :=
  String.ofList [hexDigit (n / 16 % 16), hexDigit (n % 16)]

/-- bytes as lower-case hex, "-" for the empty string -/
def toHex (b : Bytes) : String :=
  if b.isEmpty then "-" else String.join (b.map hexByte)

def hexVal (c : Char) : Option Nat :=
  if '0' ≤ c ∧ c ≤ '9' then some (c.toNat - 48)
  else if 'a' ≤ c ∧ c ≤ 'f' then some (c.toNat - 87)
  else if 'A' ≤ c ∧ c ≤ 'F' then some (c.toNat - 55)
  else none

def ofHexAux : List Char → Option Bytes
  | [] => some []
  | [_] => none
  | a :: b :: rest => do
      let x ← hexVal a
      let y ← hexVal b
      let r ← ofHexAux rest
      pure ((16 * x + y) :: r)

def ofHex (s : String) : Option Bytes :=
  if s == "-" then some [] else ofHexAux s.toList

def showR (f : α → String) : R α → String
  | .ok v => "ok " ++ f v
  | .error e => "err " ++ toString e

def showBool (b : Bool) : String := if b then "1" else "0"

def joinWith (sep : String) (l : List String) : String := sep.intercalate l

/-- comma-separated numbers, "-" for the empty list -/
def showNats (l : List Nat) : String := if l.isEmpty then "-" else ",".intercalate (l.map toString)

end PcbV
