import PcbV.Lemmas.ExprLemmas
/-
  C18 — Expressions evaluate with GW-BASIC precedence, associativity and typing.

  Subject: `PcbV.Expr.parse` (Model/Expr.lean), the transcription of the operator-stack loop of
  `ExpressionParser.parse/_drain`, with the operator tables regenerated from operators.py
  (`PcbV.Gen.Prec`).  The specification is the operator tree: `Prints lp rp t ts` (Lemmas/ExprLemmas)
  says that the token list `ts` is a rendering of the tree `t` in which parentheses are omitted only
  where precedence / left associativity allows it and may be added anywhere; `showMin` is the
  rendering with minimal parentheses, `showFull` the one with all of them.

  Main theorem: `parse_prints` / `parse_show` / `parse_show_full` — for EVERY tree over the current
  operator tables the stack machine rebuilds exactly that tree (unary operators included, so this is
  the full theorem, not a `_partial`).
-/
namespace PcbV.C18
open PcbV PcbV.Gen PcbV.Expr

/-! ### the table is the one in the statement -/

/-- ^ > unary ± > * / > \ > MOD > + - > relational > NOT > AND > OR > XOR > EQV > IMP (> 0),
    on the regenerated PRECEDENCE table. -/
theorem precedence_order :
    precB Prec.tCaret > precU Prec.tMinus ∧ precU Prec.tMinus = precU Prec.tPlus ∧
    precU Prec.tMinus > precB Prec.tTimes ∧ precB Prec.tTimes = precB Prec.tDiv ∧
    precB Prec.tDiv > precB Prec.tIntDiv ∧ precB Prec.tIntDiv > precB Prec.tMod ∧
    precB Prec.tMod > precB Prec.tPlus ∧ precB Prec.tPlus = precB Prec.tMinus ∧
    precB Prec.tMinus > precB Prec.tEq ∧
    (∀ k ∈ binKeys, (binaryFn k ∈ [some "gt", some "eq", some "lt", some "gte", some "lte", some "neq"]) →
        precB k = precB Prec.tEq) ∧
    precB Prec.tEq > precU Prec.tNot ∧ precU Prec.tNot > precB Prec.tAnd ∧
    precB Prec.tAnd > precB Prec.tOr ∧ precB Prec.tOr > precB Prec.tXor ∧
    precB Prec.tXor > precB Prec.tEqv ∧ precB Prec.tEqv > precB Prec.tImp ∧ precB Prec.tImp > 0 := by
  decide

/-- every relational spelling, including the merged two-token ones in both orders, is in the table -/
theorem relational_spellings :
    binaryFn (Prec.tLt ++ Prec.tEq) = some "lte" ∧ binaryFn (Prec.tEq ++ Prec.tLt) = some "lte" ∧
    binaryFn (Prec.tGt ++ Prec.tEq) = some "gte" ∧ binaryFn (Prec.tEq ++ Prec.tGt) = some "gte" ∧
    binaryFn (Prec.tLt ++ Prec.tGt) = some "neq" ∧ binaryFn (Prec.tGt ++ Prec.tLt) = some "neq" ∧
    binaryFn (Prec.tEq ++ Prec.tEq) = none ∧ binaryFn (Prec.tLt ++ Prec.tLt) = none ∧
    binaryFn (Prec.tGt ++ Prec.tGt) = none := by
  decide

/-! ### the printers are renderings -/

theorem precB_pos {k : Key} (hk : k ∈ binKeys) : 0 < precB k := by
  obtain ⟨_, p, _, _, hpp, hpos, _⟩ := binOk_shape (tables_binary_ok k hk)
  omega

theorem showMin_prints (t : Tree) (hw : Wf t) : ∀ lp rp, Prints lp rp t (showMin lp rp t) := by
  induction t with
  | leaf i => intro lp rp; exact Prints.leaf lp rp i
  | un k a ih =>
    intro lp rp
    unfold showMin
    split
    · next h => exact Prints.un lp rp k a _ h (ih hw.2 _ _)
    · have := Prints.paren lp rp _ _ (Prints.un 0 0 k a _ (Nat.zero_le _) (ih hw.2 (precU k) 0))
      simpa only [List.append_assoc] using this
  | bin k a b iha ihb =>
    intro lp rp
    unfold showMin
    split
    · next h => exact Prints.bin lp rp k a b _ _ h.1 h.2 (iha hw.2.1 _ _) (ihb hw.2.2 _ _)
    · have := Prints.paren lp rp _ _
        (Prints.bin 0 0 k a b _ _ (precB_pos hw.1) (Nat.zero_le _) (iha hw.2.1 0 (precB k)) (ihb hw.2.2 (precB k) 0))
      simpa only [List.append_assoc] using this

theorem showFull_prints (t : Tree) (hw : Wf t) : ∀ lp rp, Prints lp rp t (showFull t) := by
  induction t with
  | leaf i => intro lp rp; exact Prints.leaf lp rp i
  | un k a ih =>
    intro lp rp
    have := Prints.paren lp rp _ _ (Prints.un 0 0 k a _ (Nat.zero_le _) (ih hw.2 (precU k) 0))
    simpa only [showFull, List.append_assoc] using this
  | bin k a b iha ihb =>
    intro lp rp
    have := Prints.paren lp rp _ _
      (Prints.bin 0 0 k a b _ _ (precB_pos hw.1) (Nat.zero_le _) (iha hw.2.1 0 (precB k)) (ihb hw.2.2 (precB k) 0))
    simpa only [showFull, List.append_assoc] using this

/-! ### main theorem: the stack machine builds the operator tree -/

/-- tokens at which an expression that is complete ends without being consumed: end of statement,
    `)` `,` `;` `]`, a further operand or `(` ("repeated unit"), a non-operator keyword, or NOT. -/
def Terminator : List Tok → Prop
  | [] => True
  | Tok.stop :: _ => True
  | Tok.sep :: _ => True
  | Tok.rpar :: _ => True
  | Tok.leaf _ :: _ => True
  | Tok.lpar :: _ => True
  | Tok.junk :: _ => True
  | Tok.op b :: _ => isOperator [b] = false ∨ [b] = Prec.notTok

/-- a complete operand followed by a terminator: the activation returns the drained unit -/
theorem run_terminator (P : List Entry) (U : List Tree) (t : Tree) (rest : List Tok) (hT : Terminator rest)
    (hd : drain 0 P U = some ([], [t])) :
    run ⟨P, U, false⟩ [] rest = .ok (t, rest) := by
  have hf : ∀ final, finish final ⟨P, U, false⟩ = .ok t := by intro final; simp [finish, hd]
  cases rest with
  | nil => simp [run, retHere, hf]
  | cons x r =>
    cases x with
    | op b =>
      simp only [Terminator] at hT
      rw [run.eq_def]
      rcases hT with h | h
      · simp [h, retHere, hf]
      · by_cases ho : isOperator [b] = true
        · simp [h, retHere, hf]
        · simp [ho, retHere, hf]
    | _ => simp [run, retHere, hf]

/-- MAIN THEOREM (general form).  Any rendering of any tree over the current operator tables — with
    parentheses omitted only where precedence and left associativity allow, redundant ones anywhere —
    followed by anything that ends an expression, is parsed into exactly that tree, and the
    terminator is left unread. -/
theorem parse_prints {t : Tree} {ts : List Tok} (h : Prints 0 0 t ts) (hw : Wf t)
    (rest : List Tok) (hT : Terminator rest) : parse (ts ++ rest) = .ok (t, rest) := by
  obtain ⟨P, U, _, _, hdr, hrun⟩ := run_prints h hw
  have h1 := hrun [] [] [] rest (by simp [TopLe])
  have h2 := hdr 0 (Nat.le_refl _) [] []
  simp only [List.append_nil] at h1 h2
  unfold parse emptyFrame
  rw [h1]
  exact run_terminator P U t rest hT (by simpa [drain] using h2)

/-- parse (show t) = ok t, minimal parentheses -/
theorem parse_show (t : Tree) (hw : Wf t) : parse (showMin 0 0 t) = .ok (t, []) := by
  simpa using parse_prints (showMin_prints t hw 0 0) hw [] trivial

/-- parse (show t) = ok t, redundant parentheses around every operator node -/
theorem parse_show_full (t : Tree) (hw : Wf t) : parse (showFull t) = .ok (t, []) := by
  simpa using parse_prints (showFull_prints t hw 0 0) hw [] trivial

/-- two renderings of the same tree (e.g. minimal and redundant) evaluate identically;
    renderings of different trees never parse alike -/
theorem renderings_agree {t t' : Tree} {ts ts' : List Tok} (h : Prints 0 0 t ts) (h' : Prints 0 0 t' ts')
    (hw : Wf t) (hw' : Wf t') : (parse ts = parse ts') ↔ t = t' := by
  have e1 := parse_prints h hw [] trivial
  have e2 := parse_prints h' hw' [] trivial
  simp only [List.append_nil] at e1 e2
  rw [e1, e2]
  simp

/-! ### consequences: grouping of binary operators, scope of unary operators -/

/-- an operand in parentheses -/
def atom (t : Tree) : List Tok := [Tok.lpar] ++ showMin 0 0 t ++ [Tok.rpar]

theorem atom_prints (t : Tree) (hw : Wf t) (lp rp : Nat) : Prints lp rp t (atom t) :=
  Prints.paren lp rp t _ (showMin_prints t hw 0 0)

/-- `a k1 b k2 c` groups to the left when k2 does not bind tighter than k1 … -/
theorem binary_grouping_left (a b c : Tree) (k1 k2 : Key) (ha : Wf a) (hb : Wf b) (hc : Wf c)
    (h1 : k1 ∈ binKeys) (h2 : k2 ∈ binKeys) (hp : precB k2 ≤ precB k1) :
    parse (atom a ++ keyToks k1 ++ atom b ++ keyToks k2 ++ atom c)
      = .ok (Tree.bin k2 (Tree.bin k1 a b) c, []) := by
  have hpr : Prints 0 0 (Tree.bin k2 (Tree.bin k1 a b) c) _ :=
    Prints.bin 0 0 k2 _ c _ _ (precB_pos h2) (Nat.zero_le _)
      (Prints.bin 0 (precB k2) k1 a b _ _ (precB_pos h1) hp (atom_prints a ha _ _) (atom_prints b hb _ _))
      (atom_prints c hc _ _)
  simpa using parse_prints hpr ⟨h2, ⟨h1, ha, hb⟩, hc⟩ [] trivial

/-- … and to the right exactly when k2 binds tighter -/
theorem binary_grouping_right (a b c : Tree) (k1 k2 : Key) (ha : Wf a) (hb : Wf b) (hc : Wf c)
    (h1 : k1 ∈ binKeys) (h2 : k2 ∈ binKeys) (hp : precB k1 < precB k2) :
    parse (atom a ++ keyToks k1 ++ atom b ++ keyToks k2 ++ atom c)
      = .ok (Tree.bin k1 a (Tree.bin k2 b c), []) := by
  have hpr : Prints 0 0 (Tree.bin k1 a (Tree.bin k2 b c)) _ :=
    Prints.bin 0 0 k1 a _ _ _ (precB_pos h1) (Nat.zero_le _) (atom_prints a ha _ _)
      (Prints.bin (precB k1) 0 k2 b c _ _ hp (Nat.zero_le _) (atom_prints b hb _ _) (atom_prints c hc _ _))
  simpa [List.append_assoc] using parse_prints hpr ⟨h1, ha, h2, hb, hc⟩ [] trivial

/-- left-to-right grouping at equal precedence -/
theorem left_assoc (a b c : Tree) (k1 k2 : Key) (ha : Wf a) (hb : Wf b) (hc : Wf c)
    (h1 : k1 ∈ binKeys) (h2 : k2 ∈ binKeys) (hp : precB k1 = precB k2) :
    parse (atom a ++ keyToks k1 ++ atom b ++ keyToks k2 ++ atom c)
      = .ok (Tree.bin k2 (Tree.bin k1 a b) c, []) :=
  binary_grouping_left a b c k1 k2 ha hb hc h1 h2 (by omega)

/-- a prefix operator binds tighter than a following binary operator of lower-or-equal precedence
    (`-a * b` = `(-a) * b`, `NOT a AND b` = `(NOT a) AND b`) … -/
theorem unary_binds_tighter (a b : Tree) (u k : Key) (ha : Wf a) (hb : Wf b)
    (hu : u ∈ unKeys) (hk : k ∈ binKeys) (hp : precB k ≤ precU u) :
    parse (keyToks u ++ atom a ++ keyToks k ++ atom b) = .ok (Tree.bin k (Tree.un u a) b, []) := by
  have hpr : Prints 0 0 (Tree.bin k (Tree.un u a) b) _ :=
    Prints.bin 0 0 k _ b _ _ (precB_pos hk) (Nat.zero_le _)
      (Prints.un 0 (precB k) u a _ hp (atom_prints a ha _ _)) (atom_prints b hb _ _)
  simpa using parse_prints hpr ⟨hk, ⟨hu, ha⟩, hb⟩ [] trivial

/-- … and its operand extends over a following binary operator of higher precedence
    (`-a ^ b` = `-(a ^ b)`, `NOT a = b` = `NOT (a = b)`) -/
theorem unary_binds_looser (a b : Tree) (u k : Key) (ha : Wf a) (hb : Wf b)
    (hu : u ∈ unKeys) (hk : k ∈ binKeys) (hp : precU u < precB k) :
    parse (keyToks u ++ atom a ++ keyToks k ++ atom b) = .ok (Tree.un u (Tree.bin k a b), []) := by
  have hpr : Prints 0 0 (Tree.un u (Tree.bin k a b)) _ :=
    Prints.un 0 0 u _ _ (Nat.zero_le _)
      (Prints.bin (precU u) 0 k a b _ _ hp (Nat.zero_le _) (atom_prints a ha _ _) (atom_prints b hb _ _))
  simpa [List.append_assoc] using parse_prints hpr ⟨hu, hk, ha, hb⟩ [] trivial

/-- a unary operator directly after a binary one always applies to what follows, whatever the two
    precedences are (`2 ^ -3`, `a + NOT b`): unary operators are pushed without draining -/
theorem unary_after_binary (a b : Tree) (u k : Key) (ha : Wf a) (hb : Wf b)
    (hu : u ∈ unKeys) (hk : k ∈ binKeys) :
    parse (atom a ++ keyToks k ++ keyToks u ++ atom b) = .ok (Tree.bin k a (Tree.un u b), []) := by
  have hpr : Prints 0 0 (Tree.bin k a (Tree.un u b)) _ :=
    Prints.bin 0 0 k a _ _ _ (precB_pos hk) (Nat.zero_le _) (atom_prints a ha _ _)
      (Prints.un (precB k) 0 u b _ (Nat.zero_le _) (atom_prints b hb _ _))
  simpa [List.append_assoc] using parse_prints hpr ⟨hk, ha, hu, hb⟩ [] trivial

/-- `a k1 u b k2 c` when k2 binds no tighter than both u and k1: `2 ^ -3 * 4` = `(2 ^ (-3)) * 4` -/
theorem unary_operand_closed_by_lower (a b c : Tree) (u k1 k2 : Key) (ha : Wf a) (hb : Wf b) (hc : Wf c)
    (hu : u ∈ unKeys) (h1 : k1 ∈ binKeys) (h2 : k2 ∈ binKeys)
    (hpu : precB k2 ≤ precU u) (hp1 : precB k2 ≤ precB k1) :
    parse (atom a ++ keyToks k1 ++ keyToks u ++ atom b ++ keyToks k2 ++ atom c)
      = .ok (Tree.bin k2 (Tree.bin k1 a (Tree.un u b)) c, []) := by
  have hpr : Prints 0 0 (Tree.bin k2 (Tree.bin k1 a (Tree.un u b)) c) _ :=
    Prints.bin 0 0 k2 _ c _ _ (precB_pos h2) (Nat.zero_le _)
      (Prints.bin 0 (precB k2) k1 a _ _ _ (precB_pos h1) hp1 (atom_prints a ha _ _)
        (Prints.un (precB k1) (precB k2) u b _ hpu (atom_prints b hb _ _)))
      (atom_prints c hc _ _)
  simpa [List.append_assoc] using parse_prints hpr ⟨h2, ⟨h1, ha, hu, hb⟩, hc⟩ [] trivial

/-- `a k1 u b k2 c` when k2 binds tighter than the unary operator: its operand swallows `b k2 c`
    whatever k1 is (`a + NOT b + c` = `a + NOT (b + c)`, `2 ^ -3 ^ 2` = `2 ^ -(3 ^ 2)`) -/
theorem unary_operand_extends (a b c : Tree) (u k1 k2 : Key) (ha : Wf a) (hb : Wf b) (hc : Wf c)
    (hu : u ∈ unKeys) (h1 : k1 ∈ binKeys) (h2 : k2 ∈ binKeys) (hpu : precU u < precB k2) :
    parse (atom a ++ keyToks k1 ++ keyToks u ++ atom b ++ keyToks k2 ++ atom c)
      = .ok (Tree.bin k1 a (Tree.un u (Tree.bin k2 b c)), []) := by
  have hpr : Prints 0 0 (Tree.bin k1 a (Tree.un u (Tree.bin k2 b c))) _ :=
    Prints.bin 0 0 k1 a _ _ _ (precB_pos h1) (Nat.zero_le _) (atom_prints a ha _ _)
      (Prints.un (precB k1) 0 u _ _ (Nat.zero_le _)
        (Prints.bin (precU u) 0 k2 b c _ _ hpu (Nat.zero_le _) (atom_prints b hb _ _) (atom_prints c hc _ _)))
  simpa [List.append_assoc] using parse_prints hpr ⟨h1, ha, hu, h2, hb, hc⟩ [] trivial

/-- `a k1 u b k2 c` when k2 binds tighter than k1 but not tighter than u: `a + -b * c` = `a + ((-b) * c)` -/
theorem unary_operand_then_tighter (a b c : Tree) (u k1 k2 : Key) (ha : Wf a) (hb : Wf b) (hc : Wf c)
    (hu : u ∈ unKeys) (h1 : k1 ∈ binKeys) (h2 : k2 ∈ binKeys)
    (hpu : precB k2 ≤ precU u) (hp1 : precB k1 < precB k2) :
    parse (atom a ++ keyToks k1 ++ keyToks u ++ atom b ++ keyToks k2 ++ atom c)
      = .ok (Tree.bin k1 a (Tree.bin k2 (Tree.un u b) c), []) := by
  have hpr : Prints 0 0 (Tree.bin k1 a (Tree.bin k2 (Tree.un u b) c)) _ :=
    Prints.bin 0 0 k1 a _ _ _ (precB_pos h1) (Nat.zero_le _) (atom_prints a ha _ _)
      (Prints.bin (precB k1) 0 k2 _ c _ _ hp1 (Nat.zero_le _)
        (Prints.un (precB k1) (precB k2) u b _ hpu (atom_prints b hb _ _)) (atom_prints c hc _ _))
  simpa [List.append_assoc] using parse_prints hpr ⟨h1, ha, h2, ⟨hu, hb⟩, hc⟩ [] trivial

/-! ### error cases -/

/-- the mid-loop `_drain` (outside the `try`) can never run out of operands: no Python IndexError
    escapes from `parse`, for ANY token sequence -/
theorem no_index_error (toks : List Tok) : parse toks ≠ .error pyIndexError :=
  run_no_index toks.length toks (Nat.le_refl _) emptyFrame []
    ⟨(fun e he => nomatch he), by simp [emptyFrame, need]⟩ (fun q hq => nomatch hq)

/-- an activation that stops directly after an operator (or before any operand) fails, with
    Missing operand at the end of the statement and Syntax error before `)` `,` `;` `]` —
    however many brackets are open (`ps`) -/
theorem run_missing (f : Frame) (ps : List Frame) (hb : Bal f) (hl : f.lastOp = true) (r : List Tok) :
    run f ps [] = .error E.missing_operand ∧ run f ps (Tok.stop :: r) = .error E.missing_operand ∧
    run f ps (Tok.rpar :: r) = .error E.stx ∧ run f ps (Tok.sep :: r) = .error E.stx := by
  have h1 := finish_missing true f hb hl
  have h2 := finish_missing false f hb hl
  simp only [if_true, Bool.false_eq_true, if_false] at h1 h2
  refine ⟨?_, ?_, ?_, ?_⟩ <;> simp [run, retHere, hl, h1, h2]

/-- empty expression -/
theorem empty_expression (r : List Tok) :
    parse [] = .error E.missing_operand ∧ parse (Tok.stop :: r) = .error E.missing_operand ∧
    parse (Tok.rpar :: r) = .error E.stx ∧ parse (Tok.sep :: r) = .error E.stx ∧
    parse (Tok.lpar :: Tok.rpar :: r) = .error E.stx := by
  have hb : Bal emptyFrame := ⟨(fun e he => nomatch he), by simp [emptyFrame, need]⟩
  obtain ⟨h1, h2, h3, h4⟩ := run_missing emptyFrame [] hb rfl r
  obtain ⟨_, _, h5, _⟩ := run_missing emptyFrame [emptyFrame] hb rfl r
  refine ⟨h1, h2, h3, h4, ?_⟩
  show run emptyFrame [] (Tok.lpar :: Tok.rpar :: r) = _
  rw [run]
  simpa [emptyFrame] using h5

/-- reading a rendering and then a binary operator leaves a balanced frame that waits for an operand -/
theorem run_then_binary {lp rp : Nat} {t : Tree} {ts : List Tok} (h : Prints lp rp t ts) (hw : Wf t)
    {k : Key} (hk : k ∈ binKeys) (ops : List Entry) (units : List Tree) (ps : List Frame) (rest : List Tok)
    (hb : Bal ⟨ops, units, true⟩) (htop : TopLe ops lp) (hs : StartOk rest) :
    ∃ f', Bal f' ∧ f'.lastOp = true ∧ run ⟨ops, units, true⟩ ps (ts ++ keyToks k ++ rest) = run f' ps rest := by
  obtain ⟨P, U, haP, hlen, _, hrun⟩ := run_prints h hw
  have hok := tables_binary_ok k hk
  obtain ⟨fn, p, hfn, hp, _, _, hop, hn, _⟩ := binOk_shape hok
  obtain ⟨ha, hl⟩ := hb
  simp only [if_true, Nat.add_zero] at hl
  obtain ⟨o, u, hd, hao, hlu⟩ := drain_bal p (P ++ ops) (U ++ units) (ArOk_append haP ha)
    (by simp [need_append, hlen, hl]; omega)
  refine ⟨⟨⟨k, 2, p⟩ :: o, u, true⟩, ⟨ArOk_cons (Or.inr rfl) hao, by simp [need, hlu]; omega⟩, rfl, ?_⟩
  rw [List.append_assoc, hrun ops units ps _ htop, run_binop hok _ rfl ps _ hs,
    pushOp_bin (fn := fn) (p := p) ⟨P ++ ops, U ++ units, false⟩ rfl hn hfn hp hop hd]

/-- ERROR SPEC, missing right operand: `t k` at the end of the statement is Missing operand,
    `t k` before `)` `,` `;` `]` is Syntax error -/
theorem missing_operand_after_binary {t : Tree} {ts : List Tok} (h : Prints 0 0 t ts) (hw : Wf t)
    {k : Key} (hk : k ∈ binKeys) (r : List Tok) :
    parse (ts ++ keyToks k) = .error E.missing_operand ∧
    parse (ts ++ keyToks k ++ Tok.stop :: r) = .error E.missing_operand ∧
    parse (ts ++ keyToks k ++ Tok.rpar :: r) = .error E.stx ∧
    parse (ts ++ keyToks k ++ Tok.sep :: r) = .error E.stx := by
  have hb : Bal ⟨[], [], true⟩ := ⟨(fun e he => nomatch he), by simp [need]⟩
  have key : ∀ rest, StartOk rest → ∃ f', Bal f' ∧ f'.lastOp = true ∧
      parse (ts ++ keyToks k ++ rest) = run f' [] rest := fun rest hs =>
    run_then_binary h hw hk [] [] [] rest hb (by simp [TopLe]) hs
  refine ⟨?_, ?_, ?_, ?_⟩
  · obtain ⟨f', hb', hl', e⟩ := key [] (by simp [StartOk])
    rw [List.append_nil] at e; rw [e]; exact (run_missing f' [] hb' hl' []).1
  · obtain ⟨f', hb', hl', e⟩ := key (Tok.stop :: r) (by simp [StartOk])
    rw [e]; exact (run_missing f' [] hb' hl' r).2.1
  · obtain ⟨f', hb', hl', e⟩ := key (Tok.rpar :: r) (by simp [StartOk])
    rw [e]; exact (run_missing f' [] hb' hl' r).2.2.1
  · obtain ⟨f', hb', hl', e⟩ := key (Tok.sep :: r) (by simp [StartOk])
    rw [e]; exact (run_missing f' [] hb' hl' r).2.2.2

/-- the same inside brackets: `( t k )` is Syntax error, `( t k` at the end of the statement is
    Missing operand (the inner activation fails before the caller can miss its `)`) -/
theorem missing_operand_in_brackets {t : Tree} {ts : List Tok} (h : Prints 0 0 t ts) (hw : Wf t)
    {k : Key} (hk : k ∈ binKeys) (r : List Tok) :
    parse (Tok.lpar :: (ts ++ keyToks k ++ Tok.rpar :: r)) = .error E.stx ∧
    parse (Tok.lpar :: (ts ++ keyToks k)) = .error E.missing_operand := by
  have hb : Bal ⟨[], [], true⟩ := ⟨(fun e he => nomatch he), by simp [need]⟩
  have e0 : ∀ toks, parse (Tok.lpar :: toks) = run ⟨[], [], true⟩ [emptyFrame] toks := by
    intro toks; show run emptyFrame [] _ = _; rw [run]; simp [emptyFrame]
  constructor
  · obtain ⟨f', hb', hl', e⟩ := run_then_binary h hw hk [] [] [emptyFrame] (Tok.rpar :: r) hb
      (by simp [TopLe]) (by simp [StartOk])
    rw [e0, e]; exact (run_missing f' _ hb' hl' r).2.2.1
  · obtain ⟨f', hb', hl', e⟩ := run_then_binary h hw hk [] [] [emptyFrame] [] hb
      (by simp [TopLe]) (by simp [StartOk])
    rw [List.append_nil] at e
    rw [e0, e]; exact (run_missing f' _ hb' hl' []).1

/-- a bracket that is not closed is a Syntax error -/
theorem unclosed_bracket {t : Tree} {ts : List Tok} (h : Prints 0 0 t ts) (hw : Wf t) (r : List Tok) :
    parse (Tok.lpar :: ts) = .error E.stx ∧ parse (Tok.lpar :: (ts ++ Tok.stop :: r)) = .error E.stx := by
  obtain ⟨P, U, _, _, hdr, hrun⟩ := run_prints h hw
  have e0 : ∀ toks, parse (Tok.lpar :: toks) = run ⟨[], [], true⟩ [emptyFrame] toks := by
    intro toks; show run emptyFrame [] _ = _; rw [run]; simp [emptyFrame]
  have hd := hdr 0 (Nat.le_refl _) [] []
  simp only [List.append_nil, drain] at hd
  have hf : ∀ final, finish final ⟨P, U, false⟩ = .ok t := by intro final; simp [finish, hd]
  constructor
  · have := hrun [] [] [emptyFrame] [] (by simp [TopLe])
    simp only [List.append_nil] at this
    rw [e0, this]; simp [run, retHere, hf]
  · have := hrun [] [] [emptyFrame] (Tok.stop :: r) (by simp [TopLe])
    simp only [List.append_nil] at this
    rw [e0, this]; simp [run, retHere, hf]

/-- "zero operands for a binary operator is always syntax error": every operator token that has no
    unary meaning is a Syntax error at the start of an expression -/
theorem binary_operator_at_start : ∀ k ∈ binKeys, k ∉ unKeys → ∀ rest, StartOk rest →
    parse (keyToks k ++ rest) = .error E.stx := by
  intro k hk hnu rest hs
  have hok := tables_binary_ok k hk
  have hun : unaryFn k = none := by
    revert hnu; revert k; decide
  obtain ⟨_, _, _, _, _, _, _, _, hsh⟩ := binOk_shape hok
  have hpush : pushOp emptyFrame k = .error E.stx := by simp [pushOp, emptyFrame, hun]
  unfold parse
  rcases hsh with ⟨b, rfl, hop, hn⟩ | ⟨b, c, rfl, hop, hn, hb, hc⟩
  · have := run_op_single emptyFrame [] b rest hop (by simp [hn]) (by
      intro c r2 hr; subst hr; simp only [StartOk] at hs; simp [hs])
    simp only [keyToks, List.map, List.cons_append, List.nil_append]
    rw [this, hpush]
  · have := run_op_double emptyFrame [] b c rest hop (by simp [hn]) hb hc
    simp only [keyToks, List.map, List.cons_append, List.nil_append]
    rw [this, hpush]

/-! ### result typing (decision model of values.py, proved against the statement's table) -/

/-- the widest of two numeric types -/
def widest (l r : Ty) : Ty :=
  if l = .dbl ∨ r = .dbl then .dbl else if l = .sng ∨ r = .sng then .sng else .int

/-- never integer -/
def floatOf : Ty → Ty
  | .int => .sng
  | t => t

def Numeric (t : Ty) : Prop := t ≠ .str
instance (t : Ty) : Decidable (Numeric t) := inferInstanceAs (Decidable (t ≠ .str))

def relational : List String := ["gt", "eq", "lt", "gte", "lte", "neq"]
def integerOps : List String := ["intdiv", "mod_", "and_", "or_", "xor_", "eqv_", "imp_"]

/-- RESULT TYPES on numeric operands, as coded: `/` and `^` are never integer and take the widest
    operand type (`^` only with the double_math option, else single); `\`, MOD and the logical
    operators yield integer; relational operators yield integer; `+ - *` take the widest operand type
    but — deviation from the statement's literal wording — never integer (Integer operands are promoted
    to Single "to avoid integer overflow"). -/
theorem result_type_spec (dm : Bool) (l r : Ty) (hl : Numeric l) (hr : Numeric r) :
    binType dm "div" l r = .ok (floatOf (widest l r)) ∧
    binType dm "pow" l r = .ok (if dm then floatOf (widest l r) else .sng) ∧
    binType dm "add" l r = .ok (floatOf (widest l r)) ∧
    binType dm "sub" l r = .ok (floatOf (widest l r)) ∧
    binType dm "mul" l r = .ok (floatOf (widest l r)) ∧
    (∀ fn ∈ integerOps, binType dm fn l r = .ok .int) ∧
    (∀ fn ∈ relational, binType dm fn l r = .ok .int) := by
  cases l <;> cases r <;> cases dm <;> first | (exact absurd rfl hl) | (exact absurd rfl hr) | decide

theorem unary_type_spec (a : Ty) (ha : Numeric a) :
    unType "neg" a = .ok (floatOf a) ∧ unType "ident" a = .ok a ∧ unType "not_" a = .ok .int := by
  cases a <;> first | (exact absurd rfl ha) | decide

/-- strings: `+` concatenates, relational operators compare (integer result), unary ± pass a string
    through unchanged (as coded), everything else — and every mixture of a string with a number — is
    Type mismatch -/
theorem string_type_spec (dm : Bool) :
    binType dm "add" .str .str = .ok .str ∧
    (∀ fn ∈ relational, binType dm fn .str .str = .ok .int) ∧
    (∀ fn ∈ ["sub", "mul", "div", "pow"] ++ integerOps, binType dm fn .str .str = .error E.type_mismatch) ∧
    (∀ fn ∈ ["add", "sub", "mul", "div", "pow"] ++ integerOps ++ relational, ∀ t, Numeric t →
        binType dm fn .str t = .error E.type_mismatch ∧ binType dm fn t .str = .error E.type_mismatch) ∧
    unType "not_" .str = .error E.type_mismatch ∧
    unType "neg" .str = .ok .str ∧ unType "ident" .str = .ok .str := by
  refine ⟨by cases dm <;> decide, by cases dm <;> decide, by cases dm <;> decide, ?_, by decide, by decide,
    by decide⟩
  intro fn hfn t ht
  cases t <;> first | (exact absurd rfl ht) | (cases dm <;> revert fn <;> decide)

def binNum (dm : Bool) (k : Key) (l r : Ty) : Bool :=
  match binaryFn k with
  | some fn => (match binType dm fn l r with
    | .ok ty => decide (ty ≠ .str)
    | .error _ => false)
  | none => false

def unNum (k : Key) (a : Ty) : Bool :=
  match unaryFn k with
  | some fn => (match unType fn a with
    | .ok ty => decide (ty ≠ .str)
    | .error _ => false)
  | none => false

/-- every function named in the current BINARY / UNARY tables is one the typing model knows, and on
    numeric operands no operator fails or yields a string: a tree over numeric leaves always has a
    numeric type (type errors need a string leaf) -/
theorem typeOf_numeric (dm : Bool) (leafTy : Nat → Ty) (hleaf : ∀ i, Numeric (leafTy i)) :
    ∀ t, Wf t → ∃ ty, typeOf dm leafTy t = .ok ty ∧ Numeric ty := by
  have hbin : ∀ k ∈ binKeys, ∀ l r, Numeric l → Numeric r →
      ∃ fn ty, binaryFn k = some fn ∧ binType dm fn l r = .ok ty ∧ Numeric ty := by
    intro k hk l r hl hr
    have hB : binNum dm k l r = true := by
      cases l <;> cases r <;> cases dm <;> first | (exact absurd rfl hl) | (exact absurd rfl hr) |
        (revert k; decide)
    unfold binNum at hB
    split at hB
    · next fn hfn =>
      split at hB
      · next ty hty => exact ⟨fn, ty, hfn, hty, by simpa [Numeric] using hB⟩
      · simp at hB
    · simp at hB
  have hun : ∀ k ∈ unKeys, ∀ a, Numeric a → ∃ fn ty, unaryFn k = some fn ∧ unType fn a = .ok ty ∧ Numeric ty := by
    intro k hk a ha
    have hU : unNum k a = true := by
      cases a <;> first | (exact absurd rfl ha) | (revert k; decide)
    unfold unNum at hU
    split at hU
    · next fn hfn =>
      split at hU
      · next ty hty => exact ⟨fn, ty, hfn, hty, by simpa [Numeric] using hU⟩
      · simp at hU
    · simp at hU
  intro t
  induction t with
  | leaf i => intro _; exact ⟨leafTy i, rfl, hleaf i⟩
  | un k a ih =>
    intro hw
    obtain ⟨ta, hta, hna⟩ := ih hw.2
    obtain ⟨fn, ty, hfn, hty, hn⟩ := hun k hw.1 ta hna
    exact ⟨ty, by simp [typeOf, hta, hfn, hty], hn⟩
  | bin k a b iha ihb =>
    intro hw
    obtain ⟨ta, hta, hna⟩ := iha hw.2.1
    obtain ⟨tb, htb, hnb⟩ := ihb hw.2.2
    obtain ⟨fn, ty, hfn, hty, hn⟩ := hbin k hw.1 ta tb hna hnb
    exact ⟨ty, by simp [typeOf, hta, htb, hfn, hty], hn⟩

/-- the first failing operand (left before right, operands before the operator) decides the error -/
theorem type_error_order (dm : Bool) (leafTy : Nat → Ty) (k : Key) (a b : Tree) (e : Nat) :
    (typeOf dm leafTy a = .error e → typeOf dm leafTy (Tree.bin k a b) = .error e) ∧
    (∀ ta, typeOf dm leafTy a = .ok ta → typeOf dm leafTy b = .error e →
        typeOf dm leafTy (Tree.bin k a b) = .error e) ∧
    (typeOf dm leafTy a = .error e → typeOf dm leafTy (Tree.un k a) = .error e) := by
  refine ⟨?_, ?_, ?_⟩
  · intro h; simp [typeOf, h]
  · intro ta h1 h2; simp [typeOf, h1, h2]
  · intro h; simp [typeOf, h]

/-- The statement's literal wording "arithmetic results take the widest operand type" does NOT hold of
    the code: Integer + Integer is Single (likewise - * and unary -), and without the double_math
    option Double ^ x is Single.  (Known findings S5/S6 of C18; GW-BASIC-compatible by design.) -/
theorem widest_operand_type_counterexample :
    ¬ (∀ dm l r, Numeric l → Numeric r → binType dm "add" l r = .ok (widest l r)) ∧
    ¬ (∀ l r, Numeric l → Numeric r → binType false "pow" l r = .ok (floatOf (widest l r))) := by
  constructor
  · intro h; exact absurd (h false .int .int (by decide) (by decide)) (by decide)
  · intro h; exact absurd (h .dbl .int (by decide) (by decide)) (by decide)

/-- the unrepaired `values.imp_` called `right.to_integer()` directly; a String has no such method, so
    `1 IMP "a"` raised AttributeError instead of Type mismatch.  Model of the old code: the right operand
    of IMP is not type-checked (`none` = host exception). -/
def binTypeOld (dm : Bool) (fn : String) (l r : Ty) : Option (R Ty) :=
  if fn = "imp_" ∧ l ≠ .str ∧ r = .str then none else some (binType dm fn l r)

theorem imp_string_counterexample :
    binTypeOld false "imp_" .int .str = none ∧ binType false "imp_" .int .str = .error E.type_mismatch := by
  decide

/-! ### non-vacuity and the named examples of the statement -/

-- trees over the current tables exist, with unary operators after binary ones
example : Wf (Tree.bin Prec.tTimes (Tree.bin Prec.tCaret (Tree.leaf 2) (Tree.un Prec.tMinus (Tree.leaf 3))) (Tree.leaf 4)) := by
  simp only [Wf]; decide
-- 2 ^ - 3 * 4  =  (2 ^ (-3)) * 4
example : parse [.leaf 2, .op 237, .op 234, .leaf 3, .op 235, .leaf 4]
    = .ok (.bin [235] (.bin [237] (.leaf 2) (.un [234] (.leaf 3))) (.leaf 4), []) := by decide
-- - 2 ^ 2  =  -(2 ^ 2)
example : parse [.op 234, .leaf 2, .op 237, .leaf 2] = .ok (.un [234] (.bin [237] (.leaf 2) (.leaf 2)), []) := by
  decide
-- NOT a = b  =  NOT (a = b)
example : parse [.op 211, .leaf 1, .op 231, .leaf 2] = .ok (.un [211] (.bin [231] (.leaf 1) (.leaf 2)), []) := by
  decide
-- a + NOT b + c  =  a + NOT (b + c)
example : parse [.leaf 1, .op 233, .op 211, .leaf 2, .op 233, .leaf 3]
    = .ok (.bin [233] (.leaf 1) (.un [211] (.bin [233] (.leaf 2) (.leaf 3))), []) := by decide
-- chained relational operators group to the left; `< =` merges into one operator
example : parse [.leaf 1, .op 232, .op 231, .leaf 2, .op 230, .leaf 3]
    = .ok (.bin [230] (.bin [232, 231] (.leaf 1) (.leaf 2)) (.leaf 3), []) := by decide
-- showMin puts the parentheses that are needed, and only those
example : showMin 0 0 (.bin [233] (.bin [233] (.leaf 1) (.un [211] (.leaf 2))) (.leaf 3))
    = [.leaf 1, .op 233, .lpar, .op 211, .leaf 2, .rpar, .op 233, .leaf 3] := by decide
example : showMin 0 0 (.bin [234] (.leaf 1) (.bin [234] (.leaf 2) (.leaf 3)))
    = [.leaf 1, .op 234, .lpar, .leaf 2, .op 234, .leaf 3, .rpar] := by decide
example : showMin 0 0 (.bin [234] (.bin [234] (.leaf 1) (.leaf 2)) (.leaf 3))
    = [.leaf 1, .op 234, .leaf 2, .op 234, .leaf 3] := by decide
-- error cases are reachable
example : parse [.leaf 1, .op 233] = .error E.missing_operand := by decide
example : parse [.lpar, .leaf 1, .op 233, .rpar] = .error E.stx := by decide
example : parse [.leaf 1, .op 231, .op 231, .leaf 2] = .error E.stx := by decide   -- `==`
example : parse [.op 235, .leaf 2] = .error E.stx := by decide                      -- `* 2`
-- early exit: a second operand ends the expression
example : parse [.leaf 1, .op 233, .leaf 2, .leaf 3] = .ok (.bin [233] (.leaf 1) (.leaf 2), [.leaf 3]) := by decide

end PcbV.C18
