import PcbV.Basic
import PcbV.Gen.Modes
/-
  PcbV.Model.VideoMem — video memory mappers of pcbasic/basic/display/framebuffer.py
  (TextMemoryMapper, GraphicsMemoryMapper._walk_memory, CGAMemoryMapper, EGAMemoryMapper,
  Tandy6MemoryMapper) as they are AFTER pending fix C34-video-memory-walk, plus the walk, the Tandy-6
  reader and the text reader as they were BEFORE it (`old…`, used by the counterexample theorems).

  Screen state: `Scr = page → y → x → value`.  Graphics modes: value = pixel attribute.  Text modes
  are described as a byte grid (x = 2*column + (0 character | 1 attribute), y = row).
  Addresses are absolute (segment*16 + offset); Python `divmod` with a positive divisor on a possibly
  negative relative address is `Int./`, `Int.%` (Euclidean = floor for positive divisors).

  Modelled, not verified: `ByteMatrix` slicing and `packed`/`frompacked` — a run of `len` bytes that
  lies inside one scan line is read/written as `len` consecutive groups of pixels (`unitsOf`);
  theorem `C34.run_in_row` shows every run of the repaired walk does lie inside its scan line, so
  the clamping of Python slices never comes into play.
-/
namespace PcbV.VideoMem
open PcbV.Gen.Modes

abbrev Scr := Int → Nat → Nat → Nat

structure Coord where
  page : Int
  x : Nat
  y : Nat
deriving DecidableEq, Repr

structure Run where
  page : Int
  x : Nat
  y : Nat
  ofs : Nat
  len : Nat
deriving DecidableEq, Repr

/-- mutable state of the display as far as the mappers see it -/
structure St where
  pix : Scr
  plane : Nat      -- EGA read plane (OUT &H3CF)
  mask : Nat       -- EGA write plane mask (OUT &H3C5)

def rel (m : Mode) (addr : Nat) : Int := (addr : Int) - ((m.segment * 16 : Nat) : Int)

/-! ### `_get_coords` of each mapper -/

/-- `CGAMemoryMapper._get_coords` -/
def coordsCGA (m : Mode) (addr : Nat) : Coord :=
  let r := rel m addr
  let page := r / (m.pageSize : Int)
  let a := (r % (m.pageSize : Int)).toNat
  let bank := a / m.bankSize
  let off := a % m.bankSize
  let row := off / m.bytesPerRow
  let col := off % m.bytesPerRow
  ⟨page, col * 8 / m.bpp, bank + m.interleave * row⟩

/-- `EGAMemoryMapper._get_coords` -/
def coordsEGA (m : Mode) (addr : Nat) : Coord :=
  let r := rel m addr
  let page := r / (m.pageSize : Int)
  let a := (r % (m.pageSize : Int)).toNat
  let row := a / m.bytesPerRow
  let rowOffs := a % m.bytesPerRow
  ⟨page, rowOffs * 8, row⟩

/-- `Tandy6MemoryMapper._get_coords` -/
def coordsTandy6 (m : Mode) (addr : Nat) : Coord :=
  let r := rel m addr
  let page := r / (m.pageSize : Int)
  let a := (r % (m.pageSize : Int)).toNat
  let bank := a / m.bankSize
  let off := a % m.bankSize
  let row := off / m.bytesPerRow
  let col := off % m.bytesPerRow
  ⟨page, (col / 2) * 8, bank + 4 * row⟩

/-- the address arithmetic in the loops of `TextMemoryMapper.get_memory/set_memory`
    (x = byte within the row: 2*col + parity) -/
def coordsText (m : Mode) (addr : Nat) : Coord :=
  let r := rel m addr
  let page := r / (m.pageSize : Int)
  let offset := (r % (m.pageSize : Int)).toNat
  let row := offset / m.bytesPerRow
  let rowOffset := offset % m.bytesPerRow
  ⟨page, rowOffset, row⟩

def getCoords (m : Mode) (addr : Nat) : Coord :=
  if m.kind = 1 then coordsCGA m addr
  else if m.kind = 2 then coordsEGA m addr
  else if m.kind = 3 then coordsTandy6 m addr
  else coordsText m addr

/-- `_coord_ok` (graphics); for text modes: page in range (repaired code: and not negative) and the row exists
    (`IndexError` otherwise). `np` = number of pages. -/
def coordOk (m : Mode) (np : Nat) (c : Coord) : Bool :=
  decide (0 ≤ c.page) && decide (c.page < (np : Int)) && decide (c.x < m.width) && decide (c.y < m.height)

/-! ### `_walk_memory` (repaired) -/

def unitAddr (addr ofs f : Nat) : Nat := addr + ofs * f

/-- length of the run that starts at unit address `ua` when `remaining` units are still to do -/
def runLen (m : Mode) (ua f remaining : Nat) : Nat :=
  let bankSize := m.bankSize / f
  let rowSize := m.bytesPerRow / f
  let bankOffset := (rel m ua % (m.bankSize : Int)).toNat / f
  let rowOffset := bankOffset % rowSize
  min (min (rowSize - rowOffset) (bankSize - bankOffset)) remaining

def walkAux (m : Mode) (np addr n f : Nat) : Nat → Nat → List Run
  | 0, _ => []
  | fuel + 1, offset =>
    if offset < n then
      let ua := unitAddr addr offset f
      let c := getCoords m ua
      let len := runLen m ua f (n - offset)
      let rest := walkAux m np addr n f fuel (offset + len)
      if coordOk m np c then ⟨c.page, c.x, c.y, offset, len⟩ :: rest else rest
    else []

/-- `GraphicsMemoryMapper._walk_memory(addr, num_units, factor)`; every iteration advances by ≥ 1 unit
    in a well-formed mode, so `n` iterations suffice. -/
def walk (m : Mode) (np addr n f : Nat) : List Run := walkAux m np addr n f n 0

/-- the units (bytes, or byte pairs for Tandy-6) of the runs, with the coordinates of their first pixel;
    `ppu` = pixels per unit -/
def unitsOf (ppu : Nat) (runs : List Run) : List (Nat × Coord) :=
  runs.flatMap fun r => (List.range r.len).map fun j => (r.ofs + j, (⟨r.page, r.x + j * ppu, r.y⟩ : Coord))

/-! ### `_walk_memory` (as it was before the repair; fuel-bounded) -/

structure OldW where
  page : Int
  y : Nat
  startY : Nat
  offset : Nat
  bankOffset : Nat
  pageOffset : Nat

def oldWalkLoop (m : Mode) (np n f : Nat) : Nat → OldW → List Run
  | 0, _ => []
  | fuel + 1, w =>
    let pageSize := m.pageSize / f
    let bankSize := m.bankSize / f
    let rowSize := m.bytesPerRow / f
    if w.pageOffset + w.bankOffset + w.offset < n then
      let w1 : OldW := { w with y := w.y + m.interleave }
      let w2 : OldW :=
        if w1.offset ≥ bankSize then
          let w' : OldW := { w1 with bankOffset := w1.bankOffset + bankSize, startY := w1.startY + 1,
                                     offset := 0, y := w1.startY + 1 }
          if w'.bankOffset ≥ pageSize then
            { w' with pageOffset := w'.pageOffset + pageSize, page := w'.page + 1, bankOffset := 0, offset := 0,
                      y := 0, startY := 0 }
          else w'
        else w1
      let ofs := w2.pageOffset + w2.bankOffset + w2.offset
      let rest := oldWalkLoop m np n f fuel { w2 with offset := w2.offset + rowSize }
      if coordOk m np ⟨w2.page, 0, w2.y⟩ then
        (if ofs + rowSize > n then ⟨w2.page, 0, w2.y, ofs, n - ofs⟩ else ⟨w2.page, 0, w2.y, ofs, rowSize⟩) :: rest
      else rest
    else []

def oldWalk (m : Mode) (np addr n f : Nat) : List Run :=
  let ppb := f * m.ppb
  let rowSize := m.bytesPerRow / f
  let c := getCoords m addr
  let offset := min (rowSize - c.x / ppb) n
  let first : List Run := if coordOk m np c then [⟨c.page, c.x, c.y, 0, offset⟩] else []
  first ++ oldWalkLoop m np n f (n + 1) ⟨c.page, c.y, c.y, offset, 0, 0⟩

/-! ### packing of pixels into bytes (`bytematrix.pack_bytes` / `unpack_bytes`) -/

/-- pack `ppb` values (masked to `bpp` bits), first value in the most significant bits -/
def packByte (bpp ppb : Nat) (g : Nat → Nat) : Nat :=
  (List.range ppb).foldl (fun acc t => acc * 2 ^ bpp + g t % 2 ^ bpp) 0

/-- value number `t` (from the left) of a packed byte -/
def unpackPix (bpp ppb byte t : Nat) : Nat := byte / 2 ^ (bpp * (ppb - 1 - t)) % 2 ^ bpp

def setPix (s : Scr) (page : Int) (y x v : Nat) : Scr :=
  fun p' y' x' => if p' = page ∧ y' = y ∧ x' = x then v else s p' y' x'

/-- write `k` consecutive pixels `x, x+1, …` of a row: pixel t gets `g t (old value)` -/
def setGroup (s : Scr) (page : Int) (y x k : Nat) (g : Nat → Nat → Nat) : Scr :=
  fun p' y' x' => if p' = page ∧ y' = y ∧ x ≤ x' ∧ x' < x + k then g (x' - x) (s p' y' x') else s p' y' x'

/-! ### one unit (byte) per mapper -/

/-- CGA: the byte packs `ppb` pixels of `bpp` bits -/
def readCGA (m : Mode) (s : Scr) (c : Coord) : Nat := packByte m.bpp m.ppb (fun t => s c.page c.y (c.x + t))
def writeCGA (m : Mode) (s : Scr) (c : Coord) (b : Nat) : Scr :=
  setGroup s c.page c.y c.x m.ppb (fun t _ => unpackPix m.bpp m.ppb b t)

/-- one colour plane: bit `plane` of 8 consecutive pixels (EGA, Tandy-6) -/
def readPlane (s : Scr) (c : Coord) (plane : Nat) : Nat :=
  packByte 1 8 (fun t => s c.page c.y (c.x + t) / 2 ^ plane)
/-- EGA: `(render(0, mask) & mask) | (old & ~mask)` -/
def writeMask (s : Scr) (c : Coord) (mask b : Nat) : Scr :=
  setGroup s c.page c.y c.x 8 (fun t old => ((if unpackPix 1 8 b t = 0 then 0 else mask) &&& mask) ||| (old &&& (255 - mask)))
/-- Tandy-6: `((bit << plane) & mask) | (old & ~mask)`, mask = 2**plane -/
def writeT6 (s : Scr) (c : Coord) (plane b : Nat) : Scr :=
  setGroup s c.page c.y c.x 8 (fun t old => ((unpackPix 1 8 b t * 2 ^ plane % 256) &&& 2 ^ plane) ||| (old &&& (255 - 2 ^ plane)))

/-! ### get_memory / set_memory per mapper -/

/-- store unit values into the result array -/
def place (arr : List Nat) (us : List (Nat × Nat)) : List Nat :=
  us.foldl (fun a u => a.set u.1 u.2) arr

def getCGA (m : Mode) (np : Nat) (s : St) (addr n : Nat) : List Nat :=
  place (List.replicate n 0) ((unitsOf m.ppb (walk m np addr n 1)).map fun u => (u.1, readCGA m s.pix u.2))

def setCGA (m : Mode) (np : Nat) (s : St) (addr : Nat) (bytes : List Nat) : St :=
  let pix' := (unitsOf m.ppb (walk m np addr bytes.length 1)).foldl
      (fun p u => writeCGA m p u.2 (bytes.getD u.1 0)) s.pix
  { s with pix := pix' }

def egaPlane (m : Mode) (s : St) : Nat := s.plane % m.planeMod
def planeUsed (m : Mode) (plane : Nat) : Bool := m.masterMask / 2 ^ plane % 2 = 1

def getEGA (m : Mode) (np : Nat) (s : St) (addr n : Nat) : List Nat :=
  let plane := egaPlane m s
  if planeUsed m plane then
    place (List.replicate n 0) ((unitsOf 8 (walk m np addr n 1)).map fun u => (u.1, readPlane s.pix u.2 plane))
  else List.replicate n 0

def setEGA (m : Mode) (np : Nat) (s : St) (addr : Nat) (bytes : List Nat) : St :=
  let mask := s.mask &&& m.masterMask
  if mask = 0 then s else
  let pix' := (unitsOf 8 (walk m np addr bytes.length 1)).foldl
      (fun p u => writeMask p u.2 mask (bytes.getD u.1 0)) s.pix
  { s with pix := pix' }

/-- first address ≥ addr whose parity is `plane` (`addr + (plane - addr) % 2`), as offset from addr -/
def t6First (addr plane : Nat) : Nat := (plane + addr) % 2

/-- Tandy-6 (repaired): even addresses hold plane 0, odd ones plane 1, of 8 pixels per byte pair -/
def getT6 (m : Mode) (np : Nat) (s : St) (addr n : Nat) : List Nat :=
  [0, 1].foldl (fun arr plane =>
      let fa := t6First addr plane
      let count := (n + 1 - fa) / 2
      place arr ((unitsOf 8 (walk m np (addr + fa) count 2)).map fun u => (fa + 2 * u.1, readPlane s.pix u.2 plane)))
    (List.replicate n 0)

def setT6 (m : Mode) (np : Nat) (s : St) (addr : Nat) (bytes : List Nat) : St :=
  let pix' := [0, 1].foldl (fun p plane =>
      let fa := t6First addr plane
      let count := (bytes.length + 1 - fa) / 2
      (unitsOf 8 (walk m np (addr + fa) count 2)).foldl
        (fun p u => writeT6 p u.2 plane (bytes.getD (fa + 2 * u.1) 0)) p) s.pix
  { s with pix := pix' }

/-- `TextMemoryMapper.get_memory` (repaired: negative pages are skipped) -/
def getText (m : Mode) (np : Nat) (s : St) (addr n : Nat) : List Nat :=
  (List.range n).map fun i =>
    let c := coordsText m (addr + i)
    if coordOk m np c then s.pix c.page c.y c.x else 0

def setText (m : Mode) (np : Nat) (s : St) (addr : Nat) (bytes : List Nat) : St :=
  let pix' := (List.range bytes.length).foldl (fun p i =>
      let c := coordsText m (addr + i)
      if coordOk m np c then setPix p c.page c.y c.x (bytes.getD i 0) else p) s.pix
  { s with pix := pix' }

/-- `memorymap.get_memory(display, addr, n)` -/
def getMemory (m : Mode) (np : Nat) (s : St) (addr n : Nat) : List Nat :=
  if m.kind = 1 then getCGA m np s addr n
  else if m.kind = 2 then getEGA m np s addr n
  else if m.kind = 3 then getT6 m np s addr n
  else getText m np s addr n

/-- `memorymap.set_memory(display, addr, bytes)` -/
def setMemory (m : Mode) (np : Nat) (s : St) (addr : Nat) (bytes : List Nat) : St :=
  if m.kind = 1 then setCGA m np s addr bytes
  else if m.kind = 2 then setEGA m np s addr bytes
  else if m.kind = 3 then setT6 m np s addr bytes
  else setText m np s addr bytes

/-- `Memory._get_video_memory` (PEEK) -/
def peek (m : Mode) (np : Nat) (s : St) (addr : Nat) : Nat := (getMemory m np s addr 1).headD 0
/-- `Memory._set_video_memory` (POKE) -/
def poke (m : Mode) (np : Nat) (s : St) (addr v : Nat) : St := setMemory m np s addr [v]

/-- reading a block one byte at a time -/
def bytewiseGet (m : Mode) (np : Nat) (s : St) (addr n : Nat) : List Nat :=
  (List.range n).map fun i => peek m np s (addr + i)
/-- writing a block one byte at a time -/
def bytewiseSet (m : Mode) (np : Nat) (s : St) (addr : Nat) (bytes : List Nat) : St :=
  (List.range bytes.length).foldl (fun s i => poke m np s (addr + i) (bytes.getD i 0)) s

/-! ### the readers as they were before the repair (for the counterexamples) -/

def oldGetCGA (m : Mode) (np : Nat) (s : St) (addr n : Nat) : List Nat :=
  place (List.replicate n 0) ((unitsOf m.ppb (oldWalk m np addr n 1)).map fun u => (u.1, readCGA m s.pix u.2))

/-- old Tandy-6 reader: both parities walk from the same `addr`; the two half arrays are interleaved -/
def oldGetT6 (m : Mode) (np : Nat) (s : St) (addr n : Nat) : List Nat :=
  let half := (n + 1) / 2
  let h := fun parity =>
    let plane := if parity = addr % 2 then 0 else 1
    place (List.replicate half 0)
      ((unitsOf 8 (oldWalk m np addr n 2)).map fun u => (u.1, readPlane s.pix u.2 plane))
  let h0 := h 0
  let h1 := h 1
  ((List.range n).map fun i => if i % 2 = 0 then h0.getD (i / 2) 0 else h1.getD (i / 2) 0)

/-- old text reader: a negative page number indexes the page list from its end -/
def oldGetText (m : Mode) (np : Nat) (s : St) (addr n : Nat) : List Nat :=
  (List.range n).map fun i =>
    let c := coordsText m (addr + i)
    let page := if c.page < 0 then c.page + np else c.page
    if coordOk m np ⟨page, c.x, c.y⟩ then s.pix page c.y c.x else 0


/-! ### well-formedness of a mode record (checked by `decide` on the regenerated table) -/

/-- bytes per unit of the walk: Tandy-6 walks byte pairs -/
def factorOf (m : Mode) : Nat := if m.kind = 3 then 2 else 1
/-- pixels per unit -/
def ppuOf (m : Mode) : Nat := if m.kind = 1 then m.ppb else 8

def wfMode (m : Mode) : Bool :=
  decide (0 < m.bytesPerRow) && decide (0 < m.bankSize) && decide (0 < m.interleave) &&
  decide (m.pageSize = m.interleave * m.bankSize) &&
  (if m.kind = 1 then decide (m.bpp * m.ppb = 8) && decide (m.width = m.bytesPerRow * m.ppb)
   else if m.kind = 2 then decide (m.interleave = 1) && decide (m.width = m.bytesPerRow * 8) &&
     decide (m.masterMask < 256)
   else if m.kind = 3 then decide (m.bytesPerRow % 2 = 0) && decide (m.bankSize % 2 = 0) &&
     decide (m.width = m.bytesPerRow / 2 * 8)
   else decide (m.kind = 0) && decide (m.interleave = 1) && decide (m.width = m.bytesPerRow))

def isGraphics (m : Mode) : Bool := m.kind = 1 || m.kind = 2 || m.kind = 3


/-! ### mode switches (Display.screen / _set_mode as far as video memory sees them)

  `Memory` reads and writes video memory through the mapper of the CURRENT mode object
  (`self._display.mode.memorymap`).  `Display.screen` compares the requested mode with the current one
  by NAME: a different name installs a brand-new mode object — new mapper, so read plane 0 and write
  mask 0xff again — with freshly erased pages; the same name (e.g. `SCREEN 9` in SCREEN 9, or
  `SCREEN 9,,1,1`) only changes the active/visible page and keeps the mapper with its registers. -/

/-- freshly erased pages: graphics all attribute 0; text blanks with attribute 7 -/
def initScr (m : Mode) : Scr :=
  if m.kind = 0 then fun _ _ x => if x % 2 = 0 then 32 else 7 else fun _ _ _ => 0

/-- state of a fresh mode object -/
def initSt (m : Mode) : St := ⟨initScr m, 0, 255⟩

structure Machine where
  mode : Mode
  np : Nat
  st : St

/-- SCREEN / WIDTH / CLEAR ,,,n that lead to mode `m` with `np` pages -/
def switchMode (mc : Machine) (m : Mode) (np : Nat) : Machine :=
  if m.name = mc.mode.name then mc else ⟨m, np, initSt m⟩

/-- CLEAR ,,,n with a new video memory size (`force_reset`): a fresh mode object whatever its name -/
def resetMode (_mc : Machine) (m : Mode) (np : Nat) : Machine := ⟨m, np, initSt m⟩

/-- PEEK / POKE / BSAVE / BLOAD go to the mapper of the current mode -/
def mPeek (mc : Machine) (addr : Nat) : Nat := peek mc.mode mc.np mc.st addr
def mPoke (mc : Machine) (addr v : Nat) : Machine := { mc with st := poke mc.mode mc.np mc.st addr v }
def mGet (mc : Machine) (addr n : Nat) : List Nat := getMemory mc.mode mc.np mc.st addr n
def mSet (mc : Machine) (addr : Nat) (bytes : List Nat) : Machine :=
  { mc with st := setMemory mc.mode mc.np mc.st addr bytes }
/-- OUT &H3CF,v / OUT &H3C5,v act on the mapper of the current mode -/
def mOutPlane (mc : Machine) (v : Nat) : Machine := { mc with st := { mc.st with plane := v } }
def mOutMask (mc : Machine) (v : Nat) : Machine := { mc with st := { mc.st with mask := v } }

/-- the mode with a given name in the generated table -/
def findMode (name : String) : Option Mode := table.find? (fun m => m.name = name)

end PcbV.VideoMem
