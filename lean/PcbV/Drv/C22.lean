import PcbV.Model.DataRead
namespace PcbV.Drv.C22
open PcbV PcbV.DataRead

/-
  request:  run <code-hex> <table> <ops>
    table = comma-separated  line:offset  pairs (program.line_numbers), "-" if empty
    ops   = ';'-separated:  r (RESTORE) | R<n> (RESTORE n) | d<types> (READ, one letter s/n/o per variable;
            o = numeric variable whose assignment the store refuses with Overflow)
  reply:    ok <res>;<res>;…   one per op:
    restore: "ok" | "!8@here"
    read:    values joined by ','  (s<hex> / n<hex>, "-" hex for empty), then optionally "!<err>@<erl|here>"
-/

def parseTable (s : String) : Option (List (Nat × Nat)) :=
  if s == "-" then some [] else
  (s.splitOn ",").mapM fun e =>
    match e.splitOn ":" with
    | [a, b] => do
      let x ← a.toNat?
      let y ← b.toNat?
      pure (x, y)
    | _ => none

def showVal : Val → String
  | .str b => "s" ++ toHex b
  | .num w => "n" ++ toHex w

def showErr (tbl : List (Nat × Nat)) (e : Nat) : Option Int → String
  | none => "!" ++ toString e ++ "@here"
  | some p => "!" ++ toString e ++ "@" ++ toString (erl tbl p)

def runOps (code : Bytes) (tbl : List (Nat × Nat)) : Nat → List String → Option (List String)
  | _, [] => some []
  | pos, op :: ops =>
    match op.toList with
    | ['r'] => (runOps code tbl 0 ops).map ("ok" :: ·)
    | 'R' :: ds =>
      match (String.ofList ds).toNat? with
      | none => none
      | some n =>
        match restore tbl (some n) with
        | .ok p => (runOps code tbl p ops).map ("ok" :: ·)
        | .error e => (runOps code tbl pos ops).map (("!" ++ toString e ++ "@here") :: ·)
    | 'd' :: ts =>
      if ts.all (fun c => c == 's' || c == 'n' || c == 'o') then
        let out := readVarsR true code pos (ts.map (fun c => (c == 's', if c == 'o' then some Gen.E.overflow else none)))
        let vs := ",".intercalate (out.vals.map showVal)
        let es := match out.err with
          | none => ""
          | some (e, ep) => showErr tbl e ep
        (runOps code tbl out.pos ops).map ((vs ++ es) :: ·)
      else none
    | _ => none

def handle : List String → String
  | ["run", code, tbl, ops] =>
    match ofHex code, parseTable tbl with
    | some code, some tbl =>
      match runOps code tbl 0 (ops.splitOn ";") with
      | some rs => "ok " ++ ";".intercalate rs
      | none => "bad-op"
    | _, _ => "bad-op"
  | _ => "bad-op"

end PcbV.Drv.C22
