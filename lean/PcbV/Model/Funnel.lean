import PcbV.Basic
import PcbV.Gen.Errors
/-
  C01 — the error funnel.  `Implementation._handle_exceptions` lets through only `Exit`;
  `Interpreter.parse` converts only `BASICError`; `float_safe` converts ValueError/ArithmeticError
  around value arithmetic; `safe_io`/`handle_oserror` convert EnvironmentError.  Anything else raised
  by a host call escapes.  The property therefore reduces to: every host-library call reachable from
  BASIC has its precondition established before the call.  This file models the funnel and the
  call sites whose validating code is not modelled elsewhere (clock/environ: Model/Clock.lean,
  struct.pack of integers: Model/IntOps.lean, exponent byte: Model/Mbf.lean).
-/
namespace PcbV.Funnel

/-- what a statement execution can raise -/
inductive Raised
  | basic (code : Nat)     -- error.BASICError
  | brk                    -- error.Break
  | exit                   -- error.Exit / Reset
  | valueOrArith           -- ValueError / ArithmeticError inside a float_safe function
  | osError                -- EnvironmentError inside safe_io / handle_oserror
  | host (tag : Nat)       -- any other host exception (KeyError, TypeError, struct.error, RecursionError, …)
deriving DecidableEq, Repr

/-- what the caller of `Session.execute` observes -/
inductive Outcome
  | done
  | reported (code : Nat)  -- BASIC error message / trappable ERR
  | brk
  | exit
  | escaped (tag : Nat)    -- a host exception leaves the session API: the violation
deriving DecidableEq, Repr

/-- the funnel: which layer converts what (`inFloatSafe`, `inSafeIo`: the raise site is wrapped) -/
def funnel (inFloatSafe inSafeIo : Bool) : Option Raised → Outcome
  | none => .done
  | some (.basic c) => .reported c
  | some .brk => .brk
  | some .exit => .exit
  | some .valueOrArith => if inFloatSafe then .reported PcbV.Gen.E.ifc else .escaped 0
  | some .osError => if inSafeIo then .reported PcbV.Gen.E.device_io_error else .escaped 1
  | some (.host t) => .escaped (t + 2)

/-! ### `Interpreter.renum_`: remapping of the active error / event trap lines -/

def lookup (m : List (Nat × Nat)) (k : Nat) : Option Nat := (m.find? (·.1 == k)).map (·.2)

/-- repaired code: `old_to_new.get(line, line)` -/
def renumTrap (oldToNew : List (Nat × Nat)) (line : Nat) : Except Raised Nat :=
  .ok ((lookup oldToNew line).getD line)

/-- code before the repair of D1: `old_to_new[line]` raises KeyError for a line that was not renumbered -/
def renumTrapOld (oldToNew : List (Nat × Nat)) (line : Nat) : Except Raised Nat :=
  match lookup oldToNew line with
  | some n => .ok n
  | none => .error (.host 0)

/-! ### `Memory._get_memory`: the preset PEEK table with the documented default `peek_values=None` -/

/-- repaired: `peek_values or {}` -/
def peekPreset (table : Option (List (Nat × Nat))) (addr : Nat) : Except Raised (Option Nat) :=
  .ok (lookup (table.getD []) addr)

/-- before the repair of D4: `None[addr]` raises TypeError -/
def peekPresetOld (table : Option (List (Nat × Nat))) (addr : Nat) : Except Raised (Option Nat) :=
  match table with
  | some t => .ok (lookup t addr)
  | none => .error (.host 1)

end PcbV.Funnel
