"""C41 — codepage conversion round-trips; the DBCS converter partitions its input for every chunking."""
import collections
import importlib
import io
import itertools
import random
import unicodedata

LEVEL = 'proof'
RULE = ('converter: for every shipped DBCS codepage, three SBCS pages and PRNG-made synthetic codepages (lead not a '
        'subset of trail, box characters on lead/trail bytes), with and without box protection and preserve sets: '
        'all strings up to length 3 (4 in thorough) over one representative byte per predicate class plus PRNG longer '
        'ones, all single bytes, all lead x trail pairs (model comparison sampled in quick), PRNG strings; each fed under PRNG chunk boundaries and '
        'flush flags; one case = (page, mode, preserve, chunk history). tables: every shipped codepage, every single '
        'byte, every defined entry and lead x trail pair, every repertoire cluster (oracle exhaustive in both tiers; the model '
        'comparison is sampled for DBCS pages in quick), PRNG '
        'strings; non-trivial = not the empty string')
EXPLANATION = ('theorems PcbV.Props.C41: converter_partition (all predicates, all chunk/flush histories), '
               'chunking_irrelevant, nobox_greedy, entry round trips for any table under uniqueness, decide-checked '
               'round trips of cp437/850/866 built by the model of Codepage.__init__ from the regenerated .ucp '
               'dicts; correspondence: Converter._mark histories, Codepage.__init__ sets, bytes_to_unicode, '
               'unicode_to_bytes, _split_unicode, codepoint_to_unicode against the compiled model; oracle: the '
               'round-trip identities, partition, sequence lengths, chunking independence, greedy lead/trail '
               'parse without box protection, stream wrapper vs one-shot conversion')
TRUSTED_BASE = ['model PcbV.Model.Codepage is a hand transcription of codepage.py (Converter, Codepage.__init__, '
                '_split_unicode, _from_unicode); unicodedata.normalize(NFC) is a host function applied by the '
                'harness, not modelled',
                'injectivity of the 8 DBCS tables (7.7k-24k entries) is established on the Python side only '
                '(exhaustive entry round trips in this run); the kernel-checked table theorems cover 437, 850, 866']
ASSUMPTIONS = ['codepage dict keys have length 1 or 2 and clusters are non-empty (checked for every shipped file)',
               'preserve sets contain single bytes only']


def nfc(s):
    return unicodedata.normalize('NFC', s)


def hx(b):
    return bytes(b).hex() if b else '-'


def cps(u):
    return '.'.join('%x' % ord(c) for c in u) if u else '-'


class Page(object):
    """One codepage: the raw dict and the real Codepage objects for both box_protect defaults."""

    def __init__(self, name, d):
        cpmod = importlib.import_module('pcbasic.basic.codepage')
        self.name = name
        self.dict = d
        self.mod = cpmod
        self.cp = {True: cpmod.Codepage(d, box_protect=True), False: cpmod.Codepage(d, box_protect=False)}
        c = self.cp[True]
        self.dbcs = any(len(k) == 2 for k in d)
        self.lead = sorted(set(k[0] for k in d if len(k) == 2))
        self.trail = sorted(set(k[1] for k in d if len(k) == 2))
        # effective byte -> unicode mapping derived from the file, independently of Codepage.__init__
        self.eff = {}
        self.subst = {}
        for k, u in d.items():
            u = nfc(u)
            if len(k) == 1 and 0x20 <= k[0] < 0x7f:
                self.eff[k] = chr(k[0])
                if u != chr(k[0]):
                    self.subst[k] = u
            else:
                self.eff[k] = u
        for b in range(256):
            self.eff.setdefault(bytes([b]), u'\0')
        self.count = collections.Counter(self.eff.values())
        self.box = [sorted(k[0] for k, u in d.items() if len(k) != 2 and nfc(u) == g) for g in (u'─', u'═')]
        self.real = c

    def dict_word(self):
        return ','.join('%s:%s' % (hx(k), cps(nfc(u))) for k, u in self.dict.items())

    def preds_words(self):
        c = self.real
        sets = [c.lead, c.trail, c._box_left[0], c._box_left[1], c._box_right[0], c._box_right[1]]
        return ' '.join(hx(sorted(b[0] for b in s)) for s in sets)


def shipped_pages():
    from pcbasic.data.codepages import CODEPAGES, read_codepage
    return collections.OrderedDict((n, read_codepage(n)) for n in sorted(CODEPAGES))


def synthetic_dict(seed):
    """A made-up codepage: random lead/trail sets (lead not inside trail), box characters on arbitrary bytes,
    duplicates, multi-code-point clusters, printable-ASCII substitutes."""
    r = random.Random(seed)
    d = collections.OrderedDict()
    order = list(range(256))
    r.shuffle(order)
    skip = set(r.sample(range(128, 256), r.choice([0, 3, 20])))
    if r.random() < 0.6:
        skip |= set(r.sample([0, 1, 0x7f, 0x80, 0xfe, 0xff], 2)) | {0xff}
    for b in order:
        if b in skip:
            continue
        d[bytes([b])] = chr(b) if b < 128 else chr(0x100 + b)
    for g in (u'─', u'═'):
        for b in r.sample(range(0x21, 256), r.choice([0, 1, 2, 3])):
            d[bytes([b])] = g
    for b in r.sample(range(0x20, 0x7f), 2):
        d[bytes([b])] = r.choice([u'\xa5', u'₩', u'٪'])
    clusters = [u'а̀', u'а́', u'а̀́', u'ѐ', u'а', u'̀',
                u'́', u'é']
    for b, cl in zip(r.sample(range(0x80, 0x100), len(clusters)), clusters):
        if r.random() < 0.7:
            d[bytes([b])] = cl
    if r.random() < 0.85:
        boxb = [k[0] for k, u in d.items() if u in (u'─', u'═')]
        nl, nt = r.choice([1, 2, 5, 30]), r.choice([1, 3, 8, 60])
        lead = set(r.sample(range(0x80, 0x100), nl)) | set(b for b in boxb if r.random() < 0.7)
        trail = set(r.sample(range(0x30, 0x100), nt)) | set(b for b in boxb if r.random() < 0.7)
        if r.random() < 0.5:
            trail |= set(b for b in lead if r.random() < 0.6)
        lead, trail = sorted(lead), sorted(trail)
        pairs = set((l, r.choice(trail)) for l in lead) | set((r.choice(lead), t) for t in trail)
        for l in lead:
            for t in trail:
                if r.random() < 0.3:
                    pairs.add((l, t))
        pairs = sorted(pairs)
        r.shuffle(pairs)
        for i, (l, t) in enumerate(pairs):
            d[bytes([l, t])] = chr(0x4e00 + (i if r.random() < 0.9 else r.randrange(len(pairs))))
    return d


class Pending(object):
    """Protocol lines waiting for one run of the Lean driver (spawning it per batch is the dominant cost)."""

    def __init__(self, ctx):
        self.ctx = ctx
        self.items = []
        self.size = 0

    def add(self, line, on_reply):
        if not self.ctx.model_ok:
            return
        self.items.append((line, on_reply))
        self.size += len(line)
        if self.size > 8000000:
            self.flush()

    def flush(self):
        if self.items:
            replies = self.ctx.model([l for l, _ in self.items])
            for (_, cb), r in zip(self.items, replies):
                cb(r)
        self.items, self.size = [], 0


# ---------------------------------------------------------------------------------------------------------
# converter

CONTROL = bytes([7, 9, 10, 11, 12, 13, 28, 29, 30, 31])


def class_reps(page, preserve, rng):
    """One byte for every combination of the predicates the converter looks at."""
    classes = {}
    lead, trail = set(page.lead), set(page.trail)
    box = set(page.box[0]) | set(page.box[1])
    order = list(range(256))
    rng.shuffle(order)
    for b in order:
        key = (b in lead, b in trail, b in page.box[0], b in page.box[1], b in preserve)
        classes.setdefault(key, b)
    reps = sorted(classes.values())
    # keep the alphabet small: drop plain classes beyond 9 symbols, keeping box / preserve ones
    if len(reps) > 9:
        keep = [b for b in reps if b in box or b in preserve]
        rest = [b for b in reps if b not in keep]
        reps = sorted(keep[:5] + rest[:9 - len(keep[:5])])
    return reps


def random_chunking(rng, data, flush_prob):
    """Cut `data` at PRNG boundaries (empty chunks included), flush flags with probability flush_prob."""
    chunks = []
    i = 0
    n = len(data)
    while i < n or not chunks:
        step = rng.choice([0, 1, 1, 1, 2, 2, 3, 5, n])
        chunks.append((data[i:i + step], rng.random() < flush_prob))
        i += step
        if n == 0:
            break
    return chunks


def greedy_parse(page, preserve, data):
    """Independent statement of DBCS splitting without box protection."""
    lead, trail = set(page.lead), set(page.trail)
    out, i = [], 0
    while i < len(data):
        c = data[i]
        if (c not in preserve and c in lead and i + 1 < len(data)
                and data[i + 1] not in preserve and data[i + 1] in trail):
            out.append(data[i:i + 2])
            i += 2
        else:
            out.append(data[i:i + 1])
            i += 1
    return out


def run_converter(page, box, preserve, history):
    """Drive a real Converter through a history of _mark(chunk, flush) calls."""
    conv = page.mod.Converter(page.cp[box], tuple(bytes([b]) for b in preserve))
    seqs = []
    for chunk, fl in history:
        seqs += conv._mark(chunk, fl)
    return seqs, conv._buf


def conv_batch(ctx, pend, page, box, preserve, histories, label):
    """Correspondence + oracle for a batch of chunk histories on one page/mode/preserve set."""
    rng = ctx.rng
    lines_in, outs = [], []
    tag = '%s:%s' % (page.name, 'box' if box else 'nobox')
    for hist in histories:
        data = b''.join(c for c, _ in hist)
        seqs, buf = run_converter(page, box, preserve, hist)
        outs.append((','.join(hx(s) for s in seqs) or '.') + '|' + hx(buf))
        lines_in.append(','.join(hx(c) + ('!' if f else '') for c, f in hist))
        ctx.case((tag, bytes(preserve), tuple(hist)))
        ctx.count('conv:' + label)
        ctx.count('conv-len:%d' % min(len(data), 9))
        case = {'kind': 'conv', 'page': page.name, 'box': box, 'preserve': hx(preserve),
                'history': [[hx(c), f] for c, f in hist]}
        # oracle 1: partition and sequence lengths
        if b''.join(seqs) + buf != data:
            ctx.fail('partition:' + tag, case, 'emitted %r + buffer %r do not concatenate to the input %r'
                     % (seqs, buf, data))
            continue
        bad = [s for s in seqs if len(s) not in (1, 2)]
        if bad or len(buf) > 2:
            ctx.fail('seqlen:' + tag, case, 'sequence of length other than 1 or 2: %r (buffer %r)' % (bad, buf))
        if hist and hist[-1][1] and buf:
            ctx.fail('flush:' + tag, case, 'buffer %r not empty after a flush' % buf)
        if any(len(s) == 2 for s in seqs):
            ctx.count('conv:has-dbcs-seq')
        if not page.dbcs and any(len(s) != 1 for s in seqs):
            ctx.fail('sbcs:' + tag, case, 'single-byte codepage emitted a non-single sequence')
        # oracle 2: chunking independence (no intermediate flush: compare with one-shot, bytewise, re-chunked)
        if not any(f for _, f in hist[:-1]):
            final = bool(hist and hist[-1][1])
            total = seqs + ([buf] if buf else [])
            for alt in ([(data, final)], [(data[i:i + 1], False) for i in range(len(data))] + [(b'', final)],
                        [(c, False) for c, _ in random_chunking(rng, data, 0)] + [(b'', final)]):
                s2, b2 = run_converter(page, box, preserve, alt)
                if s2 + ([b2] if b2 else []) != total:
                    ctx.fail('chunking:' + tag, dict(case, alt=[[hx(c), f] for c, f in alt]),
                             'history %r gives %r, re-chunked %r gives %r' % (hist, total, alt, s2 + [b2]))
                    break
            # oracle 3: without box protection the split is the greedy lead/trail parse
            if page.dbcs and not box and final:
                exp = greedy_parse(page, preserve, data)
                if seqs != exp:
                    ctx.fail('greedy:' + tag, case, 'expected lead/trail parse %r, got %r' % (exp, seqs))
            # oracle 4: unicode level, pieces == one shot (public methods)
            if final and rng.random() < 0.25:
                cp = page.cp[box]
                pres = tuple(bytes([b]) for b in preserve)
                conv = cp.get_converter(pres)
                pieces = u''.join(conv.to_unicode(c) for c, _ in hist[:-1]) + conv.to_unicode(hist[-1][0], flush=True)
                whole = cp.bytes_to_unicode(data, preserve=pres)
                stream = io.StringIO()
                wrapped = cp.wrap_output_stream(stream, pres)
                for c, _ in hist:
                    wrapped.write(c)
                written = stream.getvalue() + wrapped._conv.to_unicode(b'', flush=True)
                if pieces != whole or written != whole:
                    ctx.fail('unicode-chunking:' + tag, case, 'to_unicode in pieces %r / stream wrapper %r differ '
                             'from bytes_to_unicode at once %r' % (pieces, written, whole))
    line = 'conv %s %s %d %d %s' % (page.preds_words(), hx(preserve), int(page.real.dbcs), int(box),
                                    ';'.join(lines_in))

    def on_reply(reply):
        mouts = reply[3:].split(';') if reply.startswith('ok ') else []
        if len(mouts) != len(outs):
            ctx.disagree({'label': 'conv-batch', 'page': page.name}, 'batch of %d' % len(outs), reply[:200])
            return
        for i, m, l in zip(outs, mouts, lines_in):
            if i != m:
                ctx.disagree({'label': 'conv', 'page': page.name, 'box': box, 'preserve': hx(preserve), 'history': l},
                             i, m)
    pend.add(line, on_reply)


def converter_part(ctx, pend, pages):
    rng = ctx.rng
    for page in pages:
        for box in (True, False):
            for preserve in ([], sorted(CONTROL), None):
                if preserve is None:
                    # a preserve set that hits lead / trail / box bytes
                    pool = (page.lead[:3] + page.trail[:3] + page.box[0] + page.box[1] + [0x41]) or [0x41, 0x80]
                    preserve = sorted(set(rng.sample(pool, min(len(pool), rng.choice([1, 2, 3])))))
                reps = class_reps(page, preserve, rng)
                hists = []
                full = 3 if ctx.quick else 4
                structured = [bytes(t) for n in range(full + 1) for t in itertools.product(reps, repeat=n)]
                for n, cnt in ((full + 1, 1000 if ctx.quick else 8000), (full + 2, 300 if ctx.quick else 4000)):
                    structured += [bytes(rng.choice(reps) for _ in range(n)) for _ in range(cnt)]
                for data in structured:
                    hists.append([(c, False) for c, _ in random_chunking(rng, data, 0)] + [(b'', True)])
                label = 'structured'
                conv_batch(ctx, pend, page, box, preserve, hists, label)
                hists = []
                weights = (page.lead * 3 + page.trail * 2 + (page.box[0] + page.box[1]) * 12 + preserve * 4
                           + reps * 4 + list(range(256)))
                for _ in range(300 if ctx.quick else 4000):
                    n = rng.choice([1, 2, 3, 6, 10, 17, 40])
                    data = bytes(rng.choice(weights) for _ in range(n))
                    fp = rng.choice([0, 0, 0.2, 0.6])
                    hist = random_chunking(rng, data, fp)
                    if rng.random() < 0.8:
                        hist.append((b'', True))
                    hists.append(hist)
                conv_batch(ctx, pend, page, box, preserve, hists, 'random')
            # all single bytes and all lead x trail pairs
            singles = [[(bytes([b]), True)] for b in range(256)]
            conv_batch(ctx, pend, page, box, [], singles, 'single')
            if page.dbcs:
                full_grid = [(l, t) for l in page.lead for t in page.trail]
                ctx.count('pair-grid-exhaustive:' + page.name)
                for l, t in full_grid:
                    pair = bytes([l, t])
                    ctx.case(('pair', page.name, box, pair))
                    for h in ([(pair, True)], [(pair[:1], False), (pair[1:], False), (b'', True)]):
                        seqs, buf = run_converter(page, box, [], h)
                        if seqs != [pair] or buf:
                            ctx.fail('pair:%s:%s' % (page.name, 'box' if box else 'nobox'),
                                     {'kind': 'conv', 'page': page.name, 'box': box, 'preserve': '-',
                                      'history': [[hx(c), f] for c, f in h]},
                                     'lead/trail pair %s is not emitted as one sequence: %r + %r' % (hx(pair), seqs, buf))
                grid = rng.sample(full_grid, 2500) if ctx.quick and len(full_grid) > 2500 else full_grid
                hists = []
                for l, t in grid:
                    k = rng.randrange(3)
                    hists.append([(bytes([l, t]), True)] if k == 0 else
                                 [(bytes([l]), False), (bytes([t]), True)] if k == 1 else
                                 [(bytes([l]), False), (b'', False), (bytes([t]), False), (b'', True)])
                conv_batch(ctx, pend, page, box, [], hists, 'pair')


# ---------------------------------------------------------------------------------------------------------
# tables

def independent_split(page, s):
    """Greedy longest-match split over the page's multi-code-point clusters (written from the docstring)."""
    multi = sorted((u for u in page.count if len(u) > 1), key=len, reverse=True)
    out = []
    while s:
        if s[0] == u'\0' and len(s) > 1 and ord(s[1]) < 256:
            n = 2
        else:
            n = 1
            for m in multi:
                if s.startswith(m):
                    n = len(m)
                    break
        out.append(s[:n])
        s = s[n:]
    return out


def table_part(ctx, pend, page, shipped):
    rng = ctx.rng
    name = page.name
    model_modes = (True, False)
    if ctx.quick and len(page.dict) > 1000:
        # the oracle below still sees every entry in both modes; only the model comparison is thinned
        model_modes = (rng.random() < 0.5,)
    for bp in (True, False):
        cp = page.cp[bp]
        queries, impl = [], []

        def q(text, value, queries=queries, impl=impl, on=(bp in model_modes)):
            if on:
                queries.append(text)
                impl.append(value)
        # the sets built by __init__
        canon = lambda s: hx(sorted(b[0] for b in s))
        q('i', '/'.join([canon(cp.lead), canon(cp.trail), canon(cp._box_left[0]), canon(cp._box_left[1]),
                         canon(cp._box_right[0]), canon(cp._box_right[1]), str(int(cp.dbcs)),
                         str(len(cp._substitutes)), str(len(cp._cp_to_unicode))]))
        keys = list(page.eff)
        singles = [k for k in keys if len(k) == 1]
        doubles = [k for k in keys if len(k) == 2]
        grid = [bytes([l, t]) for l in page.lead for t in page.trail]
        reps = sorted(page.count)
        if ctx.quick and len(doubles) > 800:
            in_model = set(rng.sample(doubles, 800)) | set(rng.sample(grid, 500)) | set(rng.sample(reps, 800))
            in_model |= set(singles)
        else:
            in_model = None
            ctx.count('model-exhaustive:' + name)
        ctx.count('oracle-exhaustive:' + name)
        tag = '%s:%s' % (name, 'box' if bp else 'nobox')
        # --- bytes -> unicode -> bytes on every entry (oracle: identity when the mapping is unique)
        for k in singles + doubles + [g for g in grid if g not in page.eff]:
            u = cp.bytes_to_unicode(k)
            if in_model is None or k in in_model:
                q('b:%s:-:n0' % hx(k), cps(u))
            ctx.case(('b2u', tag, k))
            ctx.count('entry:bytes')
            if k not in page.eff:
                ctx.count('entry:undefined-pair')
            else:
                if shipped and u != page.eff[k]:
                    ctx.fail('b2u:' + tag, {'kind': 'b2u', 'page': name, 'box': bp, 'bytes': hx(k)},
                             'bytes %r convert to %r, the codepage file says %r' % (k, u, page.eff[k]))
                if shipped and page.count[page.eff[k]] == 1:
                    ctx.count('entry:unique')
                    back = cp.unicode_to_bytes(u)
                    if back != k:
                        ctx.fail('rt-bytes:' + tag, {'kind': 'rt-bytes', 'page': name, 'box': bp, 'bytes': hx(k)},
                                 'bytes %r -> %r -> %r (mapping is unique)' % (k, u, back))
                else:
                    ctx.count('entry:not-unique')
        for k in singles:
            q('c:%s:1' % hx(k), cps(cp.codepoint_to_unicode(k, use_substitutes=True)))
        # --- unicode -> bytes -> unicode on every repertoire cluster
        for u in reps:
            b = cp.unicode_to_bytes(u)
            if in_model is None or u in in_model:
                q('u:%s:0' % cps(u), hx(b))
            ctx.case(('u2b', tag, u))
            ctx.count('entry:unicode')
            if shipped:
                back = cp.bytes_to_unicode(b)
                if back != u:
                    ctx.fail('rt-unicode:' + tag, {'kind': 'rt-unicode', 'page': name, 'box': bp, 'unicode': cps(u)},
                             'cluster %r -> %r -> %r' % (u, b, back))
        for k, g in page.subst.items():
            b = cp.unicode_to_bytes(g)
            back = cp.bytes_to_unicode(b, use_substitutes=True)
            q('u:%s:0' % cps(g), hx(b))
            q('b:%s:-:n1' % hx(b), cps(back))
            ctx.count('entry:substitute')
            if shipped and back != g:
                ctx.fail('rt-subst:' + tag, {'kind': 'rt-subst', 'page': name, 'box': bp, 'unicode': cps(g)},
                         'substitute glyph %r -> %r -> %r with use_substitutes' % (g, b, back))
        # --- strings
        plain = [k for k in keys if page.count[page.eff[k]] == 1 and not (len(k) == 1 and k[0] in page.lead)
                 and not page.eff[k].startswith(u'\0')]
        if bp:
            boxb = set(page.box[0]) | set(page.box[1])
            plain = [k for k in plain if not (set(k) & boxb)]
        nstr = 120 if ctx.quick else 1500
        for _ in range(nstr if plain else 0):
            ks = [rng.choice(plain) for _ in range(rng.choice([1, 2, 3, 5, 9, 20]))]
            data = b''.join(ks)
            exp_u = u''.join(page.eff[k] for k in ks)
            u = cp.bytes_to_unicode(data)
            q('b:%s:-:n0' % hx(data), cps(u))
            ctx.case(('str-b2u', tag, data))
            ctx.count('string:bytes')
            if not shipped:
                continue
            if u != exp_u:
                ctx.fail('str-b2u:' + tag, {'kind': 'b2u', 'page': name, 'box': bp, 'bytes': hx(data)},
                         'entries %r convert to %r, expected %r' % (ks, u, exp_u))
                continue
            if nfc(u) != u or independent_split(page, u) != [page.eff[k] for k in ks]:
                ctx.count('string:skipped-recombining')
                continue
            back = cp.unicode_to_bytes(u)
            if back != data:
                ctx.fail('rt-bytes-str:' + tag, {'kind': 'rt-bytes', 'page': name, 'box': bp, 'bytes': hx(data)},
                         'byte string %r -> %r -> %r' % (data, u, back))
            back_u = cp.bytes_to_unicode(back)
            if back_u != u:
                ctx.fail('rt-unicode-str:' + tag, {'kind': 'rt-unicode', 'page': name, 'box': bp, 'unicode': cps(u)},
                         'string %r -> %r -> %r' % (u, back, back_u))
        # --- model-only correspondence on hostile inputs: preserve, box argument, substitutes, junk unicode
        alphabet = (page.lead * 2 + page.trail + (page.box[0] + page.box[1]) * 6 + list(CONTROL) + list(range(256)))
        for _ in range(150 if ctx.quick else 2000):
            data = bytes(rng.choice(alphabet) for _ in range(rng.choice([1, 2, 3, 4, 8, 20])))
            pres = rng.choice([b'', CONTROL, bytes(rng.sample(alphabet, 2))])
            ba = rng.choice([None, True, False])
            su = rng.random() < 0.3
            u = cp.bytes_to_unicode(data, preserve=tuple(bytes([b]) for b in pres), box_protect=ba, use_substitutes=su)
            q('b:%s:%s:%s%d' % (hx(data), hx(sorted(set(pres))), {None: 'n', True: '1', False: '0'}[ba], int(su)), cps(u))
            ctx.case(('b2u-hostile', tag, data, pres, ba, su))
            ctx.count('string:hostile-bytes')
        junk = [u'\0', u'\0', u'A', u'\r', u'\x7f', u'\x80', u'\xff', u'Ā', u'─', u'̀', u'́',
                u'а', u'е', u'€', u'\U0001f600', u'\xa5', u'\\']
        for _ in range(150 if ctx.quick else 2000):
            parts = [rng.choice(reps) if rng.random() < 0.6 else rng.choice(junk)
                     for _ in range(rng.choice([1, 2, 3, 4, 8]))]
            s = u''.join(parts)
            rep = rng.random() < 0.4
            b = cp.unicode_to_bytes(s, errors='replace' if rep else 'ignore')
            q('u:%s:%d' % (cps(nfc(s)), int(rep)), hx(b))
            q('s:%s' % cps(nfc(s)), '/'.join(cps(c) for c in cp._split_unicode(s)))
            ctx.case(('u2b-hostile', tag, s, rep))
            ctx.count('string:hostile-unicode')
            if nfc(s) != s:
                ctx.count('string:nfc-changes-input')
        line = 'tab %s %d %s' % (page.dict_word(), int(bp), ';'.join(queries))

        def on_reply(reply, queries=queries, impl=impl, bp=bp):
            mouts = reply[3:].split(';') if reply.startswith('ok ') else []
            if len(mouts) != len(impl):
                ctx.disagree({'label': 'tab-batch', 'page': name}, 'batch of %d' % len(impl), reply[:200])
                return
            for qq, i, m in zip(queries, impl, mouts):
                if i != m:
                    ctx.disagree({'label': 'tab', 'page': name, 'box_protect': bp, 'query': qq}, i, m)
        pend.add(line, on_reply)


def check_file_shape(ctx, name, d):
    for k, u in d.items():
        if len(k) not in (1, 2) or not u:
            ctx.fail('file-shape:' + name, {'kind': 'shape', 'page': name, 'key': hx(k)},
                     'codepage file entry %r -> %r is outside the modelled shape (key length 1 or 2, non-empty)'
                     % (k, u))


def run(ctx):
    rng = ctx.rng
    raw = shipped_pages()
    ctx.log('%d shipped codepages' % len(raw))
    pages = collections.OrderedDict()
    for name, d in raw.items():
        check_file_shape(ctx, name, d)
        pages[name] = Page(name, d)
    dbcs_pages = [p for p in pages.values() if p.dbcs]
    ctx.notes['dbcs_pages'] = [p.name for p in dbcs_pages]
    synth_seeds = [rng.getrandbits(32) for _ in range(4 if ctx.quick else 16)]
    synth = [Page('synthetic-%d' % s, synthetic_dict(s)) for s in synth_seeds]
    ctx.log('converter histories')
    conv_pages = dbcs_pages + [pages[n] for n in ('437', '864', 'russup3') if n in pages] + synth
    pend = Pending(ctx)
    converter_part(ctx, pend, conv_pages)
    pend.flush()
    ctx.log('tables')
    for p in pages.values():
        table_part(ctx, pend, p, True)
    for p in synth:
        table_part(ctx, pend, p, False)
    pend.flush()
    ctx.sample({'page': '932', 'bytes': '8140 41', 'unicode': cps(pages['932'].real.bytes_to_unicode(b'\x81\x40A'))}
               if '932' in pages else {})
    ctx.sample({'page': '936', 'history': ['c4', 'c4c4', 'flush'],
                'sequences': [hx(s) for s in run_converter(pages['936'], True, [], [(b'\xc4', False), (b'\xc4\xc4', True)])[0]]}
               if '936' in pages else {})
    ctx.notes['synthetic_seeds'] = synth_seeds


def replay(ctx, payload):
    case = payload.get('case', {})
    name = case.get('page', '')
    if name.startswith('synthetic-'):
        page = Page(name, synthetic_dict(int(name.split('-')[1])))
    else:
        from pcbasic.data.codepages import read_codepage
        page = Page(name, read_codepage(name))
    unhex = lambda s: b'' if s == '-' else bytes.fromhex(s)
    kind = case.get('kind')
    cp = page.cp[bool(case.get('box'))]
    if kind == 'conv':
        hist = [(unhex(c), f) for c, f in case['history']]
        preserve = list(unhex(case['preserve']))
        data = b''.join(c for c, _ in hist)
        seqs, buf = run_converter(page, bool(case['box']), preserve, hist)
        if b''.join(seqs) + buf != data:
            return 'emitted %r + buffer %r != input %r' % (seqs, buf, data)
        if any(len(s) not in (1, 2) for s in seqs):
            return 'sequence lengths %r' % seqs
        if hist and hist[-1][1] and buf:
            return 'buffer %r not empty after a flush' % buf
        if 'alt' in case:
            alt = [(unhex(c), f) for c, f in case['alt']]
            s2, b2 = run_converter(page, bool(case['box']), preserve, alt)
            if s2 + ([b2] if b2 else []) != seqs + ([buf] if buf else []):
                return 're-chunked input gives %r instead of %r' % (s2, seqs)
        if not any(f for _, f in hist[:-1]) and hist and hist[-1][1]:
            if page.dbcs and not case['box'] and seqs != greedy_parse(page, preserve, data):
                return 'not the greedy lead/trail parse: %r' % seqs
            pres = tuple(bytes([b]) for b in preserve)
            conv = cp.get_converter(pres)
            pieces = u''.join(conv.to_unicode(c) for c, _ in hist[:-1]) + conv.to_unicode(hist[-1][0], flush=True)
            if pieces != cp.bytes_to_unicode(data, preserve=pres):
                return 'to_unicode in pieces differs from bytes_to_unicode'
            if payload.get('key', '').startswith('pair:') and seqs != [data]:
                return 'pair not emitted as one sequence: %r' % seqs
        return None
    if kind in ('rt-bytes', 'b2u'):
        data = unhex(case['bytes'])
        u = cp.bytes_to_unicode(data)
        if kind == 'b2u':
            ks = [data] if data in page.eff else None
            return None if ks and u == page.eff[data] else 'bytes %r convert to %r' % (data, u)
        back = cp.unicode_to_bytes(u)
        return None if back == data else 'bytes %r -> %r -> %r' % (data, u, back)
    if kind in ('rt-unicode', 'rt-subst'):
        u = u''.join(chr(int(x, 16)) for x in case['unicode'].split('.'))
        b = cp.unicode_to_bytes(u)
        back = cp.bytes_to_unicode(b, use_substitutes=(kind == 'rt-subst'))
        return None if back == u else 'unicode %r -> %r -> %r' % (u, b, back)
    if kind == 'shape':
        return 'codepage file entry outside the modelled shape'
    return None
