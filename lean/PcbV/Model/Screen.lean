/-
  PcbV.Model.Screen — video page buffers, the video signals they emit, and the reference
  signal consumer (property C35).

  Transcribed from
    pcbasic/basic/display/buffers.py   VideoBuffer: put_char_attr, _update, force_submit,
                                       _refresh_dbcs, _draw_text, _submit, resubmit, clear_rows,
                                       clear_row_from, _clear_text_area, scroll_up, scroll_down,
                                       _update_pixels (via _PixelAccess.__setitem__), copy_from,
                                       set_visible, collect_updates
    pcbasic/basic/base/bytematrix.py   ByteMatrix slicing, slice assignment, move
    pcbasic/basic/display/display.py   set_page, pcopy_, rebuild
    pcbasic/interface/video_sdl2.py    set_mode, update, clear_rows, scroll  (pixel consumer)
    pcbasic/interface/video_curses.py  update, clear_rows, scroll            (text consumer)

  Representation.  A byte matrix is its index function `y x ↦ value`; only indices inside the
  matrix (`y < H`, `x < W`) are meaningful, which makes the clamping of Python slices at the matrix
  border implicit.  Text coordinates are 1-based as in the code, the stored functions 0-based.
  Glyph rendering (`Font.render_text`, already coloured) and `colourmap.split_attr(attr)[1]` are
  PARAMETERS (`Env.glyph`, `Env.backOf`).  `_draw_text` renders maximal same-attribute chunks; the
  model renders cell by cell (same pixels, since a chunk sprite is the hstack of its glyphs).
  `_refresh_dbcs` converts a whole row of bytes into the cells of the unicode buffer `_dbcs_text`
  (`utext`) through the PARAMETER `Env.conv` (identity for single-byte codepages; lead/trail pairing
  for DBCS codepages, where a written byte can change cells left and right of it); the dirty range is
  widened to the first/last changed cell.  Pixel writes happen in graphics modes only, where DBCS is
  off (`POp.valid`).  Rendering stays cell by cell: full-width sprites are not modelled, the display
  theorem does not depend on WHAT is drawn, only on WHERE — `_draw_text` changes pixels only inside the
  cells `start..stop` it is called for.  That is the REPAIRED `_draw_text_chunk` (sprite clipped to the
  cells of its chunk); before, a full-width glyph drawn for its lead cell alone painted the neighbouring
  cell too, outside the rectangle that is submitted (`drawTextWide` below).  Row length / wrap flags are not
  modelled (they never reach the display).  `scroll_up/scroll_down` are the REPAIRED versions (the
  vacated text row is filled with the background attribute; `scroll_down` deletes row `to` of the
  character buffer); `scrollUpOld/scrollDownOld/rowsDownOld` are the code before the repair (defect
  D12 and the off-by-one row deletion).  `copyFrom` copies values (the repaired `copy_from`); the
  row sharing of the old code is modelled separately (`TextHeap`).
-/
import PcbV.Basic
namespace PcbV.Screen

abbrev Mat := Nat → Nat → Nat

/-- a matrix value (sprite, text block) with its dimensions -/
structure Sub where
  h : Nat
  w : Nat
  f : Mat

structure Geom where
  th : Nat   -- text rows      (mode.height)
  tw : Nat   -- text columns   (mode.width)
  fh : Nat   -- font height
  fw : Nat   -- font width

def Geom.H (g : Geom) : Nat := g.th * g.fh   -- pixel height
def Geom.W (g : Geom) : Nat := g.tw * g.fw   -- pixel width

structure Env where
  g : Geom
  glyph : Nat → Nat → Mat      -- cell code, attribute ↦ rendered fh×fw sprite
  backOf : Nat → Nat           -- split_attr(attr)[1]
  /-- `Converter.to_unicode_list(raw, flush=True)` on one row of bytes: the code of every cell of the
      unicode buffer (a double-byte character occupies its lead cell, the trail cell holds the `u''`
      marker).  A PARAMETER: identity for single-byte codepages; under a DBCS codepage the cell at
      column `c` depends on the neighbouring bytes, so writing one byte can change cells to the LEFT
      and to the RIGHT of it. -/
  conv : (Nat → Nat) → Nat → Nat
  /-- `_dbcs_enabled` (double-byte codepage and a text mode with a 14/16-pixel font) -/
  dbcs : Bool

/-- single-byte codepages: every byte is its own cell -/
def sbcsConv : (Nat → Nat) → Nat → Nat := fun row c => row c

/-- is cell `c` the trail half of a double-byte character?  (`Converter._process_nobox`: a lead byte
    followed by a trail byte pairs up, unless the lead was itself consumed as a trail) -/
def isSecond (isLead isTrail : Nat → Bool) (row : Nat → Nat) : Nat → Bool
  | 0 => false
  | c + 1 => !isSecond isLead isTrail row c && isLead (row c) && isTrail (row (c + 1))

/-- `to_unicode_list` of a row of `tw` bytes under a DBCS codepage without box protection: a pair is
    coded `256·lead + trail` in its first cell and `65535` (the `u''` marker) in its second; a lead
    byte at the end of the row stays a single byte -/
def pairConv (isLead isTrail : Nat → Bool) (tw : Nat) : (Nat → Nat) → Nat → Nat := fun row c =>
  if isSecond isLead isTrail row c then 65535
  else if isLead (row c) && decide (c + 1 < tw) && isTrail (row (c + 1)) then 256 * row c + row (c + 1)
  else row c

/-! ### video signals -/

inductive Signal where
  | setMode (ch cw th tw : Nat)
  | update (row col : Nat) (text attrs : Sub) (y0 x0 : Nat) (sprite : Sub)
  | clearRows (back start stop : Nat)
  | scroll (up : Bool) (frm to back : Nat)

/-! ### ByteMatrix -/

/-- `m[y0:y1, x0:x1]` of an `H×W` matrix (slice bounds clamp to the matrix) -/
def getRect (H W : Nat) (m : Mat) (y0 y1 x0 x1 : Nat) : Sub :=
  { h := min y1 H - y0, w := min x1 W - x0, f := fun i j => m (y0 + i) (x0 + j) }

/-- `m[y0:y0+s.h, x0:x0+s.w] = s` (rows are zipped, so a sprite crossing the border is clipped) -/
def setRect (m : Mat) (y0 x0 : Nat) (s : Sub) : Mat :=
  fun y x => if y0 ≤ y ∧ y < y0 + s.h ∧ x0 ≤ x ∧ x < x0 + s.w then s.f (y - y0) (x - x0) else m y x

/-- `m[y0:y1, x0:x1] = v` for an int `v` -/
def fillRect (m : Mat) (y0 y1 x0 x1 v : Nat) : Mat :=
  fun y x => if y0 ≤ y ∧ y < y1 ∧ x0 ≤ x ∧ x < x1 then v else m y x

/-- `ByteMatrix.move`: copy the source, zero it, paste the copy at the target -/
def move (H W : Nat) (m : Mat) (sy0 sy1 sx0 sx1 ty0 tx0 : Nat) : Mat :=
  let clip := getRect H W m sy0 sy1 sx0 sx1
  setRect (fillRect m sy0 sy1 sx0 sx1 0) ty0 tx0 clip

/-! ### a page (VideoBuffer) -/

structure Page where
  chars : Mat                       -- _rows[r].chars[c]
  attrs : Mat                       -- _rows[r].attrs[c]
  utext : Mat                       -- _dbcs_text[r][c]
  px : Mat                          -- _pixels
  dirty : Nat → Option (Nat × Nat)  -- _dirty_left/_dirty_right, keyed by 1-based row
  locked : Bool
  visible : Bool

def blankPage (attr : Nat) : Page :=
  { chars := fun _ _ => 32, attrs := fun _ _ => attr, utext := fun _ _ => 32, px := fun _ _ => 0,
    dirty := fun _ => none, locked := false, visible := false }

/-- `_submit(top, left, bottom, right)` -/
def submit (e : Env) (p : Page) (top left bottom right : Nat) : List Signal :=
  if p.visible then
    let text : Sub := { h := min bottom e.g.th - (top - 1), w := min right e.g.tw - (left - 1),
                        f := fun i j => p.utext (top - 1 + i) (left - 1 + j) }
    let attrs : Sub := { h := min bottom e.g.th - (top - 1), w := min right e.g.tw - (left - 1),
                         f := fun i j => p.attrs (top - 1 + i) (left - 1 + j) }
    let x0 := (left - 1) * e.g.fw
    let y0 := (top - 1) * e.g.fh
    let x1 := right * e.g.fw          -- text_to_pixel_pos(bottom+1, right+1)
    let y1 := bottom * e.g.fh
    [Signal.update top left text attrs y0 x0 (getRect e.g.H e.g.W p.px y0 y1 x0 x1)]
  else []

def resubmit (e : Env) (p : Page) : List Signal := submit e p 1 1 e.g.th e.g.tw

/-- `_draw_text(row, start, row, stop)`: the cells `start..stop` of `row` are rendered into the pixels -/
def drawText (e : Env) (p : Page) (row start stop : Nat) : Mat :=
  fun y x =>
    let c := x / e.g.fw
    if (row - 1) * e.g.fh ≤ y ∧ y < (row - 1) * e.g.fh + e.g.fh ∧ start ≤ c + 1 ∧ c + 1 ≤ stop
    then e.glyph (p.utext (row - 1) c) (p.attrs (row - 1) c) (y - (row - 1) * e.g.fh) (x % e.g.fw)
    else p.px y x

/-- `_draw_text` BEFORE the repair, for a range that ends on the lead cell of a full-width character:
    the glyph is two cells wide and also paints cell `stop + 1` (with the lead cell's attribute) -/
def drawTextWide (e : Env) (p : Page) (row start stop : Nat) : Mat :=
  fun y x =>
    let c := x / e.g.fw
    if (row - 1) * e.g.fh ≤ y ∧ y < (row - 1) * e.g.fh + e.g.fh ∧ c + 1 = stop + 1
    then e.glyph (p.utext (row - 1) c) (p.attrs (row - 1) (stop - 1)) (y - (row - 1) * e.g.fh) (x % e.g.fw)
    else drawText e p row start stop y x

/-- smallest `c+1` with `c < n`, `old c ≠ new c`; `dflt` if none (`updated.index(True) + 1`) -/
def firstDiff (old new : Nat → Nat) (dflt : Nat) : Nat → Nat
  | 0 => dflt
  | n + 1 => if old n != new n then min (n + 1) (firstDiff old new dflt n) else firstDiff old new dflt n

/-- largest `c+1` with `c < n`, `old c ≠ new c`; `0` if none -/
def lastDiff (old new : Nat → Nat) : Nat → Nat
  | 0 => 0
  | n + 1 => if old n != new n then n + 1 else lastDiff old new n

/-- one iteration of `force_submit`: `_refresh_dbcs`, `_draw_text`, `_submit` for a dirty row -/
def submitRow (e : Env) (p : Page) (row l r : Nat) : Page × List Signal :=
  let newu : Nat → Nat := e.conv (fun c => p.chars (row - 1) c)
  let oldu : Nat → Nat := fun c => p.utext (row - 1) c
  let start := min (firstDiff oldu newu e.g.tw e.g.tw) l
  let stop := max (lastDiff oldu newu e.g.tw) r
  let p1 := { p with utext := fun rr c => if rr = row - 1 then newu c else p.utext rr c }
  let p2 := { p1 with px := drawText e p1 row start stop }
  (p2, submit e p2 row start row stop)

def forceSubmitRows (e : Env) : List Nat → Page → Page × List Signal
  | [], p => (p, [])
  | row :: rest, p =>
    match p.dirty row with
    | none => forceSubmitRows e rest p
    | some (l, r) =>
      let (p1, s1) := submitRow e p row l r
      let (p2, s2) := forceSubmitRows e rest p1
      (p2, s1 ++ s2)

/-- `force_submit` (dirty rows in ascending order, then the dirty sets are emptied) -/
def forceSubmit (e : Env) (p : Page) : Page × List Signal :=
  let (p1, s) := forceSubmitRows e ((List.range e.g.th).map (· + 1)) p
  ({ p1 with dirty := fun _ => none }, s)

/-- `_update(row, start, stop)` -/
def markDirty (e : Env) (p : Page) (row start stop : Nat) : Page × List Signal :=
  let d := match p.dirty row with
    | some (l, r) => (min start l, max stop r)
    | none => (start, stop)
  let p1 := { p with dirty := fun r => if r = row then some d else p.dirty r }
  if p1.locked then (p1, []) else forceSubmit e p1

/-- `put_char_attr(row, col, char, attr)` -/
def putChar (e : Env) (p : Page) (row col ch attr : Nat) : Page × List Signal :=
  let p1 := { p with
    chars := fun r c => if r = row - 1 ∧ c = col - 1 then ch else p.chars r c
    attrs := fun r c => if r = row - 1 ∧ c = col - 1 then attr else p.attrs r c }
  markDirty e p1 row col col

/-- `_clear_text_area(from_row, from_col, to_row, to_col, attr, …)`.  With DBCS enabled and a clear
    that does not span whole rows, the unicode buffer of the affected rows is rebuilt from the bytes
    (`_refresh_dbcs(row, 1, width)`, result ignored: lead or trail bytes may have been replaced by
    spaces, cells earlier or later on the row can change); otherwise the cells are blanked directly. -/
def clearTextArea (e : Env) (p : Page) (r0 c0 r1 c1 attr : Nat) : Page :=
  let inA : Nat → Nat → Bool := fun r c => decide (r0 - 1 ≤ r ∧ r < r1 ∧ c0 - 1 ≤ c ∧ c < c1)
  let chars : Mat := fun r c => if inA r c then 32 else p.chars r c
  { p with
    chars := chars
    attrs := fun r c => if inA r c then attr else p.attrs r c
    utext := if e.dbcs && decide (c1 - c0 + 1 < e.g.tw)
      then fun r c => if r0 - 1 ≤ r ∧ r < r1 then e.conv (fun c' => chars r c') c else p.utext r c
      else fun r c => if inA r c then 32 else p.utext r c }

/-- `clear_rows(start, stop, attr)` -/
def clearRows (e : Env) (p : Page) (start stop attr : Nat) : Page × List Signal :=
  let p1 := clearTextArea e p start 1 stop e.g.tw attr
  let back := e.backOf attr
  let p2 := { p1 with px := fillRect p1.px ((start - 1) * e.g.fh) (stop * e.g.fh) 0 (e.g.tw * e.g.fw) back }
  let (p3, s) := forceSubmit e p2
  (p3, s ++ (if p3.visible then [Signal.clearRows back start stop] else []))

/-- `clear_row_from(row, col, attr)` -/
def clearRowFrom (e : Env) (p : Page) (row col attr : Nat) : Page × List Signal :=
  if col = 1 then clearRows e p row row attr
  else markDirty e (clearTextArea e p row col row e.g.tw attr) row 1 e.g.tw

/-- the text rows `frm..to` move up by one, row `to` becomes `blank` -/
def rowsUp (m : Mat) (frm to blank : Nat) : Mat :=
  fun r c => if frm - 1 ≤ r ∧ r < to - 1 then m (r + 1) c else if r = to - 1 then blank else m r c

/-- the text rows `frm..to` move down by one, row `frm` becomes `blank` -/
def rowsDown (m : Mat) (frm to blank : Nat) : Mat :=
  fun r c => if frm - 1 < r ∧ r < to then m (r - 1) c else if r = frm - 1 then blank else m r c

/-- `scroll_up(from_row, to_row, attr)` BEFORE the repair: the vacated pixel row keeps the zeros of `move` -/
def scrollUpOld (e : Env) (p : Page) (frm to attr : Nat) : Page × List Signal :=
  let (p1, s) := forceSubmit e p
  let back := e.backOf attr
  let sg := if p1.visible then [Signal.scroll true frm to back] else []
  let p2 := { p1 with
    chars := rowsUp p1.chars frm to 32
    attrs := rowsUp p1.attrs frm to attr
    utext := rowsUp p1.utext frm to 32
    px := move e.g.H e.g.W p1.px (frm * e.g.fh) (to * e.g.fh) 0 (e.g.tw * e.g.fw) ((frm - 1) * e.g.fh) 0 }
  (p2, s ++ sg)

/-- `scroll_up` (repaired): as before, then the vacated row is filled with the background attribute -/
def scrollUp (e : Env) (p : Page) (frm to attr : Nat) : Page × List Signal :=
  let (p2, s) := scrollUpOld e p frm to attr
  ({ p2 with px := fillRect p2.px ((to - 1) * e.g.fh) (to * e.g.fh) 0 (e.g.tw * e.g.fw) (e.backOf attr) }, s)

/-- the character rows under `scroll_down` BEFORE the repair: the new row was inserted before row `to`
    was deleted, so the deleted list element is old row `to-1` (old row `to` stays; for `frm = to` the
    freshly inserted row itself is deleted and nothing changes) — while `_dbcs_text` and the pixels
    move as `rowsDown` -/
def rowsDownOld (m : Mat) (frm to blank : Nat) : Mat :=
  fun r c =>
    if frm = to then m r c
    else if frm - 1 < r ∧ r < to - 1 then m (r - 1) c else if r = frm - 1 then blank else m r c

def scrollDownOld (e : Env) (p : Page) (frm to attr : Nat) : Page × List Signal :=
  let (p1, s) := forceSubmit e p
  let back := e.backOf attr
  let sg := if p1.visible then [Signal.scroll false frm to back] else []
  let p2 := { p1 with
    chars := rowsDown p1.chars frm to 32
    attrs := rowsDown p1.attrs frm to attr
    utext := rowsDown p1.utext frm to 32
    px := move e.g.H e.g.W p1.px ((frm - 1) * e.g.fh) ((to - 1) * e.g.fh) 0 (e.g.tw * e.g.fw) (frm * e.g.fh) 0 }
  (p2, s ++ sg)

def scrollDown (e : Env) (p : Page) (frm to attr : Nat) : Page × List Signal :=
  let (p2, s) := scrollDownOld e p frm to attr
  ({ p2 with px := fillRect p2.px ((frm - 1) * e.g.fh) (frm * e.g.fh) 0 (e.g.tw * e.g.fw) (e.backOf attr) }, s)

/-- `pixel_to_text_area` component: `min(n, max(1, 1 + v // f))` -/
def cellOf (n f v : Nat) : Nat := min n (max 1 (1 + v / f))

/-- `pixels[y0:y1, x0:x1] = data` through `_PixelAccess.__setitem__` and `_update_pixels` -/
def setPixels (e : Env) (p : Page) (y0 y1 x0 x1 : Nat) (data : Mat) : Page × List Signal :=
  let p1 := { p with px := setRect p.px y0 x0 { h := y1 - y0, w := x1 - x0, f := data } }
  let row0 := cellOf e.g.th e.g.fh y0
  let col0 := cellOf e.g.tw e.g.fw x0
  let row1 := cellOf e.g.th e.g.fh (y1 - 1)
  let col1 := cellOf e.g.tw e.g.fw (x1 - 1)
  let p2 := clearTextArea e p1 row0 col0 row1 col1 0
  (p2, submit e p2 row0 col0 row1 col1)

/-- `set_visible(visible)` -/
def setVisible (e : Env) (p : Page) (v : Bool) : Page × List Signal :=
  if p.visible != v then
    let p1 := { p with visible := v }
    (p1, if v then resubmit e p1 else [])
  else (p, [])

/-- `copy_from(src)` -/
def copyFrom (e : Env) (dst src : Page) : Page × List Signal :=
  let p1 := { dst with chars := src.chars, attrs := src.attrs, utext := src.utext, px := src.px }
  (p1, resubmit e p1)

/-- page-level operations -/
inductive POp where
  | putChar (row col ch attr : Nat)
  | lock                                  -- enter `collect_updates`
  | unlock                                -- leave it: `_locked = False; force_submit()`
  | clearRows (start stop attr : Nat)
  | clearRowFrom (row col attr : Nat)
  | scrollUp (frm to attr : Nat)
  | scrollDown (frm to attr : Nat)
  | setPixels (y0 y1 x0 x1 : Nat) (data : Mat)

def POp.run (e : Env) (p : Page) : POp → Page × List Signal
  | .putChar row col ch attr => Screen.putChar e p row col ch attr
  | .lock => ({ p with locked := true }, [])
  | .unlock => forceSubmit e { p with locked := false }
  | .clearRows a b c => Screen.clearRows e p a b c
  | .clearRowFrom a b c => Screen.clearRowFrom e p a b c
  | .scrollUp a b c => Screen.scrollUp e p a b c
  | .scrollDown a b c => Screen.scrollDown e p a b c
  | .setPixels y0 y1 x0 x1 d => Screen.setPixels e p y0 y1 x0 x1 d

/-- what the callers guarantee (1-based coordinates inside the page; `clear_rows` is never called
    inside `collect_updates`) -/
def POp.valid (e : Env) (p : Page) : POp → Prop
  | .putChar row col _ _ => 1 ≤ row ∧ row ≤ e.g.th ∧ 1 ≤ col ∧ col ≤ e.g.tw
  | .lock => True
  | .unlock => True
  | .clearRows start stop _ => 1 ≤ start ∧ start ≤ stop ∧ stop ≤ e.g.th ∧ p.locked = false
  | .clearRowFrom row col _ => 1 ≤ row ∧ row ≤ e.g.th ∧ 1 ≤ col ∧ col ≤ e.g.tw ∧ p.locked = false
  | .scrollUp frm to _ => 1 ≤ frm ∧ frm ≤ to ∧ to ≤ e.g.th
  | .scrollDown frm to _ => 1 ≤ frm ∧ frm ≤ to ∧ to ≤ e.g.th
  | .setPixels y0 y1 x0 x1 _ => y0 < y1 ∧ y1 ≤ e.g.H ∧ x0 < x1 ∧ x1 ≤ e.g.W ∧ e.dbcs = false

/-! ### the display: several pages, one visible -/

structure Disp where
  pages : Nat → Page
  npages : Nat
  vnum : Nat

inductive Op where
  | page (i : Nat) (o : POp)
  | setPage (v : Nat)          -- Display.set_page (visible page)
  | pcopy (src dst : Nat)      -- PCOPY

def setPageAt (d : Disp) (i : Nat) (p : Page) : Disp :=
  { d with pages := fun j => if j = i then p else d.pages j }

def Op.run (e : Env) (d : Disp) : Op → Disp × List Signal
  | .page i o =>
    let (p, s) := o.run e (d.pages i)
    (setPageAt d i p, s)
  | .setPage v =>
    if v < d.npages then
      let (p0, s0) := setVisible e (d.pages d.vnum) false
      let d1 := setPageAt d d.vnum p0
      let (p1, s1) := setVisible e (d1.pages v) true
      ({ setPageAt d1 v p1 with vnum := v }, s0 ++ s1)
    else (d, [])               -- Illegal function call, nothing changes
  | .pcopy src dst =>
    let (p, s) := copyFrom e (d.pages dst) (d.pages src)
    (setPageAt d dst p, s)

def Op.valid (e : Env) (d : Disp) : Op → Prop
  | .page i o => i < d.npages ∧ o.valid e (d.pages i)
  | .setPage _ => True
  | .pcopy src dst => src < d.npages ∧ dst < d.npages

def runOps (e : Env) : Disp → List Op → Disp × List Signal
  | d, [] => (d, [])
  | d, o :: rest =>
    let (d1, s1) := o.run e d
    let (d2, s2) := runOps e d1 rest
    (d2, s1 ++ s2)

/-- every operation of the history is valid in the state it is applied to -/
def validOps (e : Env) : Disp → List Op → Prop
  | _, [] => True
  | d, o :: rest => o.valid e d ∧ validOps e (o.run e d).1 rest

/-- `Display._set_mode`: fresh invisible pages and the set_mode signal (`set_page` follows as an op).
    `oldv` is the visible-page number left over from the PREVIOUS mode; it may be `≥ npages` (the old
    mode had more pages).  `set_page` then runs `self.pages[self.vpagenum].set_visible(False)` on a page
    that no longer exists: the `IndexError` is swallowed ("the page has been discarded") and the new
    visible page must still be switched on.  In the model pages are a total function, the discarded
    page is an invisible blank one, so `setVisible … false` on it is the same no-op. -/
def initDisp (npages attr oldv : Nat) : Disp :=
  { pages := fun _ => blankPage attr, npages := npages, vnum := oldv }

def modeSignal (e : Env) : Signal := Signal.setMode e.g.H e.g.W e.g.th e.g.tw

/-- `Display.rebuild` (what an attached / resumed session sends): mode, then every page resubmits -/
def rebuild (e : Env) (d : Disp) : List Signal :=
  modeSignal e :: ((List.range d.npages).map (fun i => resubmit e (d.pages i))).flatten

/-! ### the reference consumer -/

structure Canvas where
  ch : Nat
  cw : Nat
  th : Nat
  tw : Nat
  fh : Nat
  fw : Nat
  px : Mat
  tx : Mat

def Canvas.empty : Canvas := { ch := 0, cw := 0, th := 0, tw := 0, fh := 0, fw := 0, px := fun _ _ => 0, tx := fun _ _ => 32 }

def consume1 (cv : Canvas) : Signal → Canvas
  | .setMode ch cw th tw =>
    { ch := ch, cw := cw, th := th, tw := tw, fh := (ch + th - 1) / th, fw := cw / tw,
      px := fun _ _ => 0, tx := fun _ _ => 32 }
  | .update row col text _ y0 x0 sprite =>
    -- sprite clipped to the canvas; text written cell by cell
    let s : Sub := { h := min sprite.h (cv.ch - y0), w := min sprite.w (cv.cw - x0), f := sprite.f }
    { cv with px := setRect cv.px y0 x0 s, tx := setRect cv.tx (row - 1) (col - 1) text }
  | .clearRows back start stop =>
    { cv with px := fillRect cv.px ((start - 1) * cv.fh) (stop * cv.fh) 0 cv.cw back
              tx := fillRect cv.tx (start - 1) stop 0 cv.tw 32 }
  | .scroll up frm to back =>
    let hi0 := (frm - 1) * cv.fh
    let hi1 := (to - 1) * cv.fh
    let lo0 := frm * cv.fh
    let lo1 := to * cv.fh
    if up then
      let src := getRect cv.ch cv.cw cv.px lo0 lo1 0 cv.cw
      let px1 := setRect cv.px hi0 0 { src with h := min src.h (hi1 - hi0) }
      { cv with px := fillRect px1 hi1 lo1 0 cv.cw back, tx := rowsUp cv.tx frm to 32 }
    else
      let src := getRect cv.ch cv.cw cv.px hi0 hi1 0 cv.cw
      let px1 := setRect cv.px lo0 0 { src with h := min src.h (lo1 - lo0) }
      { cv with px := fillRect px1 hi0 lo0 0 cv.cw back, tx := rowsDown cv.tx frm to 32 }

def consume (cv : Canvas) (sigs : List Signal) : Canvas := sigs.foldl consume1 cv

/-! ### `copy_from` before the repair: the row lists of `_dbcs_text` were shared, not copied

`self._dbcs_text[:] = src._dbcs_text` makes both pages refer to the SAME row objects; a later in-place
change of a row of one page (`_clear_text_area`: `self._dbcs_text[row-1][a:b] = …`) then changes the
other page's text without any signal.  A small heap model of exactly that. -/

structure TextHeap where
  store : Nat → Nat → Nat     -- row object ↦ column ↦ code
  rows : Nat → Nat → Nat      -- page ↦ row index ↦ row object

def TextHeap.utext (h : TextHeap) (page r c : Nat) : Nat := h.store (h.rows page r) c

/-- old `copy_from`: the destination refers to the source's row objects -/
def copyRowsOld (h : TextHeap) (src dst : Nat) : TextHeap :=
  { h with rows := fun p r => if p = dst then h.rows src r else h.rows p r }

/-- `_clear_text_area` on one row of one page: the row object is modified in place -/
def clearRowInPlace (h : TextHeap) (page r : Nat) : TextHeap :=
  { h with store := fun id c => if id = h.rows page r then 32 else h.store id c }

end PcbV.Screen
