import PcbV.Model.Decimal
/-
  C07 lemmas, part 1: the decimal text of a natural number (`b'%d' % n`, `_get_digits`) — its digits
  are decimal digits, parse back to the number, have no leading zero, and their count is the
  number of decimal places of `n`.
-/
namespace PcbV.Decimal
open PcbV

theorem digitsAux_acc : ∀ (fuel n : Nat) (acc : Bytes), digitsAux fuel n acc = digitsAux fuel n [] ++ acc := by
  intro fuel
  induction fuel with
  | zero => intro n acc; simp [digitsAux]
  | succ k ih =>
    intro n acc
    unfold digitsAux
    by_cases h : n < 10
    · simp [h]
    · simp only [h, if_false]
      rw [ih (n / 10) ((48 + n % 10) :: acc), ih (n / 10) [48 + n % 10]]
      simp

theorem digitsVal_snoc (s : Bytes) (c : Nat) (hc : c < 65) :
    digitsVal 10 (s ++ [c]) = digitsVal 10 s * 10 + (c - 48) := by
  unfold digitsVal
  rw [List.foldl_append]
  simp only [List.foldl_cons, List.foldl_nil]
  have : ¬ c ≥ 65 := by omega
  simp [this]

structure TextOK (n : Nat) (s : Bytes) : Prop where
  val : digitsVal 10 s = n
  digits : ∀ c ∈ s, 48 ≤ c ∧ c ≤ 57
  nonempty : s ≠ []
  len : ∀ k, 1 ≤ k → (s.length ≤ k ↔ n < 10 ^ k)
  lead : n ≠ 0 → s.head? ≠ some 48

theorem digitsAux_ok : ∀ (fuel n : Nat), n < fuel → TextOK n (digitsAux fuel n []) := by
  intro fuel
  induction fuel with
  | zero => intro n h; omega
  | succ k ih =>
    intro n hn
    unfold digitsAux
    by_cases h : n < 10
    · simp only [h, if_true]
      refine ⟨?_, ?_, by simp, ?_, ?_⟩
      · simp [digitsVal]; omega
      · intro c hc; simp at hc; omega
      · intro j hj
        simp only [List.length_singleton]
        constructor
        · intro _
          have : (10:Nat) ^ 1 ≤ 10 ^ j := Nat.pow_le_pow_right (by decide) hj
          omega
        · intro _; exact hj
      · intro h0; simp; omega
    · simp only [h, if_false]
      rw [digitsAux_acc]
      have hlt : n / 10 < k := by omega
      have r := ih (n / 10) hlt
      have hne : n / 10 ≠ 0 := by omega
      refine ⟨?_, ?_, by simp, ?_, ?_⟩
      · rw [digitsVal_snoc _ _ (by omega), r.val]; omega
      · intro c hc
        rcases List.mem_append.1 hc with hc | hc
        · exact r.digits c hc
        · simp at hc; omega
      · intro j hj
        rw [List.length_append, List.length_singleton]
        have hpos : 1 ≤ (digitsAux k (n / 10) []).length := by
          cases hs : digitsAux k (n / 10) [] with
          | nil => exact absurd hs r.nonempty
          | cons a t => simp
        by_cases hj1 : j = 1
        · subst hj1
          constructor
          · intro hh; omega
          · intro hh; omega
        · have hj2 : 1 ≤ j - 1 := by omega
          have e := r.len (j - 1) hj2
          have hp : (10:Nat) ^ j = 10 ^ (j - 1) * 10 := by
            rw [← Nat.pow_succ]; congr 1; omega
          constructor
          · intro hh
            have : n / 10 < 10 ^ (j - 1) := e.1 (by omega)
            rw [hp]; omega
          · intro hh
            have : n / 10 < 10 ^ (j - 1) := by rw [hp] at hh; omega
            have := e.2 this
            omega
      · intro _
        have hl := r.lead hne
        cases hs : digitsAux k (n / 10) [] with
        | nil => exact absurd hs r.nonempty
        | cons a t => rw [hs] at hl; simpa using hl

/-- the text of `n`: decimal digits, no leading zero, value `n`, `k` digits suffice iff `n < 10^k` -/
theorem decStr_ok (n : Nat) : TextOK n (decStr n) := digitsAux_ok (n + 1) n (by omega)

theorem rjust0_length (s : Bytes) (k : Nat) : (rjust0 s k).length = max s.length k := by
  unfold rjust0; simp; omega

theorem digitsVal_zeros (j : Nat) (s : Bytes) : digitsVal 10 (List.replicate j 48 ++ s) = digitsVal 10 s := by
  unfold digitsVal
  rw [List.foldl_append]
  congr 1
  induction j with
  | zero => rfl
  | succ i ih => simp [List.replicate_succ, List.foldl_cons, ih]

/-- `_get_digits(m, k)`: at least `k` characters, all digits, value `|m|` -/
theorem getDigits_ok (m : Int) (k : Nat) :
    digitsVal 10 (getDigits m k) = m.natAbs ∧ k ≤ (getDigits m k).length ∧
      (∀ c ∈ getDigits m k, 48 ≤ c ∧ c ≤ 57) ∧
      (∀ j, 1 ≤ j → k ≤ j → ((getDigits m k).length ≤ j ↔ m.natAbs < 10 ^ j)) := by
  have r := decStr_ok m.natAbs
  unfold getDigits
  refine ⟨?_, ?_, ?_, ?_⟩
  · unfold rjust0; rw [digitsVal_zeros, r.val]
  · rw [rjust0_length]; omega
  · intro c hc
    unfold rjust0 at hc
    rcases List.mem_append.1 hc with hc | hc
    · have := List.eq_of_mem_replicate hc; omega
    · exact r.digits c hc
  · intro j hj hkj
    rw [rjust0_length, ← r.len j hj]; omega

end PcbV.Decimal
