import PcbV.Lemmas.ApiFloat
import PcbV.Lemmas.ApiList
import PcbV.Lemmas.ApiAutoDim
/-
  C43 — Session API values round-trip.

  Statement: through the Python session API, setting a variable and getting it back returns the same
  value for every integer in range, every string of codepage characters, and every float to the
  precision of the variable's type; arrays set from nested lists read back as the same lists.
  (`evaluate` = what PRINT shows: both read the same value; the *shown form* is decimal conversion,
  property C07 — it is checked on the implementation by the oracle of props/c43.py, there is no
  theorem for it here.)

  The theorems are about `PcbV.Model.SessionApi` (repaired code: frexp-based `Float.from_value`,
  element-wise conversion of list leaves); `…_counterexample` theorems are about the model of the
  code before the repair.
-/
namespace PcbV.C43
open PcbV PcbV.Mbf PcbV.Arrays PcbV.SessionApi

/-! ## integers -/

/-- every integer in −32768..32767 reads back as itself -/
theorem int_roundtrip (n : Int) (h1 : -32768 ≤ n) (h2 : n ≤ 32767) :
    (setInt n).map getInt = .ok n := by
  unfold setInt IntOps.fromInt
  simp only [Bool.false_eq_true, if_false]
  rw [if_pos ⟨h1, h2⟩]
  show Except.ok (getInt (IntOps.pack n)) = _
  congr 1
  unfold getInt IntOps.toInt IntOps.pack
  split <;> split <;> omega

/-- every other integer is refused with Overflow (nothing is stored) -/
theorem int_out_of_range (n : Int) (h : n < -32768 ∨ 32767 < n) :
    setInt n = .error PcbV.Gen.E.overflow := by
  unfold setInt IntOps.fromInt
  simp only [Bool.false_eq_true, if_false]
  rw [if_neg (by omega)]
  rfl

/-- booleans are stored the BASIC way: True = −1, False = 0 -/
theorem bool_roundtrip (b : Bool) : (setInt (ofBool b)).map getInt = .ok (if b then -1 else 0) := by
  cases b <;> decide

/-- Before the repair a `True` inside a list was stored as 1, a scalar `True` as −1 (unicode leaves
    raised AssertionError); the repaired code converts leaves like scalars. -/
theorem list_bool_old_counterexample :
    (setInt (listBoolOld true)).map getInt ≠ (setInt (ofBool true)).map getInt ∧
    ∀ b, listBool b = ofBool b := by
  constructor
  · decide
  · intro b; rfl

/-! ## floats -/

/-- Main float theorem.  For a finite nonzero Python float `±num·2^k` whose magnitude lies in the
    range of the type (`2^-128 ≤ |x| < 2^127`, see `magnitude_in_range`), `set_variable` stores a valid
    pattern without error and `get_variable` returns `±M·2^E` where `M` is a normalised mantissa of
    the type's width `w` (24 / 56 bits) with `M·2^E ≤ |x| < (M+1)·2^E`: the value is truncated toward
    zero by less than one unit in the last place, the sign is kept, and the round trip is EXACT as
    soon as `num` fits in `w` bits (i.e. whenever `x` is representable in the type). -/
theorem float_roundtrip (f : Fmt) (hf : f.WF) (neg : Bool) (num : Nat) (k : Int) (hn : num ≠ 0)
    (hlo : 0 < (bitLen num : Int) + k + 128) (hhi : (bitLen num : Int) + k + 128 ≤ 255) :
    ∃ (x : F) (M : Nat), fromValue f (.fin neg num k) = .ok x ∧ F.Valid f x ∧
      2 ^ (f.w - 1) ≤ M ∧ M < 2 ^ f.w ∧
      pyVal (toValue f x) = (if neg then -1 else 1) * (M : Rat) * pow2 ((bitLen num : Int) + k - f.w) ∧
      (M : Rat) * pow2 ((bitLen num : Int) + k - f.w) ≤ (num : Rat) * pow2 k ∧
      (num : Rat) * pow2 k < ((M : Rat) + 1) * pow2 ((bitLen num : Int) + k - f.w) ∧
      (bitLen num ≤ f.w → pyVal (toValue f x) = pyVal (.fin neg num k)) := by
  have hw1 : 1 ≤ f.w := by have := hf.1; omega
  obtain ⟨t1, t2, _, _⟩ := topBits_spec f.w num hw1 hn
  obtain ⟨b1, b2, b3⟩ := topBits_bracket f.w num k hw1 hn
  have he0 : ((bitLen num : Int) + k + 128).toNat ≠ 0 := by omega
  have he : ((bitLen num : Int) + k + 128).toNat < 256 := by omega
  have hE : ((((bitLen num : Int) + k + 128).toNat : Nat) : Int) - (f.bias : Int)
      = (bitLen num : Int) + k - f.w := by
    have := hf.2.1
    rw [Int.toNat_of_nonneg (by omega)]
    omega
  have hv := pyVal_toValue_pack hf (topBits f.w num) _ neg t1 t2 he0 he
  rw [hE] at hv
  refine ⟨⟨packMan f (topBits f.w num) neg, ((bitLen num : Int) + k + 128).toNat⟩, topBits f.w num,
    ?_, (pack_spec hf _ _ neg t1 t2 he).1, t1, t2, hv, b1, b2, ?_⟩
  · rw [fromValue_fin hf neg num k hn, if_neg (by omega), if_neg (by omega)]
  · intro hle
    rw [hv]
    simp only [pyVal]
    rw [mul_assoc, b3 hle, ← mul_assoc]

/-- the exponent condition of `float_roundtrip` in terms of the magnitude:
    `2^(bitLen+k-1) ≤ |x| < 2^(bitLen+k)` -/
theorem magnitude_in_range (num : Nat) (k : Int) (hn : num ≠ 0) :
    pow2 ((bitLen num : Int) + k - 1) ≤ (num : Rat) * pow2 k ∧
    (num : Rat) * pow2 k < pow2 ((bitLen num : Int) + k) :=
  magnitude_bracket num k hn

/-- every IEEE double (53 significant bits) in range is held exactly by a double-precision variable;
    every float with at most 24 significant bits is held exactly by a single-precision variable -/
theorem float_roundtrip_exact (f : Fmt) (hf : f.WF) (neg : Bool) (num : Nat) (k : Int) (hn : num ≠ 0)
    (hfit : num < 2 ^ f.w)
    (hlo : 0 < (bitLen num : Int) + k + 128) (hhi : (bitLen num : Int) + k + 128 ≤ 255) :
    ∃ x, fromValue f (.fin neg num k) = .ok x ∧ pyVal (toValue f x) = pyVal (.fin neg num k) := by
  obtain ⟨x, M, h1, _, _, _, _, _, _, h8⟩ := float_roundtrip f hf neg num k hn hlo hhi
  refine ⟨x, h1, h8 ?_⟩
  unfold bitLen
  rw [if_neg hn]
  exact (Nat.log2_lt hn).2 hfit

/-- zero is stored as zero -/
theorem float_zero (f : Fmt) (neg : Bool) (k : Int) :
    fromValue f (.fin neg 0 k) = .ok zero ∧ pyVal (toValue f zero) = 0 := by
  constructor
  · rfl
  · simp [toValue, zero, pyVal]

/-- magnitudes below `2^-128` (smaller than every MBF number) are stored as zero, without error -/
theorem float_underflow (f : Fmt) (hf : f.WF) (neg : Bool) (num : Nat) (k : Int) (hn : num ≠ 0)
    (h : (bitLen num : Int) + k + 128 ≤ 0) :
    setFloat f (.fin neg num k) = .ok (zero, false) := by
  unfold setFloat
  rw [fromValue_fin hf neg num k hn, if_neg (by omega), if_pos h]

/-- magnitudes of `2^127` and above, and the infinities: "Overflow" is reported and the signed
    maximum of the type is stored (BASIC's soft error) -/
theorem float_overflow (f : Fmt) (hf : f.WF) (neg : Bool) (num : Nat) (k : Int) (hn : num ≠ 0)
    (h : 255 < (bitLen num : Int) + k + 128) :
    setFloat f (.fin neg num k) = .ok (if neg then f.negMax else f.posMax, true) ∧
    setFloat f (.inf neg) = .ok (if neg then f.negMax else f.posMax, true) := by
  constructor
  · unfold setFloat
    rw [fromValue_fin hf neg num k hn, if_pos (by omega)]
    simp
  · simp [setFloat, fromValue]

/-- NaN is refused with Illegal function call -/
theorem float_nan (f : Fmt) : setFloat f .nan = .error PcbV.Gen.E.ifc := by
  unfold setFloat fromValue
  have : (PcbV.Gen.E.ifc = overflow) = False := by decide
  simp [this]

/-- the regenerated class constants of `Single` and `Double` satisfy the hypotheses used above -/
theorem formats_wf : single.WF ∧ double.WF ∧ single.w = 24 ∧ double.w = 56 :=
  ⟨single_wf, double_wf, single_w, double_w⟩

/-- The code before the repair lost the last mantissa bit of every single-precision value below
    `2^23` that is not a power of two: `1 + 2^-23` (exactly representable) came back as `1`. -/
theorem float_old_precision_counterexample :
    fromValueOld single false 8388609 (-23) = .res (.ok ⟨0, 129⟩) ∧
    toValue single ⟨0, 129⟩ = .fin false 8388608 (-23) ∧
    fromValue single (.fin false 8388609 (-23)) = .ok ⟨1, 129⟩ ∧
    toValue single ⟨1, 129⟩ = .fin false 8388609 (-23) := by
  decide +kernel

/-- The code before the repair let a Python exception escape for tiny values (`0.5**exp` overflows):
    `2^-1000` into a double-precision variable; the repaired code stores zero. -/
theorem float_old_crash_counterexample :
    fromValueOld double false 1 (-1000) = .crash ∧
    fromValue double (.fin false 1 (-1000)) = .ok zero := by
  decide +kernel

/-! ## strings -/

/-- a byte string of at most 255 bytes (all byte values) reads back unchanged; a longer one is
    refused with String too long -/
theorem bytes_roundtrip (b : Bytes) :
    (b.length ≤ 255 → setBytes b = .ok b) ∧
    (255 < b.length → setBytes b = .error PcbV.Gen.E.string_too_long) := by
  unfold setBytes
  constructor
  · intro h; rw [if_neg (by omega)]
  · intro h; rw [if_pos h]

/-- unicode strings: `set_variable` encodes with the codepage, `get_variable(…, as_type=str)` decodes
    with `preserve = CONTROL`.  CONDITIONAL on the codepage round trip for this string (property C41:
    `hcp`), the string comes back unchanged. -/
theorem string_roundtrip (cp : Codepage.Cp) (u : Codepage.Cluster)
    (hlen : (Codepage.unicodeToBytes cp u false).length ≤ 255)
    (hcp : Codepage.bytesToUnicode cp (Codepage.unicodeToBytes cp u false)
      PcbV.Gen.ApiConsts.control none false = u) :
    ∃ b, setUnicode cp u = .ok b ∧ getUnicode cp b = u := by
  refine ⟨Codepage.unicodeToBytes cp u false, ?_, hcp⟩
  unfold setUnicode
  exact (bytes_roundtrip _).1 hlen

/-! ## lists -/

/-- `from_list` on a declared array writes exactly the addressed block: cell `(i+b, j+b, …)` receives
    `l[i][j]…`, every other cell of the array keeps its content (this is also what happens to an
    array that is larger than the list — e.g. one auto-dimensioned to 10 — : the list is embedded,
    the rest is untouched).  Rank 2 shown; ranks 1 and 3 are `fromRow_writes`, `fromPlanes_writes`. -/
theorem fromList2_spec (st : State) (name : Nat) (D : List Int) (hs : Has name D st.b st)
    (rows : List (List Int)) (hne : rows ≠ []) (hrow : ∀ r ∈ rows, r ≠ [])
    (hin : ∀ (i : Nat) (r : List Int), rows[i]? = some r → ∀ j : Nat, j < r.length →
      InBounds st.b [(i : Int) + st.b, (j : Int) + st.b] D) :
    ∃ st', fromList2 st name rows = (st', none) ∧ Has name D st.b st' ∧
      (∀ (i : Nat) (r : List Int) (j : Nat) (v : Int), rows[i]? = some r → r[j]? = some v →
        rd st' name [(i : Int) + st.b, (j : Int) + st.b] = v) ∧
      (∀ idx, InBounds st.b idx D →
        (¬ ∃ (i : Nat) (r : List Int) (j : Nat), rows[i]? = some r ∧ j < r.length ∧
            idx = [(i : Int) + st.b, (j : Int) + st.b]) →
        rd st' name idx = rd st name idx) := by
  obtain ⟨st', h1, h2, h3, h4⟩ :=
    fromRows_writes name D st.b [] rows hne hrow (by simpa using hin) st hs
  refine ⟨st', h1, h2, ?_, ?_⟩
  · intro i r j v hr hj
    have hjl : j < r.length := by
      rcases Nat.lt_or_ge j r.length with h | h
      · exact h
      · rw [List.getElem?_eq_none h] at hj; cases hj
    exact h3 _ v (hin i r hr j hjl) ⟨i, r, j, hr, hj, by simp⟩
  · intro idx hi hn
    refine h4 idx hi ?_
    rintro v ⟨i, r, j, hr, hj, he⟩
    have hjl : j < r.length := by
      rcases Nat.lt_or_ge j r.length with h | h
      · exact h
      · rw [List.getElem?_eq_none h] at hj; cases hj
    exact hn ⟨i, r, j, hr, hjl, by simpa using he⟩

/-- a one-dimensional array dimensioned to the length of the list reads back as the list -/
theorem list_roundtrip1 (st : State) (hw : WF st) (name : Nat) (a : Arr)
    (hf : find name st.arrs = some a) (l : List Int) (hl : l ≠ [])
    (hd : a.dims = [(l.length : Int) - 1 + st.b]) :
    ∃ st', fromList1 st name l = (st', none) ∧ toList st' name = .l1 l := by
  have hs : Has name [(l.length : Int) - 1 + st.b] st.b st := ⟨hw, rfl, a, hf, hd⟩
  have hin : ∀ k : Nat, k < l.length →
      InBounds st.b ([] ++ [(k : Int) + st.b]) [(l.length : Int) - 1 + st.b] := by
    intro k hk
    exact InBounds.cons (by omega) (by omega) InBounds.nil
  obtain ⟨st', h1, h2, h3, _⟩ := fromRow_writes name _ st.b [] l hl hin st hs
  obtain ⟨a', hf', hd'⟩ := h2.arr
  refine ⟨st', h1, ?_⟩
  unfold toList
  simp only [hf', hd']
  congr 1
  refine toRow_eq st' name st.b h2.hb [] l hl ?_
  intro j v hj
  have hjl : j < l.length := by
    rcases Nat.lt_or_ge j l.length with h | h
    · exact h
    · rw [List.getElem?_eq_none h] at hj; cases hj
  exact h3 _ v (hin j hjl) ⟨j, hj, rfl⟩

/-- a rectangular list of lists written to an array dimensioned to its shape reads back as itself -/
theorem list_roundtrip2 (st : State) (hw : WF st) (name : Nat) (a : Arr)
    (hf : find name st.arrs = some a) (rows : List (List Int)) (hne : rows ≠ [])
    (n1 : Nat) (hn1 : 0 < n1) (hrect : ∀ r ∈ rows, r.length = n1)
    (hd : a.dims = [(rows.length : Int) - 1 + st.b, (n1 : Int) - 1 + st.b]) :
    ∃ st', fromList2 st name rows = (st', none) ∧ toList st' name = .l2 rows := by
  have hs : Has name [(rows.length : Int) - 1 + st.b, (n1 : Int) - 1 + st.b] st.b st :=
    ⟨hw, rfl, a, hf, hd⟩
  have hrow : ∀ r ∈ rows, r ≠ [] := by
    intro r hr he; have := hrect r hr; rw [he] at this; simp at this; omega
  have hin : ∀ (i : Nat) (r : List Int), rows[i]? = some r → ∀ j : Nat, j < r.length →
      InBounds st.b ([] ++ [(i : Int) + st.b] ++ [(j : Int) + st.b])
        [(rows.length : Int) - 1 + st.b, (n1 : Int) - 1 + st.b] := by
    intro i r hr j hj
    have hil : i < rows.length := by
      rcases Nat.lt_or_ge i rows.length with h | h
      · exact h
      · rw [List.getElem?_eq_none h] at hr; cases hr
    have := hrect r (List.mem_of_getElem? hr)
    exact InBounds.cons (by omega) (by omega) (InBounds.cons (by omega) (by omega) InBounds.nil)
  obtain ⟨st', h1, h2, h3, _⟩ := fromRows_writes name _ st.b [] rows hne hrow hin st hs
  obtain ⟨a', hf', hd'⟩ := h2.arr
  refine ⟨st', h1, ?_⟩
  unfold toList
  simp only [hf', hd']
  congr 1
  refine toRows_eq st' name st.b h2.hb [] rows hne n1 hn1 hrect ?_
  intro i r j v hr hj
  have hjl : j < r.length := by
    rcases Nat.lt_or_ge j r.length with h | h
    · exact h
    · rw [List.getElem?_eq_none h] at hj; cases hj
  exact h3 _ v (hin i r hr j hjl) ⟨i, r, j, hr, hj, rfl⟩

/-- a rectangular three-level list written to an array dimensioned to its shape reads back as itself -/
theorem list_roundtrip3 (st : State) (hw : WF st) (name : Nat) (a : Arr)
    (hf : find name st.arrs = some a) (ps : List (List (List Int))) (hne : ps ≠ [])
    (n1 n2 : Nat) (hn1 : 0 < n1) (hn2 : 0 < n2)
    (hrect1 : ∀ p ∈ ps, p.length = n1) (hrect2 : ∀ p ∈ ps, ∀ r ∈ p, r.length = n2)
    (hd : a.dims = [(ps.length : Int) - 1 + st.b, (n1 : Int) - 1 + st.b, (n2 : Int) - 1 + st.b]) :
    ∃ st', fromList3 st name ps = (st', none) ∧ toList st' name = .l3 ps := by
  have hs : Has name [(ps.length : Int) - 1 + st.b, (n1 : Int) - 1 + st.b, (n2 : Int) - 1 + st.b]
      st.b st := ⟨hw, rfl, a, hf, hd⟩
  have hpl : ∀ p ∈ ps, p ≠ [] := by
    intro p hp he; have := hrect1 p hp; rw [he] at this; simp at this; omega
  have hrow : ∀ p ∈ ps, ∀ r ∈ p, r ≠ [] := by
    intro p hp r hr he; have := hrect2 p hp r hr; rw [he] at this; simp at this; omega
  have hin : ∀ (g : Nat) (p : List (List Int)), ps[g]? = some p → ∀ (i : Nat) (r : List Int),
      p[i]? = some r → ∀ j : Nat, j < r.length →
      InBounds st.b ([] ++ [(g : Int) + st.b] ++ [(i : Int) + st.b] ++ [(j : Int) + st.b])
        [(ps.length : Int) - 1 + st.b, (n1 : Int) - 1 + st.b, (n2 : Int) - 1 + st.b] := by
    intro g p hp i r hr j hj
    have hgl : g < ps.length := by
      rcases Nat.lt_or_ge g ps.length with h | h
      · exact h
      · rw [List.getElem?_eq_none h] at hp; cases hp
    have hil : i < p.length := by
      rcases Nat.lt_or_ge i p.length with h | h
      · exact h
      · rw [List.getElem?_eq_none h] at hr; cases hr
    have e1 := hrect1 p (List.mem_of_getElem? hp)
    have e2 := hrect2 p (List.mem_of_getElem? hp) r (List.mem_of_getElem? hr)
    exact InBounds.cons (by omega) (by omega)
      (InBounds.cons (by omega) (by omega) (InBounds.cons (by omega) (by omega) InBounds.nil))
  obtain ⟨st', h1, h2, h3, _⟩ := fromPlanes_writes name _ st.b [] ps hne hpl hrow hin st hs
  obtain ⟨a', hf', hd'⟩ := h2.arr
  refine ⟨st', h1, ?_⟩
  unfold toList
  simp only [hf', hd']
  congr 1
  refine toPlanes_eq st' name st.b h2.hb [] ps hne n1 n2 hn1 hn2 hrect1 hrect2 ?_
  intro g p i r j v hp hr hj
  have hjl : j < r.length := by
    rcases Nat.lt_or_ge j r.length with h | h
    · exact h
    · rw [List.getElem?_eq_none h] at hj; cases hj
  exact h3 _ v (hin g p hp i r hr j hjl) ⟨g, p, i, r, j, hp, hr, hj, rfl⟩

/-- A list written to an UNDECLARED array (rank 1 shown): the first write dimensions the array to
    `base..10`, the list is stored from the base on and every remaining element reads 0 — the list
    comes back embedded in a row of `11 - base` elements, which is what the pinned unit test
    `test_session` expects (`get_variable` returns the whole array). -/
theorem list_autodim1 (st : State) (hw : WF st) (name : Nat) (hf : find name st.arrs = none)
    (l : List Int) (hl : l ≠ []) (hfit : (l.length : Int) ≤ 11 - st.b) :
    ∃ st', fromList1 st name l = (st', none) ∧
      (∃ a, find name st'.arrs = some a ∧ a.dims = [10]) ∧ st'.b = st.b ∧
      (∀ (k : Nat) (v : Int), l[k]? = some v → rd st' name [(k : Int) + st.b] = v) ∧
      (∀ i : Int, st.b ≤ i → i ≤ 10 → (l.length : Int) + st.b ≤ i → rd st' name [i] = 0) := by
  obtain ⟨_, hhas, hzero⟩ := set_missing st hw name hf [0] (by simp) 0
  have hhas' : Has name [10] st.b (autoState st name 1) := hhas
  have hin : ∀ k : Nat, k < l.length → InBounds st.b ([] ++ [(k : Int) + st.b]) [10] := by
    intro k hk
    exact InBounds.cons (by omega) (by omega) InBounds.nil
  obtain ⟨st', h1, h2, h3, h4⟩ := fromRow_writes name [10] st.b [] l hl hin _ hhas'
  refine ⟨st', ?_, h2.arr, h2.hb, ?_, ?_⟩
  · unfold fromList1
    rw [fromRow_missing st hw name hf [] l hl]
    exact h1
  · intro k v hk
    have hkl : k < l.length := by
      rcases Nat.lt_or_ge k l.length with h | h
      · exact h
      · rw [List.getElem?_eq_none h] at hk; cases hk
    exact h3 _ v (hin k hkl) ⟨k, hk, rfl⟩
  · intro i hi1 hi2 hi3
    rw [h4 [i] (InBounds.cons hi1 hi2 InBounds.nil) ?_]
    · exact hzero [i]
    · rintro v ⟨k, hk, he⟩
      have hkl : k < l.length := by
        rcases Nat.lt_or_ge k l.length with h | h
        · exact h
        · rw [List.getElem?_eq_none h] at hk; cases hk
      simp only [List.nil_append, List.cons.injEq, and_true] at he
      omega

/-- ERASE and re-use (the history class of seed C43c): after `ERASE name` of a declared array — whatever
    other arrays exist — a list written to `name` creates the array afresh (dimensioned to 10), stores the
    list from the base on and leaves zeros behind it; nothing of the erased array (dimensions, content)
    survives, and every other array is still found unchanged right after the ERASE. -/
theorem list_after_erase1 (st : State) (hw : WF st) (name : Nat) (a : Arr)
    (hf : find name st.arrs = some a) (l : List Int) (hl : l ≠ []) (hfit : l.length ≤ 10) :
    ∃ st1 st2, erase st [name] = (st1, none) ∧ find name st1.arrs = none ∧
      (∀ n, n ≠ name → find n st1.arrs = find n st.arrs) ∧
      fromList1 st1 name l = (st2, none) ∧
      (∃ a', find name st2.arrs = some a' ∧ a'.dims = [10]) ∧
      (∀ (k : Nat) (v : Int), l[k]? = some v → rd st2 name [(k : Int) + st1.b] = v) ∧
      (∀ i : Int, st1.b ≤ i → i ≤ 10 → (l.length : Int) + st1.b ≤ i → rd st2 name [i] = 0) := by
  obtain ⟨st1, he, hw1, hf1, hoth, _⟩ := C12.erase_then_dim st hw name a hf
  have hb := hw1.b01
  have hfit' : (l.length : Int) ≤ 11 - st1.b := by rcases hb with e | e <;> omega
  obtain ⟨st2, h1, h2, _, h4, h5⟩ := list_autodim1 st1 hw1 name hf1 l hl hfit'
  exact ⟨st1, st2, he, hf1, hoth, h1, h2, h4, h5⟩

/-- an empty list (at any level) is refused before anything is written -/
theorem list_empty_rejected (st : State) (name : Nat) (pre : List Int) :
    fromRow name pre [] st = (st, some valueError) ∧
    fromRows name pre [] st = (st, some valueError) ∧
    fromPlanes name pre [] st = (st, some valueError) := ⟨rfl, rfl, rfl⟩

/-! ## non-vacuity -/

/-- the hypotheses of `float_roundtrip` are satisfiable (x = 1.1 as an IEEE double into a Single:
    truncated, not exact) and the model computes the expected pattern -/
example : (0 : Int) < (bitLen 2476979795053773 : Int) + (-51) + 128 ∧
    (bitLen 2476979795053773 : Int) + (-51) + 128 ≤ 255 ∧
    fromValue single (.fin false 2476979795053773 (-51)) = .ok ⟨0x0CCCCC, 129⟩ := by decide +kernel

/-- the hypotheses of `list_roundtrip2` are satisfiable: OPTION BASE 1, DIM A(2,3), a 2×3 list -/
example :
    let st := (dim (optionBase State.init 1).1 [(7, [2, 3])]).1
    WF st ∧ (∃ a, find 7 st.arrs = some a ∧ a.dims = [((2 : Nat) : Int) - 1 + st.b, ((3 : Nat) : Int) - 1 + st.b]) ∧
      toList (fromList2 st 7 [[1, 2, 3], [4, 5, 6]]).1 7 = .l2 [[1, 2, 3], [4, 5, 6]] := by
  refine ⟨?_, ?_, by decide⟩
  · exact wf_dim (wf_optionBase wf_init 1 (Or.inr rfl)) _
  · exact ⟨⟨[2, 3], List.replicate 6 0⟩, by decide, by decide⟩

/-- an undeclared array is dimensioned to 10 by the first write: the list comes back embedded in an
    11-element row (base 0): `list_autodim1` -/
example : toList (fromList1 State.init 7 [1, 2, 3]).1 7 = .l1 [1, 2, 3, 0, 0, 0, 0, 0, 0, 0, 0] := by
  decide

end PcbV.C43
