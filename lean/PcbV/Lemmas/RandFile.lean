import PcbV.Model.RandFile
/-
  Lemmas about PcbV.Model.RandFile (property C25): byte-level facts about `writeAt`/`ljust`/`readAt`,
  records as index maps (`rec0`), the invariant that ties the host file position to the record pointer,
  and the one-step specifications of PUT / GET / buffer writes.
-/
namespace PcbV.RandFile
open PcbV PcbV.Gen

theorem length_zeros (n : Nat) : (zeros n).length = n := by simp [zeros]

theorem length_ljust (b : Bytes) (n : Nat) : (ljust b n).length = max b.length n := by
  simp [ljust, length_zeros]; omega

theorem getD_zeros (n i : Nat) : (zeros n).getD i 0 = 0 := by
  simp [zeros, List.getD_eq_getElem?_getD, List.getElem?_replicate]
  split <;> simp

theorem getD_ljust (b : Bytes) (n i : Nat) : (ljust b n).getD i 0 = b.getD i 0 := by
  simp only [ljust, List.getD_eq_getElem?_getD, List.getElem?_append]
  split
  · rfl
  · rename_i h
    have : b[i]? = none := by simp at h ⊢; omega
    rw [this]
    have := getD_zeros (n - b.length) (i - b.length)
    simpa [List.getD_eq_getElem?_getD] using this

theorem length_writeAt (f : Bytes) (p : Nat) (d : Bytes) :
    (writeAt f p d).length = max f.length (p + d.length) := by
  simp [writeAt, length_ljust]; omega

theorem getD_writeAt (f : Bytes) (p : Nat) (d : Bytes) (i : Nat) :
    (writeAt f p d).getD i 0 = if p ≤ i ∧ i < p + d.length then d.getD (i - p) 0 else f.getD i 0 := by
  have hl : (ljust (f.take p) p).length = p := by simp [length_ljust]; omega
  unfold writeAt
  rw [List.append_assoc]
  simp only [List.getD_eq_getElem?_getD]
  rw [List.getElem?_append]
  split
  · rename_i h
    rw [hl] at h
    rw [if_neg (by omega)]
    have := getD_ljust (f.take p) p i
    simp only [List.getD_eq_getElem?_getD] at this
    rw [this, List.getElem?_take]
    simp [h]
  · rename_i h
    rw [hl] at h ⊢
    rw [List.getElem?_append]
    split
    · rename_i h2
      rw [if_pos (by omega)]
    · rename_i h2
      rw [if_neg (by omega), List.getElem?_drop]
      congr 2
      omega

theorem recOf_eq (f : Bytes) (r k : Nat) : recOf f r k = rec0 f r (k - 1) := rfl

theorem length_rec0 (f : Bytes) (r m : Nat) : (rec0 f r m).length = r := by simp [rec0]

theorem rec0_congr {f g : Bytes} {r m : Nat} (h : ∀ i, i < r → g.getD (m * r + i) 0 = f.getD (m * r + i) 0) :
    rec0 g r m = rec0 f r m := by
  unfold rec0
  apply List.map_congr_left
  intro i hi
  exact h i (List.mem_range.mp hi)

theorem map_getD_range (d : Bytes) : (List.range d.length).map (fun i => d.getD i 0) = d := by
  apply List.ext_getElem
  · simp
  · intro i h1 h2
    simp [List.getD_eq_getElem?_getD, List.getElem?_eq_getElem h2]

theorem ljust_readAt (f : Bytes) (p r : Nat) :
    ljust (readAt f p r) r = (List.range r).map (fun i => f.getD (p + i) 0) := by
  apply List.ext_getElem
  · simp [length_ljust, readAt]; omega
  · intro i h1 h2
    have h3 : i < r := by simpa using h2
    have := getD_ljust (readAt f p r) r i
    rw [List.getD_eq_getElem?_getD, List.getElem?_eq_getElem h1] at this
    simp only [Option.getD_some] at this
    rw [this]
    simp [readAt, List.getD_eq_getElem?_getD, h3, List.getElem?_drop]

theorem zeros_eq_rec0 (f : Bytes) (r m : Nat) (h : f.length ≤ m * r) : zeros r = rec0 f r m := by
  apply List.ext_getElem
  · simp [length_zeros, length_rec0]
  · intro i h1 h2
    have h3 : i < r := by simpa [length_zeros] using h1
    simp [zeros, rec0, List.getD_eq_getElem?_getD]
    have : f[m * r + i]? = none := by simp; omega
    simp [this]

theorem ljust_of_length {c : Bytes} {r : Nat} (h : c.length = r) : ljust c r = c := by
  simp [ljust, h, zeros]

theorem take_setBuffer (buf : Bytes) (r : Nat) (c : Bytes) (h : c.length ≤ r) :
    (setBuffer buf r c).take r = ljust c r := by
  unfold setBuffer
  have : (ljust c r).length = r := by rw [length_ljust]; omega
  rw [List.take_append_of_le_length (by omega)]
  rw [List.take_of_length_le (by omega)]

theorem drop_setBuffer (buf : Bytes) (r : Nat) (c : Bytes) (h : c.length ≤ r) :
    (setBuffer buf r c).drop r = buf.drop r := by
  unfold setBuffer
  have : (ljust c r).length = r := by rw [length_ljust]; omega
  rw [List.drop_append_of_le_length (by omega), List.drop_of_length_le (by omega)]
  simp

theorem length_setBuffer (buf : Bytes) (r : Nat) (c : Bytes) (h : c.length ≤ r) (hb : r ≤ buf.length) :
    (setBuffer buf r c).length = buf.length := by
  simp [setBuffer, length_ljust]; omega

theorem length_bufWrite (buf : Bytes) (off : Nat) (d : Bytes) (h : off + d.length ≤ buf.length) :
    (bufWrite buf off d).length = buf.length := by
  simp [bufWrite]; omega


theorem inv_setRecordPos {s : RF} (h : Inv s) (p : Option Nat) : Inv (setRecordPos s p) := by
  cases p with
  | none => exact h
  | some p => exact ⟨h.buf, fun _ => rfl⟩

@[simp] theorem reclen_setRecordPos (s : RF) (p) : (setRecordPos s p).reclen = s.reclen := by cases p <;> rfl
@[simp] theorem file_setRecordPos (s : RF) (p) : (setRecordPos s p).file = s.file := by cases p <;> rfl
@[simp] theorem buf_setRecordPos (s : RF) (p) : (setRecordPos s p).buf = s.buf := by cases p <;> rfl

theorem length_getBuffer {s : RF} (h : s.reclen ≤ s.buf.length) : (getBuffer s).length = s.reclen := by
  simp [getBuffer]; omega

theorem put_via_none (fx : Bool) (s : RF) (p : Option Nat) : put fx s p = put fx (setRecordPos s p) none := by
  cases p <;> rfl

theorem get_via_none (s : RF) (p : Option Nat) : get s p = get (setRecordPos s p) none := by
  cases p <;> rfl

/-- the repaired PUT in one formula: pad the file with zeros up to the record's offset, write there -/
theorem put_none_eq {s1 : RF} (h1 : Inv s1) :
    put true s1 none =
      { s1 with file := writeAt (ljust s1.file (s1.recpos * s1.reclen)) (s1.recpos * s1.reclen) (getBuffer s1),
                fpos := s1.recpos * s1.reclen + s1.reclen, recpos := s1.recpos + 1 } := by
  have hl := length_getBuffer h1.buf
  simp only [put, lof, setRecordPos]
  by_cases hc : s1.recpos * s1.reclen > s1.file.length
  · simp only [hc, ↓reduceIte, hl]
    have : s1.file.length + (s1.recpos * s1.reclen - s1.file.length) = s1.recpos * s1.reclen := by omega
    simp only [this, ljust]
  · have hp := h1.pos (by omega)
    have : ljust s1.file (s1.recpos * s1.reclen) = s1.file := by
      simp [ljust, zeros]; omega
    simp only [hc, ↓reduceIte, hl, this, hp]

structure PutSpec (s s' : RF) : Prop where
  reclen : s'.reclen = s.reclen
  buf : s'.buf = s.buf
  recpos : s'.recpos = s.recpos + 1
  written : rec0 s'.file s.reclen s.recpos = getBuffer s
  others : ∀ j, j ≠ s.recpos → rec0 s'.file s.reclen j = rec0 s.file s.reclen j
  length : s'.file.length = max s.file.length ((s.recpos + 1) * s.reclen)
  inv : Inv s'

theorem put_spec {s : RF} (h : Inv s) : PutSpec s (put true s none) := by
  rw [put_none_eq h]
  have hl := length_getBuffer h.buf
  have hidx : ∀ i, (writeAt (ljust s.file (s.recpos * s.reclen)) (s.recpos * s.reclen) (getBuffer s)).getD i 0 =
      if s.recpos * s.reclen ≤ i ∧ i < s.recpos * s.reclen + s.reclen then (getBuffer s).getD (i - s.recpos * s.reclen) 0
      else s.file.getD i 0 := by
    intro i
    rw [getD_writeAt, hl, getD_ljust]
  refine ⟨rfl, rfl, rfl, ?_, ?_, ?_, ⟨h.buf, fun _ => ?_⟩⟩
  · show rec0 _ s.reclen s.recpos = getBuffer s
    have : rec0 (writeAt (ljust s.file (s.recpos * s.reclen)) (s.recpos * s.reclen) (getBuffer s)) s.reclen s.recpos
        = (List.range (getBuffer s).length).map (fun i => (getBuffer s).getD i 0) := by
      rw [hl]
      unfold rec0
      apply List.map_congr_left
      intro i hi
      have hi := List.mem_range.mp hi
      rw [hidx, if_pos (by omega)]
      congr 1
      omega
    rw [this, map_getD_range]
  · intro j hj
    apply rec0_congr
    intro i hi
    show (writeAt _ _ _).getD _ 0 = _
    rw [hidx, if_neg]
    intro hc
    rcases Nat.lt_or_gt_of_ne hj with hlt | hgt
    · have := Nat.mul_le_mul_right s.reclen (show j + 1 ≤ s.recpos from hlt)
      rw [Nat.add_mul] at this
      omega
    · have := Nat.mul_le_mul_right s.reclen (show s.recpos + 1 ≤ j from hgt)
      rw [Nat.add_mul] at this
      omega
  · show (writeAt _ _ _).length = _
    rw [length_writeAt, length_ljust, hl, Nat.add_mul]
    omega
  · show s.recpos * s.reclen + s.reclen = (s.recpos + 1) * s.reclen
    rw [Nat.add_mul]; omega

structure GetSpec (s s' : RF) : Prop where
  reclen : s'.reclen = s.reclen
  file : s'.file = s.file
  recpos : s'.recpos = s.recpos + 1
  record : getBuffer s' = rec0 s.file s.reclen s.recpos
  rest : s'.buf.drop s.reclen = s.buf.drop s.reclen
  buflen : s'.buf.length = s.buf.length
  inv : Inv s'

theorem length_readAt_le (f : Bytes) (p r : Nat) : (readAt f p r).length ≤ r := by
  simp [readAt]; omega

theorem get_spec {s : RF} (h : Inv s) : GetSpec s (get s none) := by
  unfold get
  simp only [setRecordPos]
  by_cases hc : eof s = true
  · simp only [hc, ↓reduceIte]
    have hc' : s.file.length < s.recpos * s.reclen := by simpa [eof, lof] using hc
    have hz : (zeros s.reclen).length ≤ s.reclen := by simp [length_zeros]
    refine ⟨rfl, rfl, rfl, ?_, drop_setBuffer _ _ _ hz, length_setBuffer _ _ _ hz h.buf, ⟨?_, fun hle => ?_⟩⟩
    · show (setBuffer s.buf s.reclen (zeros s.reclen)).take s.reclen = _
      rw [take_setBuffer _ _ _ hz, ljust_of_length (length_zeros _)]
      exact zeros_eq_rec0 _ _ _ (by omega)
    · show s.reclen ≤ (setBuffer s.buf s.reclen (zeros s.reclen)).length
      rw [length_setBuffer _ _ _ hz h.buf]; exact h.buf
    · exfalso
      have : (s.recpos + 1) * s.reclen ≤ s.file.length := hle
      rw [Nat.add_mul] at this
      omega
  · simp only [hc, Bool.false_eq_true, ↓reduceIte]
    have hc' : s.recpos * s.reclen ≤ s.file.length := by
      have : ¬ (s.recpos * s.reclen > s.file.length) := by simpa [eof, lof] using hc
      omega
    have hp := h.pos hc'
    have hr := length_readAt_le s.file s.fpos s.reclen
    refine ⟨rfl, rfl, rfl, ?_, drop_setBuffer _ _ _ hr, length_setBuffer _ _ _ hr h.buf, ⟨?_, fun hle => ?_⟩⟩
    · show (setBuffer s.buf s.reclen (readAt s.file s.fpos s.reclen)).take s.reclen = _
      rw [take_setBuffer _ _ _ hr, ljust_readAt, hp]
      rfl
    · show s.reclen ≤ (setBuffer s.buf s.reclen _).length
      rw [length_setBuffer _ _ _ hr h.buf]; exact h.buf
    · show s.fpos + (readAt s.file s.fpos s.reclen).length = (s.recpos + 1) * s.reclen
      have hle' : (s.recpos + 1) * s.reclen ≤ s.file.length := hle
      rw [Nat.add_mul] at hle' ⊢
      simp [readAt, hp]
      omega


/-! ### record numbers -/

theorem roundSingle_ge_one {n : Nat} (h : 1 ≤ n) : 1 ≤ roundSingle n := by
  unfold roundSingle rhe
  split
  · exact h
  · split
    · simp only; split <;> omega
    · split
      · simp only; split <;> omega
      · exact h

theorem roundSingle_le_max_iff (n : Nat) : roundSingle n ≤ maxRecord ↔ n ≤ maxRecord + 2 := by
  unfold roundSingle rhe maxRecord
  split
  · omega
  · split
    · simp only; split <;> omega
    · split
      · simp only; split <;> omega
      · omega

theorem checkPos_some (n : Int) : checkPos (some n) =
    if n < 1 then .error E.bad_record_number
    else if roundSingle n.toNat ≤ maxRecord then .ok (some (roundSingle n.toNat))
    else .error E.bad_record_number := rfl

theorem checkPos_some_ok {n : Int} {p : Option Nat} (h : checkPos (some n) = .ok p) :
    ∃ q, p = some q ∧ 1 ≤ q ∧ q ≤ maxRecord ∧ q = roundSingle n.toNat ∧ 1 ≤ n := by
  rw [checkPos_some] at h
  by_cases h1 : n < 1
  · rw [if_pos h1] at h; cases h
  · rw [if_neg h1] at h
    by_cases h2 : roundSingle n.toNat ≤ maxRecord
    · rw [if_pos h2] at h
      cases h
      exact ⟨_, rfl, roundSingle_ge_one (by omega), h2, rfl, by omega⟩
    · rw [if_neg h2] at h; cases h

theorem checkPos_error_iff (n : Int) :
    checkPos (some n) = .error E.bad_record_number ↔ n < 1 ∨ n > 33554434 := by
  rw [checkPos_some]
  by_cases h1 : n < 1
  · rw [if_pos h1]; simp [h1]
  · rw [if_neg h1]
    have := roundSingle_le_max_iff n.toNat
    unfold maxRecord at this ⊢
    by_cases h2 : roundSingle n.toNat ≤ 33554432
    · rw [if_pos h2]
      simp
      omega
    · rw [if_neg h2]
      simp
      omega

theorem checkPos_error_code {pos : Option Int} {e : Nat} (h : checkPos pos = .error e) :
    e = E.bad_record_number := by
  cases pos with
  | none => cases h
  | some n =>
    rw [checkPos_some] at h
    by_cases h1 : n < 1
    · rw [if_pos h1] at h; cases h; rfl
    · rw [if_neg h1] at h
      by_cases h2 : roundSingle n.toNat ≤ maxRecord
      · rw [if_pos h2] at h; cases h
      · rw [if_neg h2] at h; cases h; rfl

/-- the record pointer after `_set_record_pos` is the addressed record minus one -/
theorem recpos_of_recNo {s : RF} {pos : Option Int} {p : Option Nat} {k : Nat}
    (hc : checkPos pos = .ok p) (hk : recNo s pos = .ok k) :
    (setRecordPos s p).recpos = k - 1 ∧ 1 ≤ k := by
  unfold recNo at hk
  rw [hc] at hk
  cases p with
  | none => cases hk; exact ⟨by simp [setRecordPos], by omega⟩
  | some q =>
    cases hk
    cases pos with
    | none => cases hc
    | some n =>
      obtain ⟨q', hq, h1, _⟩ := checkPos_some_ok hc
      cases hq
      exact ⟨by simp [setRecordPos], h1⟩

theorem recNo_ok_iff {s : RF} {pos : Option Int} {k : Nat} :
    recNo s pos = .ok k ↔ ∃ p, checkPos pos = .ok p ∧ k = (setRecordPos s p).recpos + 1 ∧ 1 ≤ k := by
  constructor
  · intro h
    cases hc : checkPos pos with
    | error e => simp [recNo, hc] at h
    | ok p =>
      obtain ⟨h1, h2⟩ := recpos_of_recNo hc h
      exact ⟨p, rfl, by omega, h2⟩
  · rintro ⟨p, hc, hk, h1⟩
    cases p with
    | none => simp [recNo, hc, hk, setRecordPos]
    | some q =>
      cases pos with
      | none => cases hc
      | some n =>
        obtain ⟨q', hq, h1', _⟩ := checkPos_some_ok hc
        cases hq
        simp [recNo, hc, hk, setRecordPos]
        omega

theorem recNo_error {s : RF} {pos : Option Int} {e : Nat} : recNo s pos = .error e ↔ checkPos pos = .error e := by
  unfold recNo
  cases hc : checkPos pos with
  | error e' => simp
  | ok p => cases p <;> simp

/-! ### one statement -/

theorem getBuffer_setRecordPos (s : RF) (p) : getBuffer (setRecordPos s p) = getBuffer s := by
  cases p <;> rfl

/-- PUT of record `k` -/
theorem step_put {s : RF} (h : Inv s) {pos : Option Int} {k : Nat} (hk : recNo s pos = .ok k) :
    let s' := (step true s (.put pos)).1
    (step true s (.put pos)).2 = 0 ∧ Inv s' ∧ s'.reclen = s.reclen ∧ s'.buf = s.buf ∧ s'.recpos = k ∧
    recOf s'.file s.reclen k = getBuffer s ∧
    (∀ j, 1 ≤ j → j ≠ k → recOf s'.file s.reclen j = recOf s.file s.reclen j) ∧
    s'.file.length = max s.file.length (k * s.reclen) := by
  obtain ⟨p, hc, hk', h1⟩ := recNo_ok_iff.mp hk
  have hs := put_spec (inv_setRecordPos h p)
  have e : step true s (.put pos) = (put true (setRecordPos s p) none, 0) := by
    simp only [step, hc]; rw [put_via_none]
  rw [e]
  have hr : (setRecordPos s p).recpos = k - 1 := by omega
  refine ⟨rfl, hs.inv, by simpa using hs.reclen, by simpa using hs.buf, by rw [hs.recpos]; omega, ?_, ?_, ?_⟩
  · have := hs.written
    rw [hr, getBuffer_setRecordPos, reclen_setRecordPos] at this
    exact this
  · intro j hj hne
    have := hs.others (j - 1) (by omega)
    simpa [recOf_eq] using this
  · have := hs.length
    rw [hr] at this
    simp only [file_setRecordPos, reclen_setRecordPos] at this
    rw [this]
    have : k - 1 + 1 = k := by omega
    rw [this]

/-- GET of record `k` -/
theorem step_get {s : RF} (h : Inv s) {pos : Option Int} {k : Nat} (hk : recNo s pos = .ok k) :
    let s' := (step true s (.get pos)).1
    (step true s (.get pos)).2 = 0 ∧ Inv s' ∧ s'.reclen = s.reclen ∧ s'.file = s.file ∧ s'.recpos = k ∧
    getBuffer s' = recOf s.file s.reclen k ∧ s'.buf.drop s.reclen = s.buf.drop s.reclen ∧
    s'.buf.length = s.buf.length := by
  obtain ⟨p, hc, hk', h1⟩ := recNo_ok_iff.mp hk
  have hs := get_spec (inv_setRecordPos h p)
  have e : step true s (.get pos) = (get (setRecordPos s p) none, 0) := by
    simp only [step, hc]; rw [get_via_none]
  rw [e]
  have hr : (setRecordPos s p).recpos = k - 1 := by omega
  refine ⟨rfl, hs.inv, by simpa using hs.reclen, by simpa using hs.file, by rw [hs.recpos]; omega, ?_, ?_, ?_⟩
  · have := hs.record
    rw [hr] at this
    simpa [recOf_eq] using this
  · simpa using hs.rest
  · simpa using hs.buflen

/-- a refused statement changes nothing -/
theorem step_refused {fx : Bool} {s : RF} {o : Op} (h : (step fx s o).2 ≠ 0) : (step fx s o).1 = s := by
  cases o with
  | write off d => simp only [step] at h; split at h <;> simp at h
  | put pos =>
    simp only [step] at h ⊢
    cases hc : checkPos pos with
    | ok p => simp [hc] at h
    | error e => rfl
  | get pos =>
    simp only [step] at h ⊢
    cases hc : checkPos pos with
    | ok p => simp [hc] at h
    | error e => rfl

theorem step_error_of_recNo {s : RF} {pos : Option Int} {e : Nat} (h : recNo s pos = .error e) :
    step true s (.put pos) = (s, e) ∧ step true s (.get pos) = (s, e) := by
  have hc := recNo_error.mp h
  simp [step, hc]

theorem step_write (s : RF) (off : Nat) (d : Bytes) :
    let s' := (step true s (.write off d)).1
    s'.reclen = s.reclen ∧ s'.file = s.file ∧ s'.recpos = s.recpos ∧ s'.fpos = s.fpos ∧
    s'.buf.length = s.buf.length := by
  simp only [step]
  split
  · rename_i hle
    exact ⟨rfl, rfl, rfl, rfl, length_bufWrite _ _ _ hle⟩
  · exact ⟨rfl, rfl, rfl, rfl, rfl⟩


/-! ### histories -/

theorem toOption_eq_some {e : R Nat} {k : Nat} : e.toOption = some k ↔ e = .ok k := by
  cases e <;> simp [Except.toOption]

theorem toOption_eq_none {e : R Nat} : e.toOption = none ↔ ∃ x, e = .error x := by
  cases e <;> simp [Except.toOption]

/-- what one statement does to the observable quantities -/
structure StepSpec (s : RF) (o : Op) (s' : RF) : Prop where
  inv : Inv s'
  reclen : s'.reclen = s.reclen
  keeps : ∀ j, 1 ≤ j → putTarget s o ≠ some j → recOf s'.file s.reclen j = recOf s.file s.reclen j
  length : s'.file.length = max s.file.length (s.reclen * (putTarget s o).getD 0)
  recpos : s'.recpos = (target s o).getD s.recpos

theorem step_spec {s : RF} (h : Inv s) (o : Op) : StepSpec s o (step true s o).1 := by
  cases o with
  | write off d =>
    obtain ⟨h1, h2, h3, h4, h5⟩ := step_write s off d
    refine ⟨⟨by rw [h1, h5]; exact h.buf, by rw [h2, h3, h4, h1]; exact h.pos⟩, h1, ?_, ?_, ?_⟩
    · intro j _ _; rw [h2]
    · rw [h2]; simp [putTarget]
    · rw [h3]; simp [target]
  | put pos =>
    cases hk : recNo s pos with
    | ok k =>
      obtain ⟨_, hi, hr, _, hp, _, hothers, hlen⟩ := step_put h hk
      refine ⟨hi, hr, ?_, ?_, ?_⟩
      · intro j hj hne
        exact hothers j hj (by intro e; apply hne; simp [putTarget, hk, Except.toOption, e])
      · rw [hlen]; simp [putTarget, hk, Except.toOption, Nat.mul_comm]
      · rw [hp]; simp [target, hk, Except.toOption]
    | error e =>
      rw [(step_error_of_recNo hk).1]
      refine ⟨h, rfl, fun _ _ _ => rfl, ?_, ?_⟩
      · simp [putTarget, hk, Except.toOption]
      · simp [target, hk, Except.toOption]
  | get pos =>
    cases hk : recNo s pos with
    | ok k =>
      obtain ⟨_, hi, hr, hf, hp, _, _, _⟩ := step_get h hk
      refine ⟨hi, hr, ?_, ?_, ?_⟩
      · intro j _ _; rw [hf]
      · rw [hf]; simp [putTarget]
      · rw [hp]; simp [target, hk, Except.toOption]
    | error e =>
      rw [(step_error_of_recNo hk).2]
      refine ⟨h, rfl, fun _ _ _ => rfl, ?_, ?_⟩
      · simp [putTarget]
      · simp [target, hk, Except.toOption]

theorem inv_run {s : RF} (h : Inv s) (ops : List Op) :
    Inv (run true s ops) ∧ (run true s ops).reclen = s.reclen := by
  induction ops generalizing s with
  | nil => exact ⟨h, rfl⟩
  | cons o os ih =>
    have hs := step_spec h o
    obtain ⟨h1, h2⟩ := ih hs.inv
    exact ⟨h1, h2.trans hs.reclen⟩

theorem recOf_run_noPut {s : RF} (h : Inv s) {k : Nat} (hk : 1 ≤ k) (ops : List Op) (hno : NoPutTo k s ops) :
    recOf (run true s ops).file s.reclen k = recOf s.file s.reclen k := by
  induction ops generalizing s with
  | nil => rfl
  | cons o os ih =>
    have hs := step_spec h o
    have := ih hs.inv hno.2
    rw [hs.reclen] at this
    show recOf (run true (step true s o).1 os).file s.reclen k = _
    rw [this]
    exact hs.keeps k hk hno.1

theorem lof_run {s : RF} (h : Inv s) (ops : List Op) :
    lof (run true s ops) = max (lof s) (s.reclen * hiPut s ops) := by
  induction ops generalizing s with
  | nil => simp [run, hiPut]
  | cons o os ih =>
    have hs := step_spec h o
    have := ih hs.inv
    show lof (run true (step true s o).1 os) = _
    rw [this, hs.reclen]
    simp only [lof, hs.length, hiPut]
    rcases Nat.le_total ((putTarget s o).getD 0) (hiPut (step true s o).1 os) with hle | hle
    · have := Nat.mul_le_mul_left s.reclen hle
      rw [Nat.max_eq_right hle]; omega
    · have := Nat.mul_le_mul_left s.reclen hle
      rw [Nat.max_eq_left hle]; omega

theorem loc_run {s : RF} (h : Inv s) (ops : List Op) :
    loc (run true s ops) = (lastAcc s ops).getD (loc s) := by
  induction ops generalizing s with
  | nil => rfl
  | cons o os ih =>
    have hs := step_spec h o
    have := ih hs.inv
    show loc (run true (step true s o).1 os) = _
    rw [this]
    simp only [lastAcc, loc, hs.recpos]
    cases lastAcc (step true s o).1 os <;> simp

theorem recOf_nil (r k : Nat) : recOf [] r k = zeros r := by
  apply List.ext_getElem
  · simp [recOf, length_zeros]
  · intro i h1 h2
    simp [recOf, zeros]

theorem fieldVal_take {buf : Bytes} {r off w : Nat} (h : off + w ≤ r) :
    fieldVal buf off w = ((buf.take r).drop off).take w := by
  unfold fieldVal
  rw [List.drop_take, List.take_take]
  congr 1
  omega

theorem fieldVal_bufWrite {buf : Bytes} {off : Nat} {d : Bytes} (h : off + d.length ≤ buf.length) :
    fieldVal (bufWrite buf off d) off d.length = d := by
  unfold fieldVal bufWrite
  have : (buf.take off).length = off := by simp; omega
  rw [List.append_assoc, List.drop_append_of_le_length (by omega), List.drop_of_length_le (by omega)]
  simp


/-! ### session level: several file numbers and host files -/

theorem lookup_insert_ne {α} {k k' : Nat} (v : α) (l : List (Nat × α)) (h : k ≠ k') :
    lookup k' (insert k v l) = lookup k' l := by
  induction l with
  | nil => simp [insert, lookup, h]
  | cons a t ih =>
    obtain ⟨ka, va⟩ := a
    simp only [insert]
    split
    · rename_i hk
      simp [lookup, hk, h]
    · simp only [lookup, ih]

theorem lookup_insert_self {α} {k : Nat} (v : α) (l : List (Nat × α)) :
    lookup k (insert k v l) = some v := by
  induction l with
  | nil => simp [insert, lookup]
  | cons a t ih =>
    obtain ⟨ka, va⟩ := a
    simp only [insert]
    split
    · simp [lookup]
    · rename_i hk
      simp [lookup, hk, ih]

/-- PUT/GET through file number `num` on host file `fid` touch nothing else: other file numbers keep their
record pointers and FIELD buffers, other host files their bytes, FIELD variable attachments stay. -/
theorem exec_getput_frame (fx : Bool) (s : Sess) (num : Nat) (pos : Option Int) (isPut : Bool) :
    let c := if isPut then Cmd.put num pos else Cmd.get num pos
    let s' := (exec fx s c).1
    (∀ m, m ≠ num → lookup m s'.files = lookup m s.files ∧ s'.buf m = s.buf m) ∧
    (∀ f, lookup num s.files = some f → ∀ g, g ≠ f.fid → s'.host g = s.host g) ∧
    s'.vars = s.vars := by
  have key : ∀ (o : Op), 
      let s' := (match findRandom s num with
        | .error e => (s, e)
        | .ok f => if (step fx (s.rf num f) o).2 = 0 then (s.store num f (step fx (s.rf num f) o).1, 0)
                   else (s, (step fx (s.rf num f) o).2)).1
      (∀ m, m ≠ num → lookup m s'.files = lookup m s.files ∧ s'.buf m = s.buf m) ∧
      (∀ f, lookup num s.files = some f → ∀ g, g ≠ f.fid → s'.host g = s.host g) ∧
      s'.vars = s.vars := by
    intro o
    cases hf : findRandom s num with
    | error e => exact ⟨fun _ _ => ⟨rfl, rfl⟩, fun _ _ _ _ => rfl, rfl⟩
    | ok f =>
      simp only
      split
      · refine ⟨fun m hm => ?_, fun f' hf' g hg => ?_, rfl⟩
        · simp only [Sess.store, Sess.buf]
          rw [lookup_insert_ne _ _ (Ne.symm hm), lookup_insert_ne _ _ (Ne.symm hm)]
          exact ⟨rfl, rfl⟩
        · have : f' = f := by
            unfold findRandom at hf
            split at hf
            · cases hf
            · rw [hf'] at hf; cases hf; rfl
          subst this
          simp only [Sess.store, Sess.host]
          rw [lookup_insert_ne _ _ (Ne.symm hg)]
      · exact ⟨fun _ _ => ⟨rfl, rfl⟩, fun _ _ _ _ => rfl, rfl⟩
  cases isPut with
  | true => exact key (.put pos)
  | false => exact key (.get pos)

theorem ite_reclen {r : Nat} (c : Prop) [Decidable c] (a b : RF) (ha : a.reclen = r) (hb : b.reclen = r) :
    (if c then a else b).reclen = r := by
  split <;> assumption

theorem reclen_step (fx : Bool) (s : RF) (o : Op) : (step fx s o).1.reclen = s.reclen := by
  cases o with
  | write off d => simp only [step]; split <;> rfl
  | put pos =>
    simp only [step]
    cases checkPos pos with
    | error e => rfl
    | ok p => cases p <;> rfl
  | get pos =>
    simp only [step]
    cases checkPos pos with
    | error e => rfl
    | ok p =>
      show (get s p).reclen = s.reclen
      rw [get_via_none, ← reclen_setRecordPos s p]
      generalize setRecordPos s p = t
      exact ite_reclen _ _ _ rfl rfl

/-- a successful PUT/GET through file number `num` is the single-file statement `step` on that file's
view (`Sess.rf`): afterwards the view of `num` is exactly the stepped state -/
theorem exec_getput_is_step (fx : Bool) (s : Sess) (num : Nat) (pos : Option Int) (isPut : Bool) (f : OpenF)
    (hf : findRandom s num = .ok f) :
    let c := if isPut then Cmd.put num pos else Cmd.get num pos
    let o := if isPut then Op.put pos else Op.get pos
    (exec fx s c).2 = (step fx (s.rf num f) o).2 ∧
    ((step fx (s.rf num f) o).2 = 0 →
      ∃ f', lookup num (exec fx s c).1.files = some f' ∧ f'.fid = f.fid ∧
        (exec fx s c).1.rf num f' = (step fx (s.rf num f) o).1) ∧
    ((step fx (s.rf num f) o).2 ≠ 0 → (exec fx s c).1 = s) := by
  have key : ∀ (o : Op),
      let res := (match findRandom s num with
        | .error e => (s, e)
        | .ok f => if (step fx (s.rf num f) o).2 = 0 then (s.store num f (step fx (s.rf num f) o).1, 0)
                   else (s, (step fx (s.rf num f) o).2))
      res.2 = (step fx (s.rf num f) o).2 ∧
      ((step fx (s.rf num f) o).2 = 0 →
        ∃ f', lookup num res.1.files = some f' ∧ f'.fid = f.fid ∧ res.1.rf num f' = (step fx (s.rf num f) o).1) ∧
      ((step fx (s.rf num f) o).2 ≠ 0 → res.1 = s) := by
    intro o
    rw [hf]
    simp only
    by_cases h0 : (step fx (s.rf num f) o).2 = 0
    · rw [if_pos h0]
      refine ⟨h0.symm, fun _ => ?_, fun h => absurd h0 h⟩
      have hr := reclen_step fx (s.rf num f) o
      generalize (step fx (s.rf num f) o).1 = r at hr ⊢
      refine ⟨{ f with recpos := r.recpos, fpos := r.fpos }, lookup_insert_self _ _, rfl, ?_⟩
      obtain ⟨a, b, c, d, e⟩ := r
      simp only [Sess.rf] at hr
      simp only [Sess.rf, Sess.store, Sess.host, Sess.buf, lookup_insert_self, Option.getD_some]
      rw [← hr]
    · rw [if_neg h0]
      exact ⟨rfl, fun h => absurd h h0, fun _ => rfl⟩
  cases isPut with
  | true => exact key (.put pos)
  | false => exact key (.get pos)

end PcbV.RandFile
