import PcbV.Model.Events
/-
  Lemmas for C38: (1) forward simulation between the machine made of the code's flags (`step`) and the
  specification machine (`sstep`); (2) characterisation of one dispatch of the specification machine.
-/
namespace PcbV.Events

@[simp] theorem upd_same {α} (f : Nat → α) (i : Nat) (v : α) : upd f i v i = v := by simp [upd]
theorem upd_other {α} (f : Nat → α) (i j : Nat) (v : α) (h : j ≠ i) : upd f i v j = f j := by simp [upd, h]

/-- the abstraction relation for one trap -/
structure TRel (c : Trap) (s : STrap) : Prop where
  en : c.enabled = (s.armed != .off)
  go : c.hasGosub = s.hasHandler
  tr : c.triggered = s.pending
  st : s.armed ≠ .off → c.stopped = (s.armed == .stop || s.busy)

structure Rel (c : St) (s : SSt) : Prop where
  run : c.run = s.run
  sus : c.suspendAll = s.errActive
  stk : c.stack = s.stack
  traps : ∀ i, TRel (c.traps i) (s.traps i)

theorem rel_init : Rel St.init SSt.init :=
  ⟨rfl, rfl, rfl, fun _ => ⟨rfl, rfl, rfl, fun h => absurd rfl h⟩⟩

theorem fireable_eq {c : St} {s : SSt} (h : Rel c s) (i : Nat) : fireable c i = sfireable s i := by
  have t := h.traps i
  unfold fireable sfireable
  rw [t.en, t.go, t.tr]
  cases ha : (s.traps i).armed
  · cases (s.traps i).pending <;> cases (c.traps i).stopped <;> cases (s.traps i).busy <;>
      cases (s.traps i).hasHandler <;> rfl
  · have := t.st (by rw [ha]; decide)
    rw [this, ha]
    cases (s.traps i).pending <;> cases (s.traps i).busy <;> cases (s.traps i).hasHandler <;> rfl
  · have := t.st (by rw [ha]; decide)
    rw [this, ha]
    cases (s.traps i).pending <;> cases (s.traps i).busy <;> cases (s.traps i).hasHandler <;> rfl

theorem rel_fire {c : St} {s : SSt} (h : Rel c s) (i : Nat) (hf : sfireable s i = true) :
    Rel (fire c i) (sfire s i) := by
  have t := h.traps i
  refine ⟨h.run, h.sus, ?_, ?_⟩
  · simp [fire, sfire, h.stk]
  · intro j
    by_cases hj : j = i
    · subst hj
      simp only [fire, sfire, upd_same]
      refine ⟨t.en, t.go, rfl, ?_⟩
      intro _; simp
    · simp only [fire, sfire, upd_other _ _ _ _ hj]
      exact h.traps j

theorem rel_dispatchL (order : List Nat) : ∀ {c : St} {s : SSt}, Rel c s →
    Rel (dispatchL order c).1 (sdispatchL order s).1 ∧ (dispatchL order c).2 = (sdispatchL order s).2 := by
  induction order with
  | nil => intro c s h; exact ⟨h, rfl⟩
  | cons i rest ih =>
    intro c s h
    have hf := fireable_eq h i
    unfold dispatchL sdispatchL
    rw [hf]
    by_cases hs : sfireable s i = true
    · simp only [hs, if_true]
      have := ih (rel_fire h i hs)
      exact ⟨this.1, by rw [this.2]⟩
    · simp only [hs]
      exact ih h


theorem rel_setTrap {c : St} {s : SSt} (h : Rel c s) (i : Nat) {ct : Trap} {st : STrap} (ht : TRel ct st) :
    Rel (setTrap c i ct) (ssetTrap s i st) := by
  refine ⟨h.run, h.sus, h.stk, ?_⟩
  intro j
  by_cases hj : j = i
  · subst hj; simpa [setTrap, ssetTrap] using ht
  · simp only [setTrap, ssetTrap, upd_other _ _ _ _ hj]; exact h.traps j

theorem trel_default : TRel ({} : Trap) ({} : STrap) := ⟨rfl, rfl, rfl, fun h => absurd rfl h⟩

/-- forward simulation: one step of the code machine is matched by one step of the specification
    machine, entering the same traps -/
theorem rel_step {c : St} {s : SSt} (h : Rel c s) (e : Ev) :
    Rel (step c e).1 (sstep s e).1 ∧ (step c e).2 = (sstep s e).2 := by
  cases e with
  | occur i =>
    have t := h.traps i
    refine ⟨?_, rfl⟩
    by_cases ha : (s.traps i).armed = .off
    · have : (c.traps i).enabled = false := by rw [t.en, ha]; rfl
      simp [step, sstep, this, ha, h]
    · have : (c.traps i).enabled = true := by
        rw [t.en]; revert ha; cases (s.traps i).armed <;> simp
      simp only [step, sstep, this, if_true, ne_eq, ha, not_false_eq_true]
      exact rel_setTrap h i ⟨Eq.trans this.symm t.en, t.go, rfl, t.st⟩
  | on i =>
    have t := h.traps i
    exact ⟨rel_setTrap h i ⟨rfl, t.go, t.tr, fun _ => rfl⟩, rfl⟩
  | off i =>
    have t := h.traps i
    exact ⟨rel_setTrap h i ⟨rfl, t.go, t.tr, fun hh => absurd rfl hh⟩, rfl⟩
  | stop i =>
    have t := h.traps i
    refine ⟨?_, rfl⟩
    by_cases ha : (s.traps i).armed = .off
    · simp only [step, sstep, ha, ne_eq, not_true_eq_false, if_false]
      refine ⟨h.run, h.sus, h.stk, fun j => ?_⟩
      by_cases hj : j = i
      · subst hj
        simp only [setTrap, upd_same]
        exact ⟨t.en, t.go, t.tr, fun hh => absurd ha hh⟩
      · simp only [setTrap, upd_other _ _ _ _ hj]; exact h.traps j
    · simp only [step, sstep, ne_eq, ha, not_false_eq_true, if_true]
      refine rel_setTrap h i ⟨?_, t.go, t.tr, fun _ => rfl⟩
      show (c.traps i).enabled = (Armed.stop != Armed.off)
      rw [t.en]; revert ha; cases (s.traps i).armed <;> intro ha <;> first | rfl | exact absurd rfl ha
  | setHandler i b =>
    have t := h.traps i
    exact ⟨rel_setTrap h i ⟨t.en, rfl, t.tr, t.st⟩, rfl⟩
  | dispatch order =>
    simp only [step, sstep, h.run, h.sus]
    cases s.errActive <;> cases s.run <;> simp [h, rel_dispatchL order h]
  | gosub => exact ⟨⟨h.run, h.sus, by simp [step, sstep, h.stk], h.traps⟩, rfl⟩
  | ret =>
    simp only [step, sstep, h.stk]
    cases hs : s.stack with
    | nil => exact ⟨h, rfl⟩
    | cons f r =>
      cases f with
      | none => exact ⟨⟨h.run, h.sus, rfl, h.traps⟩, rfl⟩
      | some i =>
        have t := h.traps i
        refine ⟨?_, rfl⟩
        have := rel_setTrap h i (ct := { c.traps i with stopped := false })
          (st := { s.traps i with busy := false,
                                  armed := if (s.traps i).armed = .stop then .on else (s.traps i).armed })
          ⟨by rw [t.en]; cases (s.traps i).armed <;> rfl, t.go, t.tr,
           by cases (s.traps i).armed <;> simp⟩
        exact ⟨this.run, this.sus, rfl, this.traps⟩
  | errTrap => exact ⟨⟨h.run, rfl, h.stk, h.traps⟩, rfl⟩
  | resume => exact ⟨⟨h.run, rfl, h.stk, h.traps⟩, rfl⟩
  | endProg => exact ⟨⟨rfl, h.sus, h.stk, h.traps⟩, rfl⟩
  | cont => exact ⟨⟨rfl, h.sus, h.stk, h.traps⟩, rfl⟩
  | runCmd => exact ⟨⟨rfl, rfl, rfl, fun _ => trel_default⟩, rfl⟩
  | clear => exact ⟨⟨h.run, rfl, rfl, fun _ => trel_default⟩, rfl⟩


/-- the code machine and the specification machine stay related along every schedule -/
theorem rel_stateAt (sched : Nat → Ev) : ∀ k, Rel (stateAt sched k) (sstateAt sched k)
  | 0 => rel_init
  | k + 1 => (rel_step (rel_stateAt sched k) (sched k)).1

/-! ### one dispatch of the specification machine -/

def firedTrap (t : STrap) : STrap := { t with pending := false, busy := true }

theorem sfireable_sfire_same (s : SSt) (j : Nat) : sfireable (sfire s j) j = false := by
  simp [sfireable, sfire]

theorem sfireable_sfire_other (s : SSt) {i j : Nat} (h : i ≠ j) : sfireable (sfire s j) i = sfireable s i := by
  simp [sfireable, sfire, upd_other _ _ _ _ h]

theorem sdispatchL_spec (order : List Nat) : ∀ (s : SSt),
    (∀ i, i ∈ (sdispatchL order s).2 ↔ i ∈ order ∧ sfireable s i = true) ∧
    (∀ i, (sdispatchL order s).1.traps i =
      if i ∈ (sdispatchL order s).2 then firedTrap (s.traps i) else s.traps i) ∧
    (sdispatchL order s).1.errActive = s.errActive ∧ (sdispatchL order s).1.run = s.run := by
  induction order with
  | nil => intro s; simp [sdispatchL]
  | cons j rest ih =>
    intro s
    unfold sdispatchL
    by_cases hj : sfireable s j = true
    · rw [if_pos hj]
      obtain ⟨ha, hb, hc, hd⟩ := ih (sfire s j)
      have hjn : j ∉ (sdispatchL rest (sfire s j)).2 := by
        intro hmem
        have := ((ha j).1 hmem).2
        rw [sfireable_sfire_same] at this
        exact Bool.noConfusion this
      refine ⟨?_, ?_, hc, hd⟩
      · intro i
        by_cases hij : i = j
        · subst hij; simp [hj]
        · simp only [List.mem_cons, hij, false_or]
          rw [ha i, sfireable_sfire_other s hij]
      · intro i
        by_cases hij : i = j
        · subst hij
          rw [hb i, if_neg hjn]
          simp [sfire, firedTrap]
        · have hs : (sfire s j).traps i = s.traps i := by simp [sfire, upd_other _ _ _ _ hij]
          rw [hb i, hs]
          simp only [List.mem_cons, hij, false_or]
    · rw [if_neg hj]
      obtain ⟨ha, hb, hc, hd⟩ := ih s
      refine ⟨?_, hb, hc, hd⟩
      intro i
      rw [ha i]
      by_cases hij : i = j
      · subst hij; simp [hj]
      · simp [hij]

/-! ### one step of the specification machine, seen from one trap -/

@[simp] theorem ssetTrap_same (s : SSt) (i : Nat) (t : STrap) : (ssetTrap s i t).traps i = t := by
  simp [ssetTrap]
theorem ssetTrap_other (s : SSt) {i j : Nat} (t : STrap) (h : i ≠ j) : (ssetTrap s j t).traps i = s.traps i := by
  simp [ssetTrap, upd_other _ _ _ _ h]

/-- which traps one dispatch of the specification machine enters: a decision local to each trap -/
theorem sstep_dispatch_mem (s : SSt) (order : List Nat) (i : Nat) :
    i ∈ (sstep s (.dispatch order)).2 ↔
      i ∈ order ∧ s.run = true ∧ s.errActive = false ∧ sfireable s i = true := by
  simp only [sstep]
  cases hr : s.run <;> cases he : s.errActive <;> simp [(sdispatchL_spec order s).1 i]

theorem sstep_fired_is_dispatch {s : SSt} {e : Ev} {i : Nat} (h : i ∈ (sstep s e).2) :
    ∃ order, e = .dispatch order := by
  cases e <;> simp [sstep] at h
  case dispatch order => exact ⟨order, rfl⟩
  case ret => revert h; cases s.stack with
    | nil => simp
    | cons f r => cases f <;> simp

theorem sstep_fired_pre {s : SSt} {e : Ev} {i : Nat} (h : i ∈ (sstep s e).2) :
    s.run = true ∧ s.errActive = false ∧ sfireable s i = true := by
  obtain ⟨order, rfl⟩ := sstep_fired_is_dispatch h
  exact ((sstep_dispatch_mem s order i).1 h).2

/-- the trap record after a dispatch -/
theorem sstep_dispatch_traps (s : SSt) (order : List Nat) (i : Nat) :
    (sstep s (.dispatch order)).1.traps i =
      if i ∈ (sstep s (.dispatch order)).2 then firedTrap (s.traps i) else s.traps i := by
  simp only [sstep]
  by_cases hc : (s.run && !s.errActive) = true
  · simp only [hc, if_true]; exact (sdispatchL_spec order s).2.1 i
  · simp [hc]

theorem sstep_fired_post {s : SSt} {e : Ev} {i : Nat} (h : i ∈ (sstep s e).2) :
    ((sstep s e).1.traps i).pending = false ∧ ((sstep s e).1.traps i).busy = true := by
  obtain ⟨order, rfl⟩ := sstep_fired_is_dispatch h
  rw [sstep_dispatch_traps, if_pos h]
  exact ⟨rfl, rfl⟩


/-- the trap record after RETURN -/
theorem sstep_ret_traps (s : SSt) (i : Nat) :
    (sstep s .ret).1.traps i =
      if s.stack.head? = some (some i) then
        { s.traps i with busy := false,
                         armed := if (s.traps i).armed = .stop then .on else (s.traps i).armed }
      else s.traps i := by
  simp only [sstep]
  cases hs : s.stack with
  | nil => simp
  | cons f r =>
    cases f with
    | none => simp
    | some j =>
      by_cases hij : i = j
      · subst hij; simp
      · have : ¬ j = i := fun h => hij h.symm
        simp [ssetTrap_other _ _ hij, this]

/-- `pending` is raised only by an occurrence while the trap is not OFF -/
theorem sstep_pending_rise {s : SSt} {e : Ev} {i : Nat} (h0 : (s.traps i).pending = false)
    (h1 : ((sstep s e).1.traps i).pending = true) : e = .occur i ∧ (s.traps i).armed ≠ .off := by
  cases e with
  | occur j =>
    by_cases hij : i = j
    · subst hij
      by_cases ha : (s.traps i).armed = .off
      · simp [sstep, ha, h0] at h1
      · exact ⟨rfl, ha⟩
    · simp only [sstep] at h1
      split at h1
      · rw [ssetTrap_other _ _ hij, h0] at h1; exact Bool.noConfusion h1
      · rw [h0] at h1; exact Bool.noConfusion h1
  | on j | off j | setHandler j b =>
    by_cases hij : i = j
    · subst hij; simp [sstep, h0] at h1
    · simp [sstep, ssetTrap_other _ _ hij, h0] at h1
  | stop j =>
    simp only [sstep] at h1
    split at h1
    · by_cases hij : i = j
      · subst hij; simp [h0] at h1
      · simp [ssetTrap_other _ _ hij, h0] at h1
    · rw [h0] at h1; exact Bool.noConfusion h1
  | dispatch order =>
    rw [sstep_dispatch_traps] at h1
    split at h1
    · simp [firedTrap] at h1
    · rw [h0] at h1; exact Bool.noConfusion h1
  | ret =>
    rw [sstep_ret_traps] at h1
    split at h1
    · simp [h0] at h1
    · rw [h0] at h1; exact Bool.noConfusion h1
  | gosub | errTrap | resume | endProg | cont => simp [sstep, h0] at h1
  | runCmd | clear => simp [sstep] at h1

/-- a remembered occurrence stays remembered until the trap is entered (or RUN / CLEAR) -/
theorem sstep_pending_persist {s : SSt} {e : Ev} {i : Nat} (h0 : (s.traps i).pending = true)
    (hf : i ∉ (sstep s e).2) (hr : e ≠ .runCmd) (hc : e ≠ .clear) :
    ((sstep s e).1.traps i).pending = true := by
  cases e with
  | occur j =>
    simp only [sstep]
    split
    · by_cases hij : i = j
      · subst hij; simp
      · rw [ssetTrap_other _ _ hij, h0]
    · exact h0
  | on j | off j | setHandler j b =>
    by_cases hij : i = j
    · subst hij; simp [sstep, h0]
    · simp [sstep, ssetTrap_other _ _ hij, h0]
  | stop j =>
    simp only [sstep]
    split
    · by_cases hij : i = j
      · subst hij; simp [h0]
      · simp [ssetTrap_other _ _ hij, h0]
    · exact h0
  | dispatch order => rw [sstep_dispatch_traps, if_neg hf]; exact h0
  | ret =>
    rw [sstep_ret_traps]
    split
    · simp [h0]
    · exact h0
  | gosub | errTrap | resume | endProg | cont => simp [sstep, h0]
  | runCmd => exact absurd rfl hr
  | clear => exact absurd rfl hc

theorem sstep_reset_pending {s : SSt} {e : Ev} (i : Nat) (h : e = .runCmd ∨ e = .clear) :
    ((sstep s e).1.traps i).pending = false := by
  rcases h with rfl | rfl <;> rfl

/-- the events that end the "handler active" period of trap `i` -/
def Unbusy (i : Nat) (s : SSt) (e : Ev) : Prop :=
  e = .on i ∨ (e = .ret ∧ s.stack.head? = some (some i)) ∨ e = .runCmd ∨ e = .clear

theorem sstep_busy_persist {s : SSt} {e : Ev} {i : Nat} (h0 : (s.traps i).busy = true)
    (hu : ¬ Unbusy i s e) : ((sstep s e).1.traps i).busy = true := by
  cases e with
  | occur j =>
    simp only [sstep]
    split
    · by_cases hij : i = j
      · subst hij; simp [h0]
      · rw [ssetTrap_other _ _ hij, h0]
    · exact h0
  | on j =>
    by_cases hij : i = j
    · subst hij; exact absurd (Or.inl rfl) hu
    · simp [sstep, ssetTrap_other _ _ hij, h0]
  | off j | setHandler j b =>
    by_cases hij : i = j
    · subst hij; simp [sstep, h0]
    · simp [sstep, ssetTrap_other _ _ hij, h0]
  | stop j =>
    simp only [sstep]
    split
    · by_cases hij : i = j
      · subst hij; simp [h0]
      · simp [ssetTrap_other _ _ hij, h0]
    · exact h0
  | dispatch order =>
    rw [sstep_dispatch_traps]
    split
    · rfl
    · exact h0
  | ret =>
    rw [sstep_ret_traps]
    split
    · next hh => exact absurd (Or.inr (Or.inl ⟨rfl, hh⟩)) hu
    · exact h0
  | gosub | errTrap | resume | endProg | cont => simp [sstep, h0]
  | runCmd => exact absurd (Or.inr (Or.inr (Or.inl rfl))) hu
  | clear => exact absurd (Or.inr (Or.inr (Or.inr rfl))) hu

/-- how the "error handler active" flag evolves -/
theorem sstep_errActive (s : SSt) (e : Ev) :
    (sstep s e).1.errActive =
      if e = .errTrap then true
      else if e = .resume ∨ e = .runCmd ∨ e = .clear then false else s.errActive := by
  cases e with
  | dispatch order =>
    simp only [sstep]
    by_cases hc : (s.run && !s.errActive) = true
    · simp only [hc, if_true]; simp [(sdispatchL_spec order s).2.2.1]
    · simp [hc]
  | occur j | stop j =>
    simp only [sstep]; split <;> simp [ssetTrap]
  | ret =>
    simp only [sstep]
    cases s.stack with
    | nil => simp
    | cons f r => cases f <;> simp [ssetTrap]
  | on j | off j | setHandler j b => simp [sstep, ssetTrap]
  | gosub | errTrap | resume | endProg | cont | runCmd | clear => simp [sstep]

/-- events addressed to another trap do not touch this trap's record -/
theorem sstep_other_trap {s : SSt} {e : Ev} {i j : Nat} (hij : i ≠ j)
    (he : e = .occur j ∨ e = .on j ∨ e = .off j ∨ e = .stop j ∨ ∃ b, e = .setHandler j b) :
    (sstep s e).1.traps i = s.traps i := by
  rcases he with rfl | rfl | rfl | rfl | ⟨b, rfl⟩
  · simp only [sstep]; split
    · exact ssetTrap_other _ _ hij
    · rfl
  · exact ssetTrap_other _ _ hij
  · exact ssetTrap_other _ _ hij
  · simp only [sstep]; split
    · exact ssetTrap_other _ _ hij
    · rfl
  · exact ssetTrap_other _ _ hij

end PcbV.Events
