import PcbV.Model.SessionApi
import PcbV.Lemmas.C03Single
/-
  Lemmas for C43 (floats): `Float.from_value` (repaired, frexp-based) keeps the top `w` bits of a
  dyadic rational; `to_value` returns the exact value of the pattern.
-/
namespace PcbV.SessionApi
open PcbV PcbV.Mbf

/-- the exact rational value of a Python float (infinities and NaN have none; 0 by convention) -/
def pyVal : PyFloat → Rat
  | .fin neg num k => (if neg then -1 else 1) * (num : Rat) * pow2 k
  | _ => 0

theorem bitLen_spec (n : Nat) (hn : n ≠ 0) :
    1 ≤ bitLen n ∧ 2 ^ (bitLen n - 1) ≤ n ∧ n < 2 ^ bitLen n := by
  unfold bitLen
  rw [if_neg hn]
  exact ⟨by omega, by simpa using Nat.log2_self_le hn, Nat.lt_log2_self⟩

/-- `topBits w num` is a normalised `w`-bit mantissa: `num` shifted up exactly, or shifted down with
    the low bits dropped -/
theorem topBits_spec (w num : Nat) (hw : 1 ≤ w) (hn : num ≠ 0) :
    2 ^ (w - 1) ≤ topBits w num ∧ topBits w num < 2 ^ w ∧
    (bitLen num ≤ w → topBits w num = num * 2 ^ (w - bitLen num)) ∧
    (w < bitLen num → topBits w num * 2 ^ (bitLen num - w) ≤ num ∧
      num < (topBits w num + 1) * 2 ^ (bitLen num - w)) := by
  obtain ⟨hb1, hlo, hhi⟩ := bitLen_spec num hn
  unfold topBits
  by_cases hle : bitLen num ≤ w
  · rw [if_pos hle]
    refine ⟨?_, ?_, fun _ => rfl, fun h => absurd hle (by omega)⟩
    · have e : 2 ^ (w - 1) = 2 ^ (bitLen num - 1) * 2 ^ (w - bitLen num) := by
        rw [← Nat.pow_add]; congr 1; omega
      rw [e]; exact Nat.mul_le_mul_right _ hlo
    · have e : 2 ^ w = 2 ^ bitLen num * 2 ^ (w - bitLen num) := by
        rw [← Nat.pow_add]; congr 1; omega
      rw [e]; exact Nat.mul_lt_mul_of_pos_right hhi (Nat.two_pow_pos _)
  · rw [if_neg hle]
    have hpos : 0 < 2 ^ (bitLen num - w) := Nat.two_pow_pos _
    refine ⟨?_, ?_, fun h => absurd h hle, fun _ => ⟨Nat.div_mul_le_self _ _, ?_⟩⟩
    · rw [Nat.le_div_iff_mul_le hpos, ← Nat.pow_add]
      have e : w - 1 + (bitLen num - w) = bitLen num - 1 := by omega
      rw [e]; exact hlo
    · rw [Nat.div_lt_iff_lt_mul hpos, ← Nat.pow_add]
      have e : w + (bitLen num - w) = bitLen num := by omega
      rw [e]; exact hhi
    · have := Nat.lt_mul_div_succ num hpos
      rw [Nat.mul_comm] at this; exact this

theorem shiftUp_stop' (fuel lim : Nat) (e : Int) (man : Nat) (h : ¬ man < lim) :
    shiftUp fuel lim e man = (e, man) := by
  cases fuel <;> simp [shiftUp, h]

/-- `_bring_to_range` does nothing to a mantissa that is already normalised -/
theorem finish_normal {f : Fmt} (hf : f.WF) (man : Nat) (exp : Int) (neg : Bool)
    (h1 : 2 ^ (f.w - 1) ≤ man) (h2 : man < 2 ^ f.w) :
    finish f man exp neg =
      if exp > 255 then .error (overflow, if neg then f.negMax else f.posMax)
      else if exp ≤ 0 then .ok zero
      else .ok ⟨packMan f man neg, exp.toNat⟩ := by
  obtain ⟨h8, _, _, _, _, _, hmk, hp⟩ := hf
  have hpos : 0 < 2 ^ (f.w - 1) := Nat.two_pow_pos _
  have hbr : bringToRange man exp f.posMask f.mask = (man, exp) := by
    unfold bringToRange
    rw [shiftUp_stop' _ _ _ _ (by rw [hp]; omega)]
    simp only
    rw [shiftDown_noop _ _ _ _ (by rw [hmk]; omega)]
  unfold finish
  rw [hbr]

theorem shiftOf_succ {f : Fmt} (hf : f.WF) : shiftOf f + 1 = f.w := by
  obtain ⟨h8, hb, _⟩ := hf
  unfold shiftOf; omega

theorem pow2_add_nat (k : Int) (s : Nat) : pow2 (k + (s : Int)) = pow2 k * (2 : Rat) ^ s := by
  rw [pow2_add, pow2_eq_zpow (s : Int), zpow_natCast]

/-- `from_value` of a finite nonzero float, in closed form -/
theorem fromValue_fin {f : Fmt} (hf : f.WF) (neg : Bool) (num : Nat) (k : Int) (hn : num ≠ 0) :
    fromValue f (.fin neg num k) =
      if (bitLen num : Int) + k + 128 > 255 then .error (overflow, if neg then f.negMax else f.posMax)
      else if (bitLen num : Int) + k + 128 ≤ 0 then .ok zero
      else .ok ⟨packMan f (topBits f.w num) neg, ((bitLen num : Int) + k + 128).toNat⟩ := by
  have hw1 : 1 ≤ f.w := by have := hf.1; omega
  obtain ⟨t1, t2, _, _⟩ := topBits_spec f.w num hw1 hn
  have hs := shiftOf_succ hf
  have he : (bitLen num : Int) + k + (f.bias : Int) - (shiftOf f : Int) - 1 = (bitLen num : Int) + k + 128 := by
    have := hf.2.1
    have : (shiftOf f : Int) + 1 = f.w := by exact_mod_cast hs
    omega
  show (if num = 0 then _ else _) = _
  rw [if_neg hn, hs, he]
  exact finish_normal hf _ _ neg t1 t2

/-- the value read back from a packed normalised mantissa -/
theorem pyVal_toValue_pack {f : Fmt} (hf : f.WF) (M e : Nat) (neg : Bool)
    (h1 : 2 ^ (f.w - 1) ≤ M) (h2 : M < 2 ^ f.w) (he0 : e ≠ 0) (he : e < 256) :
    pyVal (toValue f ⟨packMan f M neg, e⟩) =
      (if neg then -1 else 1) * (M : Rat) * pow2 ((e : Int) - f.bias) := by
  obtain ⟨_, hneg, hman⟩ := pack_spec hf M e neg h1 h2 he
  unfold toValue
  rw [if_neg he0]
  unfold manOf at hman
  simp only [pyVal]
  rw [hman, hneg]

/-- `to_value` is the exact value of the pattern -/
theorem pyVal_toValue (f : Fmt) (x : F) : pyVal (toValue f x) = val f x := by
  unfold toValue val
  by_cases he : x.e = 0
  · simp [he, pyVal]
  · simp only [he, if_false, pyVal, manOf]

/-- bracket of the mantissa kept by `from_value` around the exact input -/
theorem topBits_bracket (w num : Nat) (k : Int) (hw : 1 ≤ w) (hn : num ≠ 0) :
    let M := topBits w num
    let E : Int := (bitLen num : Int) + k - w
    (M : Rat) * pow2 E ≤ (num : Rat) * pow2 k ∧ (num : Rat) * pow2 k < ((M : Rat) + 1) * pow2 E ∧
    (bitLen num ≤ w → (M : Rat) * pow2 E = (num : Rat) * pow2 k) := by
  intro M E
  obtain ⟨_, _, hup, hdn⟩ := topBits_spec w num hw hn
  have hEpos := pow2_pos E
  have hkpos := pow2_pos k
  by_cases hle : bitLen num ≤ w
  · have hM : (M : Rat) = (num : Rat) * (2 : Rat) ^ (w - bitLen num) := by
      show ((topBits w num : Nat) : Rat) = _
      rw [hup hle]; push_cast; ring
    have hk : k = E + ((w - bitLen num : Nat) : Int) := by omega
    have hpk : pow2 k = pow2 E * (2 : Rat) ^ (w - bitLen num) := by
      conv_lhs => rw [hk]
      exact pow2_add_nat E _
    have heq : (M : Rat) * pow2 E = (num : Rat) * pow2 k := by rw [hM, hpk]; ring
    refine ⟨le_of_eq heq, ?_, fun _ => heq⟩
    rw [← heq]; nlinarith
  · have hlt : w < bitLen num := by omega
    obtain ⟨d1, d2⟩ := hdn hlt
    have hE : E = k + ((bitLen num - w : Nat) : Int) := by omega
    have hpE : pow2 E = pow2 k * (2 : Rat) ^ (bitLen num - w) := by
      rw [hE]; exact pow2_add_nat k _
    have c1 : (M : Rat) * (2 : Rat) ^ (bitLen num - w) ≤ (num : Rat) := by exact_mod_cast d1
    have c2 : (num : Rat) < ((M : Rat) + 1) * (2 : Rat) ^ (bitLen num - w) := by exact_mod_cast d2
    refine ⟨?_, ?_, fun h => absurd h hle⟩
    · rw [hpE]
      calc (M : Rat) * (pow2 k * (2 : Rat) ^ (bitLen num - w))
          = ((M : Rat) * (2 : Rat) ^ (bitLen num - w)) * pow2 k := by ring
        _ ≤ (num : Rat) * pow2 k := mul_le_mul_of_nonneg_right c1 (le_of_lt hkpos)
    · rw [hpE]
      calc (num : Rat) * pow2 k
          < (((M : Rat) + 1) * (2 : Rat) ^ (bitLen num - w)) * pow2 k :=
            mul_lt_mul_of_pos_right c2 hkpos
        _ = ((M : Rat) + 1) * (pow2 k * (2 : Rat) ^ (bitLen num - w)) := by ring

/-- position of a finite nonzero float between two powers of two -/
theorem magnitude_bracket (num : Nat) (k : Int) (hn : num ≠ 0) :
    pow2 ((bitLen num : Int) + k - 1) ≤ (num : Rat) * pow2 k ∧
    (num : Rat) * pow2 k < pow2 ((bitLen num : Int) + k) := by
  obtain ⟨hb1, hlo, hhi⟩ := bitLen_spec num hn
  have hkpos := pow2_pos k
  have e1 : (bitLen num : Int) + k - 1 = k + ((bitLen num - 1 : Nat) : Int) := by omega
  have e2 : (bitLen num : Int) + k = k + ((bitLen num : Nat) : Int) := by omega
  rw [e1, e2, pow2_add_nat, pow2_add_nat]
  have c1 : (2 : Rat) ^ (bitLen num - 1) ≤ (num : Rat) := by exact_mod_cast hlo
  have c2 : (num : Rat) < (2 : Rat) ^ bitLen num := by exact_mod_cast hhi
  constructor
  · rw [mul_comm]; exact mul_le_mul_of_nonneg_right c1 (le_of_lt hkpos)
  · rw [mul_comm (pow2 k)]; exact mul_lt_mul_of_pos_right c2 hkpos

end PcbV.SessionApi
