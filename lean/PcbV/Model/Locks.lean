import PcbV.Basic
import PcbV.Gen.Errors
/-
  PcbV.Model.Locks — file sharing and record locks (property C26).

  Transcription of pcbasic/basic/devices/diskfiles.py:Locks / LockingParameters and of the
  callers that decide which Locks method runs with which arguments:
  devices/files.py:Files.open_/open/close/close_all/lock_/unlock_/get_/put_/_get_lock_limits/_check_pos,
  devices/disk.py:DiskDevice.open (locks.open_file before the stream is opened),
  diskfiles.py:RandomFile.get/put/lock/unlock/close, TextFile.lock/unlock/close.

  * `State` is the dict `Locks._locking_parameters` (file number -> LockingParameters) as a list of
    entries.  Dict order is not observable (all errors raised inside the loops over it are equal).
  * `Entry.locks` is `LockingParameters.lock_set` (a Python set: kept duplicate-free).
  * `Entry.recpos` is `RandomFile._recpos` (needed because GET/PUT without a record number use it).
  * File names are abstract ids (`ntpath.basename(name).upper()` equality is id equality).
  * `fixed : Bool` selects the range-overlap test of `_try_record_lock`: `true` = interval-overlap test
    (repaired code, defect D7), `false` = the original endpoint test.
  * a lookup `_locking_parameters[number]` that would raise KeyError (never reached through Files,
    which only calls with open file numbers) is `.error keyError`.
-/
namespace PcbV.Locks
open PcbV PcbV.Gen

inductive Mode | I | O | A | R
  deriving DecidableEq, Repr

/-- `lock_type`: `None`/`b''`, `b'SHARED'`, `b'R'`, `b'W'`, `b'RW'` -/
inductive LT | none | shared | r | w | rw
  deriving DecidableEq, Repr

/-- `access`: `None`/`b''`, `b'R'`, `b'W'`, `b'RW'` -/
inductive Acc | none | r | w | rw
  deriving DecidableEq, Repr

/-- a lock range: `(None, None)` (whole file) or `(start, stop)` -/
inductive Rng | whole | range (s e : Nat)
  deriving DecidableEq, Repr

def LT.hasR : LT → Bool | .r | .rw => true | _ => false
def LT.hasW : LT → Bool | .w | .rw => true | _ => false
/-- truthiness of `lock_type` -/
def LT.present : LT → Bool | .none => false | _ => true
/-- `lock_type and lock_type != b'SHARED'` -/
def LT.decl : LT → Bool | .r | .w | .rw => true | _ => false
def Acc.hasR : Acc → Bool | .r | .rw => true | _ => false
def Acc.hasW : Acc → Bool | .w | .rw => true | _ => false
def Acc.present : Acc → Bool | .none => false | _ => true

/-- `set(iterchar(lock_type)) & set(iterchar(access))` is non-empty -/
def meetsLA (l : LT) (a : Acc) : Bool := (l.hasR && a.hasR) || (l.hasW && a.hasW)
/-- `set(access) & set(this_file.access)` is non-empty -/
def meetsAA (a b : Acc) : Bool := (a.hasR && b.hasR) || (a.hasW && b.hasW)

def isOutMode (m : Mode) : Bool := m == .O || m == .A

structure Entry where
  num : Nat
  name : Nat
  mode : Mode
  lt : LT
  acc : Acc
  locks : List Rng
  recpos : Nat
  deriving DecidableEq, Repr

abbrev State := List Entry

def keyError : Nat := 51

/-- `Locks.list_open(name, exclude_number)` -/
def listOpen (st : State) (name : Nat) (excl : Option Nat) : List Entry :=
  st.filter fun f => f.name == name && (some f.num != excl)

/-- the five-way condition of `Locks.open_file` for one already-open file `f` -/
def conflict (lt : LT) (acc : Acc) (f : Entry) : Bool :=
  -- default mode: don't accept if SHARED/LOCK present
  (!lt.present && f.lt.present) ||
  -- LOCK READ WRITE: don't accept if already open
  (lt == .rw) ||
  -- defined locking: don't accept if open in default mode
  (lt.present && !f.lt.present) ||
  -- LOCK READ or LOCK WRITE: accept based on ACCESS of open file
  (lt.decl && f.acc.present && meetsLA lt f.acc) ||
  (f.lt.decl && ((acc.present && meetsLA f.lt acc) || (!acc.present && f.lt == .rw)))

/-- `Locks.open_file(name, number, mode, lock_type, access)` -/
def openFile (st : State) (name num : Nat) (mode : Mode) (lt : LT) (acc : Acc) : R State :=
  let ao := listOpen st name none
  if isOutMode mode && !ao.isEmpty then .error E.file_already_open
  else if num = 0 then .ok st
  else if ao.any (conflict lt acc) then .error E.permission_denied
  else
    -- first file to open with unspecified access gets RW access
    let acc' := if lt.present && !acc.present then Acc.rw else acc
    .ok (st.filter (fun f => f.num != num) ++
      [{ num := num, name := name, mode := mode, lt := lt, acc := acc', locks := [], recpos := 0 }])

/-- `Locks.close_file(number)` -/
def closeFile (st : State) (num : Nat) : State := st.filter fun f => f.num != num

def find (st : State) (num : Nat) : Option Entry := st.find? fun f => f.num == num

/-- `Locks.try_access(number, access)`; `a` is `b'R'`, `b'W'` or `b'RW'` -/
def tryAccess (st : State) (num : Nat) (a : Acc) : R Unit :=
  if num = 0 then .ok () else
  match find st num with
  | none => .error keyError
  | some this =>
    if this.acc.present && !meetsAA a this.acc then .error E.path_file_access_error
    else if (listOpen st this.name (some num)).any (fun f => f.lt.decl && meetsLA f.lt a)
      then .error E.path_file_access_error
    else .ok ()

/-- does the requested range `(s, e)` collide with a held lock?  `fixed = false` is the original test
    (only the endpoints of the new range are tested), `fixed = true` the interval-overlap test. -/
def hit (fixed : Bool) (s e : Nat) : Rng → Bool
  | .whole => true
  | .range s1 e1 =>
    if fixed then decide (s ≤ e1) && decide (e ≥ s1)
    else (decide (s ≥ s1) && decide (s ≤ e1)) || (decide (e ≥ s1) && decide (e ≤ e1))

/-- the union of the lock sets that `_try_record_lock` looks at -/
def otherLocks (st : State) (this : Entry) (num : Nat) (allowSelf readOnly : Bool) : List Rng :=
  ((listOpen st this.name (if allowSelf then some num else none)).filter
      -- access parameter only exists to allow reading a record on locked OUTPUT file
      (fun f => !(isOutMode f.mode && readOnly))).flatMap (fun f => f.locks)

/-- `Locks._try_record_lock(number, start, stop, allow_self, read_only)` -/
def tryRecordLock (fixed : Bool) (st : State) (num : Nat) (rng : Rng) (allowSelf readOnly : Bool) : R Unit :=
  match find st num with
  | none => .error keyError
  | some this =>
    let held := otherLocks st this num allowSelf readOnly
    match rng with
    | .whole => if held.isEmpty then .ok () else .error E.permission_denied
    | .range s e => if held.any (hit fixed s e) then .error E.permission_denied else .ok ()

/-- `Locks.try_record_access(number, start, stop, access)` -/
def tryRecordAccess (fixed : Bool) (st : State) (num : Nat) (rng : Rng) (a : Acc) : R Unit :=
  match tryAccess st num a with
  | .error e => .error e
  | .ok () => tryRecordLock fixed st num rng true (a == .r)

def addLock (rng : Rng) (l : List Rng) : List Rng := if rng ∈ l then l else l ++ [rng]

def updLocks (st : State) (num : Nat) (g : List Rng → List Rng) : State :=
  st.map fun f => if f.num = num then { f with locks := g f.locks } else f

/-- `Locks.acquire_record_lock(number, start, stop)` -/
def acquire (fixed : Bool) (st : State) (num : Nat) (rng : Rng) : R State :=
  match tryRecordLock fixed st num rng false false with
  | .error e => .error e
  | .ok () => .ok (updLocks st num (addLock rng))

/-- `Locks.release_record_lock(number, start, stop)` -/
def release (st : State) (num : Nat) (rng : Rng) : R State :=
  match find st num with
  | none => .error keyError
  | some this =>
    if rng ∈ this.locks then .ok (updLocks st num (fun l => l.filter (fun r => r != rng)))
    else .error E.permission_denied

/-! ### the statements that reach the lock manager (devices/files.py) -/

inductive Cmd
  | open (name num : Nat) (mode : Mode) (acc : Acc) (lt : LT)
  | close (num : Nat)
  | closeAll
  | lock (num : Nat) (s e : Option Nat)
  | unlock (num : Nat) (s e : Option Nat)
  | get (num : Nat) (pos : Option Nat)
  | put (num : Nat) (pos : Option Nat)
  deriving Repr

/-- The record that a (possibly fractional, non-negative) record-number value `n/d` denotes: nearest
    integer, halves to even — Python `round()` of the single-precision value, as in `Files._check_pos`
    (GET/PUT) and `Files._get_lock_limits` (LOCK/UNLOCK).  Both statements must use the same rounding, or
    "the record LOCK n locks" is not "the record GET n reads". -/
def roundHalfEven (n d : Nat) : Nat :=
  let q := n / d
  let r2 := 2 * (n % d)
  if r2 < d then q else if r2 > d then q + 1 else if q % 2 = 0 then q else q + 1

def maxLockRec : Nat := 2^25 - 2
def maxRec : Nat := 2^25

/-- `Files._get_lock_limits` (record numbers are assumed exactly representable in single precision) -/
def lockLimits (s e : Option Nat) : R Rng :=
  match s, e with
  | none, none => .ok .whole
  | _, _ =>
    let s' := s.getD 1
    let e' := e.getD s'
    if s' < 1 || s' > maxLockRec || e' < 1 || e' > maxLockRec then .error E.bad_record_number
    else .ok (.range s' e')

/-- the mode/ACCESS consistency checks of `Files.open_` -/
def openSyntax (mode : Mode) (acc : Acc) : Option Nat :=
  if acc.present then
    if mode == .A && acc == .w then some E.path_file_access_error
    else if (mode == .I && acc != .r) || (mode == .O && acc != .w) || (mode == .A && acc != .rw)
      then some E.stx
    else none
  else none

def setRecpos (st : State) (num : Nat) (p : Nat) : State :=
  st.map fun f => if f.num = num then { f with recpos := p } else f

/-- `RandomFile._set_record_pos`: the record pointer after an optional explicit record number -/
def startPos (this : Entry) (pos : Option Nat) : Nat :=
  match pos with
  | some p => p - 1
  | none => this.recpos

/-- `RandomFile.get` / `put` after the file-number checks -/
def getPut (fixed : Bool) (st : State) (num : Nat) (this : Entry) (pos : Option Nat) (a : Acc) : State × Nat :=
  let rp := startPos this pos
  let st1 := setRecpos st num rp
  match tryRecordAccess fixed st1 num (.range (rp + 1) (rp + 1)) a with
  | .error e => (st1, e)
  | .ok () => (setRecpos st1 num (rp + 1), 0)

/-- `LOCK` / `UNLOCK` after the file-number checks: text files ignore the bounds -/
def lockTarget (this : Entry) (rng : Rng) : Rng := if this.mode == .R then rng else .whole

/-- one statement; returns the new state and the BASIC error number (0 = no error).
    `maxFiles` is `Files.max_files`. -/
def exec (fixed : Bool) (maxFiles : Nat) (st : State) : Cmd → State × Nat
  | .open name num mode acc lt =>
    if num > 255 then (st, E.illegal_function_call) else
    match openSyntax mode acc with
    | some e => (st, e)
    | none =>
      if num < 1 || num > maxFiles then (st, E.bad_file_number)
      else if (find st num).isSome then (st, E.file_already_open)
      else match openFile st name num mode lt acc with
        | .error e => (st, e)
        | .ok st' => (st', 0)
  | .close num => if num > 255 then (st, E.illegal_function_call) else (closeFile st num, 0)
  | .closeAll => ([], 0)
  | .lock num s e =>
    if num > 255 then (st, E.illegal_function_call) else
    match find st num with
    | none => (st, E.bad_file_number)
    | some this =>
      match lockLimits s e with
      | .error err => (st, err)
      | .ok rng =>
        match acquire fixed st num (lockTarget this rng) with
        | .error err => (st, err)
        | .ok st' => (st', 0)
  | .unlock num s e =>
    if num > 255 then (st, E.illegal_function_call) else
    match find st num with
    | none => (st, E.bad_file_number)
    | some this =>
      match lockLimits s e with
      | .error err => (st, err)
      | .ok rng =>
        match release st num (lockTarget this rng) with
        | .error err => (st, err)
        | .ok st' => (st', 0)
  | .get num pos => getPutCmd st num pos .r
  | .put num pos => getPutCmd st num pos .w
where
  getPutCmd (st : State) (num : Nat) (pos : Option Nat) (a : Acc) : State × Nat :=
    if num > 255 then (st, E.illegal_function_call)
    else if num < 1 then (st, E.bad_file_number) else
    match find st num with
    | none => (st, E.bad_file_mode)
    | some this =>
      if this.mode != .R then (st, E.bad_file_mode) else
      match pos with
      | some p => if p < 1 || p > maxRec then (st, E.bad_record_number) else getPut fixed st num this pos a
      | none => getPut fixed st num this pos a

/-- the state after a history of statements (errors leave the files open, as in direct mode or
    under ON ERROR ... RESUME NEXT) -/
def run (fixed : Bool) (maxFiles : Nat) (st : State) : List Cmd → State
  | [] => st
  | c :: cs => run fixed maxFiles (exec fixed maxFiles st c).1 cs

end PcbV.Locks
