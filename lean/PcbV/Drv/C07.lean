import PcbV.Drv.MbfCommon
import PcbV.Model.Decimal
namespace PcbV.Drv.C07
open PcbV PcbV.Mbf PcbV.Decimal

def nfOf : String → Option NumFmt
  | "s" => some sng
  | "d" => some dbl
  | _ => none

def flag : String → Option Bool
  | "1" => some true
  | "0" => some false
  | _ => none

def showNum : Num → String
  | .int w => "i " ++ toHex (MbfCommon.leBytes 2 w)
  | .sgl x => "s " ++ toHex (MbfCommon.toBytes single x)
  | .dbl x => "d " ++ toHex (MbfCommon.toBytes double x)

def showParsed : Parsed → String
  | .val v => "ok " ++ showNum v
  | .softErr c v => "soft " ++ toString c ++ " " ++ showNum v
  | .err c => "err " ++ toString c
  | .unmodelled => "unmodelled"

def showText : Option Bytes → String
  | some b => "ok " ++ toHex b
  | none => "nofuel"

/-- requests:
    `tostr <i|s|d> <hex> <leading_space> <type_sign>`   → text of `to_repr`
    `todec <s|d> <hex> <digits>`                        → `to_decimal(digits)`
    `scan <hexword> <allow_nonnum>`                     → `str_to_decimal`
    `fromdec <s|d> <mantissa> <exp10>`                  → `from_decimal`
    `fromrepr <hexword> <allow_nonnum>`                 → `Values.from_repr`
    `sci <s|d> <hexdigits> <exp10> <digits_to_dot> <force_dot>`, `fix <s|d> <hexdigits> <exp10> <ts> <fd> <grp>`
    everything else: the shared MBF protocol -/
def handle : List String → String
  | ["tostr", "i", h, ls, ts] =>
    match ofHex h, flag ls, flag ts with
    | some b, some ls, some ts =>
      if b.length = 2 then showText (toRepr (.int (b.foldr (fun x acc => x + 256 * acc) 0)) ls ts) else "bad-op"
    | _, _, _ => "bad-op"
  | ["tostr", fs, h, ls, ts] =>
    match nfOf fs, flag ls, flag ts with
    | some nf, some ls, some ts =>
      match MbfCommon.parse nf.fmt h with
      | some x => showText (floatToStr nf x ls ts)
      | none => "bad-op"
    | _, _, _ => "bad-op"
  | ["todec", fs, h, dg] =>
    match nfOf fs, dg.toInt? with
    | some nf, some dg =>
      match MbfCommon.parse nf.fmt h with
      | some x =>
        match toDecimal nf.fmt x dg with
        | some (m, e) => "ok " ++ toString m ++ " " ++ toString e
        | none => "nofuel"
      | none => "bad-op"
    | _, _ => "bad-op"
  | ["scan", h, al] =>
    match ofHex h, flag al with
    | some w, some al =>
      match strToDecimal w al with
      | some (d, m, e) => "ok " ++ showBool d ++ " " ++ toString m ++ " " ++ toString e
      | none => "valueerror"
    | _, _ => "bad-op"
  | ["fromdec", fs, m, e] =>
    match nfOf fs, m.toInt?, e.toInt? with
    | some nf, some m, some e => MbfCommon.showFR nf.fmt (fromDecimal nf.fmt m e)
    | _, _, _ => "bad-op"
  | ["fromdecold", fs, m, e] =>
    match nfOf fs, m.toInt?, e.toInt? with
    | some nf, some m, some e => MbfCommon.showFR nf.fmt (fromDecimalOld nf.fmt m e)
    | _, _, _ => "bad-op"
  | ["tostrold", fs, h, ls, ts] =>
    match nfOf fs, flag ls, flag ts with
    | some nf, some ls, some ts =>
      match MbfCommon.parse nf.fmt h with
      | some x => showText (floatToStrOld nf x ls ts)
      | none => "bad-op"
    | _, _, _ => "bad-op"
  | ["fromrepr", h, al] =>
    match ofHex h, flag al with
    | some w, some al => showParsed (fromRepr w al)
    | _, _ => "bad-op"
  | ["sci", fs, h, e, dd, fd] =>
    match nfOf fs, ofHex h, e.toInt?, dd.toNat?, flag fd with
    | some nf, some ds, some e, some dd, some fd => "ok " ++ toHex (scientificNotation nf ds e dd fd)
    | _, _, _, _, _ => "bad-op"
  | ["fix", fs, h, e, ts, fd, gr] =>
    match nfOf fs, ofHex h, e.toInt?, flag ts, flag fd, flag gr with
    | some nf, some ds, some e, some ts, some fd, some gr => "ok " ++ toHex (decimalNotation nf ds e ts fd gr)
    | _, _, _, _, _, _ => "bad-op"
  | rest => MbfCommon.handle rest

end PcbV.Drv.C07
