/-
  C40 — a suspended session resumes exactly where it stopped; an altered state file is rejected.

  Subject: PcbV.Model.StateFile (header layout and acceptance decision of state.load_session with
  the format_version comparison added by the repair of D14, zlib's CRC-32 as the bit-serial
  register; the pointer repositioning of Interpreter.__setstate__ as repaired).

  Full strength: `single_byte_alteration_rejected` (every file, every position, every new value,
  no bound on the length) and `accepted_iff_saved`.
  Named gap (`resume_pointer_partial`): what pickle.dumps/loads and zlib do to the Python object
  graph of a session (variables, files, screen, stacks) is runtime behaviour of the Python library
  and is not modelled; only the one piece of logic the interpreter adds on resume - where the program
  pointer is put - is.  The rest of the first half of the statement is covered by the
  correspondence run (real sessions suspended at every line boundary and resumed).
-/
import PcbV.Lemmas.StateFile
import PcbV.Gen.StateHeader
import PcbV.Gen.DataTokens
import Mathlib.Tactic.IntervalCases
namespace PcbV.C40
open PcbV PcbV.StateFile

/-- the model's header layout is the one of the current source (regenerated table) -/
theorem header_layout :
    PcbV.Gen.StateHeader.size = 24 ∧ PcbV.Gen.StateHeader.littleEndian = true ∧
    PcbV.Gen.StateHeader.fieldWidths = [4, 4, 4, 4, 4, 4] ∧
    PcbV.Gen.StateHeader.keys =
      ["checksum", "format_version", "python_major", "python_minor", "pcbasic_major", "pcbasic_minor"] := by
  decide

/-- CRC-32 detects the alteration of any single byte of data of any length. -/
theorem crc32_detects_single_byte (blob : Bytes) (j v : Nat) (hok : Bytes.ok blob) (hj : j < blob.length)
    (hv : v < 256) (hne : blob[j]? ≠ some v) : crc32 (blob.set j v) ≠ crc32 blob :=
  crc32_set_ne hok hj hv hne

/-- **Every single-byte alteration of an accepted state file is rejected**: any file (header ++ blob
    of any length), any position `i` (header or blob), any new byte value `v` different from the old. -/
theorem single_byte_alteration_rejected (e : Expected) (file : Bytes) (i v : Nat)
    (hok : Bytes.ok file) (hacc : accept e file = true) (hi : i < file.length)
    (hv : v < 256) (hne : file[i]? ≠ some v) : accept e (file.set i v) = false := by
  by_cases hlen : file.length < 24
  · rw [accept_short e file hlen] at hacc; cases hacc
  rcases file with _ | ⟨c0, file⟩
  · simp at hlen
  rcases file with _ | ⟨c1, file⟩
  · simp at hlen
  rcases file with _ | ⟨c2, file⟩
  · simp at hlen
  rcases file with _ | ⟨c3, file⟩
  · simp at hlen
  rcases file with _ | ⟨f0, file⟩
  · simp at hlen
  rcases file with _ | ⟨f1, file⟩
  · simp at hlen
  rcases file with _ | ⟨f2, file⟩
  · simp at hlen
  rcases file with _ | ⟨f3, file⟩
  · simp at hlen
  rcases file with _ | ⟨p0, file⟩
  · simp at hlen
  rcases file with _ | ⟨p1, file⟩
  · simp at hlen
  rcases file with _ | ⟨p2, file⟩
  · simp at hlen
  rcases file with _ | ⟨p3, file⟩
  · simp at hlen
  rcases file with _ | ⟨q0, file⟩
  · simp at hlen
  rcases file with _ | ⟨q1, file⟩
  · simp at hlen
  rcases file with _ | ⟨q2, file⟩
  · simp at hlen
  rcases file with _ | ⟨q3, file⟩
  · simp at hlen
  rcases file with _ | ⟨m0, file⟩
  · simp at hlen
  rcases file with _ | ⟨m1, file⟩
  · simp at hlen
  rcases file with _ | ⟨m2, file⟩
  · simp at hlen
  rcases file with _ | ⟨m3, file⟩
  · simp at hlen
  rcases file with _ | ⟨n0, file⟩
  · simp at hlen
  rcases file with _ | ⟨n1, file⟩
  · simp at hlen
  rcases file with _ | ⟨n2, file⟩
  · simp at hlen
  rcases file with _ | ⟨n3, file⟩
  · simp at hlen
  clear hlen
  have b_c0 : c0 < 256 := hok c0 (by simp)
  have b_c1 : c1 < 256 := hok c1 (by simp)
  have b_c2 : c2 < 256 := hok c2 (by simp)
  have b_c3 : c3 < 256 := hok c3 (by simp)
  have b_f0 : f0 < 256 := hok f0 (by simp)
  have b_f1 : f1 < 256 := hok f1 (by simp)
  have b_f2 : f2 < 256 := hok f2 (by simp)
  have b_f3 : f3 < 256 := hok f3 (by simp)
  have b_p0 : p0 < 256 := hok p0 (by simp)
  have b_p1 : p1 < 256 := hok p1 (by simp)
  have b_p2 : p2 < 256 := hok p2 (by simp)
  have b_p3 : p3 < 256 := hok p3 (by simp)
  have b_q0 : q0 < 256 := hok q0 (by simp)
  have b_q1 : q1 < 256 := hok q1 (by simp)
  have b_q2 : q2 < 256 := hok q2 (by simp)
  have b_q3 : q3 < 256 := hok q3 (by simp)
  have b_m0 : m0 < 256 := hok m0 (by simp)
  have b_m1 : m1 < 256 := hok m1 (by simp)
  have b_m2 : m2 < 256 := hok m2 (by simp)
  have b_m3 : m3 < 256 := hok m3 (by simp)
  have b_n0 : n0 < 256 := hok n0 (by simp)
  have b_n1 : n1 < 256 := hok n1 (by simp)
  have b_n2 : n2 < 256 := hok n2 (by simp)
  have b_n3 : n3 < 256 := hok n3 (by simp)
  have hblob : Bytes.ok file := fun x hx => hok x (by simp [hx])
  rw [accept_cons24] at hacc
  obtain ⟨a1, a2, a3, a4, a5, a6⟩ := hacc
  apply Bool.eq_false_iff.mpr
  intro hcon
  by_cases hhead : i < 24
  · -- a header byte: the field it belongs to no longer equals what is required
    interval_cases i <;>
      (simp only [List.set_cons_zero, List.set_cons_succ] at hcon
       rw [accept_cons24] at hcon
       simp at hne
       simp only [le32] at hcon a1 a2 a3 a4 a5 a6
       omega)
  · -- a blob byte: the checksum field is unchanged, the CRC of the blob is not
    obtain ⟨j, rfl⟩ : ∃ j, i = j + 24 := ⟨i - 24, by omega⟩
    simp only [List.set_cons_succ] at hcon
    rw [accept_cons24] at hcon
    have hj : j < file.length := by simp at hi; omega
    have hne' : file[j]? ≠ some v := by simpa using hne
    exact crc32_set_ne hblob hj hv hne' (hcon.1.trans a1.symm)

/-- `struct.unpack('<L')` inverts `struct.pack('<L')` -/
theorem le32_packLe32 (n : Nat) (h : n < 2 ^ 32) :
    le32 (n % 256) (n / 256 % 256) (n / 65536 % 256) (n / 16777216 % 256) = n := by
  unfold le32; omega

theorem crc32_lt (blob : Bytes) (hok : Bytes.ok blob) : crc32 blob < 2 ^ 32 :=
  Nat.xor_lt_two_pow (crcFeed_lt mask32_lt hok) mask32_lt

def Expected.ok (e : Expected) : Prop :=
  e.formatVersion < 2 ^ 32 ∧ e.pythonMajor < 2 ^ 32 ∧ e.pythonMinor < 2 ^ 32 ∧
  e.pcbasicMajor < 2 ^ 32 ∧ e.pcbasicMinor < 2 ^ 32

/-- what `save_session` writes is accepted by `load_session`, which hands back the same blob -/
theorem save_then_load (e : Expected) (blob : Bytes) (he : Expected.ok e) (hok : Bytes.ok blob) :
    load e (save e blob) = .ok blob := by
  obtain ⟨e1, e2, e3, e4, e5⟩ := he
  have hc := crc32_lt blob hok
  simp only [save, packLe32, List.cons_append, List.nil_append, load, split]
  simp [le32_packLe32 _ hc, le32_packLe32 _ e1, le32_packLe32 _ e2, le32_packLe32 _ e3,
    le32_packLe32 _ e4, le32_packLe32 _ e5]

/-- the accepted files are exactly the files `save_session` can have written (for this program
    version): nothing else gets as far as the unpickler -/
theorem accepted_iff_saved (e : Expected) (file : Bytes) (he : Expected.ok e) (hok : Bytes.ok file) :
    accept e file = true ↔ ∃ blob, Bytes.ok blob ∧ file = save e blob := by
  constructor
  · intro hacc
    by_cases hlen : file.length < 24
    · rw [accept_short e file hlen] at hacc; cases hacc
    rcases file with _ | ⟨c0, file⟩
    · simp at hlen
    rcases file with _ | ⟨c1, file⟩
    · simp at hlen
    rcases file with _ | ⟨c2, file⟩
    · simp at hlen
    rcases file with _ | ⟨c3, file⟩
    · simp at hlen
    rcases file with _ | ⟨f0, file⟩
    · simp at hlen
    rcases file with _ | ⟨f1, file⟩
    · simp at hlen
    rcases file with _ | ⟨f2, file⟩
    · simp at hlen
    rcases file with _ | ⟨f3, file⟩
    · simp at hlen
    rcases file with _ | ⟨p0, file⟩
    · simp at hlen
    rcases file with _ | ⟨p1, file⟩
    · simp at hlen
    rcases file with _ | ⟨p2, file⟩
    · simp at hlen
    rcases file with _ | ⟨p3, file⟩
    · simp at hlen
    rcases file with _ | ⟨q0, file⟩
    · simp at hlen
    rcases file with _ | ⟨q1, file⟩
    · simp at hlen
    rcases file with _ | ⟨q2, file⟩
    · simp at hlen
    rcases file with _ | ⟨q3, file⟩
    · simp at hlen
    rcases file with _ | ⟨m0, file⟩
    · simp at hlen
    rcases file with _ | ⟨m1, file⟩
    · simp at hlen
    rcases file with _ | ⟨m2, file⟩
    · simp at hlen
    rcases file with _ | ⟨m3, file⟩
    · simp at hlen
    rcases file with _ | ⟨n0, file⟩
    · simp at hlen
    rcases file with _ | ⟨n1, file⟩
    · simp at hlen
    rcases file with _ | ⟨n2, file⟩
    · simp at hlen
    rcases file with _ | ⟨n3, file⟩
    · simp at hlen
    have b_c0 : c0 < 256 := hok c0 (by simp)
    have b_c1 : c1 < 256 := hok c1 (by simp)
    have b_c2 : c2 < 256 := hok c2 (by simp)
    have b_c3 : c3 < 256 := hok c3 (by simp)
    have b_f0 : f0 < 256 := hok f0 (by simp)
    have b_f1 : f1 < 256 := hok f1 (by simp)
    have b_f2 : f2 < 256 := hok f2 (by simp)
    have b_f3 : f3 < 256 := hok f3 (by simp)
    have b_p0 : p0 < 256 := hok p0 (by simp)
    have b_p1 : p1 < 256 := hok p1 (by simp)
    have b_p2 : p2 < 256 := hok p2 (by simp)
    have b_p3 : p3 < 256 := hok p3 (by simp)
    have b_q0 : q0 < 256 := hok q0 (by simp)
    have b_q1 : q1 < 256 := hok q1 (by simp)
    have b_q2 : q2 < 256 := hok q2 (by simp)
    have b_q3 : q3 < 256 := hok q3 (by simp)
    have b_m0 : m0 < 256 := hok m0 (by simp)
    have b_m1 : m1 < 256 := hok m1 (by simp)
    have b_m2 : m2 < 256 := hok m2 (by simp)
    have b_m3 : m3 < 256 := hok m3 (by simp)
    have b_n0 : n0 < 256 := hok n0 (by simp)
    have b_n1 : n1 < 256 := hok n1 (by simp)
    have b_n2 : n2 < 256 := hok n2 (by simp)
    have b_n3 : n3 < 256 := hok n3 (by simp)
    have hblob : Bytes.ok file := fun x hx => hok x (by simp [hx])
    rw [accept_cons24] at hacc
    obtain ⟨a1, a2, a3, a4, a5, a6⟩ := hacc
    refine ⟨file, hblob, ?_⟩
    simp only [save, packLe32, List.cons_append, List.nil_append, a1, a2, a3, a4, a5, a6, le32]
    simp only [List.cons.injEq, and_true]
    omega
  · rintro ⟨blob, hb, rfl⟩
    simp [accept, save_then_load e blob he hb, Except.isOk, Except.toBool]

/-! ### the program pointer on resume -/

/-- trailing-byte table of the tokenised stream (regenerated from tokens.PLUS_BYTES) -/
def plus (c : Nat) : Nat :=
  match PcbV.Gen.DataTokens.plusBytesTable.find? (fun kv => kv.1 == c) with
  | some kv => kv.2
  | none => 0

/-- PARTIAL (gap: fidelity of pickling the object graph is not modelled, see the file header).
    A session that quit *between* two statements (the event poll at the top of the parse loop)
    resumes with its program pointer exactly where it was - whatever statement was executed last
    (a jump, an IF whose THEN clause is next, an error trap), whatever the code and the
    trailing-byte table. -/
theorem resume_pointer_partial (pl : Nat → Nat) (code : Bytes) (currentStatement pos : Nat) (redo : Bool) :
    resumePos pl code currentStatement pos redo true = pos := by
  simp [resumePos]

/-- a session that quit inside a statement with INPUT pending (`redo_on_break`) starts that
    statement again -/
theorem resume_pointer_redo (pl : Nat → Nat) (code : Bytes) (currentStatement pos : Nat) :
    resumePos pl code currentStatement pos true false = currentStatement := by
  simp [resumePos, resumeInside]

/-- a session that quit inside a statement (e.g. SYSTEM) that is followed by `:` or a line start
    continues at that separator: the statement is not executed again -/
theorem resume_pointer_after_statement (pl : Nat → Nat) (code : Bytes) (cs : Nat)
    (hsep : code[cs]? = some 58) (hnext : code[cs + 1]? = some 0 ∨ code[cs + 1]? = some 58 ∨ code[cs + 1]? = none) :
    resumePos pl code cs (cs + 1) false false = cs + 1 := by
  unfold resumePos resumeInside
  simp only [Bool.false_eq_true, if_false, hsep]
  rcases hnext with h | h | h <;> simp [skipToEnd, h, REM]

/-- `10 GOTO 30 / 20 PRINT 1 / 30 END`, tokenised by the interpreter -/
def gotoProgram : Bytes :=
  [0x00, 0x78, 0x12, 0x0a, 0x00, 0x89, 0x20, 0x0e, 0x1e, 0x00,
   0x00, 0x80, 0x12, 0x14, 0x00, 0x91, 0x20, 0x12,
   0x00, 0x86, 0x12, 0x1e, 0x00, 0x81,
   0x00, 0x00, 0x00]

/-- Defect of the unrepaired `Interpreter.__setstate__`: a session that quit between `GOTO 30`
    (current_statement = 0) and line 30 (pointer = 18) resumed at line 20 (position 10). -/
theorem resume_after_jump_counterexample :
    resumePosOld plus gotoProgram 0 18 false true = 10 ∧ resumePos plus gotoProgram 0 18 false true = 18 := by
  refine ⟨by decide +kernel, by decide +kernel⟩

/-! ### D14 and non-vacuity -/

/-- the header values of the checked build: format 2, Python 3.12, PC-BASIC 2.0 -/
def thisBuild : Expected := ⟨2, 3, 12, 2, 0⟩

/-- `state.save_session({'a': 1}, f)` as written by the real code (49 bytes) -/
def sampleFile : Bytes :=
  [0xa7, 0x5e, 0x0c, 0xd0, 0x02, 0x00, 0x00, 0x00, 0x03, 0x00, 0x00, 0x00, 0x0c, 0x00, 0x00, 0x00,
   0x02, 0x00, 0x00, 0x00, 0x00, 0x00, 0x00, 0x00,
   0x78, 0x9c, 0x6b, 0x60, 0x9d, 0xca, 0xc5, 0x00, 0x01, 0xb5, 0x53, 0x7a, 0x18, 0x13, 0xa7, 0x78,
   0x33, 0x16, 0xeb, 0x01, 0x00, 0x2c, 0xa6, 0x04, 0xa5]

/-- non-vacuity: a real state file is accepted by the model, and it is a well-formed byte list -/
example : accept thisBuild sampleFile = true := by decide +kernel
example : Bytes.ok sampleFile := by unfold Bytes.ok sampleFile; decide
example : Expected.ok thisBuild := by unfold Expected.ok thisBuild; decide
example : sampleFile = save thisBuild (sampleFile.drop 24) := by decide +kernel

/-- D14: `load_session` before the repair loaded a file whose format_version field (byte 4) had
    been altered; the repaired decision rejects it. -/
theorem format_version_alteration_counterexample :
    acceptOld thisBuild (sampleFile.set 4 3) = true ∧ accept thisBuild (sampleFile.set 4 3) = false := by
  decide +kernel

end PcbV.C40
