import PcbV.Model.StateFile
import PcbV.Gen.DataTokens
namespace PcbV.Drv.C40
open PcbV PcbV.StateFile

/-- trailing-byte table of the tokenised stream, regenerated from tokens.PLUS_BYTES -/
def plus (c : Nat) : Nat :=
  match PcbV.Gen.DataTokens.plusBytesTable.find? (fun kv => kv.1 == c) with
  | some kv => kv.2
  | none => 0

def showLoad : Except Reject Bytes → String
  | .ok _ => "ok"
  | .error _ => "rej"

def nats5 (ws : List String) : Option Expected :=
  match ws.map String.toNat? with
  | [some a, some b, some c, some d, some e] => some ⟨a, b, c, d, e⟩
  | _ => none

/-
  crc <hex>                                   -> ok <crc32>
  load <fv> <pyM> <pym> <pcM> <pcm> <hexfile> -> ok | rej        (repaired load_session)
  loadold … same …                            -> ok | rej        (before the repair)
  save <fv> <pyM> <pym> <pcM> <pcm> <hexblob> -> ok <hexfile>
  skip <hexcode> <pos>                        -> ok <pos'>       (skip_to END_STATEMENT)
  resume <hexcode> <current_statement> <pos> <redo 0|1> <between 0|1>  -> ok <pos'>
  resumeold … same …                          -> ok <pos'>
-/
def handle : List String → String
  | ["crc", h] =>
    match ofHex h with
    | some b => "ok " ++ toString (crc32 b)
    | none => "bad-op"
  | [op, a, b, c, d, e, h] =>
    match nats5 [a, b, c, d, e], ofHex h with
    | some ex, some bytes =>
      match op with
      | "load" => showLoad (load ex bytes)
      | "loadold" => showLoad (loadOld ex bytes)
      | "save" => "ok " ++ toHex (save ex bytes)
      | _ => "bad-op"
    | _, _ => "bad-op"
  | ["skip", h, p] =>
    match ofHex h, p.toNat? with
    | some code, some p => "ok " ++ toString (skipToEnd plus code (code.length + 1) p false false)
    | _, _ => "bad-op"
  | [op, h, cs, p, redo, btw] =>
    match ofHex h, cs.toNat?, p.toNat? with
    | some code, some cs, some p =>
      match op with
      | "resume" => "ok " ++ toString (resumePos plus code cs p (redo == "1") (btw == "1"))
      | "resumeold" => "ok " ++ toString (resumePosOld plus code cs p (redo == "1") (btw == "1"))
      | _ => "bad-op"
    | _, _, _ => "bad-op"
  | _ => "bad-op"

end PcbV.Drv.C40
