/-
  Lemmas for C28: legality is a property of the upper-cased name; legal names are ASCII; the directory file system.
-/
import PcbV.Lemmas.DosFiles
namespace PcbV.DosFilesLemmas
open PcbV PcbV.Gen PcbV.Gen.DosTables PcbV.DosNames PcbV.DosFiles PcbV.PathLemmas

/-! ### strip -/

theorem rstrip_sublist (s : Bytes) : (rstrip s).Sublist s := by
  have h := (List.dropWhile_sublist (p := isSpace) (l := s.reverse)).reverse
  simpa [rstrip] using h

theorem lstrip_sublist (s : Bytes) : (lstrip s).Sublist s := List.dropWhile_sublist _

theorem strip_sublist (s : Bytes) : (strip s).Sublist s :=
  (lstrip_sublist _).trans (rstrip_sublist s)

theorem strip_beq_upper (t : Bytes) : (upper t == strip (upper t)) = (t == strip t) := by
  rw [Bool.eq_iff_iff]
  simp only [beq_iff_eq]
  constructor
  · intro h
    rw [strip_upper] at h
    have hl : (strip t).length = t.length := by
      have := congrArg List.length h; simpa [upper_length] using this.symm
    exact ((strip_sublist t).eq_of_length hl).symm
  · intro h
    rw [strip_upper, ← h]

theorem lstrip_self_of_upper {a b : Bytes} (h : upper a = upper b) (hb : b = lstrip b) : a = lstrip a := by
  have h1 : upper (lstrip a) = upper a := by
    rw [← lstrip_upper, h, lstrip_upper, ← hb]
  have hl : (lstrip a).length = a.length := by
    have := congrArg List.length h1; simpa [upper_length] using this
  exact ((lstrip_sublist a).eq_of_length hl).symm

/-! ### legality -/

theorem allowable_small : ∀ c, c < 128 → allowable.contains (upperB c) = allowable.contains c := by
  decide +kernel

theorem allowable_upperB (c : Nat) : allowable.contains (upperB c) = allowable.contains c := by
  by_cases h : c < 128
  · exact allowable_small c h
  · have : upperB c = c := by unfold upperB; split <;> omega
    rw [this]

/-- the part of `dos_is_legal_name` after the split -/
def legalParts (t e : Bytes) : Bool :=
  (decide (t.length ≤ 8) && decide (e.length ≤ 3)) && (t == strip t && e == strip e) &&
  (t ++ e).all (fun c => allowable.contains c)

theorem isLegal_eq (s : Bytes) :
    isLegal s = if isDots s then true else legalParts (splitext s).1 (splitext s).2 := rfl

theorem legalParts_upper (t e : Bytes) : legalParts (upper t) (upper e) = legalParts t e := by
  unfold legalParts
  rw [strip_beq_upper, strip_beq_upper, upper_length, upper_length, ← upper_append]
  congr 1
  have hm : ∀ x, (upperB x ∈ allowable) ↔ (x ∈ allowable) := by
    intro x; have := allowable_upperB x; simpa using this
  simp [upper, List.all_map, Function.comp_def, hm]

theorem isDots_upper (s : Bytes) : isDots (upper s) = isDots s := by
  rw [Bool.eq_iff_iff, isDots_iff, isDots_iff]
  match s with
  | [] => simp [upper]
  | [a] =>
    simp only [upper, List.map_cons, List.map_nil, List.cons.injEq, and_true]
    constructor
    · rintro (h | h)
      · exact Or.inl (upperB_dot h)
      · simp at h
    · rintro (h | h)
      · subst h; left; decide
      · simp at h
  | [a, b] =>
    simp only [upper, List.map_cons, List.map_nil, List.cons.injEq, and_true]
    constructor
    · rintro (h | h)
      · simp at h
      · exact Or.inr ⟨upperB_dot h.1, upperB_dot h.2⟩
    · rintro (h | h)
      · simp at h
      · obtain ⟨h1, h2⟩ := h; subst h1; subst h2; right; decide
  | a :: b :: c :: r => simp [upper]

theorem isLegal_upper (s : Bytes) : isLegal (upper s) = isLegal s := by
  rw [isLegal_eq, isLegal_eq, isDots_upper, splitext_upper, legalParts_upper]

theorem isLegal_of_upper_eq {a b : Bytes} (h : upper a = upper b) : isLegal a = isLegal b := by
  rw [← isLegal_upper a, ← isLegal_upper b, h]

theorem isDots_of_upper_eq {a b : Bytes} (h : upper a = upper b) : isDots a = isDots b := by
  rw [← isDots_upper a, ← isDots_upper b, h]

theorem dots_upper_self {a : Bytes} (h : isDots a = true) : upper a = a := by
  rw [isDots_iff] at h
  rcases h with h | h <;> (subst h; decide)

theorem normalise_of_upper_eq {a b : Bytes} (h : upper a = upper b) : normalise a = normalise b := by
  have hd := isDots_of_upper_eq h
  cases ha : isDots a with
  | true =>
    have hb : isDots b = true := by rw [← hd, ha]
    have : a = b := by rw [← dots_upper_self ha, ← dots_upper_self hb, h]
    rw [this]
  | false =>
    have hb : isDots b = false := by rw [← hd, ha]
    rw [normalise_eq ha, normalise_eq hb]
    have h2 := splitext_upper a
    rw [h, splitext_upper b] at h2
    have hT : normT a = normT b := by simp only [normT]; rw [(Prod.mk.inj h2).1]
    have hE : normE a = normE b := by simp only [normE]; rw [(Prod.mk.inj h2).2]
    rw [hT, hE]

/-- a legal name is cut nowhere: its normal form has the upper-cased parts -/
theorem legal_norm_parts {s : Bytes} (hl : isLegal s = true) (hd : isDots s = false) :
    normT s = upper (splitext s).1 ∧ normE s = upper (splitext s).2 ∧
    legalParts (splitext s).1 (splitext s).2 = true := by
  rw [isLegal_eq, hd] at hl
  simp only [Bool.false_eq_true, ↓reduceIte] at hl
  have h := hl
  simp only [legalParts, Bool.and_eq_true, decide_eq_true_eq] at h
  refine ⟨?_, ?_, hl⟩
  · simp only [normT]; exact List.take_of_length_le (by rw [upper_length]; exact h.1.1.1)
  · simp only [normE]; exact List.take_of_length_le (by rw [upper_length]; exact h.1.1.2)

theorem legal_normalise {s : Bytes} (hl : isLegal s = true) : isLegal (normalise s) = true := by
  cases hd : isDots s with
  | true => simpa [normalise, hd] using hl
  | false =>
    obtain ⟨hT, hE, hp⟩ := legal_norm_parts hl hd
    rw [isLegal_eq, normalise_not_dots hd, splitext_normalise hd, hT, hE, legalParts_upper]
    simpa using hp

/-- a legal name that does not end in a bare dot is normalised to its upper-case form -/
theorem legal_normalise_upper {s : Bytes} (hl : isLegal s = true) (hd : isDots s = false)
    (hdot : 46 ∈ s → (splitext s).2 ≠ []) : normalise s = upper s := by
  obtain ⟨hT, hE, _⟩ := legal_norm_parts hl hd
  rw [normalise_eq hd, hT, hE]
  have hr := splitext_rebuild (upper s)
  rw [splitext_upper] at hr
  by_cases h46 : 46 ∈ s
  · have : 46 ∈ upper s := mem_upper_dot.mpr h46
    rw [if_pos this] at hr
    have hne : (upper (splitext s).2).isEmpty = false := by
      have := hdot h46
      cases hx : (splitext s).2 with
      | nil => exact absurd hx this
      | cons a r => simp [upper]
    rw [hne]; simpa using hr.symm
  · have : 46 ∉ upper s := fun h => h46 (mem_upper_dot.mp h)
    rw [if_neg this] at hr
    have he : (splitext s).2 = [] := by rw [splitext_nodot h46]
    rw [he]; simpa [upper] using hr.symm

/-! ### legal names are ASCII and survive the code page -/

theorem allowable_ascii : ∀ c, c < 256 → (allowable.contains c = true ∨ c = 46) →
    (cpTable.getD c 65533 = c ∧ c < 128 ∧ c ≠ 0) := by decide +kernel

theorem allowable_lt : ∀ c ∈ allowable, c < 256 := by decide

theorem legal_chars {s : Bytes} (hl : isLegal s = true) : ∀ c ∈ s, allowable.contains c = true ∨ c = 46 := by
  intro c hc
  cases hd : isDots s with
  | true =>
    rw [isDots_iff] at hd
    rcases hd with h | h <;> (subst h; simp at hc; exact Or.inr hc)
  | false =>
    rw [isLegal_eq, hd] at hl
    simp only [Bool.false_eq_true, ↓reduceIte, legalParts, Bool.and_eq_true, List.all_eq_true] at hl
    rcases mem_splitext s c hc with h | h | h
    · exact Or.inr h
    · exact Or.inl (hl.2 c (List.mem_append_left _ h))
    · exact Or.inl (hl.2 c (List.mem_append_right _ h))

theorem legal_char_facts {s : Bytes} (hl : isLegal s = true) :
    ∀ c ∈ s, cpTable.getD c 65533 = c ∧ c < 128 ∧ c ≠ 0 := by
  intro c hc
  have h := legal_chars hl c hc
  have hlt : c < 256 := by
    rcases h with h | h
    · exact allowable_lt c (by simpa using h)
    · omega
  exact allowable_ascii c hlt h

theorem legal_toUni {s : Bytes} (hl : isLegal s = true) : toUni s = s := by
  have h := legal_char_facts hl
  simp only [toUni]
  conv => rhs; rw [← List.map_id s]
  apply List.map_congr_left
  intro c hc; exact (h c hc).1

theorem legal_ascii {s : Bytes} (hl : isLegal s = true) : s.all (· < 128) = true := by
  simp only [List.all_eq_true, decide_eq_true_eq]
  exact fun c hc => (legal_char_facts hl c hc).2.1

theorem legal_no_nul {s : Bytes} (hl : isLegal s = true) : s.contains 0 = false := by
  cases h : s.contains 0 with
  | false => rfl
  | true =>
    have := (legal_char_facts hl 0 (by simpa using h)).2.2
    exact absurd rfl this

/-! ### the directory as a file system -/

theorem istype_dir (d : Dir) (u : HostName) :
    istype (dirFS d) root u false = (!u.contains 0 && (!u.isEmpty && d.contains u)) := by
  unfold istype
  by_cases h : 0 ∈ u
  · simp [h]
  · simp [h, dirFS, joinC, root]

theorem istype_mem {d : Dir} {u : HostName} (h : istype (dirFS d) root u false = true) : u ∈ d := by
  rw [istype_dir] at h
  simp only [Bool.and_eq_true] at h
  simpa using h.2.2

theorem istype_of_legal_mem {d : Dir} {u : HostName} (hl : isLegal u = true) (hne : u ≠ []) (hm : u ∈ d) :
    istype (dirFS d) root u false = true := by
  rw [istype_dir, legal_no_nul hl]
  cases u with
  | nil => exact absurd rfl hne
  | cons a r => simpa using hm

end PcbV.DosFilesLemmas
