import PcbV.Model.KeyBuf
/-
  Lemmas about `PcbV.KeyBuf` used by the C37 property theorems (PcbV.Props.C37): the representation
  invariant `Inv` / `Bounded`, the effect of append/getc/ring_set_boundaries on the list of waiting
  keystrokes, the ring-index arithmetic, and their preservation along histories.
-/
namespace PcbV.C37
open PcbV PcbV.KeyBuf

/-- representation invariant of `KeyboardBuffer` -/
def Inv (s : KB) : Prop := 1 ≤ s.start ∧ s.start ≤ s.buf.length ∧ 16 ≤ s.buf.length
def Bounded (s : KB) : Prop := s.buf.length ≤ s.start + 15

theorem waiting_length (s : KB) : (waiting s).length = s.buf.length - s.start := by
  simp [waiting]

theorem pyIdx_ok (len : Nat) (i : Nat) (h : i < len) : pyIdx len (i : Int) = some i := by
  unfold pyIdx
  have : (0:Int) ≤ i := by omega
  simp [this]; omega

theorem append_waiting (s : KB) (c : Bytes) (scan : Nat) (cf : Bool) (hi : Inv s) :
    waiting (append s c scan cf) =
      if c = [] then waiting s
      else if cf = true ∧ (waiting s).length ≥ 15 then waiting s
      else waiting s ++ [(c, scan)] := by
  obtain ⟨h1, h2, h3⟩ := hi
  unfold append
  by_cases hc : c = []
  · simp [hc]
  · have hc' : c.isEmpty = false := by cases c <;> simp_all
    rw [if_neg (by simp [hc']), if_neg hc]
    by_cases hf : cf = true ∧ (waiting s).length ≥ 15
    · have : (cf && decide (s.buf.length - s.start ≥ 16 - 1)) = true := by
        rw [waiting_length] at hf; simp [hf.1]; omega
      rw [if_pos this, if_pos hf]
      have e : ((s.start : Int) - 1) = ((s.start - 1 : Nat) : Int) := by omega
      rw [e, pyIdx_ok _ _ (by omega)]
      simp only [waiting]
      rw [List.drop_set_of_lt (by omega)]
    · have : (cf && decide (s.buf.length - s.start ≥ 16 - 1)) = false := by
        rw [waiting_length] at hf
        cases cf <;> simp at hf ⊢; omega
      rw [if_neg (by simp [this]), if_neg hf]
      simp only [waiting]
      rw [List.drop_append_of_le_length h2]

theorem append_inv (s : KB) (c : Bytes) (scan : Nat) (cf : Bool) (hi : Inv s) : Inv (append s c scan cf) := by
  obtain ⟨h1, h2, h3⟩ := hi
  unfold append
  split
  · exact ⟨h1, h2, h3⟩
  · split
    · split <;> simp [Inv, *]
    · simp [Inv]; omega


theorem getc_spec (s : KB) (hi : Inv s) :
    (waiting s = [] → getc s = ([], s)) ∧
    (∀ k t, waiting s = k :: t → (getc s).1 = k.1 ∧ waiting (getc s).2 = t ∧ Inv (getc s).2
        ∧ (getc s).2.buf = s.buf ∧ (getc s).2.start = s.start + 1) := by
  obtain ⟨h1, h2, h3⟩ := hi
  constructor
  · intro h
    have : s.buf.length ≤ s.start := by
      have := waiting_length s; rw [h] at this; simp at this; omega
    unfold getc
    rw [List.getElem?_eq_none this]
  · intro k t h
    have hl : s.start < s.buf.length := by
      have := waiting_length s; rw [h] at this; simp at this; omega
    have hd : waiting s = s.buf[s.start] :: s.buf.drop (s.start + 1) := by
      simp [waiting]
    rw [hd] at h
    injection h with hk ht
    unfold getc
    rw [List.getElem?_eq_getElem hl]
    refine ⟨by rw [hk], ?_, ⟨?_, ?_, h3⟩, rfl, rfl⟩
    · simpa [waiting] using ht
    · show 1 ≤ s.start + 1; omega
    · show s.start + 1 ≤ s.buf.length; omega

theorem ringIndex_window (len p : Nat) (h1 : len ≤ p + 16) (h2 : p < len) :
    ringIndex len ((p % 16 : Nat) : Int) = (p : Int) := by
  unfold ringIndex
  simp only
  split <;> omega

theorem ringRead_window (s : KB) (p : Nat) (h1 : s.buf.length ≤ p + 16) (h2 : p < s.buf.length) :
    ringRead s ((p % 16 : Nat) : Int) = s.buf[p] := by
  unfold ringRead
  rw [ringIndex_window _ _ h1 h2, pyIdx_ok _ _ h2]
  simp [List.getD_eq_getElem?_getD, h2]


theorem mod16_toNat_lt (a : Int) : (a % 16).toNat < 16 := by omega

theorem setBoundaries_shape (s : KB) (a b : Int) :
    (setBoundaries s a b).buf.length = 16 + (b % 16).toNat ∧
    (setBoundaries s a b).start = 16 + (b % 16).toNat - ((b % 16).toNat + 16 - (a % 16).toNat) % 16 := by
  have hb := mod16_toNat_lt b
  have hl : (setBoundaries s a b).buf.length = 16 + (b % 16).toNat := by
    simp only [setBoundaries, List.length_append, List.length_replicate, List.length_drop, List.length_take,
      List.length_map, List.length_range]
    omega
  refine ⟨hl, ?_⟩
  show (setBoundaries s a b).buf.length - _ = _
  rw [hl]

theorem setBoundaries_inv (s : KB) (a b : Int) :
    Inv (setBoundaries s a b) ∧ Bounded (setBoundaries s a b) := by
  obtain ⟨h1, h2⟩ := setBoundaries_shape s a b
  have ha := mod16_toNat_lt a
  have hb := mod16_toNat_lt b
  unfold Inv Bounded
  rw [h1, h2]; omega

theorem setBoundaries_pointers (s : KB) (a b : Int) :
    startP (setBoundaries s a b) = (a % 16).toNat ∧ stopP (setBoundaries s a b) = (b % 16).toNat ∧
    (waiting (setBoundaries s a b)).length = ((b % 16).toNat + 16 - (a % 16).toNat) % 16 := by
  obtain ⟨h1, h2⟩ := setBoundaries_shape s a b
  have ha := mod16_toNat_lt a
  have hb := mod16_toNat_lt b
  unfold startP stopP length
  rw [waiting_length, h1, h2]
  omega


theorem ringRead_rot (ring : List Key) (hr : ring.length = 16) (np : Nat) (hnp : np < 16) (st : Nat)
    (i : Nat) (hi : i < 16) :
    ringRead { buf := List.replicate np zeroKey ++ ring.drop np ++ ring.take np, start := st } (i : Int)
      = ring.getD i zeroKey := by
  have hL : (List.replicate np zeroKey ++ ring.drop np ++ ring.take np).length = 16 + np := by
    simp [hr]; omega
  unfold ringRead
  simp only [hL]
  by_cases hlt : i < np
  · have e : ringIndex (16 + np) (i : Int) = ((16 + i : Nat) : Int) := by
      unfold ringIndex; simp only; split <;> omega
    rw [e, pyIdx_ok _ _ (by omega)]
    simp only [List.getD_eq_getElem?_getD]
    rw [List.getElem?_append_right (by simp [hr]; omega)]
    have : 16 + i - (List.replicate np zeroKey ++ List.drop np ring).length = i := by
      simp [hr]; omega
    rw [this, List.getElem?_take]
    simp [hlt]
  · have e : ringIndex (16 + np) (i : Int) = ((i : Nat) : Int) := by
      unfold ringIndex; simp only; split <;> omega
    rw [e, pyIdx_ok _ _ (by omega)]
    simp only [List.getD_eq_getElem?_getD]
    rw [List.getElem?_append_left (by simp [hr]; omega)]
    rw [List.getElem?_append_right (by simp; omega)]
    simp only [List.length_replicate, List.getElem?_drop]
    have : np + (i - np) = i := by omega
    rw [this]

theorem setBoundaries_keeps_slots (s : KB) (a b : Int) (hi : Inv s) (hb : Bounded s) (i : Nat) (h : i < 16) :
    ringRead (setBoundaries s a b) (i : Int) = ringRead s (i : Int) := by
  obtain ⟨h1, h2, h3⟩ := hi
  have htake : s.buf.take (s.start + 16) = s.buf := List.take_of_length_le (by unfold Bounded at hb; omega)
  have hs : ({ s with buf := s.buf.take (s.start + 16) } : KB) = s := by
    rw [htake]
  unfold setBoundaries
  simp only [hs]
  rw [ringRead_rot _ (by simp) _ (mod16_toNat_lt b) _ i h]
  simp [List.getD_eq_getElem?_getD, h]


/-! ### invariants along histories -/

theorem init_inv : Inv init ∧ Bounded init := by
  unfold Inv Bounded init; simp

theorem ringWrite_shape (s : KB) (i : Int) (k : Key) :
    (ringWrite s i k).buf.length = s.buf.length ∧ (ringWrite s i k).start = s.start := by
  unfold ringWrite; split <;> simp

theorem pokeMem_inv (s : KB) (a v : Nat) (hi : Inv s) (hb : Bounded s) :
    Inv (pokeMem s a v) ∧ Bounded (pokeMem s a v) := by
  unfold pokeMem
  split
  · exact setBoundaries_inv _ _ _
  · split
    · exact setBoundaries_inv _ _ _
    · split
      · obtain ⟨e1, e2⟩ := ringWrite_shape s
          (((a - 1024 - 30) / 2 : Nat) : Int)
          (if (a - 1024 - 30) % 2 ≠ 0 then ((ringRead s (((a - 1024 - 30) / 2 : Nat) : Int)).1, v)
            else if v = 0 ∨ v = 224 then ([], (ringRead s (((a - 1024 - 30) / 2 : Nat) : Int)).2)
            else ([v], (ringRead s (((a - 1024 - 30) / 2 : Nat) : Int)).2))
        unfold Inv Bounded at *
        simp only [] at e1 e2 ⊢
        rw [e1, e2]; exact ⟨hi, hb⟩
      · exact ⟨hi, hb⟩

def NoInject : Op → Prop
  | .inject _ => False
  | _ => True

/-- operations whose effect on the queue the statement specifies: everything but raw POKEs -/
def FifoOp : Op → Prop
  | .poke _ _ => False
  | _ => True

instance : DecidablePred NoInject := fun op => by cases op <;> unfold NoInject <;> infer_instance
instance : DecidablePred FifoOp := fun op => by cases op <;> unfold FifoOp <;> infer_instance

theorem append_bounded (s : KB) (c : Bytes) (scan : Nat) (hi : Inv s) (hb : Bounded s) :
    Bounded (append s c scan true) := by
  have h := append_waiting s c scan true hi
  have hl := waiting_length (append s c scan true)
  have hl0 := waiting_length s
  have hi' := append_inv s c scan true hi
  unfold Bounded Inv at *
  rw [h] at hl
  split at hl
  · omega
  · split at hl
    · omega
    · rename_i hn
      simp at hl hn
      omega

theorem step_inv (s : KB) (op : Op) (hi : Inv s) : Inv (step s op).1 := by
  cases op with
  | press c scan => exact append_inv s c scan true hi
  | inject c => exact append_inv s c 0 false hi
  | read =>
    show Inv (getc s).2
    cases hw : waiting s with
    | nil => rw [(getc_spec s hi).1 hw]; exact hi
    | cons k t => exact ((getc_spec s hi).2 k t hw).2.2.1
  | peek a => exact hi
  | poke a v =>
    show Inv (pokeMem s a v)
    unfold pokeMem
    split
    · exact (setBoundaries_inv _ _ _).1
    · split
      · exact (setBoundaries_inv _ _ _).1
      · split
        · obtain ⟨e1, e2⟩ := ringWrite_shape s
            (((a - 1024 - 30) / 2 : Nat) : Int)
            (if (a - 1024 - 30) % 2 ≠ 0 then ((ringRead s (((a - 1024 - 30) / 2 : Nat) : Int)).1, v)
              else if v = 0 ∨ v = 224 then ([], (ringRead s (((a - 1024 - 30) / 2 : Nat) : Int)).2)
              else ([v], (ringRead s (((a - 1024 - 30) / 2 : Nat) : Int)).2))
          unfold Inv at *
          simp only [] at e1 e2 ⊢
          rw [e1, e2]; exact hi
        · exact hi
  | clear => exact (setBoundaries_inv _ _ _).1

theorem step_bounded (s : KB) (op : Op) (hn : NoInject op) (hi : Inv s) (hb : Bounded s) :
    Bounded (step s op).1 := by
  cases op with
  | press c scan => exact append_bounded s c scan hi hb
  | inject c => exact absurd hn (by simp [NoInject])
  | read =>
    show Bounded (getc s).2
    cases hw : waiting s with
    | nil => rw [(getc_spec s hi).1 hw]; exact hb
    | cons k t =>
      obtain ⟨_, _, _, e1, e2⟩ := (getc_spec s hi).2 k t hw
      unfold Bounded at *; rw [e1, e2]; omega
  | peek a => exact hb
  | poke a v => exact (pokeMem_inv s a v hi hb).2
  | clear => exact (setBoundaries_inv _ _ _).2

theorem run_inv (ops : List Op) (s : KB) (hi : Inv s) : Inv (run s ops).2 := by
  induction ops generalizing s with
  | nil => exact hi
  | cons op rest ih => exact ih _ (step_inv s op hi)

theorem run_bounded (ops : List Op) (s : KB) (hn : ∀ op ∈ ops, NoInject op) (hi : Inv s) (hb : Bounded s) :
    Bounded (run s ops).2 := by
  induction ops generalizing s with
  | nil => exact hb
  | cons op rest ih =>
    exact ih _ (fun o ho => hn o (List.mem_cons_of_mem _ ho)) (step_inv s op hi)
      (step_bounded s op (hn op List.mem_cons_self) hi hb)

theorem stopP_lt (s : KB) : stopP s < 16 := by unfold stopP; omega
theorem startP_lt (s : KB) : startP s < 16 := by unfold startP; omega

theorem peek_tail (s : KB) : peekMem s 1052 = stopP s * 2 + 30 := by
  have := stopP_lt s
  simp [peekMem]; omega

theorem peek_head (s : KB) : peekMem s 1050 = startP s * 2 + 30 := by
  have := startP_lt s
  simp [peekMem]; omega


theorem peekMem_slot (s : KB) (a : Nat) (h1 : 1054 ≤ a) (h2 : a < 1086) :
    peekMem s a = if (a - 1054) % 2 ≠ 0 then (ringRead s (((a - 1054) / 2 : Nat) : Int)).2
      else firstByte (ringRead s (((a - 1054) / 2 : Nat) : Int)).1 := by
  unfold peekMem
  have e : a - 1024 - 30 = a - 1054 := by omega
  rw [if_neg (show ¬ a = 1050 by omega), if_neg (show ¬ a = 1051 by omega), if_neg (show ¬ a = 1052 by omega),
    if_neg (show ¬ a = 1053 by omega), if_pos (show 1024 + 30 ≤ a ∧ a < 1024 + 30 + 32 by omega)]
  simp only [e]

theorem peek_slot (s : KB) (i : Nat) (h : i < 16) :
    peekMem s (1054 + 2 * i) = firstByte (ringRead s (i : Int)).1 ∧
    peekMem s (1055 + 2 * i) = (ringRead s (i : Int)).2 := by
  constructor
  · generalize ha : 1054 + 2 * i = a
    rw [peekMem_slot s a (by omega) (by omega)]
    have e1 : (a - 1054) / 2 = i := by omega
    have e2 : (a - 1054) % 2 = 0 := by omega
    simp [e1, e2]
  · generalize ha : 1055 + 2 * i = a
    rw [peekMem_slot s a (by omega) (by omega)]
    have e1 : (a - 1054) / 2 = i := by omega
    have e2 : (a - 1054) % 2 = 1 := by omega
    simp [e1, e2]

theorem old_padLoop_none (fuel : Nat) (start a : Int) (buf : List Key) (h : a < 0 ∨ 16 ≤ a) :
    Old.padLoop fuel start a buf = none := by
  induction fuel generalizing start buf with
  | zero => rfl
  | succ n ih =>
    unfold Old.padLoop
    rw [if_pos (by omega)]
    exact ih _ _

end PcbV.C37
