import PcbV.Model.UserFn
namespace PcbV.Drv.C20
open PcbV PcbV.Heap PcbV.UserFn

def parseTy (c : Char) : Option Ty :=
  match c with
  | 'i' => some .int
  | 's' => some .sng
  | 'd' => some .dbl
  | '$' => some .str
  | _ => none

def splitDot (s : String) : Option (Nat × Nat) :=
  match s.splitOn "." with
  | [a, b] => match a.toNat?, b.toNat? with
              | some a, some b => some (a, b)
              | _, _ => none
  | _ => none

mutual
/-- prefix notation, tokens separated by `,`:
    N<t><q> | K<addr>.<len> | V<hexname> | + e e | GE | GZ | F | R<n>.<c> | C<hexname>.<nargs> e… -/
def parseExpr : Nat → List String → Option (FExpr × List String)
  | 0, _ => none
  | _, [] => none
  | fuel + 1, t :: rest =>
    match t.toList with
    | 'N' :: c :: r => do
        let ty ← parseTy c
        let q ← (String.ofList r).toInt?
        pure (FExpr.nlit ty q, rest)
    | 'K' :: r => (splitDot (String.ofList r)).map (fun x => (FExpr.code x.1 x.2, rest))
    | 'V' :: r => (ofHex (String.ofList r)).map (fun b => (FExpr.var b, rest))
    | ['+'] =>
      match parseExpr fuel rest with
      | some (a, rest1) =>
        match parseExpr fuel rest1 with
        | some (b, rest2) => some (FExpr.plus a b, rest2)
        | none => none
      | none => none
    | ['G', 'E'] => some (FExpr.gcEmpty, rest)
    | ['G', 'Z'] => some (FExpr.gcZero, rest)
    | ['F'] => some (FExpr.fail, rest)
    | 'R' :: r => (splitDot (String.ofList r)).map (fun x => (FExpr.rep x.1 x.2, rest))
    | 'C' :: r =>
      match (String.ofList r).splitOn "." with
      | [f, n] =>
        match ofHex f, n.toNat? with
        | some f, some n =>
          match parseArgs fuel n rest with
          | some (args, rest1) => some (FExpr.call f args, rest1)
          | none => none
        | _, _ => none
      | _ => none
    | _ => none

def parseArgs : Nat → Nat → List String → Option (List FExpr × List String)
  | 0, _, _ => none
  | _ + 1, 0, rest => some ([], rest)
  | fuel + 1, n + 1, rest =>
    match parseExpr fuel rest with
    | some (a, rest1) =>
      match parseArgs fuel n rest1 with
      | some (l, rest2) => some (a :: l, rest2)
      | none => none
    | none => none
end

def parseE (t : String) : Option FExpr :=
  let toks := t.splitOn ","
  match parseExpr (2 * toks.length + 2) toks with
  | some (e, []) => some e
  | _ => none

def allSome : List (Option α) → Option (List α)
  | [] => some []
  | none :: _ => none
  | some x :: xs => (allSome xs).map (x :: ·)

def parseNames (t : String) : Option (List Bytes) :=
  if t == "-" then some [] else allSome ((t.splitOn ",").map ofHex)

/-- `L:<name>:<e>` | `P:<e>` | `T:<type>:<lo>:<hi>` | `D:<fname>:<params>:<body>` (names as written) -/
def parseStmt (t : String) : Option Stmt :=
  match t.splitOn ":" with
  | ["L", n, e] => do let n ← ofHex n; let e ← parseE e; pure (Stmt.letS n e)
  | ["P", e] => (parseE e).map Stmt.printS
  | ["T", ty, lo, hi] => do
      let ty ← match ty.toList with
               | [c] => parseTy c
               | _ => none
      let lo ← lo.toNat?
      let hi ← hi.toNat?
      pure (Stmt.defType ty lo hi)
  | ["D", n, ps, body] => do
      let n ← ofHex n
      let ps ← parseNames ps
      let b ← parseE body
      pure (Stmt.defFn n ps b)
  | _ => none

def parseCode (t : String) : Option (List (Nat × Bytes)) :=
  if t == "-" then some [] else
  allSome ((t.splitOn ",").map (fun x =>
    match x.splitOn "=" with
    | [a, h] => match a.toNat?, (if h == "" then some [] else ofHex h) with
                | some a, some b => some (a, b)
                | _, _ => none
    | _ => none))

def showBytes (b : Bytes) : String := if b.isEmpty then "-" else toHex b

def showOut : Out → String
  | .done => "k"
  | .num q => "n" ++ toString q
  | .str b => "s" ++ showBytes b
  | .err e => "e" ++ toString e

def dump (s : St) (names : List Bytes) : String :=
  joinWith "," (names.map (fun n =>
    if sigil n = .str then showBytes (readStr s n) else toString (getNum s n)))

/-- `run <codeStart> <varStart> <total> <stackSize> <code> <names> <stmts>` -/
def handle : List String → String
  | ["run", cs, vs, tot, stk, code, names, stmts] =>
    match cs.toNat?, vs.toNat?, tot.toNat?, stk.toNat?, parseCode code, parseNames names,
          allSome ((stmts.splitOn ";").map parseStmt) with
    | some cs, some vs, some tot, some stk, some code, some names, some stmts =>
      let p0 : Prog := ⟨defTy0, [], initSt (init cs vs tot stk code)⟩
      let outs := runStmts stmts p0
      "ok " ++ joinWith ";" (outs.map (fun so =>
        showOut so.2 ++ "/" ++ dump so.1.s names ++ "/" ++ toString so.1.s.busy.length ++ "." ++
          toString so.1.s.h.stack.length))
    | _, _, _, _, _, _, _ => "bad-op"
  | _ => "bad-op"

end PcbV.Drv.C20
