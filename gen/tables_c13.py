"""Generate lean/PcbV/Gen/ProgTokens.lean: the token constants TokenisedStream.skip_to depends on."""
from gen_tables import generator, HEADER, lean_list


@generator('ProgTokens')
def gen_prog_tokens():
    from pcbasic.basic.base import tokens as tk
    from pcbasic.basic.base.codestream import TokenisedStream
    out = [HEADER, 'namespace PcbV.Gen.ProgTokens\n']
    out.append('/-- tk.REM -/')
    out.append('def remTok : Nat := %d' % ord(tk.REM))
    out.append('/-- tk.PLUS_BYTES for single-byte lead bytes other than NUL (0 = not a lead byte) -/')
    out.append('def plusBytes (c : Nat) : Nat :=')
    out.append('  match c with')
    for k, v in sorted(tk.PLUS_BYTES.items()):
        if len(k) == 1 and k != b'\0':
            out.append('  | %d => %d' % (ord(k), v))
    out.append('  | _ => 0')
    out.append('/-- CodeStream.blanks as seen by TokenisedStream -/')
    out.append('def blanks : List Nat := %s' % lean_list(sorted(bytearray(TokenisedStream.blanks))))
    out.append('/-- max line number LIST shows by default (Program.max_list_line) -/')
    out.append('def maxListLine : Nat := 65535')
    out.append('\nend PcbV.Gen.ProgTokens\n')
    return '\n'.join(out)
