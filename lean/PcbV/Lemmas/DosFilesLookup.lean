/-
  Lemmas for C28: the single-trailing-dot rule, `_get_dos_name_defext` under upper-casing.
-/
import PcbV.Lemmas.DosFilesLegal
namespace PcbV.DosFilesLemmas
open PcbV PcbV.Gen PcbV.Gen.DosTables PcbV.DosNames PcbV.DosFiles PcbV.PathLemmas

/-- the name ends in a dot and has no other dot -/
def dottedB (n : Bytes) : Bool := n.getLast? == some 46 && !n.dropLast.contains 46

theorem dottedB_concat (t : Bytes) (a : Nat) : dottedB (t ++ [a]) = (a == 46 && !t.contains 46) := by
  simp [dottedB]

theorem dottedB_upper (n : Bytes) : dottedB (upper n) = dottedB n := by
  rcases List.eq_nil_or_concat n with h | ⟨t, a, h⟩
  · subst h; rfl
  · subst h
    rw [List.concat_eq_append, upper_append]
    show dottedB (upper t ++ [upperB a]) = _
    rw [dottedB_concat, dottedB_concat]
    have h1 : (upperB a == 46) = (a == 46) := by
      have := @upperB_ne_dot a
      simp only [bne] at this
      cases hx : (upperB a == 46) <;> cases hy : (a == 46) <;> simp_all
    have h2 : (upper t).contains 46 = t.contains 46 := by
      rw [Bool.eq_iff_iff]; simp only [List.contains_iff_mem]; exact mem_upper_dot
    rw [h1, h2]

theorem dottedB_iff {n : Bytes} : dottedB n = true ↔ ∃ t, n = t ++ [46] ∧ 46 ∉ t := by
  rcases List.eq_nil_or_concat n with h | ⟨t, a, h⟩
  · subst h; simp [dottedB]
  · subst h
    rw [List.concat_eq_append, dottedB_concat]
    simp only [Bool.and_eq_true, beq_iff_eq, Bool.not_eq_true', List.contains_eq_mem, decide_eq_false_iff_not]
    constructor
    · rintro ⟨h1, h2⟩; exact ⟨t, by rw [h1], by simpa using h2⟩
    · rintro ⟨t', h1, h2⟩
      have := List.append_inj' h1 rfl
      obtain ⟨ht, ha⟩ := this
      simp at ha
      subst ht; exact ⟨ha, by simpa using h2⟩

/-- `_get_native_name`'s single-trailing-dot rule -/
def undot (n : Bytes) : Bytes := if dottedB n = true then n.dropLast else n

theorem undot_upper (n : Bytes) : undot (upper n) = upper (undot n) := by
  unfold undot
  rw [dottedB_upper]
  split
  · simp [upper, List.map_dropLast]
  · rfl

theorem undot_not_dots {n : Bytes} (hd : isDots n = false) : isDots (undot n) = false := by
  unfold undot; split
  · rename_i hc
    simp only [dottedB, Bool.and_eq_true, Bool.not_eq_true'] at hc
    exact dropLast_no_dots hc.2
  · exact hd

/-- a legal name stays legal without its bare trailing dot, and then has an extension whenever it has a dot -/
theorem legal_undot {n : Bytes} (hl : isLegal n = true) (hd : isDots n = false) :
    isLegal (undot n) = true ∧ (46 ∈ undot n → (splitext (undot n)).2 ≠ []) ∧
    normalise (undot n) = normalise n := by
  unfold undot
  split
  · rename_i hc
    obtain ⟨t, hn, ht⟩ := dottedB_iff.mp hc
    subst hn
    have hdl : (t ++ [46]).dropLast = t := by simp
    rw [hdl]
    have hs1 : splitext (t ++ [46]) = (t, []) := splitext_join [] ht
    have hs2 : splitext t = (t, []) := splitext_nodot ht
    have hdt : isDots t = false := by
      cases h : isDots t with
      | false => rfl
      | true => rw [isDots_iff] at h; rcases h with h | h <;> (subst h; simp at ht)
    refine ⟨?_, fun h => absurd h ht, ?_⟩
    · rw [isLegal_eq, hd, hs1] at hl
      rw [isLegal_eq, hdt, hs2]
      simpa using hl
    · rw [normalise_eq hdt, normalise_eq hd]
      simp only [normT, normE, hs1, hs2]
  · rename_i hc
    refine ⟨hl, ?_, rfl⟩
    intro h46 he
    apply hc
    have hr := splitext_rebuild n
    rw [if_pos h46, he] at hr
    rw [dottedB_iff]
    exact ⟨(splitext n).1, hr, no_dot_trunk n⟩

/-- the name a legal spelling creates: its upper-case form without a bare trailing dot -/
theorem legal_norm_undot {n : Bytes} (hl : isLegal n = true) (hd : isDots n = false) :
    normalise (undot n) = upper (undot n) ∧ isLegal (normalise (undot n)) = true := by
  obtain ⟨h1, h2, _⟩ := legal_undot hl hd
  exact ⟨legal_normalise_upper h1 (undot_not_dots hd) h2, legal_normalise h1⟩

/-! ### `_get_dos_name_defext` -/

theorem dosNameDefext_of_upper_eq {a b : Bytes} (x : Bytes) (h : upper a = upper b) :
    upper (dosNameDefext a x) = upper (dosNameDefext b x) := by
  have hr : upper (rstrip a) = upper (rstrip b) := by rw [← rstrip_upper, ← rstrip_upper, h]
  have hc : (rstrip a).contains 46 = (rstrip b).contains 46 := by
    rw [Bool.eq_iff_iff]; simp only [List.contains_iff_mem]
    rw [← mem_upper_dot (s := rstrip a), ← mem_upper_dot (s := rstrip b), hr]
  unfold dosNameDefext
  simp only [hc]
  split
  · rw [upper_append, upper_append, hr]
  · exact hr

end PcbV.DosFilesLemmas
