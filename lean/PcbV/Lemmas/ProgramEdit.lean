import PcbV.Lemmas.Program
/-
  Lemmas about the editing operations of PcbV.Model.Program: the update_line_dict walk,
  decomposition of a sorted record list by a line range, find_pos_line_dict / dict updates on the
  offset table of a serialisation, and the splice of store_line / delete.
-/
namespace PcbV.Program
open PcbV PcbV.Gen

/-! ### the walk along the next-address chain -/

theorem walk_ser (rs : List Rec) : ∀ (fuel add sub a : Nat), rs.length < fuel → a + size rs < 65536 →
    sub ≤ a + add →
    walk fuel add sub a (ser a rs).tail = (ser (a + add - sub) rs).tail := by
  induction rs with
  | nil =>
    intro fuel add sub a hf _ _
    obtain ⟨f, rfl⟩ : ∃ f, fuel = f + 1 := ⟨fuel - 1, by simp at hf; omega⟩
    simp [ser, serRecs, walk]
  | cons r t ih =>
    intro fuel add sub a hf hsz hsub
    obtain ⟨f, rfl⟩ : ∃ f, fuel = f + 1 := ⟨fuel - 1, by simp at hf; omega⟩
    simp only [size] at hsz
    obtain ⟨tl, htl⟩ := ser_head (a + recSize r) t
    obtain ⟨tl', htl'⟩ := ser_head (a + add - sub + recSize r) t
    have hih := ih f add sub (a + recSize r) (by simp at hf; omega) (by omega) (by omega)
    rw [htl] at hih
    have e : a + recSize r + add - sub = a + add - sub + recSize r := by omega
    rw [e, htl'] at hih
    simp only [List.tail_cons] at hih
    rw [ser_cons, ser_cons, htl, htl']
    simp only [List.tail_cons, walk]
    have hnz := lo_hi_not_zero (a + recSize r) (by unfold recSize; omega) (by omega)
    rw [if_neg hnz]
    rw [le16_lo_hi (a + recSize r) (by omega)]
    have hlt : ¬ (a + recSize r < a + 2) := by unfold recSize; omega
    rw [if_neg hlt]
    have hk : a + recSize r - a - 2 = (lo r.1 :: hi r.1 :: (r.2 ++ [0])).length := by
      simp [recSize]; omega
    have hsplit : lo r.1 :: hi r.1 :: (r.2 ++ 0 :: tl) = (lo r.1 :: hi r.1 :: (r.2 ++ [0])) ++ tl := by simp
    rw [hsplit, hk, List.take_left, List.drop_left, hih, e]
    simp

/-! ### a strictly sorted list splits along a line range -/

def Sorted (rs : List Rec) : Prop := rs.Pairwise (fun x y => x.1 < y.1)

def preOf (rs : List Rec) (a : Nat) : List Rec := rs.filter (fun r => decide (r.1 < a))
def midOf (rs : List Rec) (a b : Nat) : List Rec := rs.filter (fun r => decide (a ≤ r.1 ∧ r.1 ≤ b))
def postOf (rs : List Rec) (b : Nat) : List Rec := rs.filter (fun r => decide (b < r.1))

theorem split_sorted (rs : List Rec) (a b : Nat) (hab : a ≤ b) (hs : Sorted rs) :
    rs = preOf rs a ++ midOf rs a b ++ postOf rs b := by
  induction rs with
  | nil => simp [preOf, midOf, postOf]
  | cons r t ih =>
    have hs' : Sorted t := (List.pairwise_cons.mp hs).2
    have hlt : ∀ x ∈ t, r.1 < x.1 := (List.pairwise_cons.mp hs).1
    have ih := ih hs'
    unfold preOf midOf postOf at ih ⊢
    by_cases h1 : r.1 < a
    · have h2 : ¬ (a ≤ r.1 ∧ r.1 ≤ b) := by omega
      have h3 : ¬ (b < r.1) := by omega
      simp only [List.filter_cons, h1, h2, h3, decide_true, decide_false, if_true, if_false,
        Bool.false_eq_true, List.cons_append]
      rw [← ih]
    · have hpre : t.filter (fun r => decide (r.1 < a)) = [] := by
        rw [List.filter_eq_nil_iff]; intro x hx; have := hlt x hx; simp; omega
      by_cases h2 : r.1 ≤ b
      · have h2' : a ≤ r.1 ∧ r.1 ≤ b := by omega
        have h3 : ¬ (b < r.1) := by omega
        rw [hpre] at ih
        simp only [List.filter_cons, h1, h2', h3, decide_true, decide_false, if_true, if_false,
          Bool.false_eq_true, hpre, List.nil_append, List.cons_append, and_self]
        simp only [List.nil_append] at ih
        rw [← ih]
      · have h2' : ¬ (a ≤ r.1 ∧ r.1 ≤ b) := by omega
        have h3 : b < r.1 := by omega
        have hmid : t.filter (fun r => decide (a ≤ r.1 ∧ r.1 ≤ b)) = [] := by
          rw [List.filter_eq_nil_iff]; intro x hx; have := hlt x hx; simp; omega
        have hpost : t.filter (fun r => decide (b < r.1)) = t := by
          rw [List.filter_eq_self]; intro x hx; have := hlt x hx; simp; omega
        simp only [List.filter_cons, h1, h2', h3, decide_true, decide_false, if_true, if_false,
          Bool.false_eq_true, hpre, hmid, hpost, List.nil_append]

theorem mem_preOf {rs : List Rec} {a : Nat} {r : Rec} (h : r ∈ preOf rs a) : r ∈ rs ∧ r.1 < a := by
  unfold preOf at h; simpa using h
theorem mem_midOf {rs : List Rec} {a b : Nat} {r : Rec} (h : r ∈ midOf rs a b) : r ∈ rs ∧ a ≤ r.1 ∧ r.1 ≤ b := by
  unfold midOf at h; simpa using h
theorem mem_postOf {rs : List Rec} {b : Nat} {r : Rec} (h : r ∈ postOf rs b) : r ∈ rs ∧ b < r.1 := by
  unfold postOf at h; simpa using h

/-! ### the offset table -/

theorem mem_offs {xs : List Rec} : ∀ {p : Nat} {e : Nat × Nat}, e ∈ offs p xs → ∃ r ∈ xs, e.1 = r.1 := by
  induction xs with
  | nil => intro p e h; simp [offs] at h
  | cons r t ih =>
    intro p e h
    simp only [offs, List.mem_cons] at h
    rcases h with h | h
    · exact ⟨r, List.mem_cons_self .., by rw [h]⟩
    · obtain ⟨x, hx, hxe⟩ := ih h
      exact ⟨x, List.mem_cons_of_mem _ hx, hxe⟩

theorem filter_offs_none (xs : List Rec) (p : Nat) (P : Nat × Nat → Bool)
    (h : ∀ r ∈ xs, ∀ q, P (r.1, q) = false) : (offs p xs).filter P = [] := by
  rw [List.filter_eq_nil_iff]
  intro e he
  obtain ⟨r, hr, hre⟩ := mem_offs he
  have := h r hr e.2
  rw [← hre] at this
  simp [this]

theorem filter_offs_all (xs : List Rec) (p : Nat) (P : Nat × Nat → Bool)
    (h : ∀ r ∈ xs, ∀ q, P (r.1, q) = true) : (offs p xs).filter P = offs p xs := by
  rw [List.filter_eq_self]
  intro e he
  obtain ⟨r, hr, hre⟩ := mem_offs he
  have := h r hr e.2
  rw [← hre] at this
  exact this

theorem map_shift_offs (xs : List Rec) (b add sub : Nat) : ∀ p, sub ≤ p → (∀ r ∈ xs, b < r.1) →
    (offs p xs).map (fun e => if b < e.1 then (e.1, e.2 + add - sub) else e) = offs (p + add - sub) xs := by
  induction xs with
  | nil => intro p _ _; simp [offs]
  | cons r t ih =>
    intro p hp hb
    have hr := hb r (List.mem_cons_self ..)
    simp only [offs, List.map_cons, hr, if_true]
    rw [ih (p + recSize r) (by omega) (fun x hx => hb x (List.mem_cons_of_mem _ hx))]
    have : p + recSize r + add - sub = p + add - sub + recSize r := by omega
    rw [this]

/-- the three-part form of the dict of `pre ++ mid ++ post` -/
theorem dictOf_three (pre mid post : List Rec) :
    dictOf (pre ++ mid ++ post) = offs 0 pre ++ offs (size pre) mid ++ offs (size pre + size mid) post ++
      [(65536, size pre + size mid + size post)] := by
  unfold dictOf
  simp [offs_append, size_append, Nat.add_assoc]

structure Parts (a b : Nat) (pre mid post : List Rec) : Prop where
  pre_lt : ∀ r ∈ pre, r.1 < a
  mid_in : ∀ r ∈ mid, a ≤ r.1 ∧ r.1 ≤ b
  post_gt : ∀ r ∈ post, b < r.1
  hb : b ≤ 65535
  hab : a ≤ b

theorem headPos_offs (xs : List Rec) (p : Nat) (tl : List (Nat × Nat)) (q d : Nat) (hq : xs = [] → q = p) :
    headPos (offs p xs ++ (65536, q) :: tl) d = p := by
  cases xs with
  | nil => simp [offs, headPos, hq rfl]
  | cons r t => simp [offs, headPos]

theorem findPos_three (a b : Nat) (pre mid post : List Rec) (h : Parts a b pre mid post) :
    findPos (dictOf (pre ++ mid ++ post)) a b = (size pre, size pre + size mid, mid.isEmpty) := by
  have hab := h.hab
  have hdel : (dictOf (pre ++ mid ++ post)).filter (fun e => decide (a ≤ e.1 ∧ e.1 ≤ b)) = offs (size pre) mid := by
    rw [dictOf_three]
    simp only [List.filter_append]
    rw [filter_offs_none pre, filter_offs_all mid, filter_offs_none post]
    · have : ¬ (a ≤ 65536 ∧ 65536 ≤ b) := by have := h.hb; omega
      simp [this]
    · intro r hr q; have := h.post_gt r hr; simp; omega
    · intro r hr q; have := h.mid_in r hr; simp; omega
    · intro r hr q; have := h.pre_lt r hr; simp; omega
  have hbey : (dictOf (pre ++ mid ++ post)).filter (fun e => decide (b < e.1)) =
      offs (size pre + size mid) post ++ [(65536, size pre + size mid + size post)] := by
    rw [dictOf_three]
    simp only [List.filter_append]
    rw [filter_offs_none pre, filter_offs_none mid, filter_offs_all post]
    · have : b < 65536 := by have := h.hb; omega
      simp [this]
    · intro r hr q; have := h.post_gt r hr; simp; omega
    · intro r hr q; have := h.mid_in r hr; simp; omega
    · intro r hr q; have := h.pre_lt r hr; simp; omega
  unfold findPos
  simp only [hdel, hbey]
  rw [headPos_offs post _ [] _ 0 (by intro h0; subst h0; simp [size])]
  cases mid with
  | nil => simp [offs, size, headPos]
  | cons r t => simp [offs, headPos]

theorem updateDict_three (a b add : Nat) (pre mid post : List Rec) (h : Parts a b pre mid post) :
    updateDict (dictOf (pre ++ mid ++ post)) a b add (size mid) =
      offs 0 pre ++ offs (size pre + add) post ++ [(65536, size pre + add + size post)] := by
  unfold updateDict
  rw [dictOf_three]
  simp only [List.filter_append]
  rw [filter_offs_all pre, filter_offs_none mid, filter_offs_all post]
  · have h1 : ¬ (a ≤ 65536 ∧ 65536 ≤ b) := by have := h.hb; omega
    have h2 : b < 65536 := by have := h.hb; omega
    simp only [List.append_nil, List.map_append]
    rw [map_shift_offs post b add (size mid) _ (by omega) h.post_gt]
    have hpre : (offs 0 pre).map (fun e => if b < e.1 then (e.1, e.2 + add - size mid) else e) = offs 0 pre := by
      rw [List.map_congr_left (g := id)]
      · simp
      · intro e he
        obtain ⟨r, hr, hre⟩ := mem_offs he
        have := h.pre_lt r hr
        have := h.hab
        have hab : ¬ (b < e.1) := by rw [hre]; omega
        simp [hab]
    rw [hpre]
    have hf : List.filter (fun e : Nat × Nat => !decide (a ≤ e.fst ∧ e.fst ≤ b)) [(65536, size pre + size mid + size post)]
        = [(65536, size pre + size mid + size post)] := by
      simp; omega
    rw [hf]
    simp only [List.map_cons, List.map_nil, h2, if_true]
    have e1 : size pre + size mid + add - size mid = size pre + add := by omega
    have e2 : size pre + size mid + size post + add - size mid = size pre + add + size post := by omega
    rw [e1, e2]
  · intro r hr q; have := h.post_gt r hr; simp; omega
  · intro r hr q; have := h.mid_in r hr; simp; omega
  · intro r hr q; have := h.pre_lt r hr; simp; omega

theorem dictSet_three (n pos q t : Nat) (pre post : List Rec) (hpre : ∀ r ∈ pre, r.1 < n)
    (hpost : ∀ r ∈ post, n < r.1) (hn : n ≤ 65535) :
    dictSet (offs 0 pre ++ offs q post ++ [(65536, t)]) n pos =
      offs 0 pre ++ (n, pos) :: (offs q post ++ [(65536, t)]) := by
  unfold dictSet
  simp only [List.filter_append]
  rw [filter_offs_all pre, filter_offs_none post, filter_offs_none pre, filter_offs_all post]
  · have h1 : ¬ (65536 < n) := by omega
    have h2 : n < 65536 := by omega
    simp [h1, h2]
  · intro r hr q; have := hpost r hr; simp; omega
  · intro r hr q; have := hpre r hr; simp; omega
  · intro r hr q; have := hpost r hr; simp; omega
  · intro r hr q; have := hpre r hr; simp; omega

/-! ### the splice of store_line / delete on a serialised program -/

theorem splice_code (cs limit a b : Nat) (d : List (Nat × Nat)) (pre mid post new : List Rec)
    (hbound : cs + 1 + size (pre ++ mid ++ post) < 65536) :
    (splice ⟨ser (cs + 1) (pre ++ mid ++ post), d, cs, limit⟩ a b (size pre) (size pre + size mid)
        (serRecs (cs + 1 + size pre) new)).code = ser (cs + 1) (pre ++ new ++ post) := by
  obtain ⟨tl, htl⟩ := ser_head (cs + 1 + size pre + size mid) post
  obtain ⟨tl', htl'⟩ := ser_head (cs + 1 + size pre + size new) post
  have hcode : ser (cs + 1) (pre ++ mid ++ post) =
      (serRecs (cs + 1) pre ++ serRecs (cs + 1 + size pre) mid) ++ (0 :: tl) := by
    rw [ser_append, serRecs_append, size_append, ← htl, Nat.add_assoc (cs + 1)]
  have hlen1 : (serRecs (cs + 1) pre).length = size pre := length_serRecs _ _
  have hlen2 : (serRecs (cs + 1) pre ++ serRecs (cs + 1 + size pre) mid).length = size pre + size mid := by
    simp [length_serRecs]
  have hlenN : (serRecs (cs + 1 + size pre) new).length = size new := length_serRecs _ _
  simp only [size_append] at hbound
  have hdrop : (ser (cs + 1) (pre ++ mid ++ post)).drop (size pre + size mid) = 0 :: tl := by
    rw [hcode, List.drop_left' hlen2]
  have htake : (ser (cs + 1) (pre ++ mid ++ post)).take (size pre) = serRecs (cs + 1) pre := by
    rw [hcode, List.append_assoc, List.take_left' hlen1]
  unfold splice
  simp only [hdrop, htake, List.isEmpty_cons, Bool.false_eq_true, if_false]
  have hsplit : serRecs (cs + 1) pre ++ serRecs (cs + 1 + size pre) new ++ 0 :: tl =
      (serRecs (cs + 1) pre ++ serRecs (cs + 1 + size pre) new ++ [0]) ++ tl := by simp
  have hk : (serRecs (cs + 1) pre ++ serRecs (cs + 1 + size pre) new ++ [0]).length =
      size pre + (serRecs (cs + 1 + size pre) new).length + 1 := by
    simp [length_serRecs]; omega
  rw [hsplit, List.take_left' hk, List.drop_left' hk]
  have hw := walk_ser post
    ((serRecs (cs + 1) pre ++ serRecs (cs + 1 + size pre) new ++ [0] ++ tl).length)
    (size new) (size mid) (cs + 1 + size pre + size mid)
    (by
      have h1 : tl.length = size post + 2 := by
        have := length_ser (cs + 1 + size pre + size mid) post
        rw [htl] at this; simp at this; omega
      have := length_le_size post
      simp only [List.length_append, h1]; omega)
    (by omega) (by omega)
  have e1 : size pre + size mid - size pre = size mid := by omega
  have e2 : cs + 1 + (size pre + size mid) = cs + 1 + size pre + size mid := by omega
  have e3 : cs + 1 + size pre + size mid + size new - size mid = cs + 1 + size pre + size new := by omega
  rw [htl] at hw
  simp only [List.tail_cons] at hw
  rw [hlenN, e1, e2, hw, e3, htl']
  simp only [List.tail_cons]
  rw [ser_append, size_append, serRecs_append, ← Nat.add_assoc, htl']
  simp

theorem splice_dict (cs limit a b : Nat) (c newrec : Bytes) (pre mid post : List Rec) (h : Parts a b pre mid post) :
    (splice ⟨c, dictOf (pre ++ mid ++ post), cs, limit⟩ a b (size pre) (size pre + size mid) newrec).dict =
      offs 0 pre ++ offs (size pre + newrec.length) post ++ [(65536, size pre + newrec.length + size post)] := by
  unfold splice
  simp only
  have e1 : size pre + size mid - size pre = size mid := by omega
  rw [e1, updateDict_three a b newrec.length pre mid post h]

theorem splice_fields (s : PState) (a b pos afterpos : Nat) (newrec : Bytes) :
    (splice s a b pos afterpos newrec).codeStart = s.codeStart ∧
    (splice s a b pos afterpos newrec).limit = s.limit := by
  unfold splice; simp

end PcbV.Program
