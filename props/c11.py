"""C11 — Variable storage is faithfully exposed (PEEK/VARPTR/VARPTR$) and never aliased."""
import itertools
import random
import struct
from fractions import Fraction

from vlib import basic, translated

LEVEL = 'proof'
RULE = ('one case = one statement of a history executed in a real Session, followed by a full inspection of the '
        'variable area: histories create scalars of all four types with names of 1..40 (and over-long) characters, '
        'DIM / auto-dimension arrays of 1..3 dimensions (OPTION BASE 0/1), assign numbers (literals and arbitrary '
        'CVS/CVD byte patterns) and strings, SWAP, ERASE, failing statements (type mismatch, duplicate definition, '
        'subscript out of range, SWAP with an undefined variable), ERASE with one name and with 2..4 names in one '
        'statement (allocation order, reversed, shuffled, survivors below/between/above, repeated or undeclared '
        'names failing part-way); the "wild" histories add string expressions, '
        'MID$/LSET, STRING$, numeric copies, FOR loops, forced collections FRE(""), CLEAR ,n with tiny memory; '
        'generated program pairs where COMMON / ALL string variables and array elements share one descriptor (same '
        'program literal, copied literal pointer, same DATA item) and are carried over a CHAIN, then edited in place; '
        'non-trivial = every case (each is followed by PEEKs over every variable)')
EXPLANATION = ('theorems (PcbV.Props.C11 over PcbV.Model.VarMem): wf_reachable / strings_wf_reachable (layout and '
               'string-space invariants after every history of LET/DIM/SWAP/ERASE, failing statements included), '
               'scalar_inside / element_inside / area_below_strings (every value lies inside its record, inside '
               '[var_start, var_current+arrays), below string space), scalars_disjoint / scalar_element_disjoint / '
               'elements_disjoint_other / elements_disjoint_same (pairwise disjoint), peek_varptr_scalar / '
               'peek_varptr_element (PEEK(VARPTR+i) = byte i of the stored value), peek_name_scalar (name record), '
               'peek_string_chars (the pointer leads to a stored string of that length; PEEK there = the characters = '
               'the value read back), varptr_str_spec / varptr_fits, assign_frame_scalar / assign_frame_element / '
               'assign_frame_readback (a LET, failing or not, changes no other variable or element), erase_frame (ERASE of a '
               'name list, failing part-way or not, changes no scalar and no element of an array it does not name), '
               'D6_counterexample (old Arrays.get_memory); correspondence: after EVERY statement the whole variable '
               'area as seen through Memory.varptr / machine PEEK / varptr_str_ (record headers, values, string '
               'bodies, element addresses) is compared with the compiled Lean model; oracle: a Python dict of '
               'reference values with its own MKI$/MKS$/MKD$ encoder: PEEK bytes of every variable and element, '
               'string length/address/characters, VARPTR$ decoding, pairwise disjointness of all (VARPTR,size) '
               'ranges and string bodies, containment in the variable area (PEEK &H358..&H35D), read-back of '
               'every variable through Session.get_variable, and the same numbers again through BASIC statements '
               '(PRINT VARPTR / PEEK / ASC(MID$(VARPTR$…))) on a sample; after CHAIN (COMMON list or ALL): the '
               'characters found through VARPTR/PEEK equal the value, the [address, address+len) ranges of all live '
               'strings are pairwise disjoint unless both lie in the program text, and MID$/LSET/RSET on one variable '
               'changes no other (oracle only, not modelled)'
               '; source tie: Scalars._record_size and Arrays._record_size are translated mechanically from the '
               'current Python AST (PcbV.Gen.Translated.scalarRecordSize / arrayRecordSize, gen/py2lean.py), proved '
               'equal to recSize / arecSize of the model (translated_scalarRecordSize_eq, '
               'translated_arrayRecordSize_eq) and compared with the real static methods (vlib/translated.py)')
TRUSTED_BASE = ['model PcbV.Model.VarMem is a hand transcription of scalars.py (set, varptr, get_memory, '
                'get_name_in_memory), arrays.py (allocate, check_dim, index, set, erase_, varptr, repaired get_memory), '
                'memory.py (let_, swap_, _view_buffer, varptr, varptr_str_, _get_var_memory), strings.py (store, '
                'get_memory), machine.py (max(0, …) of PEEK)',
                'the three dicts of Scalars / Arrays are one record list each; an array buffer is a list of cells',
                'translator gen/py2lean.py + PcbV.PyInt (Python int semantics in Lean), validated by '
                'vlib/translated.py against the real functions; it covers the listed functions only']
ASSUMPTIONS = ['the model describes check_free without the garbage collector (C10): model-compared histories stay far '
               'from memory exhaustion; collections and exhaustion are exercised by the oracle-only wild histories',
               'string addresses are not compared with the model (temporaries of the inspection statements move '
               'string space); the characters found at the address are',
               '_base is fixed per history in the model (OPTION BASE only as the first statement)']

SIZES = {'%': 2, '!': 4, '#': 8, '$': 3}
# which fields of an op name a variable cell
DST_POS = {'let': (1,), 'swap': (1, 2), 'cat': (1, 2), 'rep': (1,), 'mid': (1,), 'copy': (1, 2)}
DS = None   # data segment, read from the implementation


# ----------------------------------------------------------------------------------------------
# independent encoders (Microsoft binary format), written from the format description

def mbf_encode(v, nbytes):
    """exact MBF bytes of a Fraction (must be representable)"""
    if v == 0:
        return bytes(nbytes)
    neg = v < 0
    a = -v if neg else v
    e = 0
    while a >= 1:
        a /= 2
        e += 1
    while a < Fraction(1, 2):
        a *= 2
        e -= 1
    bits = 8 * (nbytes - 1)
    m = a * (1 << bits)
    assert m.denominator == 1, 'value not representable'
    m = int(m)
    assert (1 << (bits - 1)) <= m < (1 << bits) and -127 <= e <= 127
    m &= (1 << (bits - 1)) - 1
    if neg:
        m |= 1 << (bits - 1)
    return m.to_bytes(nbytes - 1, 'little') + bytes([e + 128])


def mbf_decode(b):
    n = len(b)
    if b[-1] == 0:
        return 0.0
    bits = 8 * (n - 1)
    m = int.from_bytes(b[:-1], 'little')
    neg = bool(m >> (bits - 1))
    m |= 1 << (bits - 1)
    v = Fraction(m, 1 << bits) * Fraction(2) ** (b[-1] - 128)
    return float(-v if neg else v)


def py_value(sig, b):
    """the value Session.get_variable must return for cell bytes b"""
    if sig == '%':
        return struct.unpack('<h', b)[0]
    if sig == '$':
        return bytes(b)
    return mbf_decode(b)


def dec_text(v):
    """exact decimal text of a dyadic Fraction"""
    neg = v < 0
    a = -v if neg else v
    ip = a.numerator // a.denominator
    fr = a - ip
    ds = ''
    while fr:
        fr *= 10
        d = fr.numerator // fr.denominator
        ds += str(d)
        fr -= d
    return ('-' if neg else '') + str(ip) + ('.' + ds if ds else '')


# ----------------------------------------------------------------------------------------------
# generators

NAME_TAIL = 'QXZJKVW0123456789.'
LETTERS = 'ABCDEFGHIJKLMNOPQRSTUVWXYZ'


def gen_name(rng, n):
    return rng.choice(LETTERS) + ''.join(rng.choice(NAME_TAIL) for _ in range(n - 1))


def gen_pool(rng):
    """scalar names and array names (with sigil) of a history"""
    lens = [1, 1, 2, 2, 3, 4, 5, 39, 40, rng.randint(6, 38), rng.randint(1, 40), rng.randint(1, 40)]
    rng.shuffle(lens)
    scal, seen = [], set()
    sigs = ['%', '!', '#', '$'] * 3
    rng.shuffle(sigs)
    for n, sg in zip(lens[:rng.randint(5, 10)], sigs):
        nm = gen_name(rng, n) + sg
        if nm not in seen:
            seen.add(nm)
            scal.append(nm)
    arrs, seen = [], set()
    sigs = ['%', '!', '#', '$', rng.choice('%!#$'), '$']
    rng.shuffle(sigs)
    for sg in sigs[:rng.randint(3, 6)]:
        n = rng.choice([1, 1, 2, 3, 4, 7, 40, rng.randint(1, 40)])
        # some arrays share the name of a scalar: they are different variables
        nm = (rng.choice(scal)[:-1] if rng.random() < 0.3 else gen_name(rng, n)) + sg
        if nm not in seen:
            seen.add(nm)
            arrs.append(nm)
    return scal, arrs


def gen_num(rng, sig):
    """(cell bytes, BASIC text)"""
    if sig == '%':
        v = rng.choice([0, 1, -1, 255, 256, 32767, -32768, 0x5678, rng.randint(-32768, 32767)])
        return struct.pack('<h', v), (str(v) if rng.random() < 0.8 or v < 0 else '&H%X' % v)
    n = 4 if sig == '!' else 8
    fn = 'CVS' if sig == '!' else 'CVD'
    r = rng.random()
    if r < 0.45:
        # a dyadic literal, exactly representable
        k = rng.choice([0, 1, 3, rng.randint(0, 1 << 12), rng.randint(0, (1 << 22) if n == 4 else (1 << 30))])
        v = Fraction(k, 1 << rng.choice([0, 0, 1, 2, 5, 8]))
        if rng.random() < 0.4:
            v = -v
        t = dec_text(v)
        if len(t.replace('-', '').replace('.', '').lstrip('0')) > (6 if n == 4 else 14):
            v = Fraction(int(v))
            t = dec_text(v)
        return mbf_encode(v, n), t + ('#' if n == 8 else ('!' if rng.random() < 0.3 else ''))
    # an arbitrary byte pattern with a non-zero exponent (doubles: low mantissa byte 0 keeps the value in 53 bits)
    b = bytearray(rng.randrange(256) for _ in range(n))
    if rng.random() < 0.3:
        for i in range(n):
            b[i] = rng.choice([0, 255, 128, 127, 1])
    if b[-1] == 0:
        b[-1] = rng.randint(1, 255)
    if n == 8:
        b[0] = 0
    return bytes(b), '%s(%s)' % (fn, '+'.join('CHR$(%d)' % x for x in b))


STR_CHARS = [c for c in range(32, 127) if c != 34]


def gen_str(rng):
    n = rng.choice([0, 1, 1, 2, 3, 5, 17, rng.randint(0, 40), rng.randint(0, 90)])
    return bytes(rng.choice(STR_CHARS) for _ in range(n))


def gen_dims(rng, base):
    rank = rng.choice([1, 1, 2, 2, 3])
    while True:
        dims = [rng.choice([base, base, base + 1, 2, 3, 4, rng.randint(base, 6)]) for _ in range(rank)]
        cells = 1
        for d in dims:
            cells *= d + 1 - base
        if cells <= 48:
            return dims


def gen_history(rng, n_ops, base, wild):
    """list of ops (JSON-able).  Generation tracks only which arrays probably exist (to aim subscripts)."""
    scal, arrs = gen_pool(rng)
    shape = {}
    ops = []

    def an_index(nm, ok=True):
        dims = shape.get(nm)
        if dims is None:
            dims = [10] * rng.choice([1, 1, 1, 2])
        if ok:
            return [rng.choice([base, d, rng.randint(base, d)]) for d in dims]
        idx = [rng.randint(base, d) for d in dims]
        r = rng.random()
        k = rng.randrange(len(dims))
        if r < 0.4:
            idx[k] = dims[k] + 1
        elif r < 0.6 and base == 1:
            idx[k] = 0
        elif r < 0.8:
            idx = idx + [base]
        else:
            idx[k] = dims[k] + rng.randint(1, 9)
        return idx

    def a_dst(sig=None, elem=None):
        cs = [x for x in scal if sig is None or x[-1] == sig]
        ca = [x for x in arrs if sig is None or x[-1] == sig]
        if elem is None:
            elem = rng.random() < 0.5
        if (elem and ca) or not cs:
            if not ca:
                return None
            nm = rng.choice(ca)
            idx = an_index(nm)
            if nm not in shape and len(idx) <= 2:
                shape[nm] = [10] * len(idx)
            return ['e', nm, idx]
        return ['s', rng.choice(cs)]

    def a_val(sig):
        if sig == '$':
            return ['s', gen_str(rng).hex()]
        b, t = gen_num(rng, sig)
        return ['n', b.hex(), t]

    while len(ops) < n_ops:
        r = rng.random()
        if r < 0.40:
            d = a_dst()
            ops.append(['let', d, a_val(d[1][-1])])
        elif r < 0.52:
            nm = rng.choice(arrs)
            dims = gen_dims(rng, base)
            if nm not in shape:
                shape[nm] = dims
            ops.append(['dim', nm, dims])
        elif r < 0.62:
            sig = rng.choice('%!#$')
            a, b = a_dst(sig), a_dst(sig)
            if a and b:
                if rng.random() < 0.08:
                    b = a_dst(rng.choice('%!#$')) or b   # maybe a type mismatch
                ops.append(['swap', a, b])
        elif r < 0.70:
            if rng.random() < 0.45:
                names = [rng.choice(arrs)]
            else:
                # several names in ONE statement: the arrays that probably exist, in allocation order (the
                # order of `shape`), reversed or shuffled, survivors below / between / above; sometimes an
                # undeclared or a repeated name somewhere in the list (error part-way)
                live = list(shape)
                k = rng.randint(2, 4)
                picked = sorted(rng.sample(range(len(live)), min(k, len(live))))
                names = [live[i] for i in picked]
                while len(names) < 2:
                    names.append(rng.choice(arrs))
                o = rng.random()
                if o < 0.35:
                    names.reverse()
                elif o < 0.6:
                    rng.shuffle(names)
                if rng.random() < 0.2:
                    extra = rng.choice(names) if rng.random() < 0.5 else rng.choice(arrs)
                    names.insert(rng.randint(0, len(names)), extra)
                names = names[:4]
            for nm in names:
                if nm not in shape:
                    break
                shape.pop(nm)
            ops.append(['erase', names])
        elif r < 0.75:
            # failing statements: bad subscript, or a value of the wrong kind
            if rng.random() < 0.6:
                nm = rng.choice(arrs)
                if nm in shape:
                    ops.append(['let', ['e', nm, an_index(nm, ok=False)], a_val(nm[-1])])
            else:
                d = a_dst()
                sig = '$' if d[1][-1] != '$' else '%'
                ops.append(['let', d, a_val(sig)])
        elif wild:
            w = rng.random()
            if w < 0.25:
                d, s = a_dst('$'), a_dst('$')
                if d and s and (s[0] == 's' or s[1] in shape):
                    ops.append(['cat', d, s, gen_str(rng)[:20].hex()])
            elif w < 0.35:
                ops.append(['fre'])
            elif w < 0.45:
                d = a_dst('$')
                if d:
                    ops.append(['rep', d, rng.choice([0, 1, 7, 100, 200, 255]), rng.choice(STR_CHARS)])
            elif w < 0.6:
                d = a_dst('$')
                if d and (d[0] == 's' or d[1] in shape):
                    ops.append(['mid', d, rng.randint(1, 6), gen_str(rng)[:8].hex(), rng.choice(['MID', 'LSET', 'RSET'])])
            elif w < 0.8:
                sig = rng.choice('%!#')
                d, s = a_dst(sig), a_dst(sig)
                if d and s and (s[0] == 's' or s[1] in shape):
                    ops.append(['copy', d, s])
            elif w < 0.9:
                cs = [x for x in scal if x[-1] in '%!']
                if cs:
                    ops.append(['for', rng.choice(cs), rng.randint(1, 5)])
            else:
                ops.append(['clear', rng.choice([0, 0, rng.randint(5300, 6500), rng.randint(5000, 9000)])])
                shape.clear()
    return ops


# ----------------------------------------------------------------------------------------------
# protocol encoding (model side)

def enc_dst(d):
    if d[0] == 's':
        return 's' + d[1].encode('ascii').hex()
    return 'e%s.%s' % (d[1].encode('ascii').hex(), ','.join(str(i) for i in d[2]))


def erase_names(op):
    """the name list of an ERASE op (older replay files hold a single name)"""
    return list(op[1]) if isinstance(op[1], (list, tuple)) else [op[1]]


def enc_op(op):
    k = op[0]
    if k == 'let':
        return 'let:%s:%s%s' % (enc_dst(op[1]), op[2][0], op[2][1] or '-')
    if k == 'dim':
        return 'dim:%s:%s' % (op[1].encode('ascii').hex(), ','.join(str(d) for d in op[2]))
    if k == 'swap':
        return 'swap:%s:%s' % (enc_dst(op[1]), enc_dst(op[2]))
    if k == 'erase':
        return 'erase:' + ','.join(n.encode('ascii').hex() for n in erase_names(op))
    raise ValueError(op)


def hx(b):
    return bytes(b).hex() if len(b) else '-'


# ----------------------------------------------------------------------------------------------
# implementation adapter

class Impl(object):

    def __init__(self, rng):
        from pcbasic.basic.base import error
        self.msg = {v: k for k, v in error.BASICError.messages.items()}
        self.rng = rng
        self.s = None
        self.reset(0)

    def reset(self, base):
        if self.s is not None:
            try:
                self.s.close()
            except Exception:
                pass
        self.s = basic.new_session()
        self.s.execute(b'NEW')
        if base == 1:
            self.s.execute(b'OPTION BASE 1')
        self.mem = self.s._impl.memory
        self.mach = self.s._impl.all_memory
        self.ds = self.mem.data_segment * 0x10
        self.cache = {}
        self.vps = {}

    def close(self):
        self.s.close()

    # -- statements ------------------------------------------------------------------------
    def spell(self, nm):
        """the name as typed: '!' may be left out, characters beyond 40 are ignored, case is free"""
        body, sig = nm[:-1], nm[-1]
        if len(body) == 40 and self.rng.random() < 0.5:
            body += ''.join(self.rng.choice(NAME_TAIL) for _ in range(self.rng.randint(1, 6)))
        if self.rng.random() < 0.15:
            body = body.lower()
        if sig == '!' and self.rng.random() < 0.4:
            sig = ''
        return body + sig

    def ref(self, d):
        if d[0] == 's':
            return self.spell(d[1])
        br = '[]' if self.rng.random() < 0.1 else '()'
        return '%s%s%s%s' % (self.spell(d[1]), br[0], ','.join(str(i) for i in d[2]), br[1])

    def run_stmt(self, stmt):
        self.cache = {}
        self.vps = {}
        if isinstance(stmt, str):
            stmt = stmt.encode('latin-1')
        try:
            return self.s.execute(b'LOCATE 1,1:' + stmt)
        except Exception as e:      # a host exception escaping Session.execute
            return b'EXC %s: %s' % (type(e).__name__.encode(), str(e)[:80].encode('ascii', 'replace'))

    def errnum(self, out):
        """0 = no error message, n = BASIC error, -1 = something else"""
        if out == b'':
            return 0
        lines = [l.rstrip(b'\xff') for l in out.replace(b'\r', b'').split(b'\n') if l]
        if lines and lines[-1] in self.msg:
            return self.msg[lines[-1]]
        return -1 if out.startswith(b'EXC') else 0

    def text_of(self, op):
        k = op[0]
        if k == 'let':
            v = op[2]
            rhs = v[2] if v[0] == 'n' else '"%s"' % bytes.fromhex(v[1]).decode('latin-1')
            return '%s%s=%s' % ('LET ' if self.rng.random() < 0.15 else '', self.ref(op[1]), rhs)
        if k == 'dim':
            return 'DIM ' + self.ref(['e', op[1], op[2]])
        if k == 'swap':
            return 'SWAP %s,%s' % (self.ref(op[1]), self.ref(op[2]))
        if k == 'erase':
            return 'ERASE ' + ','.join(self.spell(n) for n in erase_names(op))
        if k == 'cat':
            lit = '"%s"' % bytes.fromhex(op[3]).decode('latin-1')
            return '%s=%s+%s' % (self.ref(op[1]), self.ref(op[2]), lit)
        if k == 'fre':
            return 'PRINT FRE("");'
        if k == 'rep':
            return '%s=STRING$(%d,%d)' % (self.ref(op[1]), op[2], op[3])
        if k == 'mid':
            lit = '"%s"' % bytes.fromhex(op[3]).decode('latin-1')
            if op[4] == 'MID':
                return 'MID$(%s,%d)=%s' % (self.ref(op[1]), op[2], lit)
            return '%s %s=%s' % (op[4], self.ref(op[1]), lit)
        if k == 'copy':
            return '%s=%s' % (self.ref(op[1]), self.ref(op[2]))
        if k == 'for':
            return 'FOR %s=1 TO %d:NEXT' % (self.spell(op[1]), op[2])
        if k == 'clear':
            return 'CLEAR' if not op[1] else 'CLEAR ,%d' % op[1]
        raise ValueError(op)

    # -- inspection (the anchored functions: Memory.varptr, machine PEEK path, varptr_str_) ----
    def peek(self, a):
        c = self.cache.get(a)
        if c is None:
            c = self.cache[a] = self.mach._get_memory(self.ds + a)
        return c

    def peeks(self, a, n):
        return bytes(self.peek(a + i) for i in range(n))

    def peek16(self, a):
        return self.peek(a) + 256 * self.peek(a + 1)

    def varptr(self, nm, idx):
        return self.mem.varptr(nm.encode('ascii'), list(idx))

    def varptr_str(self, nm, idx):
        """VARPTR$ through DataSegment.varptr_str_ (allocates a temporary: taken before any PEEK, see collect_vps);
        None when string space is exhausted"""
        key = (nm, tuple(idx))
        if key in self.vps:
            return self.vps[key]
        from pcbasic.basic.base import error
        try:
            r = bytes(self.mem.varptr_str_(iter([nm.encode('ascii'), list(idx)])).to_str())
        except error.BASICError:
            r = None
        self.cache = {}
        return r

    def collect_vps(self, cells):
        """VARPTR$ of every (name, index) first: it allocates temporaries and may trigger a collection, which
        moves strings; the PEEKs that follow see one unchanged memory"""
        self.vps = {}
        got = {}
        for nm, idx in cells:
            got[(nm, tuple(idx))] = self.varptr_str(nm, idx)
        self.vps = got
        self.cache = {}

    def scalars(self):
        return [n.decode('ascii') for n in self.mem.scalars]

    def arrays(self):
        return [(n.decode('ascii'), list(self.mem.arrays.dimensions(n))) for n in self.mem.arrays]

    def show_str_at(self, p):
        ln = self.peek(p)
        return '%d~%s' % (ln, hx(self.peeks(self.peek16(p + 1), ln)))

    def observe(self, base):
        """the same text as PcbV.Drv.C11.observe, read off the real interpreter"""
        vc, ae = self.peek16(0x35A), self.peek16(0x35C)
        out = ['%d/%d' % (vc, ae - vc)]
        for nm in self.scalars():
            rs = max(3, len(nm)) + 1
            vp = self.varptr(nm, [])
            val = self.show_str_at(vp) if nm[-1] == '$' else hx(self.peeks(vp, SIZES[nm[-1]]))
            out.append('S%s@%d:%s:%s:%s' % (nm.encode().hex(), vp, hx(self.peeks(vp - rs, rs)), val,
                                            hx(self.varptr_str(nm, []) or b'')))
        for nm, dims in self.arrays():
            n = 1
            for d in dims:
                n *= d + 1 - base
            rs = 1 + max(3, len(nm)) + 3 + 2 * len(dims)
            first = [base] * len(dims)
            vp = self.varptr(nm, first)
            if nm[-1] == '$':
                val = '+'.join(self.show_str_at(vp + 3 * k) for k in range(n))
            else:
                val = hx(self.peeks(vp, n * SIZES[nm[-1]]))
            out.append('A%s@%d:%s:%s:%s:%d.%s' % (nm.encode().hex(), vp, ','.join(str(d) for d in dims),
                                                  hx(self.peeks(vp - rs, rs)), val, self.varptr(nm, dims),
                                                  hx(self.varptr_str(nm, first) or b'')))
        return ' '.join(out)


# ----------------------------------------------------------------------------------------------
# the oracle: reference values in plain dicts, checks written from the property statement

def null(sig):
    return b'' if sig == '$' else bytes(SIZES[sig])


class Oracle(object):

    def __init__(self, base):
        self.base = base
        self.sc = {}      # name -> value bytes (numbers: cell bytes; strings: characters)
        self.ar = {}      # name -> (dims, base, {index tuple: value bytes})

    def indices(self, nm):
        dims, b, _ = self.ar[nm]
        return itertools.product(*[range(b, d + 1) for d in dims])

    def new_array(self, nm, dims):
        b = self.base
        cells = {}
        self.ar[nm] = (list(dims), b, cells)
        for i in self.indices(nm):
            cells[i] = null(nm[-1])

    def get(self, d):
        if d[0] == 's':
            return self.sc.get(d[1], null(d[1][-1]))
        return self.ar[d[1]][2][tuple(d[2])]

    def exists(self, d):
        if d[0] == 's':
            return d[1] in self.sc
        return d[1] in self.ar and tuple(d[2]) in self.ar[d[1]][2]

    def put(self, d, v):
        if d[0] == 's':
            self.sc[d[1]] = v
        else:
            self.ar[d[1]][2][tuple(d[2])] = v

    def adopt(self, impl, names):
        """after a FAILED statement a variable it names may or may not have been created (with a null value);
        both are acceptable: take over what the interpreter did"""
        real_s = set(impl.scalars())
        real_a = dict(impl.arrays())
        for d in names:
            nm = d[1]
            if d[0] == 's' and nm not in self.sc and nm in real_s:
                self.sc[nm] = null(nm[-1])
            if d[0] == 'e' and nm not in self.ar and nm in real_a and real_a[nm] == [10] * len(d[2]):
                self.new_array(nm, real_a[nm])

    def apply(self, op, err, impl):
        """update the reference after the statement; err = BASIC error number or 0"""
        k = op[0]
        dsts = [op[i] for i in DST_POS.get(k, ())]
        if k == 'for' and not err:
            nm = op[1]
            v = op[2] + 1
            self.sc[nm] = struct.pack('<h', v) if nm[-1] == '%' else mbf_encode(Fraction(v), 4)
            return
        if k == 'clear':
            if not err:
                self.sc.clear()
                self.ar.clear()
                self.base = 0
            return
        if k == 'fre':
            return
        if k == 'erase':
            # the names are erased in the order written; an undeclared (or already erased, i.e. repeated) name
            # stops the statement with Illegal function call after the ones before it are gone
            for nm in erase_names(op):
                if nm not in self.ar:
                    if not err:
                        raise KeyError('ERASE of the undeclared array %s raised no error' % nm)
                    break
                del self.ar[nm]
            return
        if err:
            self.adopt(impl, dsts)
            return
        if k == 'dim':
            self.new_array(op[1], op[2])
            return
        # statements that write cells: auto-dimension first
        for d in dsts:
            if d[0] == 'e' and d[1] not in self.ar:
                self.new_array(d[1], [10] * len(d[2]))
        if k == 'let':
            v = op[2]
            self.put(op[1], bytes.fromhex(v[1]))
        elif k == 'swap':
            a, b = self.get(op[1]), self.get(op[2])
            self.put(op[1], b)
            self.put(op[2], a)
        elif k == 'cat':
            self.put(op[1], self.get(op[2]) + bytes.fromhex(op[3]))
        elif k == 'rep':
            self.put(op[1], bytes([op[3]]) * op[2])
        elif k == 'copy':
            self.put(op[1], self.get(op[2]))
        elif k == 'mid':
            cur, src = self.get(op[1]), bytes.fromhex(op[3])
            if op[4] == 'MID':
                st = op[2] - 1
                n = min(len(src), len(cur) - st)
                new = cur[:st] + src[:n] + cur[st + n:]
            elif op[4] == 'LSET':
                new = src[:len(cur)].ljust(len(cur))
            else:
                new = src[:len(cur)].rjust(len(cur))
            self.put(op[1], new)
        else:
            raise ValueError(op)

    # -- the checks ------------------------------------------------------------------------
    def check(self, impl, rng, deep=True):
        """returns None or (key, text)"""
        vs, vc, ae = impl.peek16(0x358), impl.peek16(0x35A), impl.peek16(0x35C)
        if not (vs <= vc <= ae):
            return 'area-pointers', 'PEEK(&H358..&H35D): var_start=%d arrays_start=%d arrays_end=%d' % (vs, vc, ae)
        # existence: exactly the reference variables exist
        real_s, real_a = impl.scalars(), impl.arrays()
        if sorted(real_s) != sorted(self.sc):
            return 'scalar-set', 'scalars %r, reference %r' % (sorted(real_s), sorted(self.sc))
        if sorted(real_a) != sorted((n, a[0]) for n, a in self.ar.items()):
            return 'array-set', 'arrays %r, reference %r' % (sorted(real_a),
                                                            sorted((n, a[0]) for n, a in self.ar.items()))
        impl.collect_vps([(nm, []) for nm in self.sc]
                         + [(nm, list(i)) for nm in self.ar for i in self.indices(nm)])
        cells = []      # (address, size, label, expected value bytes, name, idx)
        for nm, v in self.sc.items():
            cells.append((impl.varptr(nm, []), SIZES[nm[-1]], nm, v, nm, []))
        for nm, (dims, b, vals) in self.ar.items():
            for i in self.indices(nm):
                cells.append((impl.varptr(nm, list(i)), SIZES[nm[-1]], '%s%r' % (nm, i), vals[i], nm, list(i)))
        bodies = []
        for p, size, label, v, nm, idx in cells:
            kind = 'element' if idx else 'scalar'
            # inside the variable area, on the right side of the scalar/array boundary
            lo, hi = (vc, ae) if idx else (vs, vc)
            if not (lo <= p and p + size <= hi):
                return 'outside-area-' + kind, '%s: VARPTR=%d size %d not inside [%d,%d)' % (label, p, size, lo, hi)
            got = impl.peeks(p, size)
            if nm[-1] != '$':
                if got != v:
                    return ('peek-%s' % kind,
                            '%s: PEEK over VARPTR..+%d gives %s, stored value is %s' % (label, size, got.hex(), v.hex()))
            else:
                ln, ad = got[0], got[1] + 256 * got[2]
                if ln != len(v):
                    return 'peek-string-length-' + kind, '%s: length byte %d, string has %d characters' % (label, ln, len(v))
                if ln:
                    if not (ae <= ad and ad + ln <= 65536):
                        return 'string-address', '%s: characters at %d..%d, variable area ends at %d' % (label, ad, ad + ln, ae)
                    ch = impl.peeks(ad, ln)
                    if ch != v:
                        return 'peek-string-chars-' + kind, '%s: PEEK at its address %d gives %r, value is %r' % (label, ad, ch, v)
                    bodies.append((ad, ln, label))
            if not idx:
                # the name record in front of a scalar's value (GW-BASIC layout: type size, first characters)
                rs = max(3, len(nm)) + 1
                hd = impl.peeks(p - rs, 2)
                if p - rs < vs or hd != bytes([size, ord(nm[0])]):
                    return 'name-record-scalar', '%s: bytes at VARPTR-%d are %s, expected %02x%02x' % (
                        label, rs, hd.hex(), size, ord(nm[0]))
            vps = impl.varptr_str(nm, idx)
            if vps is not None and vps != bytes([size, p % 256, p // 256]):
                return 'varptrstr-' + kind, '%s: VARPTR$ = %s, expected type %d address %d' % (label, vps.hex(), size, p)
        # pairwise disjoint
        for lst, key in ((sorted((c[0], c[1], c[2]) for c in cells), 'overlap-cells'),
                         (sorted(bodies), 'overlap-string-bodies')):
            for (a, n, la), (b, m, lb) in zip(lst, lst[1:]):
                if a + n > b:
                    return key, '%s at %d..%d overlaps %s at %d..%d' % (la, a, a + n, lb, b, b + m)
        # every variable reads back its reference value (public API)
        if deep:
            for nm, v in self.sc.items():
                got = impl.s.get_variable(nm)
                if got != py_value(nm[-1], v):
                    return 'readback-scalar', '%s reads %r, reference %r' % (nm, got, py_value(nm[-1], v))
            for nm, (dims, b, vals) in self.ar.items():
                got = impl.s.get_variable(nm + '()')
                for i in self.indices(nm):
                    x = got
                    for j in i:
                        x = x[j - b]
                    if x != py_value(nm[-1], vals[i]):
                        return 'readback-element', '%s%r reads %r, reference %r' % (nm, i, x, py_value(nm[-1], vals[i]))
        # the same through BASIC statements, on a sample
        if cells:
            for p, size, label, v, nm, idx in rng.sample(cells, min(3, len(cells))):
                r = impl.ref(['e', nm, idx] if idx else ['s', nm])
                # a string may be moved by a collection during the statement itself: only its length byte
                offs = [0] if nm[-1] == '$' else sorted(set([0, size - 1, rng.randrange(size)]))
                stmt = 'PRINT VARPTR(%s);%sASC(VARPTR$(%s));ASC(MID$(VARPTR$(%s),2));ASC(MID$(VARPTR$(%s),3))' % (
                    r, ''.join('PEEK(VARPTR(%s)+%d);' % (r, o) for o in offs), r, r, r)
                exp_bytes = impl.peeks(p, size) if nm[-1] == '$' else v
                out = impl.run_stmt(stmt)
                if impl.errnum(out) in (7, 14):
                    continue        # no room for the temporaries of the inspection statement itself
                try:
                    nums = [int(x) for x in out.split()]
                except ValueError:
                    nums = None
                want = [p if p < 32768 else p - 65536] + [exp_bytes[o] for o in offs] + [size, p % 256, p // 256]
                if nums != want:
                    return ('basic-%s' % ('element' if idx else 'scalar'),
                            '%s -> %r, expected %r (VARPTR, PEEKs at offsets %r, VARPTR$ bytes)' % (stmt, out, want, offs))
        return None


# ----------------------------------------------------------------------------------------------
# running

def run_history(ctx, impl, ops, base, label, collect, modelled):
    impl.reset(base)
    orc = Oracle(base)
    vs = impl.peek16(0x358)
    top = impl.peek16(0x2C) - 512 - 2
    obs, done = [], []
    for op in ops:
        text = impl.text_of(op)
        out = impl.run_stmt(text)
        err = impl.errnum(out)
        done.append(op)
        ctx.case('%s|%d|%s' % (label, len(done), text))
        ctx.count('op:' + op[0])
        if op[0] == 'erase':
            ctx.count('erase-names:%d' % len(erase_names(op)))
        if len(done) == 3:
            ctx.sample({'label': label, 'base': base, 'statement': text, 'error': err})
        if err:
            ctx.count('err:%d' % err)
        case = {'ops': done, 'base': base, 'label': label, 'last': text}
        if err == -1:
            ctx.fail('host-exception', case, '%s -> %r' % (text, out))
            break
        try:
            orc.apply(op, err, impl)
            bad = orc.check(impl, ctx.rng)
        except Exception as e:   # a host exception out of varptr / PEEK / get_variable is a failure of the property
            bad = ('inspection-exception', '%s: %s' % (type(e).__name__, str(e)[:200]))
        if bad:
            ctx.fail(bad[0], case, '%s [after %d statements, last: %s]' % (bad[1], len(done), text))
            break
        if modelled:
            try:
                obs.append('%d %s' % (err, impl.observe(orc.base)))
            except Exception as e:
                obs.append('EXC %s' % type(e).__name__)
    ctx.count('vars-at-end:%02d' % min(20, len(orc.sc) + len(orc.ar)))
    if modelled and collect is not None:
        n = len(obs)
        line = 'hist %d %d %d %s' % (vs, top, base, ';'.join(enc_op(o) for o in done[:n]))
        collect.append(({'ops': done[:n], 'base': base}, 'ok ' + ' | '.join(obs), line))


def flush(ctx, collect, label):
    if collect:
        ctx.compare([c[0] for c in collect], [c[1] for c in collect], [c[2] for c in collect], label=label)
        del collect[:]


D6 = [['dim', 'A%', [3]], ['dim', 'B%', [3]], ['let', ['e', 'B%', [1]], ['n', '7856', '&H5678']]]


def fixed_histories():
    """boundary histories: the D6 witness, every name length 1..41, erase in the middle, swap across kinds"""
    hs = [(D6, 0)]
    h = []
    for n in list(range(1, 8)) + [38, 39, 40]:
        for sg in '%$!#':
            nm = (LETTERS[n % 26] + 'Q' * (n - 1)) + sg
            v = ['s', b'abc'.hex()] if sg == '$' else ['n', {'%': '0102', '!': '01020384', '#': '0001020304050688'}[sg],
                                                      {'%': '513', '!': 'CVS(CHR$(1)+CHR$(2)+CHR$(3)+CHR$(132))',
                                                       '#': 'CVD(CHR$(0)+CHR$(1)+CHR$(2)+CHR$(3)+CHR$(4)+CHR$(5)+CHR$(6)+CHR$(136))'}[sg]]
            h.append(['let', ['s', nm], v])
    hs.append((h[:20], 0))
    hs.append((h[20:], 1))
    for base in (0, 1):
        h = [['dim', 'A%', [3]], ['dim', 'B$', [2, 2]], ['dim', 'C#', [base, 1, 2]], ['dim', 'XZQJ.KVW.Q1234567!', [4]],
             ['let', ['e', 'B$', [2, 1]], ['s', b'hello'.hex()]], ['let', ['e', 'C#', [base, 1, 2]], ['n', '0000000000000081', '1#']],
             ['let', ['s', 'X%'], ['n', '0700', '7']],
             ['erase', ['B$']], ['let', ['e', 'XZQJ.KVW.Q1234567!', [4]], ['n', '00002083', '5']],
             ['erase', ['A%']], ['dim', 'B$', [1]], ['let', ['e', 'B$', [1]], ['s', b'x'.hex()]],
             ['let', ['s', 'S$'], ['s', b'scalar'.hex()]], ['swap', ['s', 'S$'], ['e', 'B$', [1]]],
             ['swap', ['e', 'C#', [base, 1, 2]], ['e', 'C#', [base, 0, 1]]], ['erase', ['C#']], ['erase', ['QQZ!']],
             ['dim', 'B$', [3]], ['swap', ['s', 'X%'], ['s', 'NW%']], ['swap', ['s', 'X%'], ['s', 'S$']],
             ['let', ['e', 'AUT%', [10]], ['n', 'ffff', '-1']], ['let', ['e', 'AUT%', [11]], ['n', 'ffff', '-1']],
             ['erase', ['XZQJ.KVW.Q1234567!']], ['erase', ['B$']], ['erase', ['AUT%']], ['dim', 'Z!', [1, 1, 1]]]
        hs.append((h, base))
    hs += multi_erase_histories()
    return hs


def multi_erase_histories():
    """ERASE with 2..4 names in one statement: allocation order, reverse order, survivors below, between and
    above, mixed types and ranks, repeated and undeclared names (error part-way)"""
    arrs = [('A%', [3]), ('B$', [2, 1]), ('C#', [1, 1, 1]), ('D!', [4]), ('EQ.XZ$', [1, 2]), ('F%', [2, 2])]
    vals = {'%': ['n', '3412', '&H1234'], '!': ['n', '00002083', '5'], '#': ['n', '0000000000000081', '1#'],
            '$': ['s', b'str'.hex()]}
    lists = [['B$', 'D!'], ['D!', 'B$'], ['A%', 'B$'], ['EQ.XZ$', 'F%'], ['F%', 'EQ.XZ$'], ['B$', 'C#', 'D!'],
             ['D!', 'C#', 'B$'], ['A%', 'C#', 'EQ.XZ$'], ['EQ.XZ$', 'C#', 'A%'], ['A%', 'B$', 'C#', 'D!'],
             ['F%', 'D!', 'B$', 'A%'], ['C#', 'A%', 'F%', 'D!'],
             ['B$', 'B$'], ['B$', 'QQZ!', 'D!'], ['QQZ!', 'B$'], ['D!', 'B$', 'D!', 'A%'], ['A%', 'C#', 'ZZQ%']]
    hs = []
    for i, names in enumerate(lists):
        base = i % 2
        h = []
        for nm, dims in arrs:
            dims = [max(d, base) for d in dims]
            h.append(['dim', nm, dims])
            h.append(['let', ['e', nm, dims], vals[nm[-1]]])
            h.append(['let', ['e', nm, [base] * len(dims)], vals[nm[-1]]])
        h.append(['let', ['s', 'S$'], ['s', b'scalar'.hex()]])
        h.append(['erase', names])
        # life goes on in the moved arrays: assign, create a scalar (moves array space up), declare again
        for nm, dims in arrs:
            if nm not in names:
                h.append(['let', ['e', nm, [base] * len(dims)], vals[nm[-1]]])
        h.append(['let', ['s', 'X%'], ['n', '0700', '7']])
        h.append(['dim', names[0], [2]])
        h.append(['erase', [a[0] for a in arrs if a[0] not in names][:2] + [names[0]]])
        hs.append((h, base))
    return hs


# ----------------------------------------------------------------------------------------------
# never aliased after CHAIN: COMMON / ALL variables whose descriptors were identical before the CHAIN (same program
# literal, same DATA item, a copied program-literal pointer) must each own their characters afterwards

def gen_chain_case(rng):
    """a generated pair of programs: P1 fills string variables from shared sources and CHAINs to P2"""
    letters = 'ABCDEFGHJKLMNPQRSTUVWXYZ'
    names = []
    while len(names) < rng.randint(3, 6):
        nm = rng.choice(letters) + ''.join(rng.choice(letters + '0123456789') for _ in range(rng.randint(0, 4))) + '$'
        if nm not in names and nm[:2] != 'FN':
            names.append(nm)
    arrs = []
    for nm in names[:rng.randint(1, 2)]:
        arrs.append((nm[:-1] + 'Q$', rng.randint(1, 5)))
    scalars = names[len(arrs):]
    cells = [[n, None] for n in scalars] + [[n, i] for n, d in arrs for i in range(d + 1)]
    rng.shuffle(cells)
    lit = lambda: ''.join(rng.choice('abcdefghijklmnopqrstuvwxyz .-') for _ in range(rng.randint(1, 24)))
    groups, i = [], 0
    while i < len(cells):
        k = rng.randint(1, 4)
        kind = rng.choice(['literal', 'literal', 'copy', 'data', 'own'])
        groups.append({'kind': kind, 'cells': cells[i:i + k], 'text': lit()})
        i += k
    mode = rng.choice(['all', 'common', 'common'])
    if mode == 'all':
        common = [n for n in scalars] + [n for n, _ in arrs]
    else:
        common = [n for n in scalars if rng.random() < 0.8] + [n for n, _ in arrs if rng.random() < 0.8]
    return {'arrays': arrs, 'groups': groups, 'mode': mode, 'common': common,
            'edits': [[rng.choice(['mid', 'lset', 'rset']), rng.randrange(1000), rng.choice(['#', '@!', '?'])]
                      for _ in range(rng.randint(1, 4))]}


def run_chain_case(spec):
    """returns None or (key, text)"""
    import os
    import shutil
    import tempfile
    ref = lambda c: c[0] if c[1] is None else '%s(%d)' % (c[0], c[1])
    arrs = {n: d for n, d in spec['arrays']}
    lines, num = [], 10

    def add(text):
        nonlocal num
        lines.append('%d %s' % (num, text))
        num += 10
    if spec['mode'] == 'common' and spec['common']:
        add('COMMON ' + ','.join(n + '()' if n in arrs else n for n in spec['common']))
    for n, d in spec['arrays']:
        add('DIM %s(%d)' % (n, d))
    data, expected = [], {}
    for g in spec['groups']:
        cs = g['cells']
        for c in cs:
            expected[ref(c)] = g['text'].encode('ascii')
        if g['kind'] == 'literal':
            # ONE literal instance assigned to every cell of the group: the temporary T9$ takes the pointer into the
            # program text and is copied (pointer copy in a program) to each cell
            add('T9$="%s"' % g['text'])
            for c in cs:
                add('%s=T9$' % ref(c))
        elif g['kind'] == 'copy':
            add('%s="%s"' % (ref(cs[0]), g['text']))
            for a, b in zip(cs, cs[1:]):
                add('%s=%s' % (ref(b), ref(a)))
        elif g['kind'] == 'data':
            data.append(g['text'])
            for c in cs:
                add('RESTORE 8000: FOR I%%=1 TO %d: READ %s: NEXT' % (len(data), ref(c)))
        else:
            for c in cs:
                add('%s="%s"+""' % (ref(c), g['text']))
    add('CHAIN "P2"' + (',,ALL' if spec['mode'] == 'all' else ''))
    lines.append('8000 DATA ' + ','.join('"%s"' % d for d in data) if data else '8000 REM')
    workdir = tempfile.mkdtemp(prefix='pcbv_c11_')
    try:
        with open(os.path.join(workdir, 'P1.BAS'), 'wb') as f:
            f.write('\r\n'.join(lines).encode('ascii') + b'\r\n\x1a')
        with open(os.path.join(workdir, 'P2.BAS'), 'wb') as f:
            f.write(b'10 REM chained\r\n20 END\r\n\x1a')
        s = basic.new_session(devices={'C': workdir}, current_device='C')
        try:
            try:
                out = s.execute(b'RUN "P1"')
            except Exception as e:
                return 'chain-exception', 'RUN "P1" raised %s: %s (program %r)' % (type(e).__name__, e, lines)
            if out.strip():
                return 'chain-output', 'RUN "P1" printed %r (program %r)' % (out, lines)
            mem, mach = s._impl.memory, s._impl.all_memory
            ds = mem.data_segment * 0x10
            peek = lambda a: mach._get_memory(ds + a)
            preserved = set(spec['common'])

            def inspect(expect, when):
                vs = peek(0x358) + 256 * peek(0x359)
                bodies = []
                for cell, want in sorted(expect.items()):
                    nm = cell.split('(')[0]
                    idx = [int(cell.split('(')[1][:-1])] if '(' in cell else []
                    if nm not in preserved:
                        want = b''
                    try:
                        p = mem.varptr(nm.encode('ascii'), idx)
                    except Exception:
                        if want == b'':
                            continue
                        return 'chain-lost', '%s: %s does not exist, should read %r' % (when, cell, want)
                    ln, ad = peek(p), peek(p + 1) + 256 * peek(p + 2)
                    chars = bytes(peek(ad + i) for i in range(ln))
                    if chars != want:
                        return 'chain-value', '%s: %s reads %r through PEEK(VARPTR), should be %r' % (when, cell, chars, want)
                    if ln:
                        bodies.append((ad, ln, cell, ad < vs))
                bodies.sort()
                for (a, n, la, ta), (b, m, lb, tb) in zip(bodies, bodies[1:]):
                    if a + n > b and not (ta and tb):
                        return ('chain-aliased', '%s: %s (characters at %d..%d) and %s (at %d..%d) share storage in string '
                                'space' % (when, la, a, a + n, lb, b, b + m))
                return None
            r = inspect(expected, 'after CHAIN')
            if r:
                return r[0], r[1] + ' (program %r)' % (lines,)
            live = sorted(c for c in expected if c.split('(')[0] in preserved and expected[c])
            for kind, pick, text in spec['edits']:
                if not live:
                    break
                cell = live[pick % len(live)]
                old = expected[cell]
                new = text.encode('ascii')
                if kind == 'mid':
                    stmt = 'MID$(%s,1)="%s"' % (cell, text)
                    val = (new[:len(old)] + old[len(new):])[:len(old)]
                else:
                    stmt = '%s %s="%s"' % (kind.upper(), cell, text)
                    val = new[:len(old)].ljust(len(old)) if kind == 'lset' else new[:len(old)].rjust(len(old))
                try:
                    out = s.execute(stmt.encode('ascii'))
                except Exception as e:
                    return 'chain-exception', '%s raised %s: %s' % (stmt, type(e).__name__, e)
                if out.strip():
                    return 'chain-output', '%s printed %r' % (stmt, out)
                expected[cell] = val
                r = inspect(expected, 'after CHAIN and %s' % stmt)
                if r:
                    return r[0], r[1] + ' (program %r)' % (lines,)
            return None
        finally:
            s.close()
    finally:
        shutil.rmtree(workdir, ignore_errors=True)


def chain_probe(ctx, n):
    for k in range(n):
        spec = gen_chain_case(ctx.rng)
        ctx.case(('chain', k))
        ctx.count('chain:' + spec['mode'])
        for g in spec['groups']:
            if len(g['cells']) > 1:
                ctx.count('chain-shared:' + g['kind'])
        r = run_chain_case(spec)
        if r:
            ctx.fail(r[0], {'chain': spec}, r[1])


def run(ctx):
    translated.check_recsize(ctx)
    rng = ctx.rng
    impl = Impl(rng)
    collect = []
    try:
        for i, (h, base) in enumerate(fixed_histories()):
            run_history(ctx, impl, h, base, 'fixed%d' % i, collect, True)
        flush(ctx, collect, 'fixed')
        n_model, n_wild, n_ops = (36, 24, 22) if ctx.quick else (220, 160, 36)
        for i in range(n_model):
            base = rng.choice([0, 0, 1])
            h = gen_history(rng, rng.randint(6, n_ops), base, False)
            run_history(ctx, impl, h, base, 'm%d' % i, collect, True)
            if len(collect) >= 20:
                flush(ctx, collect, 'modelled')
        flush(ctx, collect, 'modelled')
        for i in range(n_wild):
            base = rng.choice([0, 0, 1])
            h = gen_history(rng, rng.randint(8, n_ops + 10), base, True)
            if rng.random() < 0.5:
                h.insert(0, ['clear', rng.randint(5200, 7000)])
            run_history(ctx, impl, h, base if h[0][0] != 'clear' else 0, 'w%d' % i, None, False)
        # the unrepaired Arrays.get_memory on the D6 witness (model of the old code)
        m = ctx.model(['peekold 4720 65020 0 %s 4748' % ';'.join(enc_op(o) for o in D6),
                       'hist 4720 65020 0 %s' % ';'.join(enc_op(o) for o in D6)])
        if m is not None:
            ctx.notes['D6_old_model_peek'] = m[0]
    finally:
        impl.close()
    chain_probe(ctx, 12 if ctx.quick else 150)


def replay(ctx, payload):
    case = payload.get('case', {})
    if 'chain' in case:
        r = run_chain_case(case['chain'])
        return r[1] if r else None
    if 'ops' not in case:
        return None
    sub = Ctx2(ctx)
    for seed in range(4):     # spelling of names / LET is chosen by the adapter PRNG
        sub.rng = random.Random(seed)
        impl = Impl(sub.rng)
        try:
            run_history(sub, impl, case['ops'], case.get('base', 0), 'replay', None, False)
        finally:
            impl.close()
        if sub.failures:
            break
    hits = [f for f in sub.failures if f['key'] == payload.get('key')] or sub.failures
    return hits[0]['what'] if hits else None


class Ctx2(object):
    """thin proxy so replay can reuse run_history without touching the outer evidence"""
    def __init__(self, ctx):
        self.__dict__.update(ctx.__dict__)
        self._ctx = ctx
        self.failures = []
        self.disagreements = []

    def case(self, key):
        pass

    def count(self, key, n=1):
        pass

    def sample(self, case, limit=12):
        pass

    def fail(self, key, case, what):
        self.failures.append({'key': key, 'case': case, 'what': what})
