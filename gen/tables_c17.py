"""Generate lean/PcbV/Gen/Tokens.lean: keyword tables per dialect and the token classes
Tokeniser / Lister depend on (C17)."""
from gen_tables import generator, HEADER, lean_list


def _pairs(d):
    return '[' + ',\n  '.join('(%s, %s)' % (lean_list(bytearray(k)), lean_list(bytearray(v)))
                              for k, v in sorted(d.items())) + ']'


@generator('Tokens')
def gen_tokens():
    from pcbasic.basic.base import tokens as tk
    from pcbasic.basic.converter.tokeniser import Tokeniser
    out = [HEADER, 'namespace PcbV.Gen.Tokens\n']
    adv = tk.TokenKeywordDict('advanced').to_keyword
    out.append('/-- TokenKeywordDict(syntax).to_keyword as (token, keyword) pairs, sorted by token -/')
    out.append('def advanced : List (List Nat × List Nat) :=\n  %s' % _pairs(adv))
    for syn in ('pcjr', 'tandy'):
        d = tk.TokenKeywordDict(syn).to_keyword
        extra = {k: v for k, v in d.items() if k not in adv or adv[k] != v}
        missing = [k for k in adv if k not in d]
        if missing:
            # not expressible as an extension: emit the whole table
            out.append('def %s : List (List Nat × List Nat) :=\n  %s' % (syn, _pairs(d)))
        else:
            out.append('def %s : List (List Nat × List Nat) :=\n  advanced ++ %s' % (syn, _pairs(extra)))
    out.append('/-- Tokeniser._linenum_words -/')
    out.append('def linenumWords : List (List Nat) := [%s]'
               % ', '.join(lean_list(bytearray(w)) for w in Tokeniser._linenum_words))
    out.append('/-- Tokeniser._ascii_operators -/')
    out.append('def asciiOperators : List Nat := %s' % lean_list(bytearray(Tokeniser._ascii_operators)))
    out.append('/-- tk.OPERATOR (one-byte tokens) -/')
    out.append('def operatorToks : List Nat := %s' % lean_list([ord(t) for t in tk.OPERATOR]))
    out.append('/-- tk.NUMBER and tk.LINE_NUMBER lead bytes -/')
    out.append('def numberLeads : List Nat := %s' % lean_list(sorted(ord(t) for t in tk.NUMBER)))
    out.append('def lineNumberLeads : List Nat := %s' % lean_list(sorted(ord(t) for t in tk.LINE_NUMBER)))
    out.append('/-- tk.PLUS_BYTES for the number / line-number lead bytes -/')
    out.append('def plusBytes (c : Nat) : Nat :=\n  match c with')
    for k, v in sorted(tk.PLUS_BYTES.items()):
        if k in tk.NUMBER + tk.LINE_NUMBER:
            out.append('  | %d => %d' % (ord(k), v))
    out.append('  | _ => 0')
    for name in ('T_UINT_PROC', 'T_UINT', 'T_OCT', 'T_HEX', 'T_BYTE', 'T_INT', 'T_SINGLE', 'T_DOUBLE', 'C_0', 'C_10',
                 'REM', 'O_REM', 'ELSE', 'WHILE', 'O_PLUS', 'DATA', 'PRINT', 'TAB', 'SPC', 'USR', 'FN'):
        out.append('def %s : Nat := %d' % ('t' + name.replace('_', ''), ord(getattr(tk, name))))
    for name in ('KW_REM', 'KW_O_REM', 'KW_DATA', 'KW_ELSE', 'KW_WHILE', 'KW_FN', 'KW_SPC', 'KW_TAB', 'KW_USR',
                 'KW_GOTO', 'KW_GOSUB'):
        out.append('def %s : List Nat := %s' % ('kw' + name[3:].replace('_', '').capitalize(),
                                                 lean_list(bytearray(getattr(tk, name)))))
    out.append('\nend PcbV.Gen.Tokens\n')
    return '\n'.join(out)
