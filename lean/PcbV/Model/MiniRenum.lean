import PcbV.Model.MiniBasic
/-
  PcbV.Model.MiniRenum — renumbering of a MiniBasic program (the AST-level counterpart of
  `PcbV.Renum.renum`): every line number and every jump target (GOTO, GOSUB, IF…THEN n, ELSE n,
  ON…GOTO/GOSUB) is sent through one map `f : Nat → Nat` on line numbers; nothing else changes.
  For `f = Renum.fmap res.map` this is what RENUM does to the lines and to the `0E` jump tokens.
-/
namespace PcbV.MiniBasic

def Stmt.renum (f : Nat → Nat) : Stmt → Stmt
  | .gosub n => .gosub (f n)
  | .goto n => .goto (f n)
  | .ifThen c tgt => .ifThen c (tgt.map f)
  | .else_ tgt => .else_ (tgt.map f)
  | .on_ e sub tgts => .on_ e sub (tgts.map f)
  | s => s

/-- the line numbers a statement refers to -/
def Stmt.targets : Stmt → List Nat
  | .gosub n => [n]
  | .goto n => [n]
  | .ifThen _ tgt => tgt.toList
  | .else_ tgt => tgt.toList
  | .on_ _ _ tgts => tgts
  | _ => []

def Line.renum (f : Nat → Nat) (l : Line) : Line := ⟨f l.num, l.stmts.map (Stmt.renum f)⟩

def renumProg (f : Nat → Nat) (p : List Line) : List Line := p.map (Line.renum f)

def Instr.renum (f : Nat → Nat) (ins : Instr) : Instr := ⟨ins.line.map f, ins.stmt.renum f⟩

def renumCode (f : Nat → Nat) (code : List Instr) : List Instr := code.map (Instr.renum f)

def codeTargets (code : List Instr) : List Nat := code.flatMap (fun ins => ins.stmt.targets)

def codeLines (code : List Instr) : List Nat := code.filterMap (·.line)

def progTargets (p : List Line) : List Nat := p.flatMap (fun l => l.stmts.flatMap Stmt.targets)

def progLines (p : List Line) : List Nat := p.map (·.num)

/-- the map does not identify a line with a different jump target: injective on the existing lines,
    and a target naming no line is not sent to the new number of a line -/
def Compat (f : Nat → Nat) (lines targets : List Nat) : Prop :=
  ∀ l ∈ lines, ∀ n ∈ targets, f l = f n → l = n

def ElseRes.map (f : Nat → Nat) : ElseRes → ElseRes
  | .found j tgt => .found j (tgt.map f)
  | .eol j => .eol j

end PcbV.MiniBasic
