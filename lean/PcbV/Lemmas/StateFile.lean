/-
  Lemmas for C40: the acceptance decision of load_session on a file with a complete header, and
  CRC-32 of a list with one element replaced.
-/
import PcbV.Lemmas.Crc
namespace PcbV.StateFile
open PcbV

theorem crc32_set_ne {blob : Bytes} {j v : Nat} (hok : Bytes.ok blob) (hj : j < blob.length)
    (hv : v < 256) (hne : blob[j]? ≠ some v) : crc32 (blob.set j v) ≠ crc32 blob := by
  have hb : blob[j] < 256 := hok _ (List.getElem_mem hj)
  have hne' : v ≠ blob[j] := by
    intro h; apply hne; simp [List.getElem?_eq_getElem hj, h]
  have hpre : Bytes.ok (blob.take j) := fun x hx => hok x (List.mem_of_mem_take hx)
  have hsuf : Bytes.ok (blob.drop (j + 1)) := fun x hx => hok x (List.mem_of_mem_drop hx)
  have h1 : blob.set j v = blob.take j ++ v :: blob.drop (j + 1) := by
    rw [List.set_eq_take_append_cons_drop]; simp [hj]
  have h2 : blob = blob.take j ++ blob[j] :: blob.drop (j + 1) := by
    rw [List.getElem_cons_drop]; simp
  rw [h1]
  conv => rhs; rw [h2]
  exact crc32_single_byte hpre hsuf hv hb hne'

theorem accept_cons24 (e : Expected) (c0 c1 c2 c3 f0 f1 f2 f3 p0 p1 p2 p3 q0 q1 q2 q3 m0 m1 m2 m3 n0 n1 n2 n3 : Nat) (blob : Bytes) :
    accept e (c0 :: c1 :: c2 :: c3 :: f0 :: f1 :: f2 :: f3 :: p0 :: p1 :: p2 :: p3 :: q0 :: q1 :: q2 :: q3 ::
      m0 :: m1 :: m2 :: m3 :: n0 :: n1 :: n2 :: n3 :: blob) = true ↔
    (crc32 blob = le32 c0 c1 c2 c3 ∧ e.formatVersion = le32 f0 f1 f2 f3 ∧ e.pythonMajor = le32 p0 p1 p2 p3 ∧
     e.pythonMinor = le32 q0 q1 q2 q3 ∧ e.pcbasicMajor = le32 m0 m1 m2 m3 ∧ e.pcbasicMinor = le32 n0 n1 n2 n3) := by
  simp only [accept, load, split]
  by_cases h1 : crc32 blob = le32 c0 c1 c2 c3 <;>
  by_cases h2 : e.formatVersion = le32 f0 f1 f2 f3 <;>
  by_cases h3 : e.pythonMajor = le32 p0 p1 p2 p3 <;>
  by_cases h4 : e.pythonMinor = le32 q0 q1 q2 q3 <;>
  by_cases h5 : e.pcbasicMajor = le32 m0 m1 m2 m3 <;>
  by_cases h6 : e.pcbasicMinor = le32 n0 n1 n2 n3 <;>
  simp [h1, h2, h3, h4, h5, h6, Except.isOk, Except.toBool]

theorem accept_short (e : Expected) (file : Bytes) (h : file.length < 24) : accept e file = false := by
  rcases file with _ | ⟨c0, file⟩
  · simp [accept, load, split, Except.isOk, Except.toBool]
  rcases file with _ | ⟨c1, file⟩
  · simp [accept, load, split, Except.isOk, Except.toBool]
  rcases file with _ | ⟨c2, file⟩
  · simp [accept, load, split, Except.isOk, Except.toBool]
  rcases file with _ | ⟨c3, file⟩
  · simp [accept, load, split, Except.isOk, Except.toBool]
  rcases file with _ | ⟨f0, file⟩
  · simp [accept, load, split, Except.isOk, Except.toBool]
  rcases file with _ | ⟨f1, file⟩
  · simp [accept, load, split, Except.isOk, Except.toBool]
  rcases file with _ | ⟨f2, file⟩
  · simp [accept, load, split, Except.isOk, Except.toBool]
  rcases file with _ | ⟨f3, file⟩
  · simp [accept, load, split, Except.isOk, Except.toBool]
  rcases file with _ | ⟨p0, file⟩
  · simp [accept, load, split, Except.isOk, Except.toBool]
  rcases file with _ | ⟨p1, file⟩
  · simp [accept, load, split, Except.isOk, Except.toBool]
  rcases file with _ | ⟨p2, file⟩
  · simp [accept, load, split, Except.isOk, Except.toBool]
  rcases file with _ | ⟨p3, file⟩
  · simp [accept, load, split, Except.isOk, Except.toBool]
  rcases file with _ | ⟨q0, file⟩
  · simp [accept, load, split, Except.isOk, Except.toBool]
  rcases file with _ | ⟨q1, file⟩
  · simp [accept, load, split, Except.isOk, Except.toBool]
  rcases file with _ | ⟨q2, file⟩
  · simp [accept, load, split, Except.isOk, Except.toBool]
  rcases file with _ | ⟨q3, file⟩
  · simp [accept, load, split, Except.isOk, Except.toBool]
  rcases file with _ | ⟨m0, file⟩
  · simp [accept, load, split, Except.isOk, Except.toBool]
  rcases file with _ | ⟨m1, file⟩
  · simp [accept, load, split, Except.isOk, Except.toBool]
  rcases file with _ | ⟨m2, file⟩
  · simp [accept, load, split, Except.isOk, Except.toBool]
  rcases file with _ | ⟨m3, file⟩
  · simp [accept, load, split, Except.isOk, Except.toBool]
  rcases file with _ | ⟨n0, file⟩
  · simp [accept, load, split, Except.isOk, Except.toBool]
  rcases file with _ | ⟨n1, file⟩
  · simp [accept, load, split, Except.isOk, Except.toBool]
  rcases file with _ | ⟨n2, file⟩
  · simp [accept, load, split, Except.isOk, Except.toBool]
  rcases file with _ | ⟨n3, file⟩
  · simp [accept, load, split, Except.isOk, Except.toBool]
  simp at h
  omega

end PcbV.StateFile
