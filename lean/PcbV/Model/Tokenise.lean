import PcbV.Basic
import PcbV.Gen.Errors
import PcbV.Gen.Tokens
/-
  PcbV.Model.Tokenise — pcbasic/basic/converter/tokeniser.py (Tokeniser.tokenise_line and the
  PlainTextStream / CodeStream readers it uses: read_line_number, read_number, _read_dec,
  _read_hex, _read_oct, read_string, read_to), over byte lists.

  * A stream is the list of bytes still to be read; `seek(-k, 1)` after a scan is modelled by keeping
    the consumed bytes (reversed) and pushing k of them back (only `_read_dec` needs it: it gives back
    trailing blanks by a *count*, which is not the same as a position when a `%` was swallowed).
  * The keyword table `t` is the dialect's `TokenKeywordDict.to_keyword` as (token, keyword) pairs
    (`PcbV.Gen.Tokens.advanced / pcjr / tandy`, regenerated from /repo on every run).
  * Number conversion: integer classes (one-byte constants, T_BYTE, T_INT, &H, &O) are modelled here;
    the decimal→MBF conversion of everything else is the parameter `Codec.readFloat` (the numeric part
    is property C07).  In the driver the parameter is a table filled by the real `Values.from_repr`.
  * Errors: `E.overflow` (6) for &H/&O literals above 65535.  Host exceptions of the unrepaired code are
    `hostExc`; `missing` means the float table of the request lacked an entry (harness problem).
  * `old := true` selects the unrepaired code: `Integer.from_oct` (blank inside an octal literal →
    ValueError) and the `?` shorthand, which did not leave jump-number mode (`THEN ? 5` stored the 5 as a
    line-number reference that RENUM rewrites, and the listing re-entered as a different line).
  * Not modelled: in `_tokenise_word`, after `GO TO` (single blank) was recognised the code could in
    principle `continue` on a following name character; the branch condition of
    `_tokenise_wide_goto_gosub` excludes exactly that, so the path does not exist.
-/
namespace PcbV.Tok
open PcbV PcbV.Gen PcbV.Gen.Tokens

abbrev Table := List (Bytes × Bytes)

/-- `to_token[word]` -/
def toToken (t : Table) (w : Bytes) : Option Bytes := (t.find? (fun p => p.2 == w)).map (·.1)
/-- `to_keyword[token]` -/
def toKeyword (t : Table) (k : Bytes) : Option Bytes := (t.find? (fun p => p.1 == k)).map (·.2)

def hostExc : Nat := 900
def missing : Nat := 901

/-- the number-conversion parameter (show, read) -/
structure Codec where
  /-- `Values.from_repr(word).to_token()` for a word that is not an Integer literal -/
  readFloat : Bytes → Option Bytes
  /-- `Values.from_bytes(trail).to_str(False, True)` for a T_SINGLE / T_DOUBLE payload (lead byte first) -/
  showFloat : Bytes → Option Bytes

/-! ### character classes (tokens.py) -/
def isDigit (c : Nat) : Bool := decide (48 ≤ c ∧ c ≤ 57)
def isUpper (c : Nat) : Bool := decide (65 ≤ c ∧ c ≤ 90)
def isLower (c : Nat) : Bool := decide (97 ≤ c ∧ c ≤ 122)
def isLetter (c : Nat) : Bool := isUpper c || isLower c
def isAlnum (c : Nat) : Bool := isLetter c || isDigit c
/-- NAME_CHARS -/
def isNameChar (c : Nat) : Bool := isAlnum c || c == 46
/-- bytes.upper() on one byte -/
def upper (c : Nat) : Nat := if isLower c then c - 32 else c
/-- CodeStream.blanks = b' \t\n' -/
def isBlank (c : Nat) : Bool := c == 32 || c == 9 || c == 10
def isOctDigit (c : Nat) : Bool := decide (48 ≤ c ∧ c ≤ 55)
def isHexDigit (c : Nat) : Bool := isDigit c || decide (65 ≤ c ∧ c ≤ 70) || decide (97 ≤ c ∧ c ≤ 102)

def lo (v : Nat) : Nat := v % 256
def hi (v : Nat) : Nat := v / 256 % 256

/-! ### CodeStream readers -/

/-- `read_to(findrange)`: (bytes before the first stop byte, rest starting at the stop byte) -/
def readTo (stop : Nat → Bool) : Bytes → Bytes × Bytes
  | [] => ([], [])
  | c :: cs => if stop c then ([], c :: cs) else ((readTo stop cs).1.cons c, (readTo stop cs).2)

/-- PlainTextStream.end_line = (NUL, CR) -/
def plainEnd (c : Nat) : Bool := c == 0 || c == 13

/-- `read_string()` on a plain-text stream -/
def readString : Bytes → Bytes × Bytes
  | 34 :: cs =>
    match (readTo (fun c => c == 34 || plainEnd c) cs).2 with
    | 34 :: r => (34 :: (readTo (fun c => c == 34 || plainEnd c) cs).1 ++ [34], r)
    | r => (34 :: (readTo (fun c => c == 34 || plainEnd c) cs).1, r)
  | inp => ([], inp)

/-- `PlainTextStream.read_line_number()`: `commit` is the stream just behind the last digit read
    (where `seek(-nblanks, 1)` returns to), `cur` the reading position -/
def lineNumGo : Nat → Bool → Nat → Bytes → Bytes → Option Nat × Bytes
  | val, have_, nd, commit, cur =>
    if nd ≥ 5 then (if have_ then some val else none, commit) else
    match cur with
    | [] => (if have_ then some val else none, commit)
    | c :: cs =>
      if isDigit c then
        if val * 10 + (c - 48) > 6552 then (some (val * 10 + (c - 48)), cs)
        else lineNumGo (val * 10 + (c - 48)) true (nd + 1) cs cs
      else if isBlank c then lineNumGo val have_ nd commit cs
      else (if have_ then some val else none, commit)

def readLineNum (inp : Bytes) : Option Nat × Bytes := lineNumGo 0 false 0 inp inp

/-- value of a digit string in base `b` (digits already validated) -/
def digitVal (c : Nat) : Nat :=
  if isDigit c then c - 48 else if decide (65 ≤ c ∧ c ≤ 70) then c - 55 else c - 87
def readBase (b : Nat) (ds : Bytes) : Nat := ds.foldl (fun a d => a * b + digitVal d) 0

/-- `_read_dec` loop: (word, consumed bytes reversed, rest) -/
def readDecGo : Bool → Bool → Bytes → Bytes → Bytes → Bytes × Bytes × Bytes
  | _, _, w, cr, [] => (w, cr, [])
  | he, hp, w, cr, c0 :: cs =>
    if upper c0 == 46 && !hp && !he then readDecGo he true (w ++ [upper c0]) (c0 :: cr) cs
    else if (upper c0 == 69 || upper c0 == 68) && !he then
      if upper c0 == 69 && (match cs with
                            | n :: _ => upper n == 76 || upper n == 81
                            | [] => false) then (w, cr, c0 :: cs)
      else readDecGo true hp (w ++ [upper c0]) (c0 :: cr) cs
    else if (upper c0 == 45 || upper c0 == 43) && (match w.getLast? with
                                                 | none => true
                                                 | some l => l == 69 || l == 68) then
      readDecGo he hp (w ++ [upper c0]) (c0 :: cr) cs
    else if isDigit c0 || isBlank c0 || c0 == 28 || c0 == 29 || c0 == 31 then
      readDecGo he hp (w ++ [upper c0]) (c0 :: cr) cs
    else if (c0 == 33 || c0 == 35) && !he then (w ++ [c0], c0 :: cr, cs)
    else if c0 == 37 then (w, c0 :: cr, cs)
    else (w, cr, c0 :: cs)

/-- rstrip(blanks) -/
def rstripBlanks (w : Bytes) : Bytes := (w.reverse.dropWhile isBlank).reverse

/-- `_read_dec`: the word (trailing blanks removed and given back to the stream *by count*) -/
def readDec (inp : Bytes) : Bytes × Bytes :=
  let r := readDecGo false false [] [] inp
  let trim := rstripBlanks r.1
  let k := r.1.length - trim.length
  (trim.dropWhile isBlank, (r.2.1.take k).reverse ++ r.2.2)

/-- `Integer.to_token()` for a value 0..32767 -/
def intToken (n : Nat) : Bytes :=
  if n < 256 then (if n < 10 then [tC0 + n] else [tTBYTE, n]) else [tTINT, lo n, hi n]

/-- `Values.from_repr(word, allow_nonnum=False).to_token()` for a decimal word -/
def decToken (cd : Codec) (w : Bytes) : Except Nat Bytes :=
  if w.all isDigit && !w.isEmpty && readBase 10 w ≤ 32767 then .ok (intToken (readBase 10 w))
  else match cd.readFloat w with
    | some tok => .ok tok
    | none => .error missing

def spanP (p : Nat → Bool) : Bytes → Bytes × Bytes
  | [] => ([], [])
  | c :: cs => if p c then ((spanP p cs).1.cons c, (spanP p cs).2) else ([], c :: cs)

/-- `read_number` + conversion for a literal starting with `&` (the `&` already dropped) -/
def ampToken (old : Bool) (cs : Bytes) : Except Nat (Bytes × Bytes) :=
  match cs with
  | h :: cs' =>
    if upper h == 72 then
      let s := spanP isHexDigit cs'
      if readBase 16 s.1 > 65535 then .error E.overflow
      else .ok ([tTHEX, lo (readBase 16 s.1), hi (readBase 16 s.1)], s.2)
    else
      let body := if upper h == 79 then cs' else cs
      let s := spanP (fun c => isOctDigit c || isBlank c) body
      let inner := rstripBlanks (s.1.dropWhile isBlank)
      if old && inner.any isBlank then .error hostExc
      else
        let v := readBase 8 (s.1.filter (fun c => !isBlank c))
        if v > 65535 then .error E.overflow else .ok ([tTOCT, lo v, hi v], s.2)
  | [] => .ok ([tTOCT, 0, 0], [])

/-- `_tokenise_number` -/
def tokNumber (old : Bool) (cd : Codec) : Bytes → Except Nat (Bytes × Bytes)
  | 38 :: cs => ampToken old cs
  | inp =>
    match decToken cd (readDec inp).1 with
    | .ok tok => .ok (tok, (readDec inp).2)
    | .error e => .error e

/-! ### keywords and names -/

def kwGo : Bytes := [71, 79]

/-- `_tokenise_wide_goto_gosub` on the stream behind `GO`: some (word, rest, allow_name_chars) when it matched -/
def wideGo (cs : Bytes) : Option (Bytes × Bytes × Bool) :=
  let four := (cs.take 4).map upper
  if four == [32, 83, 85, 66] then some (kwGosub, cs.drop 4, true)
  else if four.take 3 == [32, 84, 79] && (match four.drop 3 with
                                          | [x] => !isNameChar x
                                          | _ => false) then some (kwGoto, cs.drop 3, false)
  else if four.take 2 == [32, 32] then
    let r := cs.dropWhile (· == 32)
    if (r.take 2).map upper == [84, 79] then some (kwGoto, r.drop 2, true) else none
  else none

def isNoLookahead (w : Bytes) : Bool := w == kwFn || w == kwSpc || w == kwTab || w == kwUsr

/-- `nxt and nxt in NAME_CHARS` for the next byte of the stream -/
def nextIsName : Bytes → Bool
  | n :: _ => isNameChar n
  | [] => false

/-- what `_tokenise_word` writes for a recognised keyword -/
def emitKw (w tok : Bytes) : Bytes :=
  if w == kwElse then 58 :: tok else if w == kwWhile then tok ++ [tOPLUS] else tok

/-- `_tokenise_word`: (word returned, bytes written, rest) -/
def scanWord (t : Table) : Bytes → Bytes → Bytes × Bytes × Bytes
  | acc, [] =>
    match toToken t acc with
    | some tok => (acc, emitKw acc tok, [])
    | none => (acc, acc, [])
  | acc, c :: cs =>
    if acc ++ [upper c] == kwGo then
      match wideGo cs with
      | some (w, r, _) =>
        match toToken t w with
        | some tok => (w, emitKw w tok, r)
        | none => (w, w, r)
      | none => scanWord t (acc ++ [upper c]) cs
    else
      match toToken t (acc ++ [upper c]) with
      | some tok =>
        if !isNoLookahead (acc ++ [upper c]) && nextIsName cs
        then scanWord t (acc ++ [upper c]) cs
        else (acc ++ [upper c], emitKw (acc ++ [upper c]) tok, cs)
      | none =>
        if !isNameChar c then (acc, acc, c :: cs) else scanWord t (acc ++ [upper c]) cs

/-- `_tokenise_rem` stop set -/
def remEnd (c : Nat) : Bool := c == 13 || c == 0

/-- `_tokenise_data`: raw until `:` / end of line; string literals pass whole -/
def tokData : Bool → Bytes → Bytes × Bytes
  | _, [] => ([], [])
  | false, c :: cs =>
    if c == 13 || c == 0 || c == 58 then ([], c :: cs)
    else ((tokData (c == 34) cs).1.cons c, (tokData (c == 34) cs).2)
  | true, c :: cs =>
    if c == 13 || c == 0 then ([], c :: cs)
    else ((tokData (c != 34) cs).1.cons c, (tokData (c != 34) cs).2)

/-! ### the main loop -/

structure St where
  aj : Bool   -- allow_jumpnum
  an : Bool   -- allow_number
  st : Bool   -- spc_or_tab
deriving DecidableEq, Repr

def prepend (a : Bytes) : Except Nat Bytes → Except Nat Bytes
  | .ok b => .ok (a ++ b)
  | .error e => .error e

/-- state after a character of the final `else` branch -/
def punctSt (s : St) (c : Nat) : St :=
  if c == 44 || c == 35 || c == 59 then { s with an := true }
  else if c == 40 || c == 91 then { s with an := true }
  else if c == 41 then (if s.st then { aj := false, an := true, st := false } else { s with an := true })
  else { s with aj := false, an := false }

def punctOut (c : Nat) : Nat := if 32 ≤ c ∧ c ≤ 127 then c else 32

def wordSt (t : Table) (s : St) (w : Bytes) : St :=
  { aj := linenumWords.contains w, an := (toToken t w).isSome,
    st := s.st || w == kwSpc || w == kwTab }

def tokLoop (old : Bool) (t : Table) (cd : Codec) : Nat → St → Bytes → Except Nat Bytes
  | 0, _, _ => .ok []
  | _ + 1, _, [] => .ok []
  | f + 1, s, c :: cs =>
    if c == 0 then .ok []
    else if c == 13 then .ok []
    else if isBlank c then prepend [c] (tokLoop old t cd f s cs)
    else if c == 34 then
      prepend (readString (c :: cs)).1 (tokLoop old t cd f s (readString (c :: cs)).2)
    else if s.an && s.aj && (isDigit c || c == 46) then
      match readLineNum (c :: cs) with
      | (some n, r) => prepend [tTUINT, lo n, hi n] (tokLoop old t cd f s r)
      | (none, 46 :: r) => prepend [46] (tokLoop old t cd f s r)
      | (none, _) => .error hostExc
    else if c == 38 || (s.an && !s.aj && (isDigit c || c == 46)) then
      match tokNumber old cd (c :: cs) with
      | .ok (tok, r) => prepend tok (tokLoop old t cd f s r)
      | .error e => .error e
    else if asciiOperators.contains c then
      match toToken t [c] with
      | some tok => prepend tok (tokLoop old t cd f { s with an := true } cs)
      | none => .error hostExc
    else if c == 39 then
      prepend ([58, tREM, tOREM] ++ (readTo remEnd cs).1) (tokLoop old t cd f s (readTo remEnd cs).2)
    else if c == 63 then
      prepend [tPRINT] (tokLoop old t cd f { s with aj := old && s.aj, an := true } cs)
    else if isLetter c then
      let r := scanWord t [] (c :: cs)
      if r.1 == kwRem || r.1 == kwOrem then
        prepend (r.2.1 ++ (readTo remEnd r.2.2).1) (tokLoop old t cd f s (readTo remEnd r.2.2).2)
      else if r.1 == kwData then
        prepend (r.2.1 ++ (tokData false r.2.2).1) (tokLoop old t cd f s (tokData false r.2.2).2)
      else prepend r.2.1 (tokLoop old t cd f (wordSt t s r.1) r.2.2)
    else prepend [punctOut c] (tokLoop old t cd f (punctSt s c) cs)

/-- `_tokenise_line_number` -/
def tokLineNumber (inp : Bytes) : Bytes × Bytes :=
  match readLineNum inp with
  | (some n, r) =>
    ([0, 192, 222, lo n, hi n], match r with
                                | 32 :: r' => if n != 0 then r' else r
                                | _ => r)
  | (none, r) => ([58], r)

/-- `Tokeniser.tokenise_line` -/
def tokeniseLine (old : Bool) (t : Table) (cd : Codec) (line : Bytes) : Except Nat Bytes :=
  let l := line.dropWhile isBlank
  if l.isEmpty then .ok []
  else prepend (tokLineNumber l).1
    (tokLoop old t cd ((tokLineNumber l).2.length + 1) ⟨false, true, false⟩ (tokLineNumber l).2)

end PcbV.Tok
