"""C15 — Saved programs load back identically in every file format."""
import binascii
import importlib
import io
import os
import random
import shutil
import struct
import sys
import tempfile

from vlib import basic, translated

LEVEL = 'proof'
RULE = ('cipher: every (position mod 143, byte) pair in both directions plus byte strings of every length 0..300 and '
        'random longer ones; programs: typed programs (varied statements, all constant kinds, long lines, line numbers '
        'up to 65529, bytes 1..255 in strings/REM/DATA) and hand-assembled tokenised images (all byte values in '
        'literals/REM/DATA/constant payloads, line numbers up to 65535, bytes behind the program); each program goes '
        'through multi-step histories of edits, SAVE (tokenised/,A/,P), NEW, LOAD, MERGE, CHAIN MERGE, also with only 0..300 bytes of BASIC memory free (CLEAR ,n from feedback; program filling 64K); ASCII: lines whose listing is '
        '253..258 characters (REM / string padding, ? listed as PRINT) in first, inner and last position, and hand-written '
        'files with blank lines, CR / LF / CRLF line ends, missing or early 1A; a case = one cipher string, '
        'one SAVE, one LOAD, one MERGE, one conversion or one damaged file; non-trivial = program with at least one line')
EXPLANATION = ('theorems (PcbV.Props.C15): cipher_bijection for any key tables and every index, stream round trips in '
               'both directions incl. the dropped end byte, rebuild_line_dict is the identity on well-formed images, '
               'tokenised/protected SAVE->LOAD restore program memory byte for byte (memory_roundtrip_partial), and the '
               'counterexamples for the end-of-file byte that a tokenised LOAD keeps behind the program; '
               'correspondence: protect.py functions, CodeStream.skip_to, real SAVE file bytes and real LOAD results '
               '(buffer, size, protected flag) incl. damaged files vs the compiled Lean model; oracle: memory / LIST / '
               'file comparisons through real sessions on disk and cassette, MERGE vs re-entry, main._convert vs SAVE; under memory pressure (CLEAR ,n, 64K-filling program) MERGE / CHAIN MERGE / LOAD / retyping against a reference that enters the same lines afresh (store_line memory check modelled: storeOom)'
               '; source tie: the loop bodies of protect/unprotect are translated mechanically from the current '
               'Python AST into PcbV.Gen.Translated (gen/py2lean.py), proved equal to protByte/unprotByte/nextIndex '
               'on unbounded Python ints (translated_protStep_eq, translated_unprotStep_eq, translated_nextIndex_eq) '
               'and compared with the real functions (vlib/translated.py)')
TRUSTED_BASE = ['models PcbV.Model.Protect / PcbV.Model.SaveLoad are hand transcriptions of protect.py, Program.save/'
                'load/rebuild_line_dict, BinaryFile framing and CodeStream.skip_to(END_LINE); KEY1/KEY2, magic bytes, '
                'PLUS_BYTES and the REM token are regenerated from /repo (gen/tables_c15.py)',
                'ASCII format: no theorem; covered by the oracle only, conditional on re-entry (property C17)',
                'translator gen/py2lean.py + PcbV.PyInt (Python int semantics of % and ^ in Lean), validated by '
                'vlib/translated.py against the real protect/unprotect and Python\'s own operators; it covers the two loop '
                'bodies only (stream framing, SAVE/LOAD stay hand transcriptions)']
ASSUMPTIONS = ['program images stay below 64K (struct.pack("<H") of the line offsets)',
               'the host file system returns the bytes that were written to a temp directory']

KNOWN_EOF_MEM = 'eof-kept:memory-after-tokenised-load-and-edit'
KNOWN_EOF_FILE = 'eof-kept:tokenised-file-grows-on-resave'
KNOWN_EOF_CONVERT = 'eof-kept:converter-output-depends-on-input-format'


def hx(b):
    return binascii.hexlify(bytes(b)).decode() or '-'


def unhx(s):
    return b'' if s == '-' else binascii.unhexlify(s)


def protect_mod():
    return importlib.import_module('pcbasic.basic.converter.protect')


def run_cipher(fn, data):
    """Drive protect()/unprotect() on a byte string; returns ('ok', output) or ('exc', name)."""
    ins, outs = io.BytesIO(data), io.BytesIO()
    try:
        fn(ins, outs)
    except Exception as e:  # a host exception is an observable (and a violation for the oracle)
        return ('exc', type(e).__name__, outs.getvalue())
    return ('ok', outs.getvalue())


# ---------------------------------------------------------------------------------------------
# 1. the cipher

def cipher_part(ctx):
    pm = protect_mod()
    rng = ctx.rng
    cases, outs, lines = [], [], []

    def both(data, tag):
        for op, fn in (('prot', pm.protect), ('unprot', pm.unprotect)):
            r = run_cipher(fn, data)
            cases.append({'cipher': op, 'data': hx(data)})
            outs.append('ok ' + hx(r[1]) if r[0] == 'ok' else 'exc ' + r[1])
            lines.append('%s %s' % (op, hx(data)))
            ctx.case((op, data))
            ctx.count('cipher:' + tag)
            if r[0] != 'ok':
                key = 'cipher-empty-stream' if len(data) <= 1 else 'cipher-exception:%s:%d' % (op, len(data))
                ctx.fail(key, {'cipher': op, 'data': hx(data)},
                         '%s on a %d-byte stream raised %s' % (op, len(data), r[1]))

    # exhaustive: constant streams of length 2*143+1 give every (position, byte) pair twice (period check)
    n = 2 * 143
    enc, dec = {}, {}
    for b in range(256):
        data = bytes([b]) * n
        both(data + b'\x1a', 'exhaustive')
        e = run_cipher(pm.protect, data)
        d = run_cipher(pm.unprotect, data + b'\x1a')
        if e[0] != 'ok' or d[0] != 'ok' or len(e[1]) != n or len(d[1]) != n:
            ctx.fail('cipher-length:%d' % b, {'cipher': 'const', 'byte': b}, 'wrong output length or exception')
            continue
        for i in range(n):
            enc[(i, b)] = e[1][i]
            dec[(i, b)] = d[1][i]
    bad = 0
    for i in range(n):
        for b in range(256):
            if (i, b) not in enc:
                continue
            c = enc[(i, b)]
            if dec.get((i, c)) != b or enc.get((i, dec[(i, b)])) != b or enc[(i % 143, b)] != c:
                bad += 1
                if bad <= 5:
                    ctx.fail('cipher-bijection:pos%d:byte%d' % (i % 143, b), {'cipher': 'pair', 'pos': i, 'byte': b},
                             'position %d byte %d: encode->%d, decode(encode)=%s, encode(decode)=%s, period image %d'
                             % (i, b, c, dec.get((i, c)), enc.get((i, dec[(i, b)])), enc[(i % 143, b)]))
        if len({enc[(i, b)] for b in range(256) if (i, b) in enc}) != 256:
            ctx.fail('cipher-permutation:pos%d' % (i % 143), {'cipher': 'perm', 'pos': i},
                     'encoding at position %d is not a permutation of the 256 byte values' % i)
    ctx.notes['cipher_pairs_exhaustive'] = '143 positions x 256 bytes, both directions, two periods'
    # byte strings of every length
    lengths = list(range(0, 301)) + [rng.randrange(301, 3000) for _ in range(20 if ctx.quick else 400)]
    if not ctx.quick:
        lengths += [rng.randrange(0, 600) for _ in range(4000)]
    for ln in lengths:
        kind = rng.random()
        if kind < 0.6:
            data = bytes(rng.randrange(256) for _ in range(ln))
        elif kind < 0.8:
            data = bytes(rng.choice((0, 0x1a, 0xff, 0xfe, 0x0d)) for _ in range(ln))
        else:
            data = bytes((rng.randrange(256),)) * ln
        both(data, 'len')
        e = run_cipher(pm.protect, data)
        if e[0] != 'ok':
            continue
        if len(e[1]) != len(data):
            ctx.fail('cipher-length:%d' % ln, {'cipher': 'prot', 'data': hx(data)}, 'length not preserved')
        for last in (b'\x1a', bytes((rng.randrange(256),))):
            d = run_cipher(pm.unprotect, e[1] + last)
            if d[0] != 'ok' or d[1] != data:
                ctx.fail('cipher-roundtrip:len%d' % ln, {'cipher': 'roundtrip', 'data': hx(data), 'last': hx(last)},
                         'unprotect(protect(s)+%r) != s: %r' % (last, d[:2]))
            d2 = run_cipher(pm.unprotect, data + last)
            if d2[0] == 'ok':
                e2 = run_cipher(pm.protect, d2[1])
                if e2[0] != 'ok' or e2[1] != data:
                    ctx.fail('cipher-roundtrip-conv:len%d' % ln, {'cipher': 'roundtrip', 'data': hx(data), 'last': hx(last)},
                             'protect(unprotect(t+e)) != t')
    ctx.compare(cases, outs, lines, label='cipher')
    ctx.sample({'cipher': 'prot', 'data': '0079120a', 'impl': hx(run_cipher(pm.protect, b'\0\x79\x12\x0a')[1])})


# ---------------------------------------------------------------------------------------------
# 2. skip_to(END_LINE)

PLUS_LEAD = [0x0b, 0x0c, 0x0d, 0x0e, 0x0f, 0x1c, 0x1d, 0x1f, 0xfd, 0xfe, 0xff]
SPECIAL = [0, 0, 0x22, 0x22, 0x8f, 0x3a, 0x20, 0x84, 0x1a] + PLUS_LEAD


def skip_part(ctx):
    from pcbasic.basic.base import codestream, tokens as tk
    rng = ctx.rng
    cases, outs, lines = [], [], []
    for _ in range(1500 if ctx.quick else 60000):
        ln = rng.randrange(0, 40)
        data = bytes(rng.choice(SPECIAL) if rng.random() < 0.45 else rng.randrange(256) for _ in range(ln))
        st = codestream.TokenisedStream()
        st.write(data)
        st.seek(0)
        try:
            st.skip_to(tk.END_LINE)
            out = 'ok %d' % st.tell()
        except Exception as e:
            out = 'exc %s' % type(e).__name__
        cases.append({'skip': hx(data)})
        outs.append(out)
        lines.append('skip %s' % hx(data))
        ctx.case(('skip', data))
        ctx.count('skip_to')
    ctx.compare(cases, outs, lines, label='skip_to')


# ---------------------------------------------------------------------------------------------
# 3. programs

PRINTABLE = [c for c in range(0x20, 0x7f) if c != 0x22]
# number-token lead bytes are left out of free text: the lister decodes them even inside strings and REM and
# runs over the end of the line (LIST then raises a host exception - reported, not part of this property)
NUM_LEAD = (0x0b, 0x0c, 0x0d, 0x0e, 0x0f, 0x1c, 0x1d, 0x1f)
TEXT_BYTES = [c for c in range(1, 256) if c not in (0x0a, 0x0d, 0x22) + NUM_LEAD]
LINE_NUMBERS = [0, 1, 2, 9, 10, 99, 100, 255, 256, 257, 999, 1000, 9999, 10000, 32767, 32768, 65000, 65528, 65529]


def rand_text(rng, n, wild):
    pool = TEXT_BYTES if wild else PRINTABLE
    return bytes(rng.choice(pool) for _ in range(n))


def rand_number(rng):
    return rng.choice([
        b'0', b'1', b'9', b'10', b'11', b'255', b'256', b'32767', b'32768', b'65535', b'65536', b'-1', b'1.5', b'.5',
        b'1E10', b'1D10', b'1.0000001', b'3.14159265358979', b'1E-38', b'1.7D+38', b'&HFF', b'&H7FFF', b'&HFFFF',
        b'&O17', b'&O177777', b'123456789', b'1!', b'1#', b'1%',
        b'%d' % rng.randrange(0, 70000), b'%d.%d' % (rng.randrange(1000), rng.randrange(1000)),
    ])


def rand_statement(rng, numbers, wild):
    k = rng.randrange(17)
    var = rng.choice([b'A', b'B%', b'C$', b'D!', b'E#', b'X(1)', b'LONGNAME', b'N1'])
    tgt = b'%d' % rng.choice(numbers) if numbers else b'10'
    if k == 0:
        return b'PRINT "' + rand_text(rng, rng.randrange(0, 30), wild) + b'"'
    if k == 1:
        return b'REM ' + rand_text(rng, rng.randrange(0, 40), wild)
    if k == 2:
        return b"' " + rand_text(rng, rng.randrange(0, 30), wild)
    if k == 3:
        return b'DATA ' + b','.join(rng.choice([rand_number(rng), b'"' + rand_text(rng, 5, wild) + b'"',
                                                 rand_text(rng, 4, False).replace(b',', b'').replace(b':', b'')])
                                     for _ in range(rng.randrange(1, 6)))
    if k == 4:
        return var + b'=' + rand_number(rng) + rng.choice([b'+', b'-', b'*', b'/', b'\\', b' MOD ', b' AND ', b'^']) \
            + rand_number(rng)
    if k == 5:
        return b'IF ' + var + b'>' + rand_number(rng) + b' THEN ' + tgt + b' ELSE PRINT ' + rand_number(rng)
    if k == 6:
        return rng.choice([b'GOTO ', b'GOSUB ', b'RESTORE ', b'RUN ', b'ON ERROR GOTO ']) + tgt
    if k == 7:
        return b'FOR I=' + rand_number(rng) + b' TO ' + rand_number(rng) + b' STEP ' + rand_number(rng) + b':NEXT I'
    if k == 8:
        return b'ON ' + var + b' GOTO ' + b','.join(b'%d' % rng.choice(numbers or [10]) for _ in range(3))
    if k == 9:
        return b'DEF FNA(X)=X*' + rand_number(rng) + b'+SIN(X)'
    if k == 10:
        return b'? ' + b';'.join(rand_number(rng) for _ in range(rng.randrange(1, 5)))
    if k == 11:
        return b'WHILE ' + var + b'<' + rand_number(rng) + b':WEND'
    if k == 12:
        return b'OPEN "' + rand_text(rng, 6, False) + b'" FOR INPUT AS #1:CLOSE'
    if k == 13:
        return b'C$=MID$("' + rand_text(rng, 8, wild) + b'",2,3)+CHR$(' + rand_number(rng) + b')+STRING$(3,"x")'
    if k == 15:
        # CHR$(143) (the byte value of the REM token; A-ring in codepage 437) in a string, then constants that
        # contain NUL bytes in tokenised form
        return b'PRINT "' + rand_text(rng, rng.randrange(0, 5), False) + b'\x8f' + rand_text(rng, rng.randrange(0, 5), False) \
            + b'";' + rng.choice([b'256', b'65536', b'1', b'&H100', b'1.5', b'1D0']) + b':GOTO ' + tgt
    if k == 14:
        return b'LOCATE 1,1:COLOR 7,0:KEY OFF:CLS:SCREEN 0:WIDTH 80:PLAY "CDE":SOUND 440,1'
    return rng.choice([b'END', b'STOP', b'RETURN', b'CLS', b'BEEP', b'RANDOMIZE TIMER', b'INPUT A$', b'LINE INPUT B$',
                       b'PRINT USING "##.##";X', b'DIM Z(10,10)', b'ERASE Z', b'SWAP A,B', b'POKE 1,2', b'DEFINT A-Z'])


def rand_line(rng, num, numbers, wild, long_line=False):
    head = b'%d ' % num
    parts = [rand_statement(rng, numbers, wild)]
    limit = 250 if long_line else rng.choice([20, 60, 120])
    while sum(map(len, parts)) + len(parts) + len(head) < limit and (long_line or rng.random() < 0.5):
        parts.append(rand_statement(rng, numbers, wild))
    line = head + b':'.join(parts)
    while len(line) > 254:
        parts.pop()
        line = head + b':'.join(parts) if parts else head + b'REM'
    if long_line and len(line) < 240:
        line += b':REM ' + rand_text(rng, 249 - len(line), wild)
    return line


def rand_typed_program(rng, nlines, wild):
    numbers = set()
    while len(numbers) < nlines:
        numbers.add(rng.choice(LINE_NUMBERS) if rng.random() < 0.4 else rng.randrange(0, 65530))
    numbers = sorted(numbers)
    order = numbers[:]
    if rng.random() < 0.5:
        rng.shuffle(order)
    return [rand_line(rng, n, numbers, wild, long_line=(rng.random() < 0.1)) for n in order]


def rand_body(rng):
    """A token string without a NUL outside token payloads (all byte values appear in payloads/literals)."""
    out = bytearray()
    target = rng.choice([0, 1, 5, 20, 60, 260, 400]) if rng.random() < 0.5 else rng.randrange(0, 80)
    plain = [c for c in range(1, 256) if c not in PLUS_LEAD and c not in (0x22, 0x8f)]
    plus = {0x0b: 2, 0x0c: 2, 0x0e: 2, 0x0f: 1, 0x1c: 2, 0x1d: 4, 0x1f: 8, 0xff: 1, 0xfe: 1, 0xfd: 1}
    nonzero = [c for c in range(1, 256) if c not in NUM_LEAD]
    while len(out) < target:
        k = rng.random()
        if k < 0.35:
            out += bytes(rng.choice(plain) for _ in range(rng.randrange(1, 6)))
        elif k < 0.6:
            lead = rng.choice(sorted(plus))
            if lead >= 0xfd:
                payload = bytes((rng.randrange(0x81, 0xa0),))
            else:
                payload = bytes(rng.choice((0, 0, 0x1a, rng.randrange(256))) for _ in range(plus[lead]))
            out += bytes((lead,)) + payload
        elif k < 0.85:
            lit = bytes(rng.choice(nonzero) for _ in range(rng.randrange(0, 20))).replace(b'"', b'\x1a')
            out += b'"' + lit + b'"'
        elif k < 0.93:
            out += b'\x84 ' + bytes(rng.choice(nonzero) for _ in range(rng.randrange(0, 12))).replace(b'"', b'x') \
                .replace(b'\x8f', b'y') + b':'
        else:
            # REM / ' swallow the rest of the line
            out += rng.choice([b'\x8f', b':\x8f\xd9']) + bytes(rng.choice(nonzero) for _ in range(rng.randrange(0, 30)))
            break
    return bytes(out)


def rand_image_file(rng, cs, tail_kind):
    """A hand-assembled tokenised (B) file: lines with numbers up to 65535, correct or arbitrary offsets."""
    n = rng.choice([0, 1, 2, 3, 8, 25])
    nums = set()
    while len(nums) < n:
        nums.add(rng.choice([0, 1, 255, 256, 32768, 65529, 65530, 65534, 65535]) if rng.random() < 0.3
                 else rng.randrange(65536))
    good_offsets = rng.random() < 0.5
    img = bytearray()
    pos = 0
    for num in sorted(nums):
        body = rand_body(rng)
        nxt = pos + 5 + len(body)
        off = (cs + 1 + nxt) if good_offsets else rng.randrange(1, 65536)
        img += b'\0' + struct.pack('<HH', off & 0xffff or 1, num) + body
        pos = nxt
    img += b'\0\0\0'
    tail = {'none': b'', 'garbage': bytes(rng.randrange(256) for _ in range(rng.randrange(1, 10))),
            'eofs': b'\x1a' * rng.randrange(1, 4)}[tail_kind]
    return b'\xff' + bytes(img[1:]) + tail + b'\x1a'


class Runner(object):
    """Executes JSON-able scenarios on real sessions in a temp directory and applies the oracle."""

    def __init__(self, ctx):
        self.ctx = ctx
        self.tmp = tempfile.mkdtemp(prefix='pcbv_c15_')
        self.sessions = {}
        self.cases, self.outs, self.lines = [], [], []
        self.n = 0
        self.fit_cache = {}
        self.last_fit_n = None
        self.default_total = None
        self.pressured = set()

    def close(self):
        for s, _ in self.sessions.values():
            try:
                s.close()
            except Exception:
                pass
        shutil.rmtree(self.tmp, ignore_errors=True)

    def session(self, hide):
        """One long-lived session per configuration, each with its own mounted directory."""
        if hide not in self.sessions:
            d = os.path.join(self.tmp, 'd%s' % hide)
            os.makedirs(d, exist_ok=True)
            kw = {'hide_protected': True} if hide == 1 else {}
            if hide in ('reentry', 'pressure'):
                s = basic.new_session()
            else:
                s = basic.new_session(devices={'C': d}, current_device='C', **kw)
            s.execute(b'NEW')
            self.sessions[hide] = (s, d)
        return self.sessions[hide]

    # -- memory pressure (CLEAR ,n): reference answers that do not depend on how a program was built
    @staticmethod
    def line_number(line):
        digits = b''
        for c in bytearray(line.lstrip(b' ')):
            if not 48 <= c <= 57:
                break
            digits += bytes((c,))
        return int(digits) if digits else None

    def fits(self, lines, n):
        """Does the program made of these lines fit when BASIC memory is n bytes?  Reference: a fresh program in
        another session with the same CLEAR ,n, the lines entered in ascending order (so every store appends)."""
        key = (n, tuple(lines))
        if key not in self.fit_cache:
            if 'pressure' in self.sessions and self.last_fit_n is not None and n > self.last_fit_n:
                self.sessions.pop('pressure')[0].close()
            s3, _ = self.session('pressure')
            self.last_fit_n = n
            s3.execute(b'NEW')
            out = s3.execute(b'CLEAR ,%d' % n)
            ok = b'Out of memory' not in out
            for l in lines:
                if not ok:
                    break
                ok = b'Out of memory' not in s3.execute(l)
            self.pressured.add('pressure')
            self.fit_cache[key] = ok
            self.ctx.count('pressure:reference-builds')
        return self.fit_cache[key]

    def simulate(self, base_lines, new_lines, n):
        """Reference result of storing new_lines one after the other into the program base_lines with n bytes of
        BASIC memory: (lines of the resulting program, index of the first line that must be refused or None).
        A store is refused iff the program as it would be after that store does not fit."""
        prog = {}
        for l in base_lines:
            prog[self.line_number(l)] = l
        for i, l in enumerate(new_lines):
            num = self.line_number(l)
            if num is None:
                continue
            body = l.lstrip(b' ')[len(b'%d' % num):].strip(b' ')
            nxt = dict(prog)
            if body:
                nxt[num] = l
            else:
                nxt.pop(num, None)
            if body and not self.fits([nxt[k] for k in sorted(nxt)], n):
                return [prog[k] for k in sorted(prog)], i
            prog = nxt
        return [prog[k] for k in sorted(prog)], None

    def drop_pressured(self):
        """CLEAR ,n can only shrink BASIC memory within a session: a session that was put under memory pressure is
        replaced by a new one"""
        for hide in list(self.pressured):
            if hide in self.sessions:
                try:
                    self.sessions.pop(hide)[0].close()
                except Exception:
                    pass
        self.pressured = set()

    def type_under_pressure(self, s, sc, line, n, cs, fail):
        """(re)typing a program line with n bytes of BASIC memory: model of the memory check + reference outcome"""
        p, mem_ = s._impl.program, s._impl.memory
        num = self.line_number(line)
        base_lines = p.list_lines(None, None)
        buf = p.bytecode.getvalue()
        before_mem = buf[:p.size()]
        nums = sorted(p.line_numbers)
        afterpos = p.line_numbers[min(k for k in nums if k > num)] if num < 65536 else None
        pos = p.line_numbers.get(num, afterpos)
        try:
            length = len(s._impl.tokeniser.tokenise_line(line).getvalue())
        except Exception:
            length = None
        out = s.execute(line)
        body = line.lstrip(b' ')[len(b'%d' % num):].strip(b' ')
        refused_really = b'Out of memory' in out
        if body and length is not None and afterpos is not None:
            self.cases.append({'store': hx(line), 'n': n})
            self.outs.append('ok %d' % int(refused_really))
            self.lines.append('store %d %d %d %d %d' % (cs, mem_.stack_start(), pos, length, len(buf) - afterpos))
        if self.reentry_memory([base_lines]) != before_mem:
            # the reference is built from listings; it only speaks for programs whose listing re-enters as the same bytes
            self.ctx.count('pressure:type:base-excluded')
            return
        final_lines, refused = self.simulate(base_lines, [line], n)
        self.ctx.case(('type-pressure', n, line))
        self.ctx.count('pressure:type:%s' % ('refusal-expected' if refused is not None else 'must-succeed'))
        if refused is not None:
            # genuinely no room: nothing demanded (the exact limit is the business of the storeOom model comparison)
            return
        if refused_really:
            fail('pressure:type:spurious-out-of-memory',
                 'typing line %d with %d bytes of BASIC memory printed %r; the resulting program fits when entered afresh'
                 % (num, n, out))
        else:
            exp = self.reentry_memory([final_lines])
            now = p.bytecode.getvalue()[:p.size()]
            if exp is not None and now != exp and self.reentry_memory([base_lines]) == before_mem:
                fail('pressure:type:memory', 'program memory after typing line %d under memory pressure differs from '
                     'entering the resulting lines afresh' % num)

    def flush(self):
        if self.cases:
            self.ctx.compare(self.cases, self.outs, self.lines, label='save-load')
        self.cases, self.outs, self.lines = [], [], []

    # -- observations
    @staticmethod
    def state(s):
        p = s._impl.program
        buf = p.bytecode.getvalue()
        return buf, p.size(), bool(p.protected)

    console_list = True

    def listing(self, s):
        """What LIST shows: the lister's lines, plus the console output of a real LIST for short programs
        (LIST scrolls the emulated screen, which is slow)."""
        p = s._impl.program
        if p.protected:
            return ('protected', s.execute(b'LIST'))
        lines = tuple(p.list_lines(None, None))
        return (lines, s.execute(b'LIST') if len(lines) <= 6 and self.console_list else None)

    def reentry_memory(self, listing_groups):
        """Program memory after typing the given listings into a fresh program (None if impossible)."""
        return self.reentry_state(listing_groups)[0]

    def reentry_state(self, listing_groups):
        """(program memory, listing) after typing the given listings into a fresh program; (None, None) if
        impossible"""
        s2, _ = self.session('reentry')
        try:
            s2.execute(b'NEW')
            for lines in listing_groups:
                for l in lines:
                    if b'\r' in l or b'\n' in l or len(l) > 255:
                        return None, None
                    s2.execute(l)
        except Exception:
            # the tokeniser let a host exception escape on this listing (e.g. '&O0  75'): not re-enterable;
            # reported separately, outside this property.  The session is discarded.
            self.ctx.count('reentry:host-exception')
            self.sessions.pop('reentry')
            return None, None
        buf, size, _ = self.state(s2)
        return buf[:size], self.listing(s2)

    def run(self, sc):
        """Run one scenario; returns list of (key, what) oracle failures (also registered with ctx)."""
        ctx = self.ctx
        fails = []

        def fail(key, what):
            fails.append((key, what))
            ctx.fail(key, sc, what)

        hide = sc.get('hide', 0)
        self.console_list = not sc.get('nolist', False)
        self.drop_pressured()
        s, d = self.session(hide)
        for fn in os.listdir(d):
            os.unlink(os.path.join(d, fn))
        s.execute(b'NEW')
        if self.default_total is None:
            self.default_total = s._impl.memory.total_memory
        pressure_n = None
        cs = s._impl.memory.code_start
        snaps = {}
        # a tokenised file is in the ancestry of the program in memory (since it was last built from text):
        # the only situation in which the known 1A deviation may show
        tok = False
        last_loaded = None

        def eof_only(a, b):
            """the two memory images differ exactly by trailing 1A bytes"""
            if len(a) < len(b):
                a, b = b, a
            return a != b and a.startswith(b) and set(a[len(b):]) == {0x1a}
        for op in sc['ops']:
            kind = op[0]
            self.n += 1
            if kind == 'type':
                line = unhx(op[1])
                if pressure_n is not None and self.line_number(line) is not None:
                    self.type_under_pressure(s, sc, line, pressure_n, cs, fail)
                else:
                    out = s.execute(line)
                last_loaded = None
                ctx.count('op:type')
            elif kind == 'clear':
                # CLEAR ,n with n from feedback: the program end + stack + op[1] bytes (+ the stored length of line op[2])
                mem_ = s._impl.memory
                p_ = s._impl.program
                extra = op[1]
                if op[2] is not None and op[2] in p_.line_numbers:
                    nums = sorted(p_.line_numbers)
                    extra += p_.line_numbers[nums[nums.index(op[2]) + 1]] - p_.line_numbers[op[2]]
                pressure_n = mem_.var_start() + mem_.stack_size + 2 + max(extra, 0)
                out = s.execute(b'CLEAR ,%d' % pressure_n)
                self.pressured.add(hide)
                ctx.count('pressure:clear')
                if out != b'':
                    fail('pressure:clear', 'CLEAR ,%d (program end + stack + %d bytes) printed %r' % (pressure_n, extra, out))
                    pressure_n = None
            elif kind == 'fill':
                # grow the program with REM lines (numbers from 20000) until fewer than op[1] bytes are free
                # (at least 3 bytes stay free so that file commands can still hold their file name)
                num = 20000
                while num < 60000:
                    free = int(s.execute(b'PRINT FRE(0)').strip() or 0)
                    size = min(240, free - 7 - op[1])
                    if size < 1:
                        break
                    if b'Out of memory' in s.execute(b'%d REM %s' % (num, b'f' * size)):
                        break
                    num += 1
                self.pressured.add(hide)
                pressure_n = s._impl.memory.total_memory
                ctx.count('pressure:fill')
            elif kind == 'new':
                s.execute(b'NEW')
                tok, last_loaded = False, None
            elif kind == 'file':
                with open(os.path.join(d, op[1] + '.BAS'), 'wb') as f:
                    f.write(unhx(op[2]))
                snaps[op[1]] = {'fmt': 'raw', 'file': unhx(op[2])}
            elif kind == 'afile':
                # a hand-written ASCII program file: op[3] = the program lines it is made of (before the first 1A);
                # what it must load as is what typing those lines gives
                data, flines = unhx(op[2]), [unhx(l) for l in op[3]]
                with open(os.path.join(d, op[1] + '.BAS'), 'wb') as f:
                    f.write(data)
                re_mem, re_listing = self.reentry_state([flines])
                snaps[op[1]] = {'fmt': 'A', 'file': data, 'lines': flines, 'mem': re_mem, 'exp_mem': re_mem,
                                'listing': re_listing, 'exp_listing': re_listing, 'prot': False, 'tok': False,
                                'reenters': re_mem is not None, 'handwritten': True}
                ctx.count('ascii-file:handwritten')
                for l in flines:
                    if 253 <= len(l) <= 255:
                        ctx.count('ascii-file:line-length-%d' % len(l))
            elif kind == 'save':
                name, fmt = op[1], op[2]
                buf, size, prot = self.state(s)
                mem = buf[:size]
                listing = self.listing(s)
                lines = [] if prot else list(listing[0])
                out = s.execute(b'SAVE "%s"%s' % (name.encode(), {'B': b'', 'A': b',A', 'P': b',P'}[fmt]))
                ctx.case(('save', fmt, mem))
                ctx.count('save:' + fmt)
                path = os.path.join(d, name + '.BAS')
                data = open(path, 'rb').read() if os.path.exists(path) else None
                if prot and fmt != 'P':
                    # statement: nothing to restore; the code refuses (Illegal function call)
                    res = 'err 5' if b'Illegal function call' in out else 'out %r' % out
                    ctx.count('save:refused-protected')
                elif out != b'' or data is None:
                    res = 'out %r' % out
                    fail('save-error:%s' % fmt, 'SAVE ,%s printed %r' % (fmt, out))
                else:
                    res = 'ok ' + hx(data)
                if fmt in 'BP':
                    self.cases.append({'save': fmt, 'buf': hx(buf), 'size': size, 'prot': prot})
                    self.outs.append(res)
                    self.lines.append('save %s %d %d %s' % (fmt, int(prot), size, hx(buf)))
                if not res.startswith('ok'):
                    continue
                snap = {'fmt': fmt, 'mem': mem, 'buf': buf, 'listing': listing, 'lines': lines, 'file': data,
                        'prot': prot, 'tok': tok}
                snaps[name] = snap
                # framing, from the statement / file format: magic byte, payload, 1A
                if fmt == 'B':
                    if data[:1] != b'\xff' or data[-1:] != b'\x1a' or data[1:-1] != buf[1:]:
                        fail('frame:B', 'tokenised file is not FF + program image + 1A')
                elif fmt == 'P':
                    dec = run_cipher(protect_mod().unprotect, data[1:])
                    if data[:1] != b'\xfe' or data[-1:] != b'\x1a' or dec[0] != 'ok' or dec[1] != buf[1:]:
                        fail('frame:P', 'protected file is not FE + coded program image + 1A')
                else:
                    exp = b''.join(l + b'\r\n' for l in lines) + b'\x1a'
                    if data != exp:
                        fail('frame:A', 'ASCII file is not the listing with CR LF line ends and 1A')
                    framing = all(0x1a not in l and b'\r' not in l and b'\n' not in l and len(l) <= 255
                                  for l in lines)
                    snap['framing'] = framing
                    re_mem, re_listing = self.reentry_state([lines]) if framing else (None, None)
                    snap['reenters'] = framing and (re_mem == mem or (tok and re_mem is not None and eof_only(re_mem, mem)))
                    snap['exp_mem'], snap['exp_listing'] = mem, listing
                    if framing and not snap['reenters'] and re_mem is not None and list(re_listing[0]) == lines:
                        # the listing is not the listing of THIS program only: typing it gives a program P' with the
                        # very same listing (e.g. a line cut to 255 characters by the lister), so the file is also
                        # what SAVE,A writes for P' and the statement applies to P'
                        snap['reenters'] = True
                        snap['exp_mem'], snap['exp_listing'] = re_mem, re_listing
                        ctx.count('ascii:reenters-as-fixpoint')
                    else:
                        ctx.count('ascii:reenters' if snap['reenters'] else
                                  ('ascii:hypothesis-false' if framing else 'ascii:framing-bytes-or-long-line'))
                    for i, l in enumerate(lines):
                        if 253 <= len(l) <= 258:
                            ctx.count('ascii:listing-length-%d-%s' % (len(l), 'last' if i == len(lines) - 1 else 'inner'))
                # saving the loaded program again in the same format must give the same file
                if last_loaded and last_loaded[1] == fmt and fmt in 'BP':
                    prev = snaps[last_loaded[0]]['file']
                    ctx.case(('resave', fmt, data))
                    if data != prev:
                        if fmt == 'B' and data == prev + b'\x1a':
                            fail(KNOWN_EOF_FILE, 'LOAD then SAVE of a tokenised file appends one more 1A')
                        else:
                            fail('resave:%s' % fmt, 'LOAD then SAVE gave a different file')
            elif kind in ('load', 'merge', 'chainmerge'):
                name = op[1]
                snap = snaps.get(name)
                if kind == 'chainmerge' and not {1, 65529} <= set(s._impl.program.line_numbers):
                    # CHAIN MERGE run from a program line; execution continues at a line that just ends
                    s.execute(b'1 CHAIN MERGE "%s",65529' % name.encode())
                    s.execute(b'65529 END')
                if pressure_n is not None and kind != 'chainmerge':
                    free = int(s.execute(b'PRINT FRE(0)').strip() or 0)
                    if free < len(name) + 1:
                        # the file name does not fit in string space: the command itself cannot be accepted
                        ctx.count('pressure:no-room-for-file-name')
                        continue
                before_buf, before_size, before_prot = self.state(s)
                base_lines = None if before_prot else s._impl.program.list_lines(None, None)
                try:
                    out = s.execute({'load': b'LOAD "%s"' % name.encode(), 'merge': b'MERGE "%s"' % name.encode(),
                                     'chainmerge': b'RUN'}[kind])
                except Exception as e:
                    self.sessions.pop(hide)
                    if snap is not None and snap['fmt'] == 'A' and not snap['reenters']:
                        # same tokeniser exception as when typing the listing: hypothesis of the ASCII clause false
                        ctx.count('%s:A:host-exception-excluded' % kind)
                    elif snap is not None and snap['fmt'] == 'raw' and snap['file'][:1] == b'\xfe' \
                            and len(snap['file']) <= 2:
                        fail('protect-empty-stream', 'LOAD of a protected file without payload raised %s: %s'
                             % (type(e).__name__, e))
                    else:
                        fail('%s-exception:%s' % (kind, type(e).__name__), '%s raised %s: %s'
                             % (kind, type(e).__name__, e))
                    return fails
                buf, size, prot = self.state(s)
                mem = buf[:size]
                ctx.case((kind, name, mem))
                ctx.count('%s:%s' % (kind, snap['fmt'] if snap else '?'))
                if b'rror' in out and b'Internal' in out or b'EXCEPTION' in out:
                    fail('%s-crash' % kind, '%s printed %r' % (kind, out[:200]))
                if snap is None:
                    continue
                data = snap['file']
                if kind == 'load' and data[:1] in (b'\xff', b'\xfe'):
                    self.cases.append({'load': hx(data), 'cs': cs, 'hide': hide})
                    self.outs.append('ok %s %d %d' % (hx(buf), size, int(prot)) if out == b'' else 'out %r' % out)
                    self.lines.append('load %d %d %s' % (cs, int(hide == 1), hx(data)))
                if snap['fmt'] == 'raw':
                    last_loaded = None
                    tok = data[:1] == b'\xff'
                    continue
                if kind == 'load' and snap['fmt'] in 'BP':
                    last_loaded = (name, snap['fmt'])
                    if out != b'':
                        fail('load-error:%s' % snap['fmt'], 'LOAD printed %r' % out)
                        continue
                    if mem != snap['mem']:
                        m0 = snap['mem']
                        if snap['tok'] and eof_only(m0, mem):
                            fail(KNOWN_EOF_MEM, 'program memory had %d trailing 1A byte(s) (left by an earlier '
                                 'tokenised LOAD, absorbed by an edit) that did not come back' % (len(m0) - len(mem)))
                        else:
                            fail('memory:%s' % snap['fmt'], 'program memory after LOAD differs from memory at SAVE '
                                 '(%d vs %d bytes, first difference at %d)' % (
                                     len(mem), len(m0), next((i for i, (a, b) in enumerate(zip(mem, m0)) if a != b),
                                                             min(len(mem), len(m0)))))
                    if snap['fmt'] == 'P' and prot != (hide == 1):
                        fail('protected-flag', 'protected flag after LOAD of a ,P file is %s' % prot)
                    if not prot:
                        listing = self.listing(s)
                        if listing != snap['listing'] and not snap['prot']:
                            fail('listing:%s' % snap['fmt'], 'LIST after LOAD differs from LIST at SAVE')
                    tok = True if snap['fmt'] == 'B' else snap['tok']
                elif snap['fmt'] == 'A':
                    last_loaded = None
                    if not snap['reenters']:
                        ctx.count('%s:A:excluded' % kind)
                        continue
                    tok_before = tok or snap['tok']
                    if pressure_n is not None:
                        # memory pressure: the reference says which store, if any, has to be refused
                        base = [] if kind == 'load' else base_lines
                        if base is None:
                            continue
                        before_mem = before_buf[:before_size]
                        if base and self.reentry_memory([base]) != before_mem:
                            # the reference is built from listings: it only speaks for programs whose listing
                            # re-enters as the same bytes (e.g. 76.258 lists as 76.25801, 1.0000001 as 1.0000001#)
                            ctx.count('pressure:%s:base-excluded' % kind)
                            continue
                        final_lines, refused = self.simulate(base, snap['lines'], pressure_n)
                        exp = self.reentry_memory([final_lines])
                        ctx.count('pressure:%s:%s' % (kind, 'refusal-expected' if refused is not None else 'must-succeed'))
                        if kind == 'load':
                            tok = False
                        if refused is not None:
                            # some store genuinely does not fit: the statement (round trips of programs that can be
                            # stored) demands nothing about what an interrupted MERGE reports or leaves behind
                            ctx.count('pressure:%s:%s' % (kind, 'refused' if b'Out of memory' in out else
                                                          'accepted-although-reference-refuses'))
                            continue
                        if kind == 'chainmerge' and b'Out of memory' in out and mem == exp \
                                and int(s.execute(b'PRINT FRE(0)').strip() or 0) < 0:
                            # every line was merged; CHAIN itself then found no room (its own check of variable
                            # space against the top of string space: store_line lets the program exceed it by 2 bytes)
                            ctx.count('pressure:chainmerge:merged-but-no-room-to-chain')
                            continue
                    elif kind == 'load':
                        exp = snap['exp_mem']
                        tok = False
                    else:
                        base = None if base_lines is None else self.reentry_memory([base_lines])
                        before_mem = before_buf[:before_size]
                        if base is None or (base != before_mem and not (tok and eof_only(base, before_mem))):
                            ctx.count('merge:A:base-excluded')
                            continue
                        exp = self.reentry_memory([base_lines, snap['lines']])
                    if out != b'':
                        fail('%s-error:A' % kind, '%s of an ASCII file printed %r' % (kind, out))
                    elif mem != exp:
                        if tok_before and exp is not None and eof_only(mem, exp):
                            fail(KNOWN_EOF_MEM, 'program memory after %s of the ASCII file differs from typing the '
                                 'listing exactly by the 1A byte(s) left behind by an earlier tokenised LOAD' % kind)
                        else:
                            fail('memory:A:%s' % kind, 'program memory after %s of the ASCII file differs from '
                                 'typing the listing' % kind)
                    elif kind == 'load' and self.listing(s) != snap['exp_listing']:
                        fail('listing:A', 'LIST after LOAD of the ASCII file differs from LIST at SAVE')
                    ctx.count('%s:A:checked' % kind)
        if self.n > 400:
            self.flush()
            self.n = 0
        return fails


def history_scenario(rng, wild, hide):
    """typed program -> random history of SAVE / NEW / LOAD / MERGE / edits"""
    ops = []
    prog = rand_typed_program(rng, rng.choice([0, 1, 2, 5, 12, 30]), wild)
    for l in prog:
        ops.append(['type', hx(l)])
    saved = []
    nsave = 0
    for _ in range(rng.randrange(4, 14)):
        k = rng.random()
        if k < 0.35 or not saved:
            fmt = rng.choice('BBPPA')
            name = 'F%d' % nsave
            nsave += 1
            ops.append(['save', name, fmt])
            saved.append((name, fmt))
        elif k < 0.65:
            name, fmt = rng.choice(saved)
            if rng.random() < 0.7:
                ops.append(['new'])
            ops.append(['load', name])
        elif k < 0.75:
            asc = [n for n, f in saved if f == 'A']
            if asc:
                if rng.random() < 0.3:
                    ops.append(['new'])
                ops.append(['merge', rng.choice(asc)])
        elif k < 0.95:
            if rng.random() < 0.25:
                ops.append(['type', hx(rng.choice([b'DELETE %d-%d' % tuple(sorted((rng.randrange(65530),
                                                                                    rng.randrange(65530)))),
                                                   b'RENUM', b'RENUM 100,0,5', b'DELETE 0-10']))])
            else:
                num = rng.choice(LINE_NUMBERS) if rng.random() < 0.5 else rng.randrange(65530)
                ops.append(['type', hx(rand_line(rng, num, [10, 20, num], wild, rng.random() < 0.1))])
        else:
            ops.append(['new'])
    # always end by loading everything back
    for name, fmt in saved:
        ops.append(['new'])
        ops.append(['load', name])
    return {'kind': 'history', 'hide': hide, 'ops': ops}


def image_scenario(rng, cs, hide):
    """hand-assembled tokenised file -> LOAD -> SAVE in every format -> LOAD each"""
    tail = rng.choice(['none', 'none', 'garbage', 'eofs'])
    ops = [['file', 'IMG', hx(rand_image_file(rng, cs, tail))], ['load', 'IMG']]
    fmts = ['B', 'P', 'A']
    rng.shuffle(fmts)
    for f in fmts:
        ops.append(['save', 'S' + f, f])
    for f in fmts:
        if rng.random() < 0.5:
            ops.append(['new'])
        ops.append(['load', 'S' + f])
        if rng.random() < 0.3:
            ops.append(['save', 'T' + f, f])
    return {'kind': 'image', 'hide': hide, 'ops': ops}


def damaged_scenario(rng, cs):
    """damaged / degenerate tokenised and protected files: only model correspondence and 'no host exception'"""
    pm = protect_mod()
    base = rand_image_file(rng, cs, 'none')
    k = rng.randrange(8)
    if k == 0:
        data = base[:rng.randrange(0, len(base) + 1)]
    elif k == 1:
        b = bytearray(base)
        for _ in range(rng.randrange(1, 4)):
            if len(b) > 1:
                b[rng.randrange(1, len(b))] = rng.choice([0, 0, 0x1a, 0x22, 0x8f, rng.randrange(256)])
        data = bytes(b)
    elif k == 2:
        data = rng.choice([b'\xff', b'\xfe']) + bytes(rng.randrange(256) for _ in range(rng.randrange(0, 12)))
    elif k == 3:
        data = rng.choice([b'\xff', b'\xfe', b'\xff\x1a', b'\xfe\x1a', b'\xff\0', b'\xfe\0\x1a', b'\xff\0\0',
                           b'\xff\0\0\0', b'\xff\0\0\0\x1a', b'\xff\x01', b'\xff\x01\x02\x03\x04',
                           b'\xff\x01\x02\x03\x04\x05', b'\xff\x01\x02\x03\x04\x1d\0'])
    else:
        body = base[1:-1] if k < 6 else base[1:rng.randrange(1, len(base))]
        data = b'\xfe' + run_cipher(pm.protect, body)[-1] + (b'\x1a' if k != 5 else b'')
    return {'kind': 'damaged', 'hide': rng.choice([0, 0, 1]), 'ops': [['file', 'DMG', hx(data)], ['load', 'DMG']]}


BOUNDARY_PROGRAMS = [
    [],
    [b'0 REM'],
    [b'65529 END'],
    [b'10 PRINT "HI"', b'20 GOTO 10'],
    # the byte value of the REM token inside a string, then constants whose tokens contain NUL bytes
    [b'10 PRINT "\x8f";256:PRINT "second"', b'20 PRINT "x"'],
    [b'10 A$="\x8f\x8f":B=65536:C=1:D#=1D0:E=&H100', b'20 DATA "\x8f",256', b'30 GOTO 256'],
    [b'10 REM "\x8f"', b'20 A=256'],
    [b"10 ' \"\x8f", b'20 A=256:PRINT "\x8f":B=256'],
    [b'10 PRINT "unterminated \x8f', b'20 A=256'],
    [b'1 A=0:B=256:C=-256:D=32767:E=32768:F=65535:G=1E+38:H#=1.5D-38', b'2 ON A GOTO 0,256,512,65529'],
]


def boundary_scenarios():
    for hide in (0, 1):
        for prog in BOUNDARY_PROGRAMS:
            ops = [['type', hx(l)] for l in prog]
            for f in 'BPA':
                ops.append(['save', 'S' + f, f])
            for f in 'BPA':
                ops += [['new'], ['load', 'S' + f], ['save', 'T' + f, f]]
            ops += [['new'], ['type', hx(b'5 REM base')], ['merge', 'SA']]
            yield {'kind': 'boundary', 'hide': hide, 'ops': ops}


def padded_line(num, length, kind, rng=None):
    """(typed form, listed form) of a program line whose LISTING is `length` characters long, number included.
    rem / str: padding inside a REM or a string literal; expand: '?' is listed as PRINT, so the typed line is much
    shorter than its listing."""
    head = b'%d ' % num

    def pad(n):
        return bytes(rng.choice(PRINTABLE) for _ in range(n)).replace(b':', b';') if rng else b'*' * n
    if kind == 'rem':
        line = head + b'REM ' + pad(length - len(head) - 4)
        return line, line
    if kind == 'str':
        line = head + b'A$="' + pad(length - len(head) - 5) + b'"'
        return line, line
    k = 30
    n = length - (len(head) + 5 * k + (k - 1) + 5)
    tail = b':REM ' + pad(n)
    return head + b':'.join([b'?'] * k) + tail, head + b':'.join([b'PRINT'] * k) + tail


SEPARATORS = [b'\r\n', b'\r\n', b'\r', b'\n', b'\r\n\r\n', b'\r\r', b'\n\n', b'\r\n   \r\n', b'\r\n\n', b'\r\n\r\n\r\n']
ENDINGS = [b'\r\n\x1a', b'\r\n', b'', b'\x1a', b'\r\x1a', b'\r\n\r\n\x1a', b'\r\n\x1a30000 REM behind the end-of-file byte\r\n\x1a',
           b'\n', b'\r\n\x1a\x1a']


def ascii_scenario(pairs, seps, lead, ending):
    """pairs = (typed, listed) program lines (numbers 10..); the program is typed, saved with ,A and read back with
    LOAD, MERGE and CHAIN MERGE; then the same for a hand-written file with the given separators."""
    ops = [['type', hx(ty)] for ty, _ in pairs]
    ops += [['save', 'SA', 'A'], ['new'], ['load', 'SA'], ['new'], ['type', hx(b'5 REM base')], ['merge', 'SA'],
            ['new'], ['type', hx(b'7 REM base')], ['chainmerge', 'SA']]
    listed = [li for _, li in pairs]
    if all(len(l) <= 255 for l in listed):
        if len(listed[-1]) >= 255 and ending[:1] not in (b'\r', b'\n'):
            # a last line that fills the 255-character line buffer and is followed directly by the end of the file
            # (no line end at all) is reported as Line buffer overflow; no SAVE writes such a file and the
            # statement says nothing about it, so it is not generated (observation passed on in the C15 report)
            ending = b'\r\n' + ending
        data = lead
        for i, l in enumerate(listed):
            data += l + (seps[i % len(seps)] if i < len(listed) - 1 else b'')
        data += ending
        ops += [['new'], ['afile', 'HW', hx(data), [hx(l) for l in listed]], ['load', 'HW'],
                ['type', hx(b'5 REM base')], ['type', hx(b'20')] if len(listed) > 1 else ['new'],
                ['merge', 'HW'], ['new'], ['type', hx(b'7 REM base')], ['chainmerge', 'HW']]
    return {'kind': 'ascii', 'hide': 0, 'nolist': True, 'ops': ops}


def ascii_boundary_scenarios():
    """listing lengths around the 255-character line buffer, in first / inner / last position"""
    i = 0
    for length in (253, 254, 255, 256, 257):
        for kind in ('rem', 'str', 'expand'):
            for pos in (0, 1, 2):
                pairs = [(b'10 A=1', b'10 A=1'), (b'20 PRINT A', b'20 PRINT A'), (b'30 GOTO 10', b'30 GOTO 10')]
                pairs[pos] = padded_line(10 * (pos + 1), length, kind)
                yield ascii_scenario(pairs, [SEPARATORS[i % len(SEPARATORS)], SEPARATORS[(i + 3) % len(SEPARATORS)]],
                                     b'' if i % 4 else b'\r\n', ENDINGS[i % len(ENDINGS)])
                i += 1
    # blank lines, lone CR / LF and an end-of-file byte in the middle, with ordinary lines
    plain = [(b'10 A=1', b'10 A=1'), (b'20 PRINT A', b'20 PRINT A'), (b'30 GOTO 10', b'30 GOTO 10'),
             (b'40 DATA 1,2', b'40 DATA 1,2')]
    for j, sep in enumerate(SEPARATORS):
        for ending in ENDINGS[j % 2::2]:
            yield ascii_scenario(plain, [sep], b'\r\n\r\n' if j % 3 == 0 else b'', ending)


def random_ascii_scenario(rng):
    n = rng.randrange(2, 7)
    pairs = []
    for i in range(n):
        num = 10 * (i + 1)
        if rng.random() < 0.4:
            pairs.append(padded_line(num, rng.choice([250, 253, 254, 255, 255, 255, 256, 258]) if rng.random() < 0.8
                                     else rng.randrange(200, 259), rng.choice(['rem', 'str', 'expand']), rng))
        else:
            l = rand_line(rng, num, [10, 20], False)
            pairs.append((l, l))     # the listed form is only used for the hand-written file
    if any(ty is li and b'?' in ty for ty, li in pairs):
        pairs = [(ty, li.replace(b'? ', b'PRINT ')) for ty, li in pairs]
    return ascii_scenario(pairs, [rng.choice(SEPARATORS) for _ in range(n)], rng.choice([b'', b'', b'\r\n', b'\r', b'\n']),
                          rng.choice(ENDINGS))


# memory pressure: CLEAR ,n leaves `extra` bytes above the program (+ the stored length of a given line)
# (file commands need room for their file name in string space: 3 bytes for "SA"; below that only retyping is tried)
PRESSURE = [(3, None), (4, None), (5, None), (8, None), (13, None), (40, None), (300, None),
            (-3, 10), (-1, 10), (0, 10), (1, 10), (-2, 30), (0, 50), (2, 50)]
PRESSURE_TYPING_ONLY = [(0, None), (1, None), (2, None)]
PRESSURE_VARIANTS = ['self', 'delete', 'resize', 'chain', 'overlap', 'retype', 'load']


def pressure_scenario(rng, extra, ref, variant):
    """SAVE / LOAD / MERGE / CHAIN MERGE / retyping when only a few bytes (up to about a line) are free"""
    n = rng.randrange(5, 11)
    nums = [10 * (i + 1) for i in range(n)]
    prog = [rand_line(rng, num, nums, False) for num in nums]
    ops = [['type', hx(l)] for l in prog] + [['save', 'SA', 'A'], ['save', 'SB', 'B'], ['save', 'SP', 'P']]
    clear = ['clear', extra, ref]
    pad = b':REM ' + b'p' * rng.choice([1, 2, 3, 5, 8, 20, 60])
    if variant == 'self':
        # every line of the file replaces itself
        ops += [clear, ['merge', 'SA'], ['merge', 'SA'], ['type', hx(prog[0])], ['type', hx(prog[-1])]]
    elif variant == 'delete':
        ops += [['type', hx(b'%d' % nums[-1])], ['type', hx(b'%d' % nums[n // 2])], clear, ['merge', 'SA'], ['merge', 'SA']]
    elif variant == 'resize':
        # the file's lines replace longer and shorter versions of themselves
        i, j = rng.randrange(n), rng.randrange(n)
        ops += [['type', hx(b'%d REM' % nums[i])], ['type', hx((prog[j] + pad)[:250])], clear, ['merge', 'SA'],
                ['merge', 'SA']]
    elif variant == 'chain':
        ops += [['type', hx(b'1 CHAIN MERGE "SA",65529')], ['type', hx(b'65529 END')]]
        if rng.random() < 0.5:
            ops += [['type', hx(b'%d' % nums[-1])]]
        ops += [clear, ['chainmerge', 'SA']]
    elif variant == 'overlap':
        # another program that shares some line numbers, with longer and shorter lines
        qnums = sorted(set(rng.sample(nums, n // 2) + [num + 5 for num in rng.sample(nums, 2)]))
        q = [rand_line(rng, num, nums, False) for num in qnums]
        ops = [['type', hx(l)] for l in q] + [['save', 'QA', 'A'], ['new']] + ops + [clear, ['merge', 'QA'], ['merge', 'SA']]
    elif variant == 'retype':
        i = rng.randrange(n)
        ops += [clear, ['type', hx(prog[i])], ['type', hx((prog[i] + pad)[:250])], ['type', hx(prog[i])],
                ['type', hx(b'%d REM' % nums[i])], ['type', hx(prog[i])], ['type', hx(b'%d REM new line' % (nums[i] + 5))]]
    else:
        ops += [clear, ['load', 'SA'], ['merge', 'SA'], ['load', 'SP'], ['load', 'SB']]
    return {'kind': 'pressure', 'hide': 0, 'nolist': True, 'ops': ops}


def big_program_scenario(rng):
    """a program that fills the 64K segment up to a few bytes; its own listing is merged back and lines are retyped"""
    nums = [10 * (i + 1) for i in range(6)]
    prog = [rand_line(rng, num, nums, False) for num in nums]
    ops = [['type', hx(l)] for l in prog] + [['fill', rng.choice([3, 5, 9])], ['save', 'SA', 'A'], ['merge', 'SA'],
                                              ['type', hx(prog[2])], ['type', hx(b'20000 REM')], ['merge', 'SA']]
    return {'kind': 'pressure-big', 'hide': 0, 'nolist': True, 'ops': ops}


def session_part(ctx, runner):
    rng = ctx.rng
    s0, _ = runner.session(0)
    cs = s0._impl.memory.code_start
    for sc in boundary_scenarios():
        runner.run(sc)
        ctx.count('scenario:boundary')
    for sc in ascii_boundary_scenarios():
        runner.run(sc)
        ctx.count('scenario:ascii-boundary')
    for _ in range(25 if ctx.quick else 1500):
        runner.run(random_ascii_scenario(rng))
        ctx.count('scenario:ascii-random')
    # memory pressure: every setting with two of the variants per quick run (all of them, repeatedly, in thorough)
    shift = rng.randrange(len(PRESSURE_VARIANTS))
    for rep_ in range(1 if ctx.quick else 40):
        for i, (extra, ref) in enumerate(PRESSURE):
            for j in range(2 if ctx.quick else len(PRESSURE_VARIANTS)):
                variant = PRESSURE_VARIANTS[(i + shift + 3 * j) % len(PRESSURE_VARIANTS)]
                runner.run(pressure_scenario(rng, extra, ref, variant))
                ctx.count('scenario:pressure:' + variant)
        for extra, ref in PRESSURE_TYPING_ONLY:
            runner.run(pressure_scenario(rng, extra, ref, 'retype'))
            ctx.count('scenario:pressure:retype')
    for _ in range(1 if ctx.quick else 12):
        runner.run(big_program_scenario(rng))
        ctx.count('scenario:pressure-big')
    runner.drop_pressured()
    n_hist, n_img, n_dmg = (60, 60, 250) if ctx.quick else (1500, 1500, 6000)
    for i in range(n_hist):
        sc = history_scenario(rng, wild=(i % 3 == 0), hide=1 if i % 5 == 4 else 0)
        runner.run(sc)
        ctx.count('scenario:history')
    for i in range(n_img):
        runner.run(image_scenario(rng, cs, hide=1 if i % 6 == 5 else 0))
        ctx.count('scenario:image')
    for i in range(n_dmg):
        sc = damaged_scenario(rng, cs)
        runner.run(sc)
        ctx.count('scenario:damaged')
    runner.flush()
    ctx.sample({'scenario': 'history', 'ops': history_scenario(random.Random(1), False, 0)['ops'][:6]})


# ---------------------------------------------------------------------------------------------
# 4. the converter

class quiet_stdout(object):
    """the converter's session echoes to the process's stdout; keep the check's own output clean"""

    def __enter__(self):
        sys.stdout.flush()
        self.saved = os.dup(1)
        self.null = os.open(os.devnull, os.O_WRONLY)
        os.dup2(self.null, 1)

    def __exit__(self, *a):
        sys.stdout.flush()
        os.dup2(self.saved, 1)
        os.close(self.saved)
        os.close(self.null)


def convert_part(ctx, runner):
    rng = ctx.rng
    pmain = importlib.import_module('pcbasic.main')
    config = importlib.import_module('pcbasic.config')
    s, d = runner.session(0)
    n = 3 if ctx.quick else 25
    for i in range(n):
        for fn in os.listdir(d):
            os.unlink(os.path.join(d, fn))
        s.execute(b'NEW')
        prog = rand_typed_program(rng, rng.choice([1, 4, 15]), wild=False)
        for l in prog:
            s.execute(l)
        srcs = {}
        for fmt in 'ABP':
            s.execute(b'SAVE "SRC%s"%s' % (fmt.encode(), {'B': b'', 'A': b',A', 'P': b',P'}[fmt]))
            srcs[fmt] = os.path.join(d, 'SRC%s.BAS' % fmt)
        typed_save = {f: open(srcs[f], 'rb').read() for f in 'ABP'}
        buf, size, _ = Runner.state(s)
        lines = s._impl.program.list_lines(None, None)
        reenters = all(0x1a not in l and len(l) <= 255 for l in lines) and runner.reentry_memory([lines]) == buf[:size]
        for fin in 'ABP':
            for fout in 'ABP':
                outname = os.path.join(d, 'CV%s%s.BAS' % (fin, fout))
                case = {'kind': 'convert', 'prog': [hx(l) for l in prog], 'from': fin, 'to': fout}
                try:
                    settings = config.Settings(None, ['--convert=%s' % fout, srcs[fin], outname])
                    with quiet_stdout():
                        pmain._convert(settings)
                    conv = open(outname, 'rb').read()
                except Exception as e:
                    ctx.fail('convert-exception:%s%s' % (fin, fout), case, 'converter raised %s: %s'
                             % (type(e).__name__, e))
                    continue
                # the same in a session: LOAD the input file, SAVE in the requested format
                s.execute(b'NEW')
                s.execute(b'LOAD "SRC%s"' % fin.encode())
                s.execute(b'SAVE "SS%s%s"%s' % (fin.encode(), fout.encode(), {'B': b'', 'A': b',A', 'P': b',P'}[fout]))
                sess = open(os.path.join(d, 'SS%s%s.BAS' % (fin, fout)), 'rb').read()
                ctx.case(('convert', fin, fout, conv))
                ctx.count('convert:%s->%s' % (fin, fout))
                if conv != sess:
                    ctx.fail('convert:%s->%s' % (fin, fout), case,
                             'converter output differs from LOAD+SAVE in a session (%d vs %d bytes)'
                             % (len(conv), len(sess)))
                # and the same as SAVE of the program that was typed in (for an ASCII source or target: only
                # if the listing re-enters as the same program)
                if 'A' in (fin, fout) and not reenters:
                    ctx.count('convert:typed-comparison-excluded')
                elif conv != typed_save[fout]:
                    if fin == 'B' and fout in 'BP' and len(conv) == len(typed_save[fout]) + 1:
                        ctx.fail(KNOWN_EOF_CONVERT, case, 'converting a tokenised file carries its 1A end-of-file byte '
                                 'into the output (one extra byte compared with SAVE of the same program)')
                    else:
                        ctx.fail('convert-vs-typed:%s->%s' % (fin, fout), case,
                                 'converter output differs from SAVE of the typed program')
        # restore program for the next round
    s.execute(b'NEW')


# ---------------------------------------------------------------------------------------------
# 5. cassette

def cassette_part(ctx, runner):
    rng = ctx.rng
    n = 1 if ctx.quick else 6
    for i in range(n):
        cas = os.path.join(runner.tmp, 'tape%d.cas' % i)
        prog = rand_typed_program(rng, rng.choice([2, 6, 20]), wild=False)
        case = {'kind': 'cassette', 'prog': [hx(l) for l in prog]}
        s = basic.new_session(devices={'CAS1': 'CAS:' + cas})
        try:
            for l in prog:
                s.execute(l)
            buf, size, _ = Runner.state(s)
            mem, listing = buf[:size], s.execute(b'LIST')
            lines = s._impl.program.list_lines(None, None)
            reenters = all(0x1a not in l and len(l) <= 255 for l in lines) and runner.reentry_memory([lines]) == mem
            for fmt, suffix in (('B', b''), ('P', b',P'), ('A', b',A')):
                out = s.execute(b'SAVE "CAS1:T%s"%s' % (fmt.encode(), suffix))
                if b'rror' in out or b'Illegal' in out:
                    ctx.fail('cassette-save:%s' % fmt, case, 'SAVE to cassette printed %r' % out)
        finally:
            s.close()
        for fmt in 'BPA':
            if fmt == 'A' and not reenters:
                ctx.count('cassette:A:excluded')
                continue
            s = basic.new_session(devices={'CAS1': 'CAS:' + cas})
            try:
                out = s.execute(b'LOAD "CAS1:T%s"' % fmt.encode())
                buf, size, _ = Runner.state(s)
                ctx.case(('cassette', fmt, mem))
                ctx.count('cassette:' + fmt)
                if (b'T%s      .%s Found.' % (fmt.encode(), fmt.encode())) not in out:
                    ctx.fail('cassette-load:%s' % fmt, case, 'LOAD from cassette printed %r' % out)
                elif fmt in 'BP' and buf[:size] != mem:
                    ctx.fail('cassette-memory:%s' % fmt, case, 'program memory differs after cassette round trip')
                elif s.execute(b'LIST') != listing:
                    ctx.fail('cassette-listing:%s' % fmt, case, 'LIST differs after cassette round trip')
            finally:
                s.close()


def run(ctx):
    translated.check_protect(ctx)
    cipher_part(ctx)
    ctx.log('cipher done')
    skip_part(ctx)
    runner = Runner(ctx)
    try:
        session_part(ctx, runner)
        ctx.log('sessions done')
        convert_part(ctx, runner)
        ctx.log('converter done')
        cassette_part(ctx, runner)
    finally:
        runner.close()


def replay(ctx, payload):
    case = payload.get('case', {})
    key = payload.get('key')
    sub = Ctx2(ctx)
    if 'ops' in case:
        runner = Runner(sub)
        try:
            try:
                runner.run(case)
            except Exception as e:
                return 'scenario raised %s: %s' % (type(e).__name__, e)
        finally:
            runner.close()
    elif 'cipher' in case and 'data' in case:
        pm = protect_mod()
        data = unhx(case['data'])
        for fn in (pm.protect, pm.unprotect):
            r = run_cipher(fn, data)
            if r[0] != 'ok':
                return '%s raised %s' % (fn.__name__, r[1])
        e = run_cipher(pm.protect, data)[1]
        d = run_cipher(pm.unprotect, e + b'\x1a')[1]
        return None if d == data else 'unprotect(protect(s)+1A) != s'
    else:
        sub.rng = random.Random(payload.get('seed', 0))
        sub.tier = payload.get('tier', 'quick')
        run(sub)
    hits = [f for f in sub.failures if f['key'] == key]
    return hits[0]['what'] if hits else None


class Ctx2(object):
    """thin proxy so replay can reuse run() without touching the outer evidence"""
    def __init__(self, ctx):
        self.__dict__.update(ctx.__dict__)
        self._ctx = ctx
        self.failures = []
        self.disagreements = []

    def __getattr__(self, name):
        return getattr(self._ctx.__class__, name).__get__(self)
