import PcbV.Model.Mbf
import PcbV.Model.MbfMulFixed
namespace PcbV.Drv.MbfCommon
open PcbV PcbV.Mbf

def fmtOf : String → Option Fmt
  | "s" => some single
  | "d" => some double
  | _ => none

/-- bytes (little endian, exponent last) → F -/
def ofBytes (b : Bytes) : F :=
  { m := (b.dropLast).foldr (fun x acc => x + 256 * acc) 0, e := b.getLastD 0 }

def leBytes : Nat → Nat → Bytes
  | 0, _ => []
  | n + 1, v => (v % 256) :: leBytes n (v / 256)

def toBytes (f : Fmt) (x : F) : Bytes := leBytes (f.w / 8) x.m ++ [x.e]

def parse (f : Fmt) (s : String) : Option F :=
  match ofHex s with
  | some b => if b.length = f.w / 8 + 1 then some (ofBytes b) else none
  | none => none

def showFR (f : Fmt) : FR → String
  | .ok x => "ok " ++ toHex (toBytes f x)
  | .error (c, x) => "err " ++ toString c ++ " " ++ toHex (toBytes f x)

def handle : List String → String
  | [op, fs, a, b] =>
    match fmtOf fs with
    | none => "bad-op"
    | some f =>
      match parse f a, parse f b with
      | some x, some y =>
        match op with
        | "add" => showFR f (iadd f x y)
        | "sub" => showFR f (isub f x y)
        | "mul" => showFR f (imulFixed f x y)     -- `Float.imul` after the repair of D5
        | "mulold" => showFR f (imul f x y)
        | "div" => showFR f (idiv f x y)
        | "gt" => "ok " ++ showBool (gt f x y)
        | "eq" => "ok " ++ showBool (Mbf.eq x y)
        | _ => "bad-op"
      | _, _ => "bad-op"
  | ["fromint", fs, n] =>
    match fmtOf fs, n.toInt? with
    | some f, some n => showFR f (fromInt f n)
    | _, _ => "bad-op"
  | [op, fs, a] =>
    match fmtOf fs with
    | none => "bad-op"
    | some f =>
      match parse f a with
      | none => "bad-op"
      | some x =>
        match op with
        | "toint" => "ok " ++ toString (toInt f x)
        | "trunc" => "ok " ++ toString (toIntTrunc f x)
        | "itrunc" => showFR f (itrunc f x)
        | "ifloor" => showFR f (ifloor f x)
        | "neg" => "ok " ++ toHex (toBytes f (ineg f x))
        | "abs" => "ok " ++ toHex (toBytes f (iabs f x))
        | "sign" => "ok " ++ toString (sign f x)
        | "tosingle" => if fs == "d" then showFR single (toSingle x) else "bad-op"
        | "fromsingle" => if fs == "s" then "ok " ++ toHex (toBytes double (fromSingle x)) else "bad-op"
        | _ => "bad-op"
  | _ => "bad-op"

end PcbV.Drv.MbfCommon
