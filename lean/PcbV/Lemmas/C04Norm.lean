import PcbV.Lemmas.C05Mul
/-
  C04 lemmas, part 1 (no Mathlib): what `_normalise` does to an arbitrary denormalised mantissa —
  the left shift, the half-even rounding of the low byte and the carry — as one specification
  in natural numbers.
-/
namespace PcbV.Mbf.C04
open PcbV PcbV.Mbf

theorem shiftUp_norm (lim : Nat) : ∀ (fuel : Nat) (exp : Int) (man : Nat), 0 < man →
    lim ≤ man * 2 ^ fuel →
    ∃ k, k ≤ fuel ∧ shiftUp fuel lim exp man = (exp - k, man * 2 ^ k) ∧ lim ≤ man * 2 ^ k ∧
      (k = 0 ∨ man * 2 ^ k < 2 * lim) := by
  intro fuel
  induction fuel with
  | zero =>
    intro exp man _ h2
    exact ⟨0, Nat.le_refl _, by simp [shiftUp], by simpa using h2, Or.inl rfl⟩
  | succ fuel ih =>
    intro exp man h0 h2
    by_cases hlt : man < lim
    · obtain ⟨k, hk, hs, hl, hu⟩ := ih (exp - 1) (man * 2) (by omega)
        (by rw [Nat.pow_succ] at h2; rw [Nat.mul_assoc, Nat.mul_comm 2]; exact h2)
      have e : man * 2 ^ (k + 1) = man * 2 * 2 ^ k := by
        rw [Nat.pow_succ, Nat.mul_comm (2 ^ k), ← Nat.mul_assoc]
      refine ⟨k + 1, by omega, ?_, ?_, ?_⟩
      · simp only [shiftUp, hlt, if_true, hs]
        rw [e]; congr 1; push_cast; omega
      · rw [e]; exact hl
      · right; rw [e]
        rcases hu with hu | hu
        · subst hu; simp; omega
        · exact hu
    · exact ⟨0, by omega, by simp [shiftUp, hlt], by simp; omega, Or.inl rfl⟩

/-- `_normalise` on a non-zero mantissa below `den_upper` with a positive exponent: shift left by `k`,
    round the low byte half-even to the mantissa `R` (carry `c`), then `_check_limits`. -/
theorem normalise_spec (f : Fmt) (h : f.WF) (exp : Int) (man : Nat) (neg : Bool)
    (hm0 : 0 < man) (hm : man < f.denUpper) (he : 0 < exp) :
    ∃ k R c : Nat, k ≤ f.w + 8 ∧ c ≤ 1 ∧
      f.denMask - 1 ≤ man * 2 ^ k ∧ man * 2 ^ k < f.denUpper ∧
      (k = 0 ∨ man * 2 ^ k < 2 * (f.denMask - 1)) ∧
      f.signMask ≤ R ∧ R < 2 * f.signMask ∧
      (c = 0 → 256 * R ≤ man * 2 ^ k + 128 ∧ man * 2 ^ k ≤ 256 * R + 128 ∧
        (man * 2 ^ k % 256 = 128 → R % 2 = 0)) ∧
      (c = 1 → R = f.signMask ∧ f.denUpper ≤ man * 2 ^ k + 128) ∧
      normalise f exp man neg = checkLimits f (packMan f R neg) (exp - k + c) neg := by
  obtain ⟨hS, _, _, hdm, hdu, _, _, _⟩ := wf_S f h
  have hdu' : f.denUpper = 2 ^ (f.w + 8) := h.2.2.2.1
  have hfuel : f.denMask - 1 ≤ man * 2 ^ (f.w + 8) := by
    rw [← hdu']
    have : 1 * f.denUpper ≤ man * f.denUpper := Nat.mul_le_mul_right _ hm0
    omega
  obtain ⟨k, hk, hs, hl, hu⟩ := shiftUp_norm (f.denMask - 1) (f.w + 8) exp man hm0 hfuel
  have hMu : man * 2 ^ k < f.denUpper := by
    rcases hu with hu | hu
    · subst hu; simpa using hm
    · omega
  refine ⟨k, ?_⟩
  unfold normalise
  have h0 : ¬ (man = 0 ∨ exp ≤ 0) := by omega
  rw [if_neg h0, hs]
  simp only []
  generalize man * 2 ^ k = M at *
  rw [Nat.mod_eq_of_lt hMu]
  by_cases hr : M % 256 > 128 ∨ (M % 256 = 128 ∧ M / 256 % 2 = 1)
  · rw [if_pos hr]
    by_cases hc : M / 256 * 256 + 256 ≥ f.denUpper
    · refine ⟨f.signMask, 1, hk, by omega, hl, hMu, hu, by omega, by omega, by omega, ?_, ?_⟩
      · intro _; exact ⟨rfl, by omega⟩
      · simp only [hc, if_true]
        have : (M / 256 * 256 + 256) / 2 / 256 = f.signMask := by omega
        rw [this]; rfl
    · refine ⟨M / 256 + 1, 0, hk, by omega, hl, hMu, hu, by omega, by omega, ?_, by omega, ?_⟩
      · intro _; exact ⟨by omega, by omega, by omega⟩
      · simp only [hc, if_false]
        have : (M / 256 * 256 + 256) / 256 = M / 256 + 1 := by omega
        rw [this]; simp
  · rw [if_neg hr]
    have hc : ¬ (M / 256 * 256 + 0 ≥ f.denUpper) := by omega
    refine ⟨M / 256, 0, hk, by omega, hl, hMu, hu, by omega, by omega, ?_, by omega, ?_⟩
    · intro _; exact ⟨by omega, by omega, by omega⟩
    · simp only [hc, if_false]
      have : (M / 256 * 256 + 0) / 256 = M / 256 := by omega
      rw [this]; simp


/-- the right-shifting loop of `_bring_to_range`: `j` halvings, stopping at the first value ≤ upper -/
theorem shiftDown_spec (upper : Nat) : ∀ (fuel : Nat) (e : Int) (m : Nat), m < 2 ^ fuel →
    ∃ j : Nat, shiftDown fuel upper e m = (e + (j : Int), m / 2 ^ j) ∧ m / 2 ^ j ≤ upper ∧
      (j = 0 ∨ upper < m / 2 ^ (j - 1)) := by
  intro fuel
  induction fuel with
  | zero =>
    intro e m hm
    have : m = 0 := by simpa using hm
    subst this
    exact ⟨0, by simp [shiftDown], by simp, Or.inl rfl⟩
  | succ fuel ih =>
    intro e m hm
    by_cases hgt : m > upper
    · obtain ⟨j, hs, hb, hj⟩ := ih (e + 1) (m / 2) (by rw [Nat.pow_succ] at hm; omega)
      have hdd : m / 2 / 2 ^ j = m / 2 ^ (j + 1) := by
        rw [Nat.div_div_eq_div_mul, Nat.pow_succ, Nat.mul_comm]
      refine ⟨j + 1, ?_, ?_, ?_⟩
      · simp only [shiftDown, hgt, if_true, hs, hdd]
        congr 1; push_cast; omega
      · rw [← hdd]; exact hb
      · right
        by_cases hj0 : j = 0
        · subst hj0; simpa using hgt
        · have e2 : m / 2 ^ (j + 1 - 1) = m / 2 / 2 ^ (j - 1) := by
            rw [Nat.div_div_eq_div_mul]
            congr 1
            have : j + 1 - 1 = (j - 1) + 1 := by omega
            rw [this, Nat.pow_succ, Nat.mul_comm]
          rw [e2]; exact hj.resolve_left hj0
    · exact ⟨0, by simp [shiftDown, hgt], by simp; omega, Or.inl rfl⟩

/-- shape of `imul` for non-zero stored operands: the exact 2w-bit product `65536·A·B` of the two
    mantissas is formed, truncated by `j` bits to `m'` (16S ≤ m' ≤ 32S, at most 2 units of 2^j lost,
    including the low-nibble-9 quirk), and handed to `_normalise` with exponent `lexp + j`. -/
theorem imulThr_struct (f : Fmt) (h : f.WF) (thr : Int) (x y : F) (hx : F.Valid f x) (hy : F.Valid f y)
    (hxe : x.e ≠ 0) (hye : y.e ≠ 0) :
    ∃ j m' : Nat, 16 * f.signMask ≤ m' ∧ m' ≤ 32 * f.signMask ∧
      m' * 2 ^ j ≤ 65536 * (manOf f x * manOf f y) ∧
      65536 * (manOf f x * manOf f y) < (m' + 2) * 2 ^ j ∧
      imulThr thr f x y =
        if (x.e : Int) + y.e - f.bias - 8 < thr then .ok zero
        else normalise f ((x.e : Int) + y.e - f.bias - 8 + j) m' (isNeg f x != isNeg f y) := by
  obtain ⟨hS, _, _, hdm, hdu, _, _, _⟩ := wf_S f h
  obtain ⟨hmx, hex, hnx⟩ := denorm_man f h x
  obtain ⟨hmy, hey, hny⟩ := denorm_man f h y
  obtain ⟨ax1, ax2⟩ := manOf_range f h x hx.1
  obtain ⟨ay1, ay2⟩ := manOf_range f h y hy.1
  have hP : 256 * manOf f x * (256 * manOf f y) = 65536 * (manOf f x * manOf f y) := by
    rw [show 256 * manOf f x * (256 * manOf f y) = (256 * 256) * (manOf f x * manOf f y) by ac_rfl]
  have hAB : f.signMask * f.signMask ≤ manOf f x * manOf f y := Nat.mul_le_mul ax1 ay1
  have hSS : 128 * f.signMask ≤ f.signMask * f.signMask := Nat.mul_le_mul_right _ hS
  generalize hPd : 65536 * (manOf f x * manOf f y) = P at *
  have hPne : P ≠ 0 := by omega
  obtain ⟨j, hs, hb, hj⟩ := shiftDown_spec (f.denUpper / 16) (Nat.log2 P + 2)
    ((x.e : Int) + y.e - f.bias - 8) P
    (by have := Nat.lt_log2_self (n := P); rw [Nat.pow_succ]; omega)
  have hlow : 16 * f.signMask ≤ P / 2 ^ j := by
    by_cases hj0 : j = 0
    · subst hj0; simp; omega
    · have hj' := hj.resolve_left hj0
      have e1 : P / 2 ^ j = P / 2 ^ (j - 1) / 2 := by
        rw [Nat.div_div_eq_div_mul, ← Nat.pow_succ]; congr 2; omega
      omega
  have hm1 : P / 2 ^ j * 2 ^ j ≤ P := Nat.div_mul_le_self _ _
  have hm2 : P < (P / 2 ^ j + 1) * 2 ^ j := by
    have := Nat.lt_div_mul_add (a := P) (b := 2 ^ j) (Nat.two_pow_pos j)
    rw [Nat.add_mul, Nat.one_mul]; omega
  generalize hmd : P / 2 ^ j = m at *
  have hz : (x.isZero || y.isZero) = false := by simp [F.isZero, hxe, hye]
  -- the quirk value
  refine ⟨j, if m % 16 = 9 then m - 1 else m, ?_, ?_, ?_, ?_, ?_⟩
  · split <;> omega
  · split <;> omega
  · have : (if m % 16 = 9 then m - 1 else m) ≤ m := by split <;> omega
    exact Nat.le_trans (Nat.mul_le_mul_right _ this) hm1
  · have : m + 1 ≤ (if m % 16 = 9 then m - 1 else m) + 2 := by split <;> omega
    exact Nat.lt_of_lt_of_le hm2 (Nat.mul_le_mul_right _ this)
  · unfold imulThr
    rw [hz]
    simp only [Bool.false_eq_true, if_false, hmx, hmy, hex, hey, hnx, hny, hP]
    split
    · rfl
    · unfold bringToRange
      rw [shiftUp_stop _ _ _ _ (by omega)]
      simp only [hs]
      congr 1
      split
      · next h9 => rw [Nat.mod_eq_of_lt (by omega)]; omega
      · rfl

/-- `_normalise` of `256·A − 1` (the quotient of a division by a power of two: low byte 0xff)
    rounds up to `A`, for any exponent -/
theorem normalise_ff (f : Fmt) (h : f.WF) (e : Int) (A : Nat) (neg : Bool)
    (hA1 : f.signMask ≤ A) (hA2 : A < 2 * f.signMask) (he1 : 0 < e) :
    normalise f e (256 * A - 1) neg = checkLimits f (packMan f A neg) e neg := by
  obtain ⟨hS, _, _, hdm, hdu, _, _, _⟩ := wf_S f h
  unfold normalise
  have h0 : ¬ (256 * A - 1 = 0 ∨ e ≤ 0) := by omega
  rw [if_neg h0, shiftUp_stop _ _ _ _ (by omega)]
  simp only []
  have h1 : (256 * A - 1) % 256 > 128 ∨ ((256 * A - 1) % 256 = 128 ∧ (256 * A - 1) / 256 % 2 = 1) := by omega
  rw [if_pos h1]
  have h2 : (256 * A - 1) % f.denUpper / 256 * 256 + 256 = 256 * A := by
    rw [Nat.mod_eq_of_lt (by omega)]; omega
  rw [h2]
  have h3 : ¬ (256 * A ≥ f.denUpper) := by omega
  simp only [h3, if_false]
  rw [Nat.mul_div_cancel_left _ (by omega)]

/-- division by ±2^n (mantissa of the divisor = S): the long division returns the dividend's
    mantissa unchanged, at the exponent byte `ex − ey + 129` -/
theorem idiv_pow2 (f : Fmt) (h : f.WF) (x y : F) (hx : F.Valid f x) (hxe : x.e ≠ 0) (hye : y.e ≠ 0)
    (hy : manOf f y = f.signMask) :
    idiv f x y = if (x.e : Int) - y.e + 129 ≤ 0 then .ok zero
      else checkLimits f (packMan f (manOf f x) (isNeg f x != isNeg f y)) ((x.e : Int) - y.e + 129)
        (isNeg f x != isNeg f y) := by
  obtain ⟨hS, _, _, hdm, hdu, hw, _, hb⟩ := wf_S f h
  obtain ⟨hm, hexp, hneg⟩ := denorm_man f h x
  obtain ⟨hmy, hexpy, hnegy⟩ := denorm_man f h y
  obtain ⟨r1, r2⟩ := manOf_range f h x hx.1
  have hdm' : f.denMask = 2 ^ (f.w + 7) := h.2.2.1
  have hdu' : f.denUpper = 2 ^ (f.w + 8) := h.2.2.2.1
  unfold idiv
  have hz1 : y.isZero = false := by simp [F.isZero, hye]
  have hz2 : x.isZero = false := by simp [F.isZero, hxe]
  rw [hz1, hz2]
  simp only [Bool.false_eq_true, if_false]
  unfold normD divDen
  simp only [hm, hexp, hneg, hmy, hexpy, hnegy, hy]
  rw [← hdm, hdm', Nat.log2_two_pow,
    divLoop_pow (f.w + 7) _ _ 0 _ (by omega) (by rw [← hdu', hdu]; omega) (by omega)]
  simp only [Nat.zero_mul, Nat.zero_add]
  have he : (x.e : Int) - ((y.e : Int) - f.bias - 8) + 1 - (((f.w + 7 : Nat) : Int) + 1)
      = (x.e : Int) - y.e + 129 := by push_cast; omega
  rw [he]
  split
  · next hle => unfold normalise; rw [if_pos (Or.inr hle)]
  · next hgt => exact normalise_ff f h _ _ _ r1 r2 (by omega)

/-- `_add_den` of two denormalised stored values with the SAME exponent byte: the exact sum -/
theorem addDen_aligned (f : Fmt) (h : f.WF) (e : Int) (A B : Nat) (na nb : Bool) (he : e ≠ 0)
    (hA1 : f.signMask ≤ A) (hA2 : A < 2 * f.signMask) (hB1 : f.signMask ≤ B) (hB2 : B < 2 * f.signMask) :
    addDen f ⟨e, 256 * A, na⟩ ⟨e, 256 * B, nb⟩ =
      if na = nb then ⟨e + 1, 128 * (A + B), na⟩
      else if A > B then ⟨e, 256 * (A - B), na⟩ else ⟨e, 256 * (B - A), nb⟩ := by
  obtain ⟨hS, _, _, hdm, hdu, _, _, _⟩ := wf_S f h
  rw [addDen_eq]
  simp only [he, if_false]
  have key : ∀ (A B : Nat) (na nb : Bool), f.signMask ≤ A → A < 2 * f.signMask → f.signMask ≤ B →
      B < 2 * f.signMask → A ≤ B →
      addCore f ⟨e, 256 * A, na⟩ ⟨e, 256 * B, nb⟩ =
        if na = nb then ⟨e + 1, 128 * (A + B), na⟩ else ⟨e, 256 * (B - A), nb⟩ := by
    intro A B na nb a1 a2 b1 b2 hab
    unfold addCore
    simp only [Int.sub_self, Int.toNat_zero, Nat.pow_zero, Nat.mod_one, Nat.div_one]
    by_cases hs : na = nb
    · subst hs
      have hc : 256 * A + 256 * B ≥ f.denUpper := by omega
      simp [hc]
      omega
    · have hsub : (na != nb) = true := by cases na <;> cases nb <;> simp_all
      have hsh : ¬ (256 * A < 128 ∨ 256 * A = 128) := by omega
      have hq : ¬ ((256 * B - 256 * A) / 64 % 8 = 2) := by omega
      simp [hs, hsub, hsh, hq]
      omega
  by_cases hgt : A > B
  · have hsw : (e > e ∨ (True ∧ 256 * A > 256 * B)) := Or.inr ⟨trivial, by omega⟩
    rw [if_pos hsw, key B A nb na hB1 hB2 hA1 hA2 (by omega)]
    by_cases hs : na = nb
    · subst hs; simp [Nat.add_comm]
    · have hs' : ¬ nb = na := fun h => hs h.symm
      simp [hs, hs', hgt]
  · have hsw : ¬ (e > e ∨ (True ∧ 256 * A > 256 * B)) := by simp; omega
    rw [if_neg hsw, key A B na nb hA1 hA2 hB1 hB2 (by omega)]
    simp [hgt]

end PcbV.Mbf.C04
