import PcbV.Model.Play
import PcbV.Lemmas.Mml
/-
  PcbV.Lemmas.PlayTok — well-formed note commands as text, and how `parseCmd` reads them.
-/
namespace PcbV.C42
open PcbV PcbV.Gen PcbV.Mml PcbV.Play

/-- a note command as written: letter (either case), optional `#`/`+`/`-`, optional digits, dots -/
structure NoteTok where
  letter : Nat
  acc : Option Nat
  len : Bytes
  dots : Nat
  deriving DecidableEq, Repr

def NoteTok.accBytes (t : NoteTok) : Bytes := match t.acc with | some a => [a] | none => []
/-- key into NOTES: `#` and `+` are both the sharp -/
def NoteTok.accCode (t : NoteTok) : Nat := match t.acc with | some 45 => 45 | some _ => 35 | none => 0
def NoteTok.lenOpt (t : NoteTok) : Option Nat := if t.len = [] then none else some (digitsVal t.len)
def NoteTok.render (t : NoteTok) : Bytes :=
  t.letter :: (t.accBytes ++ (t.len ++ List.replicate t.dots 46))

structure NoteTok.WF (t : NoteTok) : Prop where
  letter : (65 ≤ t.letter ∧ t.letter ≤ 71) ∨ (97 ≤ t.letter ∧ t.letter ≤ 103)
  acc : t.acc = none ∨ t.acc = some 35 ∨ t.acc = some 43 ∨ t.acc = some 45
  digits : ∀ d ∈ t.len, isDigit d = true
  len : digitsVal t.len ≤ 64
  note : (semitone (upper t.letter) t.accCode).isSome = true

/-- the stream is at its end or continues with a note letter A..G / a..g -/
def NoteHead : Bytes → Prop
  | [] => True
  | c :: _ => (65 ≤ c ∧ c ≤ 71) ∨ (97 ≤ c ∧ c ≤ 103)

theorem NoteHead.headNot {bad : Nat → Bool} {s : Bytes}
    (hbad : ∀ c, ((65 ≤ c ∧ c ≤ 71) ∨ (97 ≤ c ∧ c ≤ 103)) → bad c = false) (h : NoteHead s) :
    HeadNot bad s := by
  cases s with
  | nil => trivial
  | cons c r => exact hbad c h

theorem upper_letter {c : Nat} (h : (65 ≤ c ∧ c ≤ 71) ∨ (97 ≤ c ∧ c ≤ 103)) :
    65 ≤ upper c ∧ upper c ≤ 71 := by
  unfold upper isLower
  split
  · rename_i hc; simp at hc; omega
  · rename_i hc; simp at hc; omega

theorem accidental_none {s : Bytes}
    (h : HeadNot (fun c => c == 32 || c == 35 || c == 43 || c == 45) s) : accidental s = (0, s) := by
  cases s with
  | nil => rfl
  | cons c r =>
    simp only [HeadNot, Bool.or_eq_false_iff, beq_eq_false_iff_ne, ne_eq] at h
    obtain ⟨⟨⟨h1, h2⟩, h3⟩, h4⟩ := h
    unfold accidental
    have : skipBlank (c :: r) = c :: r := by simp [skipBlank, h1]
    rw [this]
    split <;> simp_all

theorem accidental_some (a : Nat) (s : Bytes) (h : a = 35 ∨ a = 43 ∨ a = 45) :
    accidental (a :: s) = ((if a = 45 then 45 else 35), s) := by
  rcases h with rfl | rfl | rfl <;> simp [accidental, skipBlank]

theorem noteLength_none {s : Bytes} (h : HeadNot (fun c => c == 32 || isDigit c) s) :
    noteLength s = (none, s) := by
  cases s with
  | nil => rfl
  | cons c r =>
    simp only [HeadNot, Bool.or_eq_false_iff, beq_eq_false_iff_ne, ne_eq] at h
    simp [noteLength, skipBlank, h.1, h.2]

theorem noteLength_digits (d : Nat) (ds s : Bytes) (hd : ∀ x ∈ d :: ds, isDigit x = true)
    (h : HeadNot (fun c => c == 32 || isDigit c) s) :
    noteLength ((d :: ds) ++ s) = (some (digitsVal (d :: ds)), s) := by
  have hdd := hd d (by simp)
  have h32 : (d == 32) = false := by
    simp [isDigit] at hdd
    simp; omega
  have hl := literal_digits (d :: ds) hd 0 s h
  simp only [List.cons_append] at hl
  simp [noteLength, skipBlank, h32, hdd, hl, digitsVal]

/-- reading one well-formed note command that is followed by the end of the string or by another
    note letter -/
theorem parseCmd_note (env : Env) (t : NoteTok) (h : t.WF) (s : Bytes) (hs : NoteHead s) :
    parseCmd env (t.render ++ s) =
      .ok (some (.note (upper t.letter) t.accCode t.lenOpt t.dots, s)) := by
  have hu := upper_letter h.letter
  have hl32 : t.letter ≠ 32 := by
    have := h.letter; omega
  have hl59 : t.letter ≠ 59 := by
    have := h.letter; omega
  -- what follows the dots
  have hsDots : HeadNot (fun c => c == 32 || c == 46) s :=
    hs.headNot (by intro c hc; simp; omega)
  have hsDig : HeadNot (fun c => c == 32 || isDigit c) (List.replicate t.dots 46 ++ s) :=
    HeadNot.append (by intro x hx; simp at hx; simp [hx.2, isDigit])
      (hs.headNot (by intro c hc; simp [isDigit]; omega))
  have hsAcc : HeadNot (fun c => c == 32 || c == 35 || c == 43 || c == 45)
      (t.len ++ (List.replicate t.dots 46 ++ s)) :=
    HeadNot.append (by
        intro x hx
        have := h.digits x hx
        simp [isDigit] at this
        simp; omega)
      (HeadNot.append (by intro x hx; simp at hx; simp [hx.2])
        (hs.headNot (by intro c hc; simp; omega)))
  -- the accidental
  have hacc : accidental (t.accBytes ++ (t.len ++ (List.replicate t.dots 46 ++ s))) =
      (t.accCode, t.len ++ (List.replicate t.dots 46 ++ s)) := by
    rcases h.acc with ha | ha | ha | ha
    · simp [NoteTok.accBytes, NoteTok.accCode, ha, accidental_none hsAcc]
    · simp [NoteTok.accBytes, NoteTok.accCode, ha, accidental_some 35 _ (by simp)]
    · simp [NoteTok.accBytes, NoteTok.accCode, ha, accidental_some 43 _ (by simp)]
    · simp [NoteTok.accBytes, NoteTok.accCode, ha, accidental_some 45 _ (by simp)]
  -- the length
  have hlen : noteLength (t.len ++ (List.replicate t.dots 46 ++ s)) =
      (t.lenOpt, List.replicate t.dots 46 ++ s) := by
    cases hl : t.len with
    | nil => simp [NoteTok.lenOpt, hl, noteLength_none hsDig]
    | cons d ds =>
      have := noteLength_digits d ds _ (by rw [← hl]; exact h.digits) hsDig
      simpa [NoteTok.lenOpt, hl] using this
  have hv : ∀ v, t.lenOpt = some v → v ≤ 64 := by
    intro v hv
    unfold NoteTok.lenOpt at hv
    split at hv
    · cases hv
    · injection hv with hv; have := h.len; omega
  have hdots := dots_replicate t.dots s hsDots
  have hnl : isNoteLetter (upper t.letter) = true := by
    simp [isNoteLetter]; omega
  have e1 : upper t.letter ≠ 88 := by omega
  have e2 : upper t.letter ≠ 78 := by omega
  have e3 : upper t.letter ≠ 76 := by omega
  have e4 : upper t.letter ≠ 84 := by omega
  have e5 : upper t.letter ≠ 79 := by omega
  have e6 : upper t.letter ≠ 62 := by omega
  have e7 : upper t.letter ≠ 60 := by omega
  simp [NoteTok.render, parseCmd, skipBlank, hl32, hl59,
    parseLetter, e1, e2, e3, e4, e5, e6, e7, hnl, hacc, hlen, hdots, Except.map]
  cases hlo : t.lenOpt with
  | none => simp
  | some v =>
    have := hv v hlo
    have h64 : ¬ 64 < v := by omega
    simp [h64]

end PcbV.C42
