import PcbV.Lemmas.Gml
/-
  C33 — DRAW moves the pen exactly as its commands specify.

  Model: `PcbV.Model.Gml` (the `_draw` loop, `_draw_step`, one-argument POINT) on the scanner
  `PcbV.Model.Mml` and the line model `PcbV.Draw.drawLine`.  `draw P env fuel pen s` returns the new
  pen, the events (`_draw_line` calls), the status and the log `moves` of the moves executed: for each
  U D L R E F G H / M command, in order of execution through all X substrings, its offset before
  scaling (or absolute target), and the scale, angle, colour and B / N prefixes in force (`mkMove`).
  `finalPos` and `segsOf` are the statement's account of such a list.  The theorems hold for every
  string, variable store, nesting, fuel and status (after an error the pen is where the commands
  before it left it).  Angles 0, 360 (no rotation) and 180 (negation) are exact in the code and in
  `Move.target`; a move under another angle ends the model run with `Status.unsupported` (host
  floats), so nothing is claimed about it.
-/
namespace PcbV.C33
open PcbV PcbV.Gen PcbV.Mml PcbV.Gml

/-! ### where the pen ends, what is drawn -/

/-- draw_final_position: after `DRAW s` the pen is where the executed moves, applied in order to the
    start position, lead (`finalPos`: see `move_next_spec` for one move) -/
theorem draw_final_position (P : Params) (env : Env) (fuel : Nat) (pen : Pen) (s : Bytes) :
    (draw P env fuel pen s).pen.pos = finalPos pen.pos (draw P env fuel pen s).moves := by
  have h := (loop_spec P env fuel 0 (enter pen) Flags.init s pen.pos (enter_cur pen)).1
  unfold draw
  dsimp only
  split
  · exact pos_of_cur (by rw [leave_cur]; exact h)
  · exact pos_of_cur h

/-- one move: N leaves the pen where it was; absolute M puts it at (x, y); a relative move under
    angle 0 adds the offset times the scale divided by four, truncated towards zero -/
theorem move_next_spec (p : Int × Int) (m : Move) :
    (m.goback = true → m.next p = p) ∧
    (m.goback = false → m.rel = false → m.next p = (m.dx, m.dy)) ∧
    (m.goback = false → m.rel = true → m.angle = 0 →
      m.next p = (p.1 + Int.tdiv (m.scale * m.dx) 4, p.2 + Int.tdiv (m.scale * m.dy) 4)) := by
  refine ⟨?_, ?_, ?_⟩
  · intro h; simp [Move.next, h]
  · intro h hr; simp [Move.next, Move.target, h, hr]
  · intro h hr ha; simp [Move.next, Move.target, rotate, scaled, h, hr, ha]

/-- the final position as a sum: relative moves without N under angle 0 -/
theorem final_position_sum (p : Int × Int) (ms : List Move)
    (h : ∀ m ∈ ms, m.goback = false ∧ m.rel = true ∧ m.angle = 0) :
    finalPos p ms = (p.1 + (ms.map (fun m => Int.tdiv (m.scale * m.dx) 4)).sum,
                     p.2 + (ms.map (fun m => Int.tdiv (m.scale * m.dy) 4)).sum) := by
  induction ms generalizing p with
  | nil => simp [finalPos]
  | cons m ms ih =>
    have hm := h m (by simp)
    have hn := (move_next_spec p m).2.2 hm.1 hm.2.1 hm.2.2
    have := ih (m.next p) (fun x hx => h x (by simp [hx]))
    simp only [finalPos, List.foldl_cons] at this ⊢
    rw [this, hn]
    simp only [List.map_cons, List.sum_cons]
    ext <;> simp <;> omega

/-- the offsets of the eight direction letters -/
theorem offsets_spec (k : Int) :
    offsets 85 k = (0, -k) ∧ offsets 68 k = (0, k) ∧ offsets 76 k = (-k, 0) ∧ offsets 82 k = (k, 0) ∧
    offsets 69 k = (k, -k) ∧ offsets 70 k = (k, k) ∧ offsets 71 k = (-k, k) ∧ offsets 72 k = (-k, -k) := by
  simp [offsets]

/-- what is logged for a command: its offset, and the scale, angle, colour and prefixes in force -/
theorem move_logged (P : Params) (pen : Pen) (fl : Flags) (c : Nat) (k x y : Int) :
    exec P pen fl (.move c k) =
      doMove pen ⟨true, (offsets c k).1, (offsets c k).2, pen.scale, pen.angle, pen.attr, fl.plot, fl.goback⟩ ∧
    exec P pen fl (.moveBy x y) =
      doMove pen ⟨true, x, y, pen.scale, pen.angle, pen.attr, fl.plot, fl.goback⟩ ∧
    exec P pen fl (.moveTo x y) =
      doMove pen ⟨false, x, y, pen.scale, pen.angle, pen.attr, fl.plot, fl.goback⟩ := by
  refine ⟨rfl, rfl, rfl⟩

/-- segments_of_moves: the `_draw_line` calls of `DRAW s` are exactly the segments of the logged moves
    without a B prefix, each from the pen position before the move to the move's target, in the
    colour in force -/
theorem segments_of_moves (P : Params) (env : Env) (fuel : Nat) (pen : Pen) (s : Bytes) :
    (draw P env fuel pen s).evs.filter Ev.isSeg = segsOf pen.pos (draw P env fuel pen s).moves := by
  have h := (loop_spec P env fuel 0 (enter pen) Flags.init s pen.pos (enter_cur pen)).2
  unfold draw
  dsimp only
  split <;> exact h

/-- point_reports_position: POINT(0) and POINT(1) after the DRAW are the coordinates of `finalPos` -/
theorem point_reports_position (P : Params) (env : Env) (fuel : Nat) (pen : Pen) (s : Bytes) :
    point (draw P env fuel pen s).pen 0 = (finalPos pen.pos (draw P env fuel pen s).moves).1 ∧
    point (draw P env fuel pen s).pen 1 = (finalPos pen.pos (draw P env fuel pen s).moves).2 := by
  simp [point, draw_final_position]

/-! ### prefixes -/

def isMoveCmd : Cmd → Bool
  | .move .. => true
  | .moveBy .. => true
  | .moveTo .. => true
  | _ => false

/-- B and N only set their flag; every move resets both (`doMove` returns `Flags.init`) -/
theorem prefix_flags (P : Params) (pen : Pen) (fl : Flags) :
    exec P pen fl .noPlot = .ok pen ⟨false, fl.goback⟩ [] [] ∧
    exec P pen fl .goBack = .ok pen ⟨fl.plot, true⟩ [] [] := ⟨rfl, rfl⟩

/-- b_no_draw: a move after B changes the pen exactly as without B and draws nothing -/
theorem b_no_draw (P : Params) (pen : Pen) (g : Bool) (cmd : Cmd) (hm : isMoveCmd cmd = true) :
    match exec P pen ⟨false, g⟩ cmd, exec P pen ⟨true, g⟩ cmd with
    | .ok p1 f1 e1 _, .ok p2 f2 _ _ => p1 = p2 ∧ f1 = Flags.init ∧ f2 = Flags.init ∧ e1 = []
    | .unsupported, .unsupported => True
    | _, _ => False := by
  cases cmd <;> simp [isMoveCmd] at hm
  · exact doMove_b pen true _ _ pen.scale pen.angle pen.attr g
  · exact doMove_b pen false _ _ pen.scale pen.angle pen.attr g
  · exact doMove_b pen true _ _ pen.scale pen.angle pen.attr g

/-- n_returns: a move after N leaves the pen where it was, and draws what it draws without N -/
theorem n_returns (P : Params) (pen : Pen) (pl : Bool) (cmd : Cmd) (hm : isMoveCmd cmd = true) :
    match exec P pen ⟨pl, true⟩ cmd, exec P pen ⟨pl, false⟩ cmd with
    | .ok p1 f1 e1 _, .ok _ _ e2 _ => p1.pos = pen.pos ∧ f1 = Flags.init ∧ e1 = e2
    | .unsupported, .unsupported => True
    | _, _ => False := by
  cases cmd <;> simp [isMoveCmd] at hm
  · exact doMove_n pen true _ _ pen.scale pen.angle pen.attr pl
  · exact doMove_n pen false _ _ pen.scale pen.angle pen.attr pl
  · exact doMove_n pen true _ _ pen.scale pen.angle pen.attr pl

/-! ### segments are LINE's lines -/

/-- segments_are_lines: a drawn segment issues the `graph_view[…] = attr` calls of
    `LINE (x0,y0)-(x1,y1),a` (the same `_draw_line` call), in the same attribute, for every viewport -/
theorem segments_are_lines (P : Params) (v : Viewport.View) (x0 y0 x1 y1 a : Int)
    (ha : 0 ≤ a ∧ a < P.numAttr) :
    (Ev.seg x0 y0 x1 y1 a).ops v = (lineStmt P v x0 y0 x1 y1 a).1 ∧
    (Ev.seg x0 y0 x1 y1 a).attr = (lineStmt P v x0 y0 x1 y1 a).2 := by
  refine ⟨rfl, ?_⟩
  simp only [Ev.attr, lineStmt, clampAttr]
  split <;> omega

/-- with the repaired `C` command every segment of a DRAW has an attribute of the mode, so
    `segments_are_lines` applies to all of them (the pen starts with one: `mode.attr`) -/
theorem segment_attributes_legal (numAttr : Int) (bounds : Int × Int × Int × Int) (env : Env)
    (fuel : Nat) (pen : Pen) (s : Bytes) (hn : 0 < numAttr) (ha : 0 ≤ pen.attr ∧ pen.attr < numAttr) :
    ∀ e ∈ (draw (params numAttr bounds) env fuel pen s).evs, 0 ≤ e.attr ∧ e.attr < numAttr := by
  have h := (loop_attr (params numAttr bounds) env rfl hn fuel 0 (enter pen) Flags.init s ha).2
  unfold draw
  dsimp only
  split <;> exact h

/-- colour_spec: `C k` selects the attribute min(k, numAttr−1) (0 for a negative k) — the value LINE's
    `_get_attr_index` gives — whatever attribute the pen had before (in particular whatever the mode's
    default attribute is: 1 of 0..3 on the EGA monochrome SCREEN 10), changes nothing else, and a drawn
    move that follows carries exactly this attribute -/
theorem colour_spec (numAttr : Int) (bounds : Int × Int × Int × Int) (pen : Pen) (fl : Flags) (k : Int) :
    exec (params numAttr bounds) pen fl (.colour k) =
      .ok { pen with attr := min (numAttr - 1) (max 0 k) } fl [] [] ∧
    (0 ≤ k → k < numAttr → exec (params numAttr bounds) pen fl (.colour k) = .ok { pen with attr := k } fl [] []) ∧
    ∀ (g : Bool) (cmd : Cmd), isMoveCmd cmd = true →
      match exec (params numAttr bounds) { pen with attr := min (numAttr - 1) (max 0 k) } ⟨true, g⟩ cmd with
      | .ok _ _ evs _ => ∀ e ∈ evs, e.attr = min (numAttr - 1) (max 0 k)
      | _ => True := by
  refine ⟨rfl, ?_, ?_⟩
  · intro h0 h1
    have : min (numAttr - 1) (max 0 k) = k := by omega
    simp [exec, params, clampAttr, this]
  · intro g cmd hm
    cases cmd <;> simp [isMoveCmd] at hm <;>
      (simp only [exec, doMove, mkMove]
       split
       · rename_i heq
         split at heq
         · cases heq
         · injection heq with h1 h2 h3 h4
           subst h3
           intro e he
           simp at he
           subst he
           rfl
       · trivial)

/-- the unrepaired code stored the number after `C` as it was (`DRAW "C300 R5"`: ValueError from the
    byte matrix, `C255` in a 4-colour mode: pixel value 255) -/
theorem colour_counterexample :
    ¬ ∀ (pen : Pen) (fl : Flags) (k : Int), -99999 ≤ k → k ≤ 99999 →
        match exec (oldParams 4 (0, 0, 319, 199)) pen fl (.colour k) with
        | .ok p _ _ _ => 0 ≤ p.attr ∧ p.attr < 4
        | _ => True := by
  intro h
  have := h ⟨none, (160, 100), 3, 4, 0⟩ Flags.init 300 (by omega) (by omega)
  simp [exec, oldParams] at this

/-! ### malformed strings -/

/-- command letters of the Graphics Macro Language, upper case -/
def commandLetters : List Nat := [66, 78, 88, 67, 83, 65, 84, 85, 68, 76, 82, 69, 70, 71, 72, 77, 80]

/-- the string continues (after blanks and semicolons) with something that cannot be a command:
    an unknown letter; S, M or P without a number; T not directly followed by A -/
def lexMalformed : Bytes → Bool
  | [] => false
  | c :: r =>
    if c == 32 || c == 59 then lexMalformed r
    else
      let u := upper c
      if !commandLetters.contains u then true
      else if u == 83 || u == 77 || u == 80 then numberMissing r
      else if u == 84 then (match r with | [] => true | a :: _ => upper a != 65)
      else false

theorem lex_malformed_ifc (env : Env) (s : Bytes) (h : lexMalformed s = true) :
    parseCmd env s = .error E.ifc := by
  induction s with
  | nil => simp [lexMalformed] at h
  | cons c r ih =>
    unfold lexMalformed at h
    unfold parseCmd
    by_cases hc : (c == 32 || c == 59) = true
    · rw [if_pos hc] at h ⊢; exact ih h
    · rw [if_neg hc] at h ⊢
      dsimp only at h
      generalize upper c = u at h
      by_cases hu : commandLetters.contains u = true
      · simp only [hu, Bool.not_true, Bool.false_eq_true, if_false] at h
        by_cases h1 : (u == 83 || u == 77 || u == 80) = true
        · rw [if_pos h1] at h
          have hn : ∀ lo hi, number env lo hi r = .error E.ifc := fun lo hi => number_missing env lo hi r h
          have hs : numberMissing (skipBlank r) = true := by
            unfold numberMissing at h ⊢
            have : skipBlank (skipBlank r) = skipBlank r := skipBlank_idem r
            rw [this]; exact h
          have hn' : ∀ lo hi, number env lo hi (skipBlank r) = .error E.ifc :=
            fun lo hi => number_missing env lo hi _ hs
          simp only [Bool.or_eq_true, beq_iff_eq] at h1
          rcases h1 with (h1 | h1) | h1 <;> subst h1 <;>
            simp [parseLetter, isMoveLetter, hn, hn', Except.map]
        · rw [if_neg h1] at h
          by_cases h2 : (u == 84) = true
          · rw [if_pos h2] at h
            simp only [beq_iff_eq] at h2
            subst h2
            cases r with
            | nil => simp [parseLetter, Except.map]
            | cons a t =>
              simp only [bne_iff_ne, ne_eq] at h
              simp [parseLetter, h, Except.map]
          · rw [if_neg h2] at h; cases h
      · simp only [Bool.not_eq_true] at hu
        have hl : parseLetter env u r = .error E.ifc := by
          simp only [commandLetters, List.contains_cons, List.contains_nil, Bool.or_false,
            Bool.or_eq_false_iff, beq_eq_false_iff_ne, ne_eq] at hu
          obtain ⟨a1, a2, a3, a4, a5, a6, a7, a8, a9, a10, a11, a12, a13, a14, a15, a16, a17⟩ := hu
          simp [parseLetter, isMoveLetter, a1, a2, a3, a4, a5, a6, a7, a8, a9, a10, a11, a12, a13,
            a14, a15, a16, a17]
        simp [hl, Except.map]

/-- a number outside the range of its command is an Illegal function call (S 1..255, moves ±99999,
    M ±9999, C ±99999, A 0..3, TA ±360: all through `rangeChk`) -/
theorem out_of_range_ifc (lo hi k : Int) (h : k < lo ∨ k > hi) : rangeChk lo hi k = .error E.ifc := by
  unfold rangeChk
  rw [if_neg]
  omega

/-- malformed_ifc: when the string continues with a lexically malformed command, or with a command
    whose scanning raises an error `e` (number out of range, missing comma of M, bad variable
    reference), the DRAW stops there with that error (Illegal function call for `lexMalformed`):
    nothing more is drawn and the pen stays where the commands before it left it -/
theorem malformed_ifc (P : Params) (env : Env) (f depth : Nat) (pen : Pen) (fl : Flags) (s : Bytes) :
    (lexMalformed s = true → loop P env (f + 1) depth pen fl s = ⟨pen, [], [], .err E.ifc⟩) ∧
    (∀ e, parseCmd env s = .error e → loop P env (f + 1) depth pen fl s = ⟨pen, [], [], .err e⟩) := by
  constructor
  · intro h
    unfold loop
    rw [lex_malformed_ifc env s h]
  · intro e h
    unfold loop
    rw [h]

/-! ### X substrings -/

/-- nesting_bounded: an X command met when `maxNesting` substrings are already being executed ends
    the DRAW with Out of memory; so no `_draw` call is ever nested deeper than the limit -/
theorem nesting_bounded (P : Params) (env : Env) (f depth : Nat) (pen : Pen) (fl : Flags)
    (s sub r : Bytes) (hm : P.maxNesting ≠ 0) (hd : depth + 1 > P.maxNesting)
    (hp : parseCmd env s = .ok (some (.sub sub, r))) :
    loop P env (f + 1) depth pen fl s = ⟨pen, [], [], .err E.out_of_memory⟩ := by
  unfold loop
  rw [hp]
  simp [hm, hd]

/-- D15: in the unrepaired code (no nesting limit) `A$="XA$;": DRAW A$` never ends: whatever the fuel,
    the recursion is still going when it is used up (Python: RecursionError) -/
theorem self_reference_counterexample (numAttr : Int) (b : Int × Int × Int × Int) (f depth : Nat)
    (pen : Pen) (fl : Flags) :
    (loop (oldParams numAttr b) envSelf f depth pen fl [88, 65, 36, 59]).status = .outOfFuel := by
  induction f generalizing depth pen fl with
  | zero => rfl
  | succ f ih =>
    unfold loop
    rw [parse_self]
    have h := ih (depth + 1) (enter pen) Flags.init
    simp only [oldParams, ne_eq, not_true_eq_false, false_and, if_false]
    simp only [oldParams] at h
    split
    · rename_i heq; rw [h] at heq; cases heq
    · exact h

/-- with the nesting limit the same statement ends in Out of memory, nothing drawn, pen unmoved -/
theorem self_reference_out_of_memory :
    draw (params 4 (0, 0, 319, 199)) envSelf (DrawGml.maxNesting + 3) ⟨none, (160, 100), 3, 4, 0⟩
        [88, 65, 36, 59] =
      ⟨⟨some (160, 100), (160, 100), 3, 4, 0⟩, [], [], .err E.out_of_memory⟩ := by
  decide +kernel

/-! ### non-vacuity -/

def env0 : Env := { var := fun _ _ => .error E.ifc, ptr := fun _ => .error E.ifc }
def pen0 : Pen := ⟨none, (160, 100), 3, 4, 0⟩

/-- `DRAW "BR5NU3L2"` from (160,100): blank move to (165,100), a line up to (165,97) and back,
    a line to (163,100) -/
example : (draw (params 4 (0, 0, 319, 199)) env0 50 pen0 [66, 82, 53, 78, 85, 51, 76, 50]).evs =
    [.seg 165 100 165 97 3, .seg 165 100 163 100 3] := by decide +kernel
example : (draw (params 4 (0, 0, 319, 199)) env0 50 pen0 [66, 82, 53, 78, 85, 51, 76, 50]).pen.pos = (163, 100) := by
  decide +kernel
/-- `DRAW "S7 L3 M+5,-3"`: 7·3/4 = 5.25 → 5; 35/4 → 8, −21/4 → −5 (towards zero) -/
example : (draw (params 4 (0, 0, 319, 199)) env0 50 pen0
    [83, 55, 32, 76, 51, 32, 77, 43, 53, 44, 45, 51]).pen.pos = (163, 95) := by decide +kernel
/-- `DRAW "C300 R5"`: colour clipped to 3 -/
example : (draw (params 4 (0, 0, 319, 199)) env0 50 pen0 [67, 51, 48, 48, 32, 82, 53]).evs =
    [.seg 160 100 165 100 3] := by decide +kernel
example : lexMalformed [32, 59, 122] = true := by decide
example : lexMalformed [83, 32, 82] = true := by decide
example : lexMalformed [116, 32, 65] = true := by decide
example : lexMalformed [82, 53] = false := by decide
example : (draw (params 4 (0, 0, 319, 199)) env0 50 pen0 [82, 53, 90]).status = .err E.ifc := by decide +kernel

end PcbV.C33
