import PcbV.Lemmas.CodepageConv
import PcbV.Lemmas.CodepageTable
/-
  C41 — codepage conversion round-trips; the double-byte converter partitions its input.
  Theorems about `PcbV.Codepage` (transcription of pcbasic/basic/codepage.py).
  The converter theorems hold for EVERY predicate tuple `p` (lead / trail / box-left / box-right /
  preserve), every byte string and every chunk-and-flush history.
-/
namespace PcbV.C41
open PcbV PcbV.Codepage

/-- Any history of `_mark(chunk, flush)` calls on a fresh Converter: what was emitted followed by
    what is still buffered is exactly what was fed, and every emitted sequence has 1 or 2 bytes. -/
theorem converter_partition (p : Preds) (dbcs box : Bool) (hist : List (Bytes × Bool)) :
    (convert p dbcs box {} hist).2.flatten ++ (convert p dbcs box {} hist).1.buf
        = (hist.map Prod.fst).flatten ∧
    (∀ q ∈ (convert p dbcs box {} hist).2, q.length = 1 ∨ q.length = 2) ∧
    (convert p dbcs box {} hist).1.buf.length ≤ 2 := by
  obtain ⟨h1, h2, h3⟩ := convert_inv p dbcs box hist {} (inv_init dbcs box)
  refine ⟨by simpa using h2, h3, ?_⟩
  cases dbcs
  · simp only [Codepage.Inv, Bool.false_eq_true, if_false] at h1
    simp [h1]
  · simp only [Codepage.Inv, if_true] at h1
    cases box
    · simp only [Wf, Bool.false_eq_true, if_false] at h1
      omega
    · simp only [Wf, if_true] at h1
      cases hb : (convert p true true {} hist).1.bset with
      | none => exact h1.1 hb
      | some b => rcases h1.2 (by simp [hb]) with h | h <;> omega

/-- A history that ends with a flushing call leaves nothing behind: the emitted sequences
    concatenate to the whole input. -/
theorem converter_partition_flushed (p : Preds) (dbcs box : Bool) (hist : List (Bytes × Bool))
    (last : Bytes) :
    (convert p dbcs box {} (hist ++ [(last, true)])).2.flatten
      = (hist.map Prod.fst).flatten ++ last := by
  have hp := (converter_partition p dbcs box (hist ++ [(last, true)])).1
  have hi := (convert_inv p dbcs box hist {} (inv_init dbcs box)).1
  have hm := (mark_inv p dbcs box (convert p dbcs box {} hist).1 last true hi).2.2.2 rfl
  rw [convert_append] at hp ⊢
  simp only [convert, List.append_nil] at hp ⊢
  rw [hm] at hp
  simpa using hp

/-- `convertAll`: chunks fed one after the other, one flush at the end. -/
theorem convertAll_partition (p : Preds) (dbcs box : Bool) (chunks : List Bytes) :
    (convertAll p dbcs box chunks).flatten = chunks.flatten ∧
    ∀ q ∈ convertAll p dbcs box chunks, q.length = 1 ∨ q.length = 2 := by
  refine ⟨?_, ?_⟩
  · have h := converter_partition_flushed p dbcs box (chunks.map fun c => (c, false)) []
    simpa [convertAll, Function.comp_def] using h
  · exact (converter_partition p dbcs box _).2.1

/-- The emitted sequence list depends only on the concatenation of the chunks, not on where the
    chunk boundaries fall. -/
theorem chunking_irrelevant (p : Preds) (dbcs box : Bool) (chunks₁ chunks₂ : List Bytes)
    (h : chunks₁.flatten = chunks₂.flatten) :
    convertAll p dbcs box chunks₁ = convertAll p dbcs box chunks₂ := by
  simp only [convertAll, convert_append, convert_noflush, h]

/-- In particular piecewise conversion equals converting the whole string at once. -/
theorem chunked_eq_whole (p : Preds) (dbcs box : Bool) (chunks : List Bytes) :
    convertAll p dbcs box chunks = convertAll p dbcs box [chunks.flatten] :=
  chunking_irrelevant p dbcs box chunks [chunks.flatten] (by simp)

/-- A single-byte codepage emits every byte on its own. -/
theorem sbcs_singletons (p : Preds) (box : Bool) (chunks : List Bytes) :
    convertAll p false box chunks = chunks.flatten.map fun c => [c] := by
  simp [convertAll, convert_append, convert_noflush, mark, convert]

/-- Without box protection the streaming converter computes, for every chunking, the plain
    left-to-right parse: a non-preserved lead byte directly followed by a non-preserved trail byte
    is one double-byte sequence, every other byte stands alone (`greedy`). -/
theorem nobox_greedy (p : Preds) (chunks : List Bytes) :
    convertAll p true false chunks = greedy p chunks.flatten := by
  have h := nobox_feed p chunks.flatten {} (Or.inl rfl)
  simpa [convertAll, convert_append, convert_noflush, mark, convert, feed] using h

/-! ## Tables: round trips for ANY codepage record

  `cp` is an arbitrary `Cp` (in particular `build dict bp` for any dict).  An entry `k ↦ u` of
  `cp.cpToU` is seen by the converter as one sequence when `k` is a single byte, or a lead byte
  followed by a trail byte of a double-byte page (`EntryShape`). -/

theorem bytesToUnicode_entry (cp : Cp) (k : Bytes) (u : Cluster) (boxArg : Option Bool)
    (hnd : (cp.cpToU.map Prod.fst).Nodup) (hne : ∀ e ∈ cp.cpToU, e.1 ≠ [])
    (hmem : (k, u) ∈ cp.cpToU) (hshape : EntryShape cp k) :
    bytesToUnicode cp k [] boxArg false = u := by
  have hl := lookup_of_mem cp.cpToU k u hnd hmem
  rcases hshape with ⟨b, rfl⟩ | ⟨l, t, rfl, hd, hle, htr⟩
  · have hm := mark_single (cp.preds []) cp.dbcs (effBox cp boxArg) b (by simp [Cp.preds])
    simp [bytesToUnicode, hm, toUnicodeList, codepointToUnicode, hl]
  · have hm := mark_pair (cp.preds []) (effBox cp boxArg) l t (by simp [Cp.preds]) (by simp [Cp.preds])
      (by simpa [Cp.preds] using hle) (by simpa [Cp.preds] using htr)
    have he := lookup_none_of_not_key cp.cpToU [] hne
    simp [bytesToUnicode, hd, hm, toUnicodeList, codepointToUnicode, hl, he]

theorem unicodeToBytes_entry (cp : Cp) (k : Bytes) (u : Cluster)
    (hlast : lookupLast cp.cpToU u = some k) (hplain : Plain cp k u) :
    unicodeToBytes cp u false = k := by
  obtain ⟨hne, hhead, hsub⟩ := hplain
  have hmem := lookupLast_mem cp.cpToU u k hlast
  have he : eascii u = false := by
    rcases hhead with h | ⟨rfl, _⟩
    · cases u with
      | nil => rfl
      | cons c r =>
        cases r with
        | nil => simp [eascii]
        | cons d r' =>
          have : c ≠ 0 := by simpa using h
          cases c with
          | zero => exact absurd rfl this
          | succ n => simp [eascii]
    · simp [eascii]
  have hs := split_single cp.cpToU k u hmem hne he
  simp only [unicodeToBytes, splitUnicode, hs, List.flatMap_cons, List.flatMap_nil, List.append_nil]
  rcases hhead with h | ⟨rfl, rfl⟩
  · simp [fromUnicode, h, hsub, hlast]
  · simp [fromUnicode]

/-- bytes → Unicode → bytes is the identity on every entry whose Unicode mapping is unique. -/
theorem bytes_roundtrip_entry (cp : Cp) (k : Bytes) (u : Cluster) (boxArg : Option Bool)
    (hnd : (cp.cpToU.map Prod.fst).Nodup) (hne : ∀ e ∈ cp.cpToU, e.1 ≠ [])
    (hmem : (k, u) ∈ cp.cpToU) (hshape : EntryShape cp k)
    (huniq : ∀ k', (k', u) ∈ cp.cpToU → k' = k) (hplain : Plain cp k u) :
    unicodeToBytes cp (bytesToUnicode cp k [] boxArg false) false = k := by
  rw [bytesToUnicode_entry cp k u boxArg hnd hne hmem hshape]
  exact unicodeToBytes_entry cp k u (lookupLast_of_unique cp.cpToU u k hmem huniq) hplain

/-- Unicode → bytes → Unicode is the identity on every cluster of the repertoire (no uniqueness
    needed: whichever key the inverse dictionary picked maps back to the cluster). -/
theorem unicode_roundtrip_entry (cp : Cp) (k : Bytes) (u : Cluster) (boxArg : Option Bool)
    (hnd : (cp.cpToU.map Prod.fst).Nodup) (hne : ∀ e ∈ cp.cpToU, e.1 ≠ [])
    (hlast : lookupLast cp.cpToU u = some k) (hshape : EntryShape cp k) (hplain : Plain cp k u) :
    bytesToUnicode cp (unicodeToBytes cp u false) [] boxArg false = u := by
  rw [unicodeToBytes_entry cp k u hlast hplain]
  exact bytesToUnicode_entry cp k u boxArg hnd hne (lookupLast_mem cp.cpToU u k hlast) hshape

/-- `roundtrip_generic`, byte side: if the table is injective on a set `S` of byte sequences
    (each has a mapping no other key shares), then looking every sequence up and converting the
    clusters back returns the sequences. -/
theorem roundtrip_generic_bytes (cp : Cp) (S : List Bytes) (hnd : (cp.cpToU.map Prod.fst).Nodup)
    (hS : ∀ k ∈ S, ∃ u, (k, u) ∈ cp.cpToU ∧ (∀ k', (k', u) ∈ cp.cpToU → k' = k) ∧ Plain cp k u) :
    (S.map fun k => fromUnicode cp (codepointToUnicode cp k false) false) = S := by
  induction S with
  | nil => rfl
  | cons k r ih =>
    obtain ⟨u, hmem, huniq, hne, hhead, hsub⟩ := hS k List.mem_cons_self
    have hl := lookup_of_mem cp.cpToU k u hnd hmem
    have hlast := lookupLast_of_unique cp.cpToU u k hmem huniq
    have ih' := ih (fun k' hk' => hS k' (List.mem_cons_of_mem _ hk'))
    simp only [List.map_cons, ih', List.cons.injEq, and_true]
    rcases hhead with h | ⟨rfl, rfl⟩
    · simp [codepointToUnicode, hl, fromUnicode, h, hsub, hlast]
    · simp [codepointToUnicode, hl, fromUnicode]

/-- `roundtrip_generic`, Unicode side: on clusters of the repertoire the composition the other way
    round is the identity. -/
theorem roundtrip_generic_unicode (cp : Cp) (U : List Cluster) (hnd : (cp.cpToU.map Prod.fst).Nodup)
    (hU : ∀ u ∈ U, ∃ k, lookupLast cp.cpToU u = some k ∧ Plain cp k u) :
    (U.map fun u => codepointToUnicode cp (fromUnicode cp u false) false) = U := by
  induction U with
  | nil => rfl
  | cons u r ih =>
    obtain ⟨k, hlast, hne, hhead, hsub⟩ := hU u List.mem_cons_self
    have hmem := lookupLast_mem cp.cpToU u k hlast
    have hl := lookup_of_mem cp.cpToU k u hnd hmem
    have ih' := ih (fun u' hu' => hU u' (List.mem_cons_of_mem _ hu'))
    simp only [List.map_cons, ih', List.cons.injEq, and_true]
    rcases hhead with h | ⟨rfl, rfl⟩
    · simp [codepointToUnicode, hl, fromUnicode, h, hsub, hlast]
    · have : lookup cp.cpToU [0] = some [0] := hl
      simp [codepointToUnicode, fromUnicode, this]

/-! ## The tables built by `Codepage.__init__` (`build`) from ANY dict with unique keys of one or
  two bytes satisfy the side conditions of the entry theorems -/





/-- The table built from a dict (unique keys) has unique keys: the NUL fill only adds bytes that
    are not defined. -/
theorem build_keys_nodup (dict : Table) (bp : Bool) (hnd : (dict.map Prod.fst).Nodup) :
    ((build dict bp).cpToU.map Prod.fst).Nodup := by
  simp only [build, List.map_append]
  rw [List.nodup_append]
  refine ⟨by rw [mainOf_keys]; exact hnd, ?_, ?_⟩
  · simp only [fillOf, List.map_map]
    have h1 : ((List.range 256).filter fun c => !hasKey (mainOf dict) [c]).Nodup :=
      List.Pairwise.filter _ List.nodup_range
    exact List.Pairwise.map _ (fun a b hab hh => hab (by simpa using hh)) h1
  · intro a ha b hb hab
    subst hab
    simp only [fillOf, List.map_map, List.mem_map, List.mem_filter, Function.comp] at hb
    obtain ⟨c, ⟨_, hc⟩, rfl⟩ := hb
    have := (hasKey_iff (mainOf dict) [c]).mpr ha
    simp [this] at hc

theorem build_keys_nonempty (dict : Table) (bp : Bool) (hkeys : ∀ e ∈ dict, e.1.length = 1 ∨ e.1.length = 2) :
    ∀ e ∈ (build dict bp).cpToU, e.1 ≠ [] := by
  intro e he
  simp only [build, List.mem_append] at he
  rcases he with he | he
  · have hm : e.1 ∈ (mainOf dict).map Prod.fst := List.mem_map.mpr ⟨e, he, rfl⟩
    rw [mainOf_keys] at hm
    obtain ⟨e0, he0, hk⟩ := List.mem_map.mp hm
    intro hnil
    rw [hnil] at hk
    rcases hkeys e0 he0 with h | h <;> simp [hk] at h
  · simp only [fillOf, List.mem_map] at he
    obtain ⟨c, _, rfl⟩ := he
    simp



/-- Every entry of a table built by `Codepage.__init__` from a dict whose keys have one or two
    bytes is seen by the converter as one sequence: the lead/trail sets are collected from exactly
    those keys. -/
theorem build_entry_shape (dict : Table) (bp : Bool)
    (hkeys : ∀ e ∈ dict, e.1.length = 1 ∨ e.1.length = 2) :
    ∀ e ∈ (build dict bp).cpToU, EntryShape (build dict bp) e.1 := by
  intro e he
  simp only [build, List.mem_append] at he
  rcases he with he | he
  · obtain ⟨e0, he0, hk⟩ := mainOf_key dict e he
    rw [← hk]
    rcases hkeys e0 he0 with h1 | h2
    · left
      match hq : e0.1, h1 with
      | [b], _ => exact ⟨b, rfl⟩
    · right
      match hq : e0.1, h2 with
      | [l, t], _ =>
        have hmem : e0 ∈ dict.filter (fun e => e.1.length == 2) := by
          simp [List.mem_filter, he0, hq]
        refine ⟨l, t, rfl, ?_, ?_, ?_⟩
        · simp only [build, Bool.not_eq_true', List.isEmpty_eq_false_iff]
          exact List.ne_nil_of_mem hmem
        · simp only [build, List.contains_eq_mem, List.mem_map, decide_eq_true_eq]
          exact ⟨e0, hmem, by simp [hq]⟩
        · simp only [build, List.contains_eq_mem, List.mem_map, decide_eq_true_eq]
          exact ⟨e0, hmem, by simp [hq]⟩
  · simp only [fillOf, List.mem_map] at he
    obtain ⟨c, _, rfl⟩ := he
    exact Or.inl ⟨c, rfl⟩

/-- bytes → Unicode → bytes for the model of `Codepage.__init__` on any dict: identity on every
    entry whose Unicode mapping is unique (and is looked up in the table, `Plain`). -/
theorem build_bytes_roundtrip (dict : Table) (bp : Bool) (boxArg : Option Bool)
    (hnd : (dict.map Prod.fst).Nodup) (hkeys : ∀ e ∈ dict, e.1.length = 1 ∨ e.1.length = 2)
    (k : Bytes) (u : Cluster) (hmem : (k, u) ∈ (build dict bp).cpToU)
    (huniq : ∀ k', (k', u) ∈ (build dict bp).cpToU → k' = k) (hplain : Plain (build dict bp) k u) :
    unicodeToBytes (build dict bp) (bytesToUnicode (build dict bp) k [] boxArg false) false = k :=
  bytes_roundtrip_entry _ k u boxArg (build_keys_nodup dict bp hnd) (build_keys_nonempty dict bp hkeys) hmem
    (build_entry_shape dict bp hkeys (k, u) hmem) huniq hplain

/-- Unicode → bytes → Unicode for the model of `Codepage.__init__` on any dict: identity on every
    cluster of the repertoire that is looked up in the table. -/
theorem build_unicode_roundtrip (dict : Table) (bp : Bool) (boxArg : Option Bool)
    (hnd : (dict.map Prod.fst).Nodup) (hkeys : ∀ e ∈ dict, e.1.length = 1 ∨ e.1.length = 2)
    (k : Bytes) (u : Cluster) (hlast : lookupLast (build dict bp).cpToU u = some k)
    (hplain : Plain (build dict bp) k u) :
    bytesToUnicode (build dict bp) (unicodeToBytes (build dict bp) u false) [] boxArg false = u :=
  unicode_roundtrip_entry _ k u boxArg (build_keys_nodup dict bp hnd) (build_keys_nonempty dict bp hkeys) hlast
    (build_entry_shape dict bp hkeys (k, u) (lookupLast_mem _ u k hlast)) hplain

/-! ## Shipped single-byte pages 437, 850, 866

  `PcbV.Gen.Codepages.cpNNN` is the dict `read_codepage('NNN')` regenerated from /repo on every run;
  `cpNNNpairs` / `cpNNNdups` are the same table as numbers and the code points shared by several
  bytes.  `PlainPage` (five facts, each decided by kernel evaluation, the injectivity one by the
  verified checker `injB`) ties them to the model's `Codepage.__init__` (`build`). -/

section plain
variable {dict : Table} {pairs : List (Nat × Nat)} {dups : List Nat}

/-- bytes → Unicode → bytes on a plain single-byte page: identity on every byte whose code point
    is not shared -/
theorem plain_bytes_roundtrip (pp : PlainPage dict pairs dups) (bp : Bool) (boxArg : Option Bool)
    (b v : Nat) (h : ([b], [v]) ∈ (build dict bp).cpToU) (hv : v ∉ dups) :
    unicodeToBytes (build dict bp) (bytesToUnicode (build dict bp) [b] [] boxArg false) false = [b] := by
  have hnd : ((build dict bp).cpToU.map Prod.fst).Nodup := by rw [pp.cpToU bp]; exact pp.tableKeysNodup
  have hne : ∀ e ∈ (build dict bp).cpToU, e.1 ≠ [] := by
    intro e he
    rw [pp.cpToU bp] at he
    obtain ⟨x, _, h1, _⟩ := mem_table _ he
    rw [h1]; simp
  exact bytes_roundtrip_entry _ [b] [v] boxArg hnd hne h (Or.inl ⟨b, rfl⟩)
    (fun k' hk' => key_of_value pp bp k' b v h hk' hv) (plain_of pp bp [b] v h (fun _ => by simpa [*] using hv))

/-- Unicode → bytes → Unicode on a plain single-byte page: identity on every code point of the
    repertoire (NUL must not be shared, since U+0000 passes through as byte 0) -/
theorem plain_unicode_roundtrip (pp : PlainPage dict pairs dups) (bp : Bool) (boxArg : Option Bool)
    (b v : Nat) (h : ([b], [v]) ∈ (build dict bp).cpToU) (h0 : 0 ∉ dups) :
    bytesToUnicode (build dict bp) (unicodeToBytes (build dict bp) [v] false) [] boxArg false = [v] := by
  have hnd : ((build dict bp).cpToU.map Prod.fst).Nodup := by rw [pp.cpToU bp]; exact pp.tableKeysNodup
  have hne : ∀ e ∈ (build dict bp).cpToU, e.1 ≠ [] := by
    intro e he
    rw [pp.cpToU bp] at he
    obtain ⟨x, _, h1, _⟩ := mem_table _ he
    rw [h1]; simp
  obtain ⟨k, hk⟩ := lookupLast_isSome_of_mem _ [v] [b] h
  have hkm := lookupLast_mem _ [v] k hk
  have hshape : EntryShape (build dict bp) k := by
    have := hkm
    rw [pp.cpToU bp] at this
    obtain ⟨x, _, h1, _⟩ := mem_table _ this
    exact Or.inl ⟨x.1, h1⟩
  exact unicode_roundtrip_entry _ k [v] boxArg hnd hne hk hshape (plain_of pp bp k v hkm (fun _ => h0))

/-- every byte has an entry -/
theorem plain_total (pp : PlainPage dict pairs dups) (bp : Bool) (b : Nat) (hb : b < 256) :
    ∃ v, ([b], [v]) ∈ (build dict bp).cpToU := by
  have hm : b ∈ pairs.map Prod.fst := by rw [pp.keys]; exact List.mem_range.mpr hb
  obtain ⟨e, he, rfl⟩ := List.mem_map.mp hm
  exact ⟨e.2, by rw [pp.cpToU bp]; exact List.mem_map.mpr ⟨e, he, rfl⟩⟩

end plain

open PcbV.Gen.Codepages

theorem cp437_page : PlainPage cp437 cp437pairs cp437dups := by
  constructor <;> decide +kernel

theorem cp850_page : PlainPage cp850 cp850pairs cp850dups := by
  constructor <;> decide +kernel

theorem cp866_page : PlainPage cp866 cp866pairs cp866dups := by
  constructor <;> decide +kernel

/-- no code point of 437 / 866 is shared; in 850 only § and ¶ are (bytes 0x15/0xF5 and 0x14/0xF4) -/
theorem shipped_dups : cp437dups = [] ∧ cp866dups = [] ∧ cp850dups = [0xA7, 0xB6] := by decide

/-- Codepage 437 and 866: EVERY byte converts to Unicode and back to itself, and every character
    converts to a byte and back to itself. -/
theorem cp437_roundtrips (bp : Bool) (boxArg : Option Bool) (b : Nat) (hb : b < 256) :
    unicodeToBytes (build cp437 bp) (bytesToUnicode (build cp437 bp) [b] [] boxArg false) false = [b] ∧
    ∃ v, ([b], [v]) ∈ (build cp437 bp).cpToU ∧
      bytesToUnicode (build cp437 bp) (unicodeToBytes (build cp437 bp) [v] false) [] boxArg false = [v] := by
  obtain ⟨v, hv⟩ := plain_total cp437_page bp b hb
  have hd : cp437dups = [] := shipped_dups.1
  exact ⟨plain_bytes_roundtrip cp437_page bp boxArg b v hv (by simp [hd]),
    v, hv, plain_unicode_roundtrip cp437_page bp boxArg b v hv (by simp [hd])⟩

theorem cp866_roundtrips (bp : Bool) (boxArg : Option Bool) (b : Nat) (hb : b < 256) :
    unicodeToBytes (build cp866 bp) (bytesToUnicode (build cp866 bp) [b] [] boxArg false) false = [b] ∧
    ∃ v, ([b], [v]) ∈ (build cp866 bp).cpToU ∧
      bytesToUnicode (build cp866 bp) (unicodeToBytes (build cp866 bp) [v] false) [] boxArg false = [v] := by
  obtain ⟨v, hv⟩ := plain_total cp866_page bp b hb
  have hd : cp866dups = [] := shipped_dups.2.1
  exact ⟨plain_bytes_roundtrip cp866_page bp boxArg b v hv (by simp [hd]),
    v, hv, plain_unicode_roundtrip cp866_page bp boxArg b v hv (by simp [hd])⟩

/-- Codepage 850: every byte has a character that survives character → byte → character, and the
    byte itself survives byte → character → byte unless the character is § or ¶ (the two code
    points that two bytes share). -/
theorem cp850_roundtrips (bp : Bool) (boxArg : Option Bool) (b : Nat) (hb : b < 256) :
    ∃ v, ([b], [v]) ∈ (build cp850 bp).cpToU ∧
      bytesToUnicode (build cp850 bp) (unicodeToBytes (build cp850 bp) [v] false) [] boxArg false = [v] ∧
      (v ≠ 0xA7 → v ≠ 0xB6 →
        unicodeToBytes (build cp850 bp) (bytesToUnicode (build cp850 bp) [b] [] boxArg false) false = [b]) := by
  obtain ⟨v, hv⟩ := plain_total cp850_page bp b hb
  have hd : cp850dups = [0xA7, 0xB6] := shipped_dups.2.2
  exact ⟨v, hv, plain_unicode_roundtrip cp850_page bp boxArg b v hv (by simp [hd]),
    fun h1 h2 => plain_bytes_roundtrip cp850_page bp boxArg b v hv (by simp [hd, h1, h2])⟩

/-! ## Non-vacuity and sharpness -/

/-- a Shift-JIS-like predicate tuple: lead 0x81..0x9F, trail 0x40..0xFC, box characters 0xC4 / 0xCD -/
def demo : Preds :=
  { lead := fun c => decide (0x81 ≤ c ∧ c ≤ 0x9F) || c == 0xC4
    trail := fun c => decide (0x40 ≤ c ∧ c ≤ 0xFC)
    boxL := fun b c => if b = 0 then c == 0xC4 else c == 0xCD
    boxR := fun b c => if b = 0 then c == 0xC4 else c == 0xCD
    preserve := fun c => c == 13 }

-- a lead byte at the end of one chunk and its trail byte at the start of the next are joined
example : convertAll demo true true [[0x41, 0x81], [0x40, 0x42]] = [[0x41], [0x81, 0x40], [0x42]] := by decide
example : convertAll demo true false [[0x41, 0x81], [], [0x40], [0x42]] = [[0x41], [0x81, 0x40], [0x42]] := by
  decide
-- a preserved byte is never taken as a trail byte; a dangling lead byte is flushed on its own
example : convertAll demo true false [[0x81, 13, 0x81]] = [[0x81], [13], [0x81]] := by decide
-- box protection: a run of three connecting box characters is emitted byte by byte, two are a pair
example : convertAll demo true true [[0xC4], [0xC4, 0xC4]] = [[0xC4], [0xC4], [0xC4]] := by decide
example : convertAll demo true true [[0xC4, 0xC4]] = [[0xC4, 0xC4]] := by decide
example : convertAll demo true false [[0xC4, 0xC4, 0xC4]] = [[0xC4, 0xC4], [0xC4]] := by decide
-- an intermediate flush is visible (so `chunking_irrelevant` is about histories without one) …
example : (convert demo true false {} [([0x81], true), ([0x40], true)]).2 = [[0x81], [0x40]] := by decide
-- … but the partition still holds for it (instance of `converter_partition`)
example : ((convert demo true false {} [([0x81], true), ([0x40], true)]).2).flatten = [0x81, 0x40] := by decide

/-- Sharpness of the uniqueness hypothesis: with two bytes on one character the inverse
    dictionary keeps the LAST one, so the first byte does not survive the round trip. -/
theorem duplicate_counterexample :
    let cp := build [([1], [0x263A]), ([2], [0x263A])] true
    unicodeToBytes cp (bytesToUnicode cp [1]) = [2] ∧ unicodeToBytes cp (bytesToUnicode cp [2]) = [2] := by
  decide +kernel

/-- Sharpness of `Plain`: a printable-ASCII substitute glyph (YEN SIGN on 0x5C in Shift-JIS) that
    is also a character of the table is converted to the ASCII byte, not to its own byte. -/
theorem substitute_shadow_counterexample :
    let cp := build [([0x5C], [0xA5]), ([0x80], [0xA5])] true
    bytesToUnicode cp (unicodeToBytes cp [0xA5]) = [0x5C] := by
  decide +kernel

/-- With box protection a lead byte that follows a pending lead byte is emitted on its own even
    if a trail byte follows it (reachable in the Big5 pages, where 0x81..0xA0 are lead but not
    trail bytes); without box protection it starts a pair.  Both outputs are partitions. -/
theorem box_mode_lead_lead_trail :
    let p : Preds := { lead := fun c => c == 0x81, trail := fun c => c == 0x40,
                       boxL := fun _ _ => false, boxR := fun _ _ => false, preserve := fun _ => false }
    convertAll p true true [[0x81, 0x81, 0x40]] = [[0x81], [0x81], [0x40]] ∧
    convertAll p true false [[0x81, 0x81, 0x40]] = [[0x81], [0x81, 0x40]] := by
  decide

end PcbV.C41
