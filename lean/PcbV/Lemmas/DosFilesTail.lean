/-
  Lemmas for C28: `_get_native_name` in a directory — the shape of its tail, what a creating lookup tells about the
  directory, masks under upper-casing.  Also the definitions `asIs`, `partBad`, `illegal` used by the C28 statements.
-/
import PcbV.Lemmas.DosFilesLookup
namespace PcbV.DosFilesLemmas
open PcbV PcbV.Gen PcbV.Gen.DosTables PcbV.DosNames PcbV.DosFiles PcbV.PathLemmas

/- `undot n` (PcbV.DosFilesLemmas): `_get_native_name`'s single-trailing-dot rule, the name the 8.3 lookup is
   based on ("AB." → "AB"); `dottedB n`: the name ends in a dot and has no other dot. -/

/-- a host file is spelled exactly like the (extended) name: the as-is tests of `_get_native_name` -/
def asIs (d : Dir) (n : Bytes) : Bool :=
  (dottedB n && istype (dirFS d) root (toUni n) false) || istype (dirFS d) root (toUni (undot n)) false

/-- a part of a name (after cutting to 8.3) is bad: a blank at either edge or a character outside the allowable set -/
def partBad (p : Bytes) : Bool := p != strip p || p.any (fun c => !allowable.contains c)

/-- the illegal names of the statement, decidable: after ignoring one trailing dot and cutting to 8 + 3 characters,
    the name part or the extension is bad (a second dot is a character outside the allowable set) -/
def illegal (n : Bytes) : Bool := partBad (normT (undot n)) || partBad (normE (undot n))

theorem tail_eq (d : Dir) (n : Bytes) (create : Bool) (e : Nat) :
    nativeNameTail (dirFS d) root n false create e =
      if asIs d n = true then
        (if (dottedB n && istype (dirFS d) root (toUni n) false) = true
          then .ok (toUni n) else .ok (toUni (undot n)))
      else if (!isLegal (normalise (undot n))) = true then .error E.bad_file_name
      else match dosToNative (dirFS d) root (normalise (undot n)) false with
        | some (c :: f) => .ok (c :: f)
        | _ => if create then .ok (normalise (undot n)) else .error e := by
  unfold nativeNameTail asIs undot dottedB
  simp only []
  generalize (n.getLast? == some 46 && !n.dropLast.contains 46) = dotted
  cases dotted
  · simp only [Bool.false_and, Bool.false_eq_true, ↓reduceIte, Bool.false_or]
    split <;> rfl
  · simp only [Bool.true_and, ↓reduceIte]
    cases h1 : istype (dirFS d) root (toUni n) false
    · simp only [Bool.false_eq_true, ↓reduceIte, Bool.false_or]
      split <;> rfl
    · simp only [Bool.true_or, ↓reduceIte]

theorem lookup_eq {d : Dir} {name x : Bytes} {create : Bool} (h0 : name = lstrip name)
    (hd : isDots (dosNameDefext name x) = false) :
    lookup d name x create = nativeNameTail (dirFS d) root (dosNameDefext name x) false create E.file_not_found := by
  unfold lookup nativeName
  have h0' : (name != lstrip name) = false := by simp [← h0]
  simp [h0', hd]

theorem asIs_mem {d : Dir} {n : Bytes} (h : asIs d n = true) :
    (if (dottedB n && istype (dirFS d) root (toUni n) false) = true then toUni n else toUni (undot n)) ∈ d := by
  split
  · rename_i h1
    simp only [Bool.and_eq_true] at h1
    exact istype_mem h1.2
  · rename_i h1
    simp only [asIs, Bool.or_eq_true] at h
    rcases h with h | h
    · exact absurd h h1
    · exact istype_mem h


theorem dosToNative_dir (d : Dir) (dn : Bytes) :
    dosToNative (dirFS d) root dn false =
      if dn.any (· ≥ 128) = true then none
      else if istype (dirFS d) root dn false = true then some dn
      else (d.mergeSort lexLe).find? (scanMatch (dirFS d) root dn false) := by
  simp [dosToNative, dirFS, root]

theorem not_any_ge {s : Bytes} (h : s.all (· < 128) = true) : s.any (· ≥ 128) = false := by
  cases hx : s.any (· ≥ 128) with
  | false => rfl
  | true =>
    simp only [List.any_eq_true, decide_eq_true_eq] at hx
    obtain ⟨c, hc, hge⟩ := hx
    simp only [List.all_eq_true, decide_eq_true_eq] at h
    have := h c hc; omega

/-- what a creating lookup tells about the directory: no file in it answered to the name -/
theorem created_fresh {d : Dir} {n : Bytes} {c : HostName} (hl : isLegal n = true) (hd : isDots n = false)
    (h : nativeNameTail (dirFS d) root n false true E.file_not_found = .ok c) (hc : c ∉ d) :
    asIs d n = false ∧ c = normalise (undot n) ∧ ∀ f ∈ d, scanMatch (dirFS d) root c false f = false := by
  rw [tail_eq] at h
  obtain ⟨_, hnl⟩ := legal_norm_undot hl hd
  cases ha : asIs d n with
  | true =>
    exfalso
    have hm := asIs_mem ha
    simp only [ha, ↓reduceIte] at h
    split at h <;> rename_i h1
    · rw [if_pos h1] at hm; cases h; exact hc hm
    · rw [if_neg h1] at hm; cases h; exact hc hm
  | false =>
    simp only [ha, Bool.false_eq_true, ↓reduceIte, hnl, Bool.not_true] at h
    rw [dosToNative_dir, not_any_ge (legal_ascii hnl)] at h
    simp only [Bool.false_eq_true, ↓reduceIte] at h
    by_cases hi : istype (dirFS d) root (normalise (undot n)) false = true
    · exfalso
      rw [if_pos hi] at h
      have hm := istype_mem hi
      have : c = normalise (undot n) := by
        split at h
        · rename_i c0 f heq; cases h; exact (Option.some.inj heq).symm
        · cases h; rfl
      exact hc (this ▸ hm)
    · rw [if_neg hi] at h
      cases hf : (d.mergeSort lexLe).find? (scanMatch (dirFS d) root (normalise (undot n)) false) with
      | none =>
        rw [hf] at h
        simp only at h
        have hcn : c = normalise (undot n) := by cases h; rfl
        refine ⟨rfl, hcn, fun f hfd => ?_⟩
        rw [hcn]
        have := List.find?_eq_none.mp hf f (List.mem_mergeSort.mpr hfd)
        simpa using this
      | some r =>
        exfalso
        have hr := List.find?_some hf
        have hrd : r ∈ d := List.mem_mergeSort.mp (List.mem_of_find?_eq_some hf)
        simp only [scanMatch, Bool.and_eq_true] at hr
        have hrt := hr.2
        rw [hf] at h
        cases r with
        | nil => rw [istype_dir] at hrt; simp at hrt
        | cons c0 f => simp only at h; cases h; exact hc hrd

theorem maskMatches_upper {m m' : Bytes} (h : upper m' = upper m) : maskMatches m' = maskMatches m := by
  funext disp
  have h2 := splitext_upper m'
  rw [h, splitext_upper m] at h2
  simp only [maskMatches, nameMatches, (Prod.mk.inj h2).1, (Prod.mk.inj h2).2]

theorem maskStrip_upper {m m' : Bytes} (h : upper m' = upper m) : upper (maskStrip m') = upper (maskStrip m) := by
  have hr : upper (rstrip m') = upper (rstrip m) := by rw [← rstrip_upper, ← rstrip_upper, h]
  have he : (rstrip m').isEmpty = (rstrip m).isEmpty := by
    have := congrArg List.length hr
    simp only [upper_length] at this
    cases h1 : rstrip m' <;> cases h2 : rstrip m <;> simp_all
  unfold maskStrip
  rw [he]; split
  · exact h
  · exact hr

theorem display_legal {g : HostName} (ha : g.all (· < 128) = true) (hl : isLegal g = true) :
    displayName g = normalise g := by
  simp [displayName, ha, hl]

end PcbV.DosFilesLemmas
