import PcbV.Lemmas.EventsRefine
/-
  C38 — event traps fire only when enabled and never re-enter.

  `step`/`stateAt`/`firesAt` : the machine made of the CODE's flags (basicevents.py / interpreter.py).
  `sstep`/`sstateAt`/`sfiresAt` : the SPECIFICATION machine (armed off/on/stop, pending, busy,
  errActive, run) — a direct reading of the statement.
  A schedule is an arbitrary `sched : Nat → Ev` (every finite history is a prefix of one): occurrences,
  ON/OFF/STOP, ON..GOSUB n/0, dispatches with ANY iteration order, GOSUB/RETURN, error trap/RESUME,
  END/CONT/RUN/CLEAR, for any number of traps, with no bound on the length.  All theorems are about
  every step `k` of every schedule, started from a fresh session.

  COM traps are outside the model (their `triggered` is a live device property and OFF does not
  disable them).  TIMER and PLAY use the same flags; what counts as their "occurrence" (a period
  elapsed, the music queue dropping below n) is an input of the model.
-/
namespace PcbV.C38
open PcbV PcbV.Events

/-! ## the code's flags implement the specification machine -/

/-- Along every schedule the code's machine and the specification machine stay related by the
    abstraction (`enabled ↔ armed ≠ off`, `triggered = pending`, `gosub = hasHandler`, and while not OFF
    `stopped ↔ armed = stop ∨ busy`; same run mode, error suspension and gosub-stack tags) … -/
theorem code_refines_spec_state (sched : Nat → Ev) (k : Nat) :
    Rel (stateAt sched k) (sstateAt sched k) := rel_stateAt sched k

/-- … and enter exactly the same traps, in the same order, at every step. -/
theorem code_refines_spec (sched : Nat → Ev) (k : Nat) : firesAt sched k = sfiresAt sched k :=
  (rel_step (rel_stateAt sched k) (sched k)).2

/-! ## consequences, stated for the traps the CODE's machine enters -/

/-- the state of the specification machine in which the code's machine takes step `k` -/
abbrev S (sched : Nat → Ev) (k : Nat) : SSt := sstateAt sched k

/-- no entry of trap `i` and no RUN / CLEAR strictly between steps `j` and `k` -/
def Quiet (sched : Nat → Ev) (i j k : Nat) : Prop :=
  ∀ m, j < m → m < k → i ∉ firesAt sched m ∧ sched m ≠ .runCmd ∧ sched m ≠ .clear

/-- invariant behind `fires_only_if`: a remembered occurrence is a real one -/
theorem pending_history (sched : Nat → Ev) (i : Nat) : ∀ k,
    ((S sched k).traps i).pending = true →
      ∃ j, j < k ∧ sched j = .occur i ∧ ((S sched j).traps i).armed ≠ .off ∧ Quiet sched i j k
  | 0 => fun h => by simp [S, sstateAt, SSt.init] at h
  | k + 1 => fun h => by
    by_cases hp : ((S sched k).traps i).pending = true
    · obtain ⟨j, hjk, hoc, har, hq⟩ := pending_history sched i k hp
      refine ⟨j, Nat.lt_succ_of_lt hjk, hoc, har, ?_⟩
      intro m hjm hmk
      by_cases hm : m < k
      · exact hq m hjm hm
      · have : m = k := by omega
        subst this
        refine ⟨?_, ?_, ?_⟩
        · intro hf
          rw [code_refines_spec] at hf
          have := (sstep_fired_post hf).1
          simp only [S, sstateAt] at h
          rw [this] at h; exact Bool.noConfusion h
        · intro hr
          have := sstep_reset_pending (s := S sched m) i (Or.inl hr)
          simp only [S, sstateAt] at h this
          rw [this] at h; exact Bool.noConfusion h
        · intro hc
          have := sstep_reset_pending (s := S sched m) i (Or.inr hc)
          simp only [S, sstateAt] at h this
          rw [this] at h; exact Bool.noConfusion h
    · have hp0 : ((S sched k).traps i).pending = false := by
        cases hh : ((S sched k).traps i).pending
        · rfl
        · exact absurd hh hp
      obtain ⟨he, ha⟩ := sstep_pending_rise hp0 h
      exact ⟨k, Nat.lt_succ_self k, he, ha, fun m h1 h2 => by omega⟩

/-- **Fires only if.**  Whenever the code's machine enters the handler of trap `i` (at any step of any
    schedule): the step is a dispatch, a program is running, no error handler is active, the trap is
    armed ON, has a handler, is not busy with an earlier entry, and its event occurred at an earlier
    step `j` at which the trap was ON or STOPped (not OFF), with no entry of `i` (and no RUN/CLEAR)
    between that occurrence and this entry. -/
theorem fires_only_if (sched : Nat → Ev) (k i : Nat) (h : i ∈ firesAt sched k) :
    (∃ order, sched k = .dispatch order ∧ i ∈ order) ∧
    (S sched k).run = true ∧ (S sched k).errActive = false ∧
    ((S sched k).traps i).armed = .on ∧ ((S sched k).traps i).hasHandler = true ∧
    ((S sched k).traps i).busy = false ∧
    ∃ j, j < k ∧ sched j = .occur i ∧ ((S sched j).traps i).armed ≠ .off ∧ Quiet sched i j k := by
  rw [code_refines_spec] at h
  obtain ⟨order, ho⟩ := sstep_fired_is_dispatch h
  have hm := h
  unfold sfiresAt at hm
  rw [ho] at hm
  obtain ⟨hord, hrun, herr, hfire⟩ := (sstep_dispatch_mem _ order i).1 hm
  simp only [sfireable, Bool.and_eq_true, beq_iff_eq, Bool.not_eq_true'] at hfire
  obtain ⟨⟨⟨harm, hpend⟩, hbusy⟩, hh⟩ := hfire
  exact ⟨⟨order, ho, hord⟩, hrun, herr, harm, hh, hbusy, pending_history sched i k hpend⟩

/-- the same in terms of the code's own flags -/
theorem fires_only_if_flags (sched : Nat → Ev) (k i : Nat) (h : i ∈ firesAt sched k) :
    (stateAt sched k).run = true ∧ (stateAt sched k).suspendAll = false ∧
    ((stateAt sched k).traps i).enabled = true ∧ ((stateAt sched k).traps i).triggered = true ∧
    ((stateAt sched k).traps i).stopped = false ∧ ((stateAt sched k).traps i).hasGosub = true := by
  obtain ⟨_, hrun, herr, harm, hh, hbusy, _⟩ := fires_only_if sched k i h
  have hp : ((S sched k).traps i).pending = true := by
    rw [code_refines_spec] at h
    have := (sstep_fired_pre h).2.2
    simp only [sfireable, Bool.and_eq_true] at this
    exact this.1.1.2
  have r := rel_stateAt sched k
  have t := r.traps i
  refine ⟨r.run.trans hrun, r.sus.trans herr, ?_, t.tr.trans hp, ?_, t.go.trans hh⟩
  · rw [t.en]; show ((S sched k).traps i).armed != Armed.off; rw [harm]; rfl
  · rw [t.st (by show ((S sched k).traps i).armed ≠ Armed.off; rw [harm]; decide)]
    show (((S sched k).traps i).armed == Armed.stop || ((S sched k).traps i).busy) = false
    rw [harm, hbusy]; rfl

/-- **Handled once.**  Two entries of the same trap are separated by a fresh occurrence recorded while
    the trap was ON or STOPped: one occurrence never causes two entries. -/
theorem each_entry_needs_new_occurrence (sched : Nat → Ev) (i k k' : Nat) (hk : k < k')
    (h : i ∈ firesAt sched k) (h' : i ∈ firesAt sched k') :
    ∃ j, k < j ∧ j < k' ∧ sched j = .occur i ∧ ((S sched j).traps i).armed ≠ .off := by
  obtain ⟨⟨order, ho, _⟩, _⟩ := fires_only_if sched k i h
  obtain ⟨_, _, _, _, _, _, j, hj, hoc, har, hq⟩ := fires_only_if sched k' i h'
  refine ⟨j, ?_, hj, hoc, har⟩
  by_cases hjk : j < k
  · exact absurd h (hq k hjk hk).1
  · have : j ≠ k := by
      intro e; subst e; rw [ho] at hoc; exact Ev.noConfusion hoc
    omega

/-- **OFF loses.**  An occurrence while the trap is OFF changes nothing at all (code's machine and
    specification machine), so by `fires_only_if` it can never be the reason for an entry. -/
theorem off_loses (sched : Nat → Ev) (k i : Nat) (ho : sched k = .occur i)
    (hoff : ((S sched k).traps i).armed = .off) :
    S sched (k + 1) = S sched k ∧ stateAt sched (k + 1) = stateAt sched k := by
  have t := (rel_stateAt sched k).traps i
  have hen : ((stateAt sched k).traps i).enabled = false := by
    rw [t.en]; show (((S sched k).traps i).armed != Armed.off) = false; rw [hoff]; rfl
  constructor
  · simp only [S, sstateAt, ho, sstep]
    show (if ((S sched k).traps i).armed ≠ Armed.off then _ else _) = _
    rw [if_neg (by rw [hoff]; exact fun h => h rfl)]
  · simp only [stateAt, ho, step, hen]
    rfl

/-- a remembered occurrence survives everything except the entry itself and RUN / CLEAR -/
theorem pending_until (sched : Nat → Ev) (i j : Nat)
    (hp : ((S sched (j + 1)).traps i).pending = true) : ∀ d,
    Quiet sched i j (j + 1 + d) → ((S sched (j + 1 + d)).traps i).pending = true
  | 0 => fun _ => hp
  | d + 1 => fun hq => by
    have ih := pending_until sched i j hp d (fun m h1 h2 => hq m h1 (by omega))
    obtain ⟨hf, hr, hc⟩ := hq (j + 1 + d) (by omega) (by omega)
    rw [code_refines_spec] at hf
    exact sstep_pending_persist ih hf hr hc

/-- **STOP remembers, once.**  If the event occurs at step `j` while the trap is STOPped (or ON: not
    OFF), and the trap is not entered (and no RUN/CLEAR happens) before a later dispatch `k` that visits
    the trap while a program runs, no error handler is active, the trap is ON (e.g. after the
    `KEY(n) ON` that ended the STOP), has a handler and is not busy, then the handler is entered at
    that dispatch, and the occurrence is used up by it. -/
theorem stop_remembers_once (sched : Nat → Ev) (i j k : Nat) (order : List Nat)
    (ho : sched j = .occur i) (harm : ((S sched j).traps i).armed ≠ .off) (hjk : j < k)
    (hq : Quiet sched i j k)
    (hd : sched k = .dispatch order) (hmem : i ∈ order)
    (hrun : (S sched k).run = true) (herr : (S sched k).errActive = false)
    (hon : ((S sched k).traps i).armed = .on) (hh : ((S sched k).traps i).hasHandler = true)
    (hb : ((S sched k).traps i).busy = false) :
    i ∈ firesAt sched k ∧ ((S sched (k + 1)).traps i).pending = false := by
  have hp1 : ((S sched (j + 1)).traps i).pending = true := by
    simp only [S, sstateAt, ho, sstep]
    rw [if_pos harm]; simp
  obtain ⟨d, rfl⟩ : ∃ d, k = j + 1 + d := ⟨k - (j + 1), by omega⟩
  have hp := pending_until sched i j hp1 d hq
  have hf : i ∈ sfiresAt sched (j + 1 + d) := by
    unfold sfiresAt
    rw [hd]
    refine (sstep_dispatch_mem _ order i).2 ⟨hmem, hrun, herr, ?_⟩
    simp only [sfireable, S] at *
    rw [hon, hp, hb, hh]; rfl
  refine ⟨by rw [code_refines_spec]; exact hf, ?_⟩
  exact (sstep_fired_post hf).1

/-- **No re-entry.**  Between two entries of the same trap, the trap's handler frame was RETURNed from
    (a RETURN popping a frame of trap `i`), or the event was explicitly turned ON again, or RUN / CLEAR
    reset everything. -/
theorem no_reentry (sched : Nat → Ev) (i k k' : Nat) (hk : k < k')
    (h : i ∈ firesAt sched k) (h' : i ∈ firesAt sched k') :
    ∃ m, k < m ∧ m < k' ∧ Unbusy i (S sched m) (sched m) := by
  apply Classical.byContradiction
  intro hne
  have hno : ∀ m, k < m → m < k' → ¬ Unbusy i (S sched m) (sched m) :=
    fun m h1 h2 hu => hne ⟨m, h1, h2, hu⟩
  rw [code_refines_spec] at h
  have hb1 : ((S sched (k + 1)).traps i).busy = true := (sstep_fired_post h).2
  have hall : ∀ d, k + 1 + d ≤ k' → ((S sched (k + 1 + d)).traps i).busy = true := by
    intro d
    induction d with
    | zero => intro _; exact hb1
    | succ d ih =>
      intro hle
      have := ih (by omega)
      exact sstep_busy_persist this (hno (k + 1 + d) (by omega) (by omega))
  obtain ⟨d, rfl⟩ : ∃ d, k' = k + 1 + d := ⟨k' - (k + 1), by omega⟩
  have hb := hall d (Nat.le_refl _)
  have := (fires_only_if sched (k + 1 + d) i h').2.2.2.2.2.1
  rw [hb] at this
  exact Bool.noConfusion this

/-- **Never during an error handler**: while the error suspension is in force no trap is entered … -/
theorem never_during_error_handler (sched : Nat → Ev) (k : Nat)
    (h : (S sched k).errActive = true) : firesAt sched k = [] := by
  cases hf : firesAt sched k with
  | nil => rfl
  | cons i r =>
    have := (fires_only_if sched k i (by rw [hf]; exact List.mem_cons_self)).2.2.1
    rw [h] at this; exact Bool.noConfusion this

/-- … and the suspension is in force exactly from a trapped error until RESUME (or RUN / CLEAR). -/
theorem errActive_iff (sched : Nat → Ev) : ∀ k,
    (S sched k).errActive = true ↔
      ∃ j, j < k ∧ sched j = .errTrap ∧
        ∀ m, j < m → m < k → sched m ≠ .resume ∧ sched m ≠ .runCmd ∧ sched m ≠ .clear
  | 0 => by simp [S, sstateAt, SSt.init]
  | k + 1 => by
    have ih := errActive_iff sched k
    simp only [S, sstateAt] at ih ⊢
    rw [sstep_errActive]
    by_cases h1 : sched k = .errTrap
    · simp only [h1, if_true, true_iff]
      exact ⟨k, Nat.lt_succ_self k, h1, fun m a b => by omega⟩
    · rw [if_neg h1]
      by_cases h2 : sched k = .resume ∨ sched k = .runCmd ∨ sched k = .clear
      · rw [if_pos h2]
        constructor
        · intro h; exact Bool.noConfusion h
        · rintro ⟨j, hj, hje, hq⟩
          have hjk : j ≠ k := by intro e; subst e; exact h1 hje
          obtain ⟨a, b, c⟩ := hq k (by omega) (Nat.lt_succ_self k)
          rcases h2 with h2 | h2 | h2
          · exact absurd h2 a
          · exact absurd h2 b
          · exact absurd h2 c
      · rw [if_neg h2, ih]
        constructor
        · rintro ⟨j, hj, hje, hq⟩
          refine ⟨j, Nat.lt_succ_of_lt hj, hje, fun m a b => ?_⟩
          by_cases hm : m < k
          · exact hq m a hm
          · have : m = k := by omega
            subst this
            exact ⟨fun e => h2 (Or.inl e), fun e => h2 (Or.inr (Or.inl e)), fun e => h2 (Or.inr (Or.inr e))⟩
        · rintro ⟨j, hj, hje, hq⟩
          have hjk : j ≠ k := by intro e; subst e; exact h1 hje
          exact ⟨j, by omega, hje, fun m a b => hq m a (by omega)⟩

/-- **Never during an error handler, whatever mode the error came from.**  After a trapped error at step
    `j` no trap is entered at any later step until RESUME (or RUN / CLEAR).  Nothing is assumed about the
    run mode at step `j`: the error may come from a statement of the running program or from a
    DIRECT-MODE statement issued after the program has ended with its ON ERROR and its traps still
    armed (`endProg … errTrap, cont`: `trap_error` jumps into the program's handler and thereby
    switches to run mode); occurrences recorded before or inside the handler wait all the same. -/
theorem no_entry_until_resume (sched : Nat → Ev) (j k : Nat) (hj : sched j = .errTrap) (hjk : j < k)
    (hq : ∀ m, j < m → m < k → sched m ≠ .resume ∧ sched m ≠ .runCmd ∧ sched m ≠ .clear) :
    firesAt sched k = [] :=
  never_during_error_handler sched k ((errActive_iff sched k).2 ⟨j, hjk, hj, hq⟩)

/-- a variant of the code in which a trapped error suspends the traps only if a program was running
    when it happened (`suspend_all = run mode at the time of the error`) -/
def stepSuspendIfRunning (s : St) : Ev → St × List Nat
  | .errTrap => ({ s with suspendAll := s.run }, [])
  | e => step s e

def firesOfList (f : St → Ev → St × List Nat) : St → List Ev → List (List Nat)
  | _, [] => []
  | s, e :: es => (f s e).2 :: firesOfList f (f s e).1 es

/-- program arms a trap and ends; the event occurs; a direct-mode statement fails and enters the ON ERROR
    handler (run mode on); dispatch inside the handler; RESUME back to the prompt; GOTO; dispatch -/
def crossModeHistory : List Ev :=
  [.runCmd, .setHandler 0 true, .on 0, .endProg, .occur 0, .errTrap, .cont, .dispatch [0], .resume, .endProg,
   .cont, .dispatch [0]]

/-- that variant violates `no_entry_until_resume` on a history that crosses the run-mode boundary: the
    trap is entered inside the error handler … -/
theorem suspend_if_running_counterexample :
    firesOfList stepSuspendIfRunning St.init crossModeHistory =
      [[], [], [], [], [], [], [], [0], [], [], [], []] := by decide

/-- … whereas the code's machine holds the trap back until the program runs again after RESUME. -/
theorem cross_mode_history_code :
    firesOfList step St.init crossModeHistory = [[], [], [], [], [], [], [], [], [], [], [], [0]] := by decide

/-- CLEAR (like RUN) drops every GOSUB frame, trap frames included: no later RETURN can belong to a
    handler entered before it; all traps are OFF, nothing is remembered, no error handler is active. -/
theorem clear_resets (sched : Nat → Ev) (k : Nat) (h : sched k = .clear ∨ sched k = .runCmd) :
    (stateAt sched (k + 1)).stack = [] ∧ (stateAt sched (k + 1)).suspendAll = false ∧
    ∀ i, (stateAt sched (k + 1)).traps i = {} := by
  rcases h with h | h <;> simp [stateAt, h, step]

/-- `ON event GOSUB n` / `ON event GOSUB 0` only sets / removes the handler line: whether the trap is
    ON/OFF/STOPped, a remembered occurrence and the busy state (code: `enabled`, `stopped`, `triggered`)
    are untouched, so `GOSUB 0` followed by a new `GOSUB n` neither re-admits a busy or STOPped trap
    nor forgets an occurrence. -/
theorem set_handler_keeps_state (sched : Nat → Ev) (k i : Nat) (b : Bool) (h : sched k = .setHandler i b) :
    (S sched (k + 1)).traps i = { (S sched k).traps i with hasHandler := b } ∧
    (stateAt sched (k + 1)).traps i = { (stateAt sched k).traps i with hasGosub := b } := by
  simp [S, sstateAt, stateAt, h, sstep, step, setTrap]

/-- **Only while a program is running.** -/
theorem only_while_running (sched : Nat → Ev) (k : Nat) (h : (stateAt sched k).run = false) :
    firesAt sched k = [] := by
  cases hf : firesAt sched k with
  | nil => rfl
  | cons i r =>
    have := (fires_only_if_flags sched k i (by rw [hf]; exact List.mem_cons_self)).1
    rw [h] at this; exact Bool.noConfusion this

/-- **Several traps at once are independent (1)**: whether trap `i` is entered by a dispatch depends
    only on its own record and the global run / error state — not on the other traps, not on the
    position in the iteration order, not on which other traps are entered by the same dispatch. -/
theorem dispatch_decision_is_local (sched : Nat → Ev) (k i : Nat) (order : List Nat)
    (hd : sched k = .dispatch order) :
    i ∈ firesAt sched k ↔
      i ∈ order ∧ (S sched k).run = true ∧ (S sched k).errActive = false ∧
        sfireable (S sched k) i = true := by
  rw [code_refines_spec]
  unfold sfiresAt
  rw [hd]
  exact sstep_dispatch_mem _ order i

/-- **Several traps at once are independent (2)**: occurrences, ON/OFF/STOP and ON..GOSUB of another trap,
    and entries of other traps, leave the record of trap `i` (armed, pending, busy, handler) unchanged. -/
theorem other_traps_do_not_interfere (sched : Nat → Ev) (k i j : Nat) (hij : i ≠ j)
    (he : sched k = .occur j ∨ sched k = .on j ∨ sched k = .off j ∨ sched k = .stop j ∨
          (∃ b, sched k = .setHandler j b) ∨
          ((∃ order, sched k = .dispatch order) ∧ i ∉ firesAt sched k)) :
    (S sched (k + 1)).traps i = (S sched k).traps i := by
  simp only [S, sstateAt]
  rcases he with h | h | h | h | h | ⟨⟨order, h⟩, hn⟩
  · exact sstep_other_trap hij (Or.inl h)
  · exact sstep_other_trap hij (Or.inr (Or.inl h))
  · exact sstep_other_trap hij (Or.inr (Or.inr (Or.inl h)))
  · exact sstep_other_trap hij (Or.inr (Or.inr (Or.inr (Or.inl h))))
  · exact sstep_other_trap hij (Or.inr (Or.inr (Or.inr (Or.inr h))))
  · rw [code_refines_spec] at hn
    unfold sfiresAt at hn
    rw [h] at hn ⊢
    rw [sstep_dispatch_traps, if_neg hn]

/-! ## non-vacuity: the hypotheses are satisfiable and the machines do enter handlers -/

/-- RUN, ON KEY GOSUB, KEY ON, key press, dispatch → entered; key pressed in the handler is remembered;
    RETURN; dispatch → entered again -/
def demo : Nat → Ev := fun k =>
  [Ev.runCmd, .setHandler 0 true, .on 0, .occur 0, .dispatch [0], .occur 0, .dispatch [0], .ret,
   .dispatch [0]].getD k .gosub

example : firesAt demo 4 = [0] ∧ firesAt demo 6 = [] ∧ firesAt demo 8 = [0] := by decide
example : Unbusy 0 (S demo 7) (demo 7) := Or.inr (Or.inl ⟨rfl, rfl⟩)

/-- STOP remembers: occurrence while STOPped, entered at the first dispatch after ON; in the error
    handler nothing is entered although the trap is ON with a remembered occurrence; OFF loses -/
def demo2 : Nat → Ev := fun k =>
  [Ev.runCmd, .setHandler 1 true, .on 1, .stop 1, .occur 1, .dispatch [1], .errTrap, .on 1, .dispatch [1],
   .resume, .dispatch [1], .ret, .off 1, .occur 1, .on 1, .dispatch [1]].getD k .gosub

example : firesAt demo2 5 = [] ∧ firesAt demo2 8 = [] ∧ firesAt demo2 10 = [1] ∧ firesAt demo2 15 = [] := by
  decide
example : (S demo2 8).errActive = true := by decide
example : ((S demo2 4).traps 1).armed = .stop := by decide

/-- two traps entered by one dispatch, in the iteration order given -/
example : firesAt (fun k => [Ev.runCmd, .setHandler 0 true, .setHandler 1 true, .on 0, .on 1, .occur 1,
    .occur 0, .dispatch [1, 0]].getD k .gosub) 7 = [1, 0] := by decide

/-! ### `RETURN <line>` is RETURN as far as the traps are concerned (program-level machine `Vm`) -/

/-- **return_line_is_return.**  In every state of the program-level machine, `RETURN <line k>` has exactly the effect of
    a plain RETURN on the trap flags (`core`: the trap whose handler frame is popped is re-armed, nothing else
    changes), on the GOSUB stack and on the error state; without a frame both raise RETURN without GOSUB. -/
theorem return_line_is_return (p : Prog) (v : Vm) (k : Nat) :
    (exec p v (.retTo k)).core = (exec p v .ret).core ∧
    (exec p v (.retTo k)).rstack = (exec p v .ret).rstack ∧
    (exec p v (.retTo k)).inErr = (exec p v .ret).inErr ∧
    (exec p v (.retTo k)).halted = (exec p v .ret).halted := by
  simp only [exec]
  cases v.rstack with
  | nil => exact ⟨rfl, rfl, rfl, rfl⟩
  | cons r rs => exact ⟨rfl, rfl, rfl, rfl⟩

/-- … and with a frame on the stack it continues at line `k` (plain RETURN: at the saved position) -/
theorem return_line_continues_at (p : Prog) (v : Vm) (k r : Nat) (rs : List Nat) (h : v.rstack = r :: rs) :
    (exec p v (.retTo k)).pc = k ∧ (exec p v .ret).pc = r := by
  simp [exec, h]

end PcbV.C38
