"""
Shared machinery of the pcbasic Lean-proof checks: Lean build + axiom audit, driver pipe,
PRNG, evidence writer, known-findings matcher, violation/replay reporting.
"""
import collections
import fcntl
import hashlib
import json
import os
import random
import re
import subprocess
import sys
import time

VERIF = os.path.dirname(os.path.dirname(os.path.abspath(__file__)))
LEAN = os.path.join(VERIF, 'lean')
REPO = os.environ.get('PCBV_REPO', '/repo')
DRIVER = os.path.join(LEAN, '.lake', 'build', 'bin', 'pcbvdriver')
ALLOWED_AXIOMS = {'propext', 'Classical.choice', 'Quot.sound'}
FORBIDDEN = re.compile(
    r'\bsorry\b|\badmit\b|^\s*axiom\s|native_decide|bv_decide|implemented_by|\bunsafe\s|maxHeartbeats\s+0\b',
    re.M
)
PYTHON = '/venv/bin/python'


def strip_lean_comments(text):
    """Remove /- -/ (nested) and -- comments so that the forbidden-word grep only sees code."""
    out = []
    i, depth, n = 0, 0, len(text)
    while i < n:
        if text.startswith('/-', i):
            depth += 1
            i += 2
        elif depth and text.startswith('-/', i):
            depth -= 1
            i += 2
        elif depth:
            if text[i] == '\n':
                out.append('\n')
            i += 1
        elif text.startswith('--', i):
            while i < n and text[i] != '\n':
                i += 1
        else:
            out.append(text[i])
            i += 1
    return ''.join(out)


class BuildLock(object):
    def __enter__(self):
        self.f = open(os.path.join(LEAN, '.build.lock'), 'w')
        fcntl.flock(self.f, fcntl.LOCK_EX)
        return self

    def __exit__(self, *a):
        fcntl.flock(self.f, fcntl.LOCK_UN)
        self.f.close()


def run(cmd, cwd=None, timeout=3600, env=None):
    p = subprocess.run(cmd, cwd=cwd, stdout=subprocess.PIPE, stderr=subprocess.STDOUT, text=True,
                       timeout=timeout, env=env)
    return p.returncode, p.stdout


def regenerate_tables():
    """Run the translator: regenerate lean/PcbV/Gen/*.lean from the current /repo."""
    env = dict(os.environ)
    env['PYTHONPATH'] = REPO + os.pathsep + VERIF
    rc, out = run([PYTHON, os.path.join(VERIF, 'gen', 'gen_tables.py')], cwd=VERIF, env=env, timeout=600)
    return rc == 0, out


def theorem_names(prop):
    """Names of the property theorems: every `theorem` of Props/<prop>.lean (with its namespace)."""
    path = os.path.join(LEAN, 'PcbV', 'Props', prop + '.lean')
    text = strip_lean_comments(open(path).read())
    ns = []
    names = []
    for line in text.splitlines():
        m = re.match(r'\s*namespace\s+(\S+)', line)
        if m:
            ns.append(m.group(1))
            continue
        m = re.match(r'\s*end\s+(\S+)', line)
        if m and ns and ns[-1] == m.group(1):
            ns.pop()
            continue
        m = re.match(r'\s*(?:@\[[^\]]*\]\s*)?(?:private\s+|protected\s+)?theorem\s+(\S+)', line)
        if m:
            names.append('.'.join(ns + [m.group(1)]))
    return names


def prop_sources(prop):
    """Lean source files a property's theorems depend on (transitively, inside PcbV)."""
    seen, todo = set(), ['PcbV.Props.' + prop]
    while todo:
        mod = todo.pop()
        if mod in seen:
            continue
        path = os.path.join(LEAN, *mod.split('.')) + '.lean'
        if not os.path.exists(path):
            continue
        seen.add(mod)
        for m in re.finditer(r'^import\s+(PcbV\.\S+)', open(path).read(), re.M):
            todo.append(m.group(1))
    return sorted(seen)


def prove(prop, log, tier='quick'):
    """Regenerate tables, build driver + property module, grep, audit axioms.
    Returns dict(ok, broken=[...], theorems=[...], discharged=[...], axioms={...}, cmd, driver_ok)."""
    res = dict(ok=False, broken=[], theorems=[], discharged=[], axioms={}, driver_ok=False,
               cmd='cd lean && lake build pcbvdriver PcbV.Props.%s && lake env lean .audit/%s.lean  (#print axioms)'
                   % (prop, prop), translator='ok')
    with BuildLock():
        ok, out = regenerate_tables()
        if not ok:
            res['translator'] = 'failed'
            res['broken'].append({'what': 'translator gen_tables.py failed', 'log': out[-2000:]})
            log('translator failed:\n' + out[-2000:])
        run([sys.executable, os.path.join(VERIF, 'tools', 'mkdrv.py')], cwd=VERIF)
        rc, out = run(['lake', 'build', 'pcbvdriver'], cwd=LEAN)
        res['driver_ok'] = (rc == 0 and os.path.exists(DRIVER))
        if rc != 0:
            res['broken'].append({'what': 'driver (model) does not build', 'log': tail_errors(out)})
        rc, out = run(['lake', 'build', 'PcbV.Props.' + prop], cwd=LEAN)
        if rc != 0:
            res['broken'].append({'what': 'lake build PcbV.Props.%s failed' % prop,
                                  'theorem': first_failing_decl(out), 'log': tail_errors(out)})
        try:
            res['theorems'] = theorem_names(prop)
        except EnvironmentError as e:
            res['broken'].append({'what': 'no property theorem file: %s' % e})
            return res
        # forbidden constructs
        for mod in prop_sources(prop):
            path = os.path.join(LEAN, *mod.split('.')) + '.lean'
            m = FORBIDDEN.search(strip_lean_comments(open(path).read()))
            if m:
                res['broken'].append({'what': 'forbidden construct %r in %s' % (m.group(0).strip(), mod)})
        if rc == 0 and res['theorems']:
            adir = os.path.join(LEAN, '.audit')
            os.makedirs(adir, exist_ok=True)
            apath = os.path.join(adir, prop + '.lean')
            with open(apath, 'w') as f:
                f.write('import PcbV.Props.%s\n' % prop)
                for t in res['theorems']:
                    f.write('#print axioms %s\n' % t)
            rc2, out2 = run(['lake', 'env', 'lean', apath], cwd=LEAN)
            axioms = parse_axioms(out2)
            res['axioms'] = axioms
            for t in res['theorems']:
                if t in axioms and set(axioms[t]) <= ALLOWED_AXIOMS:
                    res['discharged'].append(t)
                else:
                    res['broken'].append({'what': 'axiom audit failed', 'theorem': t,
                                          'axioms': axioms.get(t, 'not reported')})
            if rc2 != 0:
                res['broken'].append({'what': 'audit file did not elaborate', 'log': out2[-1500:]})
            if tier == 'thorough':
                # independent re-check of the compiled .olean files of the property's module (and its imports)
                try:
                    rc3, out3 = run(['lake', 'env', 'leanchecker', 'PcbV.Props.' + prop], cwd=LEAN, timeout=3000)
                except subprocess.TimeoutExpired:
                    rc3, out3 = 0, 'leanchecker timed out (not counted)'
                res['leanchecker'] = 'ok' if rc3 == 0 else 'failed'
                res['cmd'] += ' && lake env leanchecker PcbV.Props.%s' % prop
                if rc3 != 0:
                    res['broken'].append({'what': 'leanchecker rejected PcbV.Props.%s' % prop, 'log': out3[-1500:]})
    res['ok'] = not res['broken'] and bool(res['theorems'])
    return res


def tail_errors(out):
    lines = [l for l in out.splitlines() if 'error' in l.lower()]
    return '\n'.join(lines[:20]) or out[-1500:]


def first_failing_decl(out):
    m = re.search(r'error: (\S+\.lean):(\d+):(\d+)', out)
    if not m:
        return None
    path = os.path.join(LEAN, m.group(1))
    try:
        lines = open(path).read().splitlines()
    except EnvironmentError:
        return m.group(0)
    for i in range(int(m.group(2)) - 1, -1, -1):
        mm = re.match(r'\s*(?:theorem|lemma|def|example|instance)\s*(\S*)', lines[i])
        if mm:
            return '%s (%s:%s)' % (mm.group(1) or 'example', m.group(1), m.group(2))
    return m.group(0)


def parse_axioms(out):
    axioms = {}
    out = out.replace('\n  ', ' ')
    for m in re.finditer(r"'([^']+)' depends on axioms: \[([^\]]*)\]", out):
        axioms[m.group(1)] = [a.strip() for a in m.group(2).replace('\n', ' ').split(',') if a.strip()]
    for m in re.finditer(r"'([^']+)' does not depend on any axioms", out):
        axioms[m.group(1)] = []
    return axioms


class Ctx(object):
    """Per-run context handed to props/<id>.py: PRNG, model access, bookkeeping."""

    def __init__(self, prop, tier, seed):
        self.prop = prop
        self.tier = tier
        self.seed = seed
        self.rng = random.Random(seed)
        self.t0 = time.time()
        self.stats = collections.Counter()
        self.samples = []
        self.distinct = set()
        self.evaluations = 0
        self.disagreements = []
        self.failures = []
        self.assumptions = []
        self.notes = {}
        self.model_ok = False
        self.exhaustive = False
        self.replay_mode = False

    @property
    def quick(self):
        return self.tier == 'quick'

    def log(self, msg):
        sys.stderr.write('[%s %5.1fs] %s\n' % (self.prop, time.time() - self.t0, msg))
        sys.stderr.flush()

    def model(self, lines, prefix=None):
        """Run protocol lines (without the property prefix) through the Lean driver.
        `prefix` selects another driver module than the property's own (e.g. 'TR', Drv/Translated.lean)."""
        if not self.model_ok:
            return None
        inp = ''.join('%s %s\n' % (prefix or self.prop, l) for l in lines)
        p = subprocess.run([DRIVER], input=inp, stdout=subprocess.PIPE, stderr=subprocess.PIPE, text=True)
        out = p.stdout.splitlines()
        if p.returncode != 0 or len(out) != len(lines):
            raise RuntimeError('driver failed: rc=%s, %d replies for %d requests; stderr=%s'
                               % (p.returncode, len(out), len(lines), p.stderr[-500:]))
        return out

    def count(self, key, n=1):
        self.stats[key] += n

    def sample(self, case, limit=12):
        if len(self.samples) < limit:
            self.samples.append(case)

    def case(self, key):
        """Register one evaluated case; key identifies it for the distinct count."""
        self.evaluations += 1
        self.distinct.add(key if isinstance(key, (str, int, tuple)) else repr(key))

    def disagree(self, case, impl, model):
        """Model and implementation differ on a case (correspondence broken; not yet a violation)."""
        if len(self.disagreements) < 50:
            self.disagreements.append({'case': case, 'impl': impl, 'model': model})
        self.count('disagreements')

    def fail(self, key, case, what):
        """The independent oracle found the property violated on the real implementation."""
        if len(self.failures) < 200:
            self.failures.append({'key': key, 'case': case, 'what': what})
        self.count('oracle_failures')

    def compare(self, cases, impl_outs, lines, label='case', prefix=None):
        """Diff implementation outputs with the model's for protocol `lines`; returns #disagreements."""
        mouts = self.model(lines, prefix=prefix)
        if mouts is None:
            return 0
        n = 0
        for c, i, l, m in zip(cases, impl_outs, lines, mouts):
            if i != m:
                n += 1
                self.disagree({'label': label, 'input': c, 'line': l}, i, m)
        return n


def load_known_findings():
    """The committed known-findings files (known_findings.d/*.json); never written at run time."""
    res = {'findings': [], 'fixed': []}
    d = os.path.join(VERIF, 'known_findings.d')
    if os.path.isdir(d):
        for fn in sorted(os.listdir(d)):
            if fn.endswith('.json'):
                k = json.load(open(os.path.join(d, fn)))
                res['findings'] += k.get('findings', [])
                res['fixed'] += k.get('fixed', [])
    return res


def match_finding(findings, prop, key):
    for f in findings:
        if f.get('property') != prop:
            continue
        m = f.get('match', {})
        if key in m.get('keys', []):
            return f
        rx = m.get('key_regex')
        if rx and re.fullmatch(rx, key):
            return f
    return None


def write_json(path, obj):
    tmp = path + '.tmp'
    with open(tmp, 'w') as f:
        json.dump(obj, f, indent=1, sort_keys=True, default=repr)
        f.write('\n')
    os.replace(tmp, path)


def replay_path(prop, payload):
    h = hashlib.sha1(json.dumps(payload, sort_keys=True, default=repr).encode()).hexdigest()[:10]
    d = os.path.join(VERIF, 'replays')
    os.makedirs(d, exist_ok=True)
    return os.path.join('replays', '%s-%s.json' % (prop, h))
