"""C33 — DRAW moves the pen exactly as its commands specify."""
import logging

from vlib import basic

LEVEL = 'proof'
RULE = ('in every adapter x graphics SCREEN mode (cga, ega, ega 64k, ega mono, vga, hercules, tandy, pcjr, olivetti: 34 '
        'combinations) a colour sweep: C with every attribute of the mode, the first values beyond it, 255, 256, 300, '
        '+-99999, -1 (literal, signed, through variables), each drawn as segments of its own, then moves in the fresh '
        'mode\'s own attribute and in the one PSET / LINE leave (thorough: also random histories in every combination); '
        'per SCREEN mode (cga 1, 2; ega 7, 9) statement histories on a real Session: 1-4 statements, mostly DRAW strings '
        'rendered from structured token lists (U D L R E F G H with no / literal / signed / blank-split / =var; / =arr(i); '
        'counts, S scales, B and N prefixes, absolute and relative M with signs and variables, C colours in and out of the '
        'mode\'s range (mode-aware: highest attribute, one beyond), X substrings through string variables up to depth 3 and self-referential ones, supported angle '
        'settings, malformed commands of known error) interleaved with PSET / LINE -(x,y); boundary-dense counts and '
        'scales (truncation of scale*n/4 on both signs), targets on, at the edge of and far off the screen; plus '
        'random byte strings over the command alphabet; one case = one executed statement; non-trivial = every case')
EXPLANATION = ('theorems (PcbV.Props.C33) over all strings / variable stores: draw_final_position, segments_of_moves, '
               'b_no_draw, n_returns, segments_are_lines, colour_spec, point_reports_position, malformed_ifc, nesting_bounded, '
               'self_reference_* ; correspondence: status, POINT(0), POINT(1) after every statement and the whole pixel '
               'buffer (digest) compared with the compiled model (scanner Model/Mml + Model/Gml + line model Model/Draw); '
               'oracle (from the statement, on the token lists, independent of the model and of any parsing): position by '
               'summing truncated scaled offsets, B / N, absolute M; every drawn segment re-drawn with LINE on a second '
               'session and the two pixel buffers compared cell by cell; expected error of malformed commands; no host '
               'exception may escape')
TRUSTED_BASE = ['models PcbV.Model.Gml (DRAW loop), PcbV.Model.Mml (scanner, C42) and PcbV.Model.Draw/Viewport (C30) are hand '
                'transcriptions of graphics.py / mlparser.py',
                'tables SIZES / DEFAULT_ATTR below (size, number of attributes, default attribute of each SCREEN mode) is written from the '
                'GW-BASIC documentation, not read from the implementation',
                'pixels are read with Session.get_pixels()']
ASSUMPTIONS = ['no VIEW, no WINDOW, active page = visible page = 0',
               'angles other than 0, 180, 360 go through host floats and are not modelled (status unsup, not compared)',
               'the pixels of the P command (flood fill, C32) and its side effect on the DRAW colour are not modelled: P occurs '
               'only in the random byte strings, which are compared on status and position and checked for host exceptions',
               'coordinates are kept below 2^24 so that POINT (a single-precision value) reports them exactly']

logging.getLogger().setLevel(logging.ERROR)

# every adapter x graphics SCREEN mode (written from the GW-BASIC / PC-BASIC documentation, not read from the
# implementation): adapter label -> Session kwargs, and (label, SCREEN) -> (width, height, bits per pixel).
# A mode has 2^bpp attributes 0..2^bpp-1.  The attribute a fresh mode draws in is the highest one, except on the
# EGA monochrome monitor (SCREEN 10), where it is 1 of 0..3.
ADAPTER_KW = {
    'cga': {'video': 'cga'}, 'ega': {'video': 'ega'}, 'ega_64k': {'video': 'ega', 'video_memory': 65536},
    'vga': {'video': 'vga'}, 'ega_mono': {'video': 'ega', 'monitor': 'mono'}, 'hercules': {'video': 'hercules'},
    'tandy': {'video': 'tandy'}, 'pcjr': {'video': 'pcjr'}, 'olivetti': {'video': 'olivetti'},
}
SIZES = {}
for _a in ('cga', 'ega', 'ega_64k', 'vga', 'tandy', 'pcjr', 'olivetti'):
    SIZES[_a, 1] = (320, 200, 2)
    SIZES[_a, 2] = (640, 200, 1)
for _a in ('ega', 'ega_64k', 'vga'):
    SIZES[_a, 7] = (320, 200, 4)
    SIZES[_a, 8] = (640, 200, 4)
    SIZES[_a, 9] = (640, 350, 4)
SIZES['ega_64k', 9] = (640, 350, 2)
SIZES['ega_mono', 10] = (640, 350, 2)
SIZES['hercules', 3] = (720, 348, 1)
SIZES['olivetti', 3] = (640, 400, 1)
for _a in ('tandy', 'pcjr'):
    SIZES[_a, 3] = (160, 200, 4)
    SIZES[_a, 4] = (320, 200, 2)
    SIZES[_a, 5] = (320, 200, 4)
    SIZES[_a, 6] = (640, 200, 2)
DEFAULT_ATTR = {('ega_mono', 10): 1}

# (label, Session kwargs, SCREEN, width, height, attributes, default attribute)
ALL_MODES = [(_a, ADAPTER_KW[_a], _n, _w, _h, 1 << _b, DEFAULT_ATTR.get((_a, _n), (1 << _b) - 1))
             for (_a, _n), (_w, _h, _b) in sorted(SIZES.items())]
# the modes of the long random part
MAIN = [i for i, m in enumerate(ALL_MODES) if (m[0], m[2]) in (('cga', 1), ('cga', 2), ('ega', 7), ('ega', 9))]
MAXNEST = 32          # the statement has no number; the repaired code allows 32 nested substrings
FUEL = 20000
P31 = 2147483647
BIG = 1 << 24

DIRS = {'U': (0, -1), 'D': (0, 1), 'L': (-1, 0), 'R': (1, 0), 'E': (1, -1), 'F': (1, 1), 'G': (-1, 1), 'H': (-1, -1)}
NUMVARS = ['I%', 'J%', 'K!', 'V', 'Q#', 'N.1%']
STRVARS = ['A$', 'B$', 'S1$', 'Q.R$']
ARR = 'AR%'
ARRLEN = 6


def tdiv(a, b):
    q = abs(a) // abs(b)
    return q if (a >= 0) == (b >= 0) else -q


def clamp(nattr, c):
    return min(nattr - 1, max(0, c))


# ---------------------------------------------------------------------------------------------------------
# generator: token lists
#   ['mv', letter, value|None, form]      form: none lit plus minus split var:<name> arr:<i>
#   ['S', n, form]  ['C', n, form]  ['Cs']  ['B']  ['N']  ['M', rel, x, y, fx, fy]  ['X', name]
#   ['A', n]  ['TA', deg]  ['As']  ['bad', text, err]  [';']

class Gen(object):
    def __init__(self, rng, mode):
        self.rng = rng
        self.mode = mode
        self.nums = {}
        self.arr = [0] * ARRLEN
        self.arr_set = set()
        self.subs = {}
        self.quirk = False
        self.angles = False
        self.paint = False

    def count_value(self):
        r = self.rng
        k = r.random()
        if k < 0.45:
            return r.choice([0, 1, 2, 3, 4, 5, 6, 7, 8, 9, 10, 11, 13, 15, 16, 17, 20, 25, 31, 33, 40, 50, 63, 64])
        if k < 0.8:
            return r.randint(0, 120)
        if k < 0.95:
            return r.randint(100, 700)
        return r.choice([32767, 32768, 40000, 99999, 5000, 1000])

    def num_form(self, v, allow_neg=True):
        """choose how a number is written; returns (value, form) with the variable store updated"""
        r = self.rng
        k = r.random()
        if k < 0.5:
            return v, 'lit'
        if k < 0.6:
            return v, 'plus'
        if k < 0.7 and allow_neg:
            return -v, 'minus'
        if k < 0.78 and v >= 10:
            return v, 'split'
        if k < 0.92:
            name = r.choice(NUMVARS)
            val = v if (not allow_neg or r.random() < 0.7) else -v
            if name.endswith('%') and not -32768 <= val <= 32767:
                name = 'Q#'
            if name in self.nums and self.nums[name] != val:
                return v, 'lit'
            self.nums[name] = val
            return val, 'var:' + name
        i = r.randrange(ARRLEN)
        val = v if -32768 <= v <= 32767 else 7
        if i in self.arr_set and self.arr[i] != val:
            return v, 'lit'
        self.arr_set.add(i)
        self.arr[i] = val
        return val, 'arr:%d' % i

    def move(self):
        r = self.rng
        letter = r.choice('UDLREFGH')
        if r.random() < 0.25:
            return ['mv', letter, None, 'none']
        v, form = self.num_form(self.count_value())
        return ['mv', letter, v, form]

    def scale(self):
        r = self.rng
        n = r.choice([1, 2, 3, 4, 4, 5, 6, 7, 8, 9, 12, 16, 17, 40, 255, r.randint(1, 30), r.randint(1, 255)])
        v, form = self.num_form(n, allow_neg=False)
        return ['S', v, form]

    def colour(self):
        r = self.rng
        if r.random() < 0.08:
            return ['Cs']
        nattr = self.mode[5]
        n = r.choice([0, 1, 2, 3, 4, 7, 15, 16, 17, 255, 256, 300, 99999, r.randint(0, 20),
                      nattr - 1, nattr - 1, nattr, r.randint(0, nattr)])
        v, form = self.num_form(n)
        return ['C', v, form]

    def coord(self, size):
        r = self.rng
        k = r.random()
        if k < 0.6:
            return r.randint(0, size - 1)
        if k < 0.8:
            return r.choice([0, 1, size - 2, size - 1, size, size + 1, size // 2])
        if k < 0.95:
            return r.randint(0, 2 * size)
        return r.choice([9999, 5000, 1000, 9998])

    def mabs(self):
        _, _, _, w, h, _, _ = self.mode
        r = self.rng
        x = self.coord(w)
        y = self.coord(h)
        fx = 'lit'
        if r.random() < 0.15:
            x, fx = self.num_form(x, allow_neg=False)
            if fx in ('plus', 'minus'):
                fx = 'lit'
        if r.random() < 0.1:
            y = -y
        y, fy = (y, 'lit') if r.random() < 0.8 else self.num_form(abs(y))
        if fy == 'lit' and y < 0:
            y, fy = y, 'minus'
        return ['M', False, x, y, fx, fy]

    def mrel(self):
        r = self.rng
        x = r.choice([0, 1, 2, 3, 5, 7, 10, 30, r.randint(0, 200), r.randint(0, 60), 9999])
        y = r.choice([0, 1, 2, 3, 5, 7, 10, 30, r.randint(0, 200), r.randint(0, 60), 9999])
        fx = r.choice(['plus', 'minus'])
        if fx == 'minus':
            x = -x
        if r.random() < 0.1:
            # a variable after the sign: M+=I%;,5
            name = r.choice(NUMVARS[:2])
            val = abs(x) % 300
            if name not in self.nums or self.nums[name] == val:
                self.nums[name] = val
                x = val if fx == 'plus' else -val
                fx += '+var:' + name
        y, fy = self.num_form(y)
        return ['M', True, x, y, fx, fy]

    def bad(self):
        r = self.rng
        return ['bad'] + list(r.choice([
            ('Z', 5), ('Q5', 5), ('?', 5), ('S', 5), ('S0', 5), ('S256', 5), ('S-1', 5), ('R100000', 5),
            ('U-100000', 5), ('M5', 5), ('M5,', 5), ('M,5', 5), ('M10000,0', 5), ('M0,-10000', 5), ('M+5', 5),
            ('R-', 5), ('L+', 5), ('C', 5), ('C100000', 5), ('T', 5), ('TB', 5), ('T A0', 5), ('TA361', 5), ('TA-361', 5),
            ('A4', 5), ('A-1', 5), ('X', 5), ('XA', 5), ('R=', 5), ('R=;', 5), ('R=I%', 5), ('P', 5), ('P1', 5),
            ('P1,', 5), ('P10000,1', 5), ('P1;2', 5), ('M1;2', 5), (',', 5),
            ('XI%;', 13), ('R=A$;', 13), ('C=B$;', 13),
        ]))

    def tokens(self, n, depth, hygiene=True):
        r = self.rng
        out = []
        while len(out) < n:
            k = r.random()
            if k < 0.40:
                out.append(self.move())
            elif k < 0.47:
                out.append(self.mabs())
            elif k < 0.55:
                out.append(self.mrel())
            elif k < 0.63:
                out.append(self.scale())
            elif k < 0.70:
                out.append(self.colour())
            elif k < 0.84:
                pre = r.choice([['B'], ['N'], ['B', 'N'], ['N', 'B'], ['B', 'B'], ['N', 'N']])
                out.extend([p] for p in pre)
                if hygiene:
                    # the prefixes meet their move in the same string
                    for _ in range(r.choice([0, 0, 0, 1, 2])):
                        out.append(r.choice([self.scale, self.colour])())
                    out.append(r.choice([self.move, self.move, self.mabs, self.mrel])())
                else:
                    self.quirk = True
            elif k < 0.91 and depth < 3:
                name = r.choice(STRVARS)
                if name not in self.subs:
                    self.subs[name] = None     # reserved (no accidental self reference)
                    self.subs[name] = self.tokens(r.choice([0, 1, 2, 3, 5]), depth + 1, hygiene)
                if self.subs[name] is not None:
                    out.append(['X', name])
            elif k < 0.94:
                out.append([';'])
            elif k < 0.955:
                self.angles = True
                out.append(r.choice([['A', 0], ['A', 2], ['TA', 0], ['TA', 180], ['TA', 360], ['As'], ['TA', 0], ['A', 0]]))
            elif k < 0.985:
                # a malformed command ends its string (what follows it in the text could repair it)
                out.append(self.bad())
                break
            else:
                out.append(self.move())
        return out


def render_num(rng, v, form):
    if form == 'none':
        return ''
    sp = ' ' if rng.random() < 0.15 else ''
    if form == 'lit':
        return sp + ('%d' % v if v >= 0 else '-%d' % -v)
    if form == 'plus':
        return sp + '+%d' % v
    if form == 'minus':
        return sp + '-%d' % -v
    if form == 'split':
        s = '%d' % v
        p = rng.randint(1, len(s) - 1)
        return sp + s[:p] + ' ' + s[p:]
    if form.startswith('var:'):
        return sp + '=' + form[4:] + (' ;' if rng.random() < 0.1 else ';')
    if form.startswith('arr:'):
        br = rng.choice(['()', '[]'])
        return sp + '=%s%s%s%s;' % (ARR, br[0], form[4:], br[1])
    raise ValueError(form)


def render(rng, toks):
    out = []
    for t in toks:
        k = t[0]
        case = (lambda s: s.lower()) if rng.random() < 0.3 else (lambda s: s)
        if k == 'mv':
            s = case(t[1]) + render_num(rng, t[2], t[3])
        elif k in ('S', 'C'):
            s = case(k) + render_num(rng, t[1], t[2])
        elif k == 'Cs':
            s = case('C') + ';'
        elif k == 'As':
            s = rng.choice(['A;', 'TA;', 'ta ;'])
        elif k in ('B', 'N'):
            s = case(k)
        elif k == 'M':
            _, rel, x, y, fx, fy = t
            if rel:
                sign, _, var = fx.partition('+')
                xs = ('+' if sign == 'plus' else '-') + (('=' + var[4:] + ';') if var else '%d' % abs(x))
            else:
                xs = render_num(rng, x, fx)
            s = case('M') + xs + rng.choice([',', ',', ' ,', ', ']) + render_num(rng, y, fy)
        elif k == 'X':
            s = case('X') + rng.choice(['', ' ']) + t[1] + rng.choice([';', ';', ' ;'])
        elif k == 'A':
            s = case('A') + '%d' % t[1]
        elif k == 'TA':
            s = case('T') + case('A') + '%d' % t[1]
        elif k == 'P':
            s = case('P') + '%d,%d' % (t[1], t[2])
        elif k == 'bad':
            s = t[1]
        elif k == ';':
            s = ';'
        else:
            raise ValueError(k)
        out.append(s)
        if k == 'bad':
            break
        r = rng.random()
        if r < 0.15:
            out.append(' ')
        elif r < 0.25:
            out.append(';')
    return ''.join(out)


# ---------------------------------------------------------------------------------------------------------
# oracle: the statement, on token lists

class DrawError(Exception):
    def __init__(self, n):
        Exception.__init__(self, n)
        self.n = n


class Pen(object):
    """Position, scale and colour as the property statement describes them; segments drawn."""

    def __init__(self, mode):
        _, _, _, w, h, nattr, attr = mode
        self.w, self.h, self.nattr = w, h, nattr
        self.pos = (w // 2, h // 2)
        self.scale = 4
        self.colour = attr
        self.angle = 0
        self.segs = []         # ('seg', x0, y0, x1, y1, c) | ('paint', x, y, f, b) | ('pset', x, y, c)
        self.turned = False
        self.stale_line = False
        self.maxabs = 0

    def note(self, p):
        self.maxabs = max(self.maxabs, abs(p[0]), abs(p[1]))

    def run(self, toks, subs, depth=0):
        if depth > MAXNEST:
            raise DrawError(7)
        blank = ret = False
        for t in toks:
            k = t[0]
            if k == 'B':
                blank = True
            elif k == 'N':
                ret = True
            elif k in ('mv', 'M'):
                if k == 'mv':
                    n = 1 if t[2] is None else t[2]
                    ux, uy = DIRS[t[1]]
                    off = (ux * n, uy * n)
                    rel = True
                else:
                    off = (t[2], t[3])
                    rel = t[1]
                if rel:
                    dx, dy = tdiv(self.scale * off[0], 4), tdiv(self.scale * off[1], 4)
                    if self.angle == 180:
                        dx, dy = -dx, -dy
                    target = (self.pos[0] + dx, self.pos[1] + dy)
                else:
                    target = off
                self.note(target)
                if not blank:
                    self.segs.append(('seg', self.pos[0], self.pos[1], target[0], target[1], self.colour))
                if not ret:
                    self.pos = target
                blank = ret = False
            elif k == 'S':
                self.scale = t[1]
            elif k == 'C':
                self.colour = clamp(self.nattr, t[1])
            elif k == 'Cs':
                self.colour = 0
            elif k == 'X':
                self.run(subs[t[1]], subs, depth + 1)
            elif k in ('A', 'TA', 'As'):
                self.angle = {'A': lambda: 90 * t[1], 'TA': lambda: t[1], 'As': lambda: 0}[k]()
                if self.angle == 360:
                    self.angle = 0
                if self.angle != 0:
                    self.turned = True
            elif k == 'P':
                x, y = self.pos
                if not (-32768 <= x <= 32767 and -32768 <= y <= 32767):
                    raise DrawError(6)
                if 0 <= x < self.w and 0 <= y < self.h:
                    self.segs.append(('paint', x, y, clamp(self.nattr, t[1]), clamp(self.nattr, t[2])))
            elif k == 'bad':
                raise DrawError(t[2])
            elif k == ';':
                pass
            else:
                raise ValueError(k)


# ---------------------------------------------------------------------------------------------------------
# implementation adapter

class Impl(object):
    """One Session.  Nothing is ever printed in graphics mode (text would be drawn into the pixel buffer): DRAW runs
    from a three-line program with an error trap, results are fetched with Session.get_variable."""

    PROGRAM = [b'10 ON ERROR GOTO 40',
               b'20 ZE%=0:DRAW ZZ$',
               b'30 ZX#=POINT(0):ZY#=POINT(1):END',
               b'40 ZE%=ERR:RESUME 30']

    def __init__(self, mode):
        self.mode = mode
        self.session = basic.new_session(**mode[1])
        for line in self.PROGRAM:
            self.ex(line)
        self.ex(b'DIM %s(%d)' % (ARR.encode(), ARRLEN - 1))

    def close(self):
        try:
            self.session.close()
        except Exception:   # noqa
            pass

    def ex(self, text):
        """(output bytes, host exception name or None)"""
        try:
            return self.session.execute(text), None
        except Exception as e:   # noqa
            return b'', type(e).__name__

    def reset(self):
        self.ex(b'SCREEN 0')
        self.ex(b'SCREEN %d' % self.mode[2])

    def point(self):
        try:
            fa, fb = self.session.get_variable('ZX#'), self.session.get_variable('ZY#')
            return '%d/%d' % (fa, fb) if fa == int(fa) and fb == int(fb) else '%r/%r' % (fa, fb)
        except Exception as e:   # noqa
            return 'exc:' + type(e).__name__

    def set_vars(self, nums, arr, strs):
        for name, v in nums:
            self.ex(('%s=%d' % (name, v)).encode())
        for i, v in enumerate(arr):
            self.ex(('%s(%d)=%d' % (ARR, i, v)).encode())
        for name, text in strs:
            self.ex(name.encode() + b'="' + text + b'"')

    def run_stmt(self, st):
        """(status, 'x/y' as POINT(0), POINT(1) report them afterwards)"""
        if st[0] == 'd':
            out, exc = self.ex(b'ZZ$="' + st[1] + b'":GOTO 10')
            if exc:
                # the program did not reach line 30
                out2, exc2 = self.ex(b'ZX#=POINT(0):ZY#=POINT(1)')
                return 'exc:' + exc, self.point()
            if out.strip():
                return 'out:' + out.decode('latin-1')[:40], self.point()
            e = self.session.get_variable('ZE%')
            return ('err%d' % e if e else 'ok'), self.point()
        if st[0] == 'p':
            out, exc = self.ex(b'PSET (%d,%d),%d:ZX#=POINT(0):ZY#=POINT(1)' % (st[1], st[2], st[3]))
        elif st[0] == 'l':
            out, exc = self.ex(b'LINE -(%d,%d),%d:ZX#=POINT(0):ZY#=POINT(1)' % (st[1], st[2], st[3]))
        else:
            raise ValueError(st)
        if exc:
            return 'exc:' + exc, self.point()
        return ('ok' if not out.strip() else 'out:' + out.decode('latin-1')[:40]), self.point()

    def pixels(self):
        return [bytes(bytearray(r)) for r in self.session.get_pixels()]


def digest(rows):
    buf = b''.join(rows)
    return '%d:%d' % (int.from_bytes(buf, 'big') % P31, len(buf) - buf.count(b'\0'))


def first_diff(a, b):
    if len(a) != len(b):
        return 'row counts %d / %d' % (len(a), len(b))
    for y, (r0, r1) in enumerate(zip(a, b)):
        if r0 != r1:
            for x, (p, q) in enumerate(zip(bytearray(r0), bytearray(r1))):
                if p != q:
                    return 'cell (%d,%d): DRAW %d, LINE %d' % (x, y, p, q)
            return 'row %d lengths differ' % y
    return None


def hexs(b):
    return ''.join('%02x' % c for c in bytearray(b)) or '-'


def model_line(mode, hist):
    _, _, _, w, h, nattr, attr = mode
    binds = []
    for name, v in hist['nums']:
        full = name if name[-1] in '%!#' else name + '!'
        binds.append('%s:n:%d' % (hexs(full.upper().encode()), v))
    binds.append('%s:a:%s' % (hexs(ARR.encode()), ','.join('%d' % v for v in hist['arr'])))
    for name, text in hist['strs']:
        binds.append('%s:s:%s' % (hexs(name.upper().encode()), hexs(text.encode('latin-1'))))
    sts = []
    for st in hist['stmts']:
        if st[0] == 'd':
            sts.append('d:' + hexs(st[1].encode('latin-1')))
        else:
            sts.append('%s:%d:%d:%d' % (st[0], st[1], st[2], st[3]))
    return 'hist %d %d %d %d %s %d,%d,%d,4,0 %s' % (FUEL, nattr, w, h, ';'.join(binds),
                                                 w // 2, h // 2, attr, ','.join(sts))


# ---------------------------------------------------------------------------------------------------------
# one history on the implementation, the reference session and the oracle

def make_history(rng, mode):
    """structured history: statements, token lists, variable store"""
    g = Gen(rng, mode)
    hygiene = rng.random() < 0.93
    n_stmts = rng.choice([1, 1, 2, 2, 3, 4])
    toklists = []
    kinds = []
    for _ in range(n_stmts):
        k = rng.random()
        if k < 0.8 or not toklists:
            toklists.append(g.tokens(rng.choice([1, 2, 3, 4, 6, 8, 12]), 0, hygiene))
            kinds.append('d')
        elif k < 0.9:
            kinds.append('p')
            toklists.append(None)
        else:
            kinds.append('l')
            toklists.append(None)
    _, _, _, w, h, nattr, _ = mode
    # self-referential substrings (D15), rarely
    selfref = None
    if rng.random() < 0.04:
        name = rng.choice(STRVARS)
        other = rng.choice(STRVARS)
        body = [t for t in g.tokens(rng.choice([0, 1, 2]), 3, True) if t[0] != 'bad']
        if other != name and other not in g.subs and rng.random() < 0.5:
            g.subs[other] = [['X', name]]
            g.subs[name] = body + [['X', other]]
        else:
            g.subs[name] = body + [['X', name]]
        selfref = name
        head = toklists[0][:rng.randint(0, len(toklists[0]))]
        toklists[0] = [t for t in head if t[0] != 'bad'] + [['X', name]]
    subs = {k: v for k, v in g.subs.items() if v is not None}
    strs = [(name, render(rng, toks)) for name, toks in sorted(subs.items())]
    stmts = []
    for kind, toks in zip(kinds, toklists):
        if kind == 'd':
            stmts.append(['d', render(rng, toks)])
        else:
            stmts.append([kind, rng.randint(-5, w + 5), rng.randint(-5, h + 5), rng.choice([0, 1, 2, 3, 5, 15, 200])])
    return {'nums': sorted(g.nums.items()), 'arr': list(g.arr), 'strs': strs, 'stmts': stmts,
            'tokens': toklists, 'subs': subs, 'quirk': g.quirk, 'paint': g.paint, 'selfref': selfref}


def expectations(mode, hist):
    """per statement (status, position), and the list of things drawn, from the statement"""
    pen = Pen(mode)
    exp = []
    stale = False
    for st, toks in zip(hist['stmts'], hist['tokens']):
        status = 'ok'
        if st[0] == 'd':
            try:
                pen.run(toks, hist['subs'])
                stale = False
            except DrawError as e:
                status = 'err%d' % e.n
                stale = True
        elif st[0] == 'p':
            pen.pos = (st[1], st[2])
            pen.colour = clamp(pen.nattr, st[3])
            pen.segs.append(('pset', st[1], st[2], pen.colour))
            stale = False
        else:
            if stale:
                # LINE -(x,y) starts at the end of the last completed statement, not where a failed DRAW
                # stopped; the statement is silent on this: not judged
                pen.stale_line = True
            pen.colour = clamp(pen.nattr, st[3])
            pen.segs.append(('seg', pen.pos[0], pen.pos[1], st[1], st[2], pen.colour))
            pen.pos = (st[1], st[2])
        exp.append((status, pen.pos))
    return pen, exp


def kinds_of(hist, i):
    ks = set()

    def walk(ts, d):
        for t in ts:
            ks.add(t[0] if t[0] != 'bad' else 'bad(%s)' % t[1])
            if t[0] == 'X' and d < 5 and t[1] in hist['subs']:
                walk(hist['subs'][t[1]], d + 1)
    if hist['tokens'][i] is not None:
        walk(hist['tokens'][i], 0)
    else:
        ks.add(hist['stmts'][i][0])
    return ks


def run_history(ctx, mi, impl, ref, hist, judge=True):
    """execute on the implementation; returns (impl string for the model comparison, failures)"""
    mode = ALL_MODES[mi]
    impl.reset()
    impl.set_vars(hist['nums'], hist['arr'], [(n, t.encode('latin-1')) for n, t in hist['strs']])
    res = []
    for st in hist['stmts']:
        res.append(impl.run_stmt(['d', st[1].encode('latin-1')] if st[0] == 'd' else st))
    rows = impl.pixels()
    impl_str = 'ok ' + ';'.join('%s/%s' % r for r in res) + ' ' + ('-' if hist['paint'] else digest(rows))
    fails = []
    # no host exception, whatever the string
    for i, (s, p) in enumerate(res):
        if s.startswith('exc:') or p.startswith('exc:'):
            exc = (s if s.startswith('exc:') else p)[4:]
            fails.append(('host-exception:%s' % exc, i, 'host exception %s escapes Session.execute' % exc))
    if not judge or hist.get('tokens') is None:
        return impl_str, fails
    pen, exp = expectations(mode, hist)
    if pen.maxabs >= BIG:
        ctx.count('oracle: skipped (coordinate beyond 2^24)')
        return None, fails
    if hist['quirk']:
        ctx.count('oracle: position/pixels not judged (prefix separated from its move by X or the end of a string)')
        return impl_str, fails
    if pen.turned:
        ctx.count('oracle: position/pixels not judged (angle set)')
        return impl_str, fails
    if pen.stale_line:
        ctx.count('oracle: position/pixels not judged (LINE -(x,y) right after a failed DRAW)')
        return impl_str, fails
    for i, ((s, p), (es, epos)) in enumerate(zip(res, exp)):
        tag = '+'.join(sorted(kinds_of(hist, i)))
        if s.startswith('exc:'):
            break
        accept = (es,) if not any(t.startswith('bad(X') or t.startswith('bad(R=A') or t.startswith('bad(C=B')
                                  for t in kinds_of(hist, i)) else (es, 'err5', 'err13')
        if s not in accept:
            fails.append(('status:%s:%s' % (es, tag), i, 'statement %d %r: expected %s, got %s' % (i, hist['stmts'][i], es, s)))
            break
        if p != '%d/%d' % epos:
            fails.append(('position:%s' % tag, i, 'statement %d %r: POINT(0)/POINT(1) = %s, the commands sum to %d/%d'
                          % (i, hist['stmts'][i], p, epos[0], epos[1])))
            break
    else:
        # pixels: every drawn segment is what LINE draws between its end points
        if any(abs(v) > 32767 for sg in pen.segs for v in sg[1:5] if sg[0] == 'seg'):
            ctx.count('oracle: pixels not judged (segment end beyond LINE\'s coordinate range)')
        else:
            ref.reset()
            bad = None
            for sg in pen.segs:
                if sg[0] == 'seg':
                    out, exc = ref.ex(b'LINE (%d,%d)-(%d,%d),%d' % sg[1:])
                elif sg[0] == 'pset':
                    out, exc = ref.ex(b'PSET (%d,%d),%d' % sg[1:])
                else:
                    out, exc = ref.ex(b'PAINT (%d,%d),%d,%d' % sg[1:])
                if exc or out.strip():
                    bad = (sg, exc or out)
                    break
            if bad:
                ctx.count('oracle: reference statement failed')
                fails.append(('reference-failed', len(res) - 1, 'reference statement for %r failed: %r' % bad))
            else:
                d = first_diff(rows, ref.pixels())
                ctx.count('oracle: pixel buffers compared')
                ctx.count('oracle: segments re-drawn with LINE', sum(1 for sg in pen.segs if sg[0] == 'seg'))
                if d:
                    tag = '+'.join(sorted(set().union(*[kinds_of(hist, i) for i in range(len(res))])))
                    fails.append(('pixels:%s' % tag, len(res) - 1, 'pixel buffer after the history differs from the '
                                  'LINE rendering of its segments: ' + d))
    return impl_str, fails


def jsonable(hist):
    return {k: hist[k] for k in ('nums', 'arr', 'strs', 'stmts', 'tokens', 'subs', 'quirk', 'paint', 'selfref')}


def unjson(h):
    h = dict(h)
    h['nums'] = [tuple(x) for x in h['nums']]
    h['strs'] = [tuple(x) for x in h['strs']]
    return h


FUZZ = ('UDLREFGHudlrefgh' * 3 + 'BNbn' * 3 + 'MSCXmscx' * 2 + '0123456789' * 4 + '+-,;  ;' * 3 + '=AT$%!P.' + 'YQ?*#\x80')


def fuzz_history(rng, mode):
    def rnd(maxlen):
        n = rng.choice([0, 1, 2, 3, 5, 8, 12, maxlen])
        s = [rng.choice(FUZZ) for _ in range(n)]
        for _ in range(rng.choice([0, 0, 1, 2])):
            ref = rng.choice(['XA$;', 'xb$;', 'X S1$ ;', '=I%;', '=J%;', '=K!;', '= q# ;', '=AR%(2);', '=AR%(J%);', '=AR%(9);',
                              '=A$;', 'XI%;', '=AR%(2;', '=UNSET;', 'XUNSET$;', 'M+5,=I%;', 'M=I%;,=J%;', 'TA0', 'A2', 'S8'])
            s.insert(rng.randint(0, len(s)), ref)
        return ''.join(s)
    nums = [('I%', rng.choice([0, 1, 5, 40, -3, 300])), ('J%', rng.randint(0, 6)), ('K!', rng.choice([2, 17, 255, 256])),
            ('Q#', rng.choice([0, 3, 99999, 100000]))]
    arr = [rng.choice([0, 1, 4, 9, 100]) for _ in range(ARRLEN)]
    strs = [(n, rnd(8)) for n in STRVARS[:3]]
    # no accidental deep recursion in the fuzz part: S1$ never refers to a string
    strs[2] = ('S1$', strs[2][1].replace('X', 'R').replace('x', 'r'))
    strs[1] = ('B$', strs[1][1].replace('XA$', 'R').replace('xb$', 'r'))
    stmts = [['d', rnd(24)] for _ in range(rng.choice([1, 2]))]
    # the pixels of P (flood fill) are not modelled
    paint = any('P' in t.upper() for t in [x[1] for x in strs] + [x[1] for x in stmts])
    return {'nums': nums, 'arr': arr, 'strs': strs, 'stmts': stmts,
            'tokens': None, 'subs': {}, 'quirk': True, 'paint': paint, 'selfref': None}


def report(ctx, mi, hist, fails, kind):
    for key, i, what in fails:
        ctx.fail(key, {'kind': kind, 'mode': mi, 'hist': jsonable(hist), 'stmt': i}, what)


def compare_batch(ctx, batch):
    if not batch:
        return
    lines = [l for _, _, _, l in batch]
    mouts = ctx.model(lines)
    if mouts is None:
        return
    for (mi, hist, impl_str, line), m in zip(batch, mouts):
        if 'unsup' in m:
            ctx.count('model: unsupported angle (not compared)')
            continue
        if hist['paint']:
            # no digest on either side
            m = m.rsplit(' ', 1)[0] + ' -'
            impl_str = impl_str.rsplit(' ', 1)[0] + ' -'
        if impl_str != m:
            ctx.disagree({'label': 'history', 'mode': mi, 'input': jsonable(hist), 'line': line[:1500]},
                         impl_str[:1500], m[:1500])


def fixed_histories(mode):
    """hand-written boundary histories (always run)"""
    def H(stmts, strs=(), nums=(), tokens=None, subs=None, quirk=False):
        return {'nums': list(nums), 'arr': [0] * ARRLEN, 'strs': list(strs), 'stmts': stmts, 'tokens': tokens,
                'subs': subs or {}, 'quirk': quirk, 'paint': False, 'selfref': None}
    out = []
    # D15: a substring that executes itself
    out.append(H([['d', 'XA$;']], strs=[('A$', 'XA$;')], tokens=[[['X', 'A$']]], subs={'A$': [['X', 'A$']]}))
    out.append(H([['d', 'R3XA$;']], strs=[('A$', 'U2XB$;'), ('B$', 'L1XA$;')],
                 tokens=[[['mv', 'R', 3, 'lit'], ['X', 'A$']]],
                 subs={'A$': [['mv', 'U', 2, 'lit'], ['X', 'B$']], 'B$': [['mv', 'L', 1, 'lit'], ['X', 'A$']]}))
    # colours outside the mode's range
    for c in (300, 256, 255, -1, 99999, -99999, 16, 4, 2):
        out.append(H([['d', 'C%d R5' % c]], tokens=[[['C', c, 'lit'], ['mv', 'R', 5, 'lit']]]))
    # truncation towards zero on both signs
    for s in (1, 2, 3, 5, 7):
        for n in (1, 2, 3, 5, 6, 7):
            out.append(H([['d', 'S%d L%d D%d H%d M+%d,-%d' % (s, n, n, n, n, n)]],
                         tokens=[[['S', s, 'lit'], ['mv', 'L', n, 'lit'], ['mv', 'D', n, 'lit'], ['mv', 'H', n, 'lit'],
                                  ['M', True, n, -n, 'plus', 'minus']]]))
    # prefixes
    out.append(H([['d', 'BR10NU10BND10L5']], tokens=[[['B'], ['mv', 'R', 10, 'lit'], ['N'], ['mv', 'U', 10, 'lit'], ['B'], ['N'],
                                                      ['mv', 'D', 10, 'lit'], ['mv', 'L', 5, 'lit']]]))
    out.append(H([['d', 'BM10,10NM+5,5M20,3']], tokens=[[['B'], ['M', False, 10, 10, 'lit', 'lit'], ['N'],
                                                         ['M', True, 5, 5, 'plus', 'lit'], ['M', False, 20, 3, 'lit', 'lit']]]))
    # after an error the position reached stays; the next DRAW continues there
    out.append(H([['d', 'R7U3Z'], ['d', 'D1'], ['l', 5, 5, 1], ['d', 'F2']],
                 tokens=[[['mv', 'R', 7, 'lit'], ['mv', 'U', 3, 'lit'], ['bad', 'Z', 5]], [['mv', 'D', 1, 'lit']], None,
                         [['mv', 'F', 2, 'lit']]]))
    return out


def colour_histories(rng, mode):
    """Every attribute of the mode, the first ones beyond it and far values, each selected with C (literal, signed,
    through a variable) and drawn as two segments of its own; then the attribute of a fresh mode and the one left by
    PSET / LINE, drawn without any C."""
    _, _, _, w, h, nattr, _ = mode
    values = list(range(nattr)) + [nattr, nattr + 1, 255, 256, 300, 99999, -1, -99999]
    out = []
    g = Gen(rng, mode)
    groups = []
    for i, c in enumerate(values):
        x, y = 4 + (i % 8) * 18, 4 + (i // 8) * 10
        k = rng.random()
        if c < 0:
            ctok = ['C', c, 'minus']
        elif k < 0.6:
            ctok = ['C', c, 'lit']
        elif k < 0.75:
            ctok = ['C', c, 'plus']
        else:
            name = 'Q#' if c > 32767 else rng.choice(['I%', 'K!', 'V', 'N.1%'])
            if name in g.nums and g.nums[name] != c:
                ctok = ['C', c, 'lit']
            else:
                g.nums[name] = c
                ctok = ['C', c, 'var:' + name]
        groups.append([['B'], ['M', False, x, y, 'lit', 'lit'], ctok, ['mv', 'R', 12, 'lit'], ['mv', 'F', 4, 'lit']])
    toklists = [sum(groups[i:i + 6], []) for i in range(0, len(groups), 6)]
    out.append({'nums': sorted(g.nums.items()), 'arr': [0] * ARRLEN, 'strs': [],
                'stmts': [['d', render(rng, t)] for t in toklists], 'tokens': toklists, 'subs': {}, 'quirk': False,
                'paint': False, 'selfref': None})
    # no C at all: the mode's own attribute, then whatever PSET and LINE leave
    c1, c2 = rng.randint(0, nattr), rng.choice([0, 1, nattr - 1, nattr, 200])
    toklists = [[['mv', 'R', 10, 'lit'], ['mv', 'G', 5, 'lit']], None, [['mv', 'U', 7, 'lit'], ['mv', 'E', 3, 'lit']], None,
                [['N'], ['mv', 'D', 9, 'lit'], ['B'], ['M', True, 5, 5, 'plus', 'lit'], ['mv', 'H', 6, 'lit']]]
    stmts = [['d', render(rng, toklists[0])], ['p', rng.randint(5, w - 6), rng.randint(5, h - 6), c1],
             ['d', render(rng, toklists[2])], ['l', rng.randint(5, w - 6), rng.randint(5, h - 6), c2],
             ['d', render(rng, toklists[4])]]
    out.append({'nums': [], 'arr': [0] * ARRLEN, 'strs': [], 'stmts': stmts, 'tokens': toklists, 'subs': {},
                'quirk': False, 'paint': False, 'selfref': None})
    return out


def known_modes():
    """(adapter key, SCREEN) of every graphics mode the implementation defines (the list gen/tables_c34.py walks)"""
    import os
    import sys
    gen = os.path.join(os.path.dirname(os.path.dirname(os.path.abspath(__file__))), 'gen')
    if gen not in sys.path:
        sys.path.insert(0, gen)
    import tables_c34
    return sorted(set((a[0], a[4]) for a in tables_c34.collect()[1] if a[4] != 0))


def sweep_modes(ctx, batch):
    """the colour part (and, thorough tier, random histories) in every adapter x graphics mode"""
    rng = ctx.rng
    try:
        missing = [m for m in known_modes() if m not in SIZES]
    except Exception as e:   # noqa
        missing = []
        ctx.notes['mode list of the implementation not readable'] = repr(e)
    if missing:
        # a mode the harness has no documentation entry for: the class is not covered there
        ctx.notes['graphics modes without an entry in SIZES (not driven)'] = repr(missing)
        ctx.count('modes not driven', len(missing))
    for mi, mode in enumerate(ALL_MODES):
        impl = Impl(mode)
        ref = Impl(mode)
        try:
            out, exc = impl.ex(b'SCREEN %d' % mode[2])
            if exc or out.strip():
                ctx.fail('mode-unavailable:%s:%d' % (mode[0], mode[2]), {'kind': 'mode', 'mode': mi},
                         'SCREEN %d with %r: %r' % (mode[2], mode[1], exc or out))
                continue
            work = [('colour', h) for h in colour_histories(rng, mode)]
            if not ctx.quick and mi not in MAIN:
                work += [('structured', None)] * 120
            for kind, hist in work:
                if kind == 'structured':
                    hist = make_history(rng, mode)
                impl_str, fails = run_history(ctx, mi, impl, ref, hist)
                report(ctx, mi, hist, fails, kind)
                for i, st in enumerate(hist['stmts']):
                    ctx.case((mi, kind, st[0], str(st[1:]), str(hist['strs']), str(hist['nums'])))
                    ctx.count('stmt:%s:%s' % (kind, st[0]))
                if impl_str is not None:
                    batch.append((mi, hist, impl_str, model_line(mode, hist)))
            ctx.count('colour sweep: adapter/mode combinations')
        finally:
            impl.close()
            ref.close()
    ctx.log('colour sweep over %d adapter/mode combinations done' % len(ALL_MODES))


def run(ctx):
    rng = ctx.rng
    n_struct = 165 if ctx.quick else 2000
    n_fuzz = 50 if ctx.quick else 600
    batch = []
    for mi in MAIN:
        mode = ALL_MODES[mi]
        impl = Impl(mode)
        ref = Impl(mode)
        try:
            work = [('fixed', h) for h in fixed_histories(mode)]
            work += [('structured', None)] * n_struct + [('fuzz', None)] * n_fuzz
            for kind, hist in work:
                if kind == 'structured':
                    hist = make_history(rng, mode)
                elif kind == 'fuzz':
                    hist = fuzz_history(rng, mode)
                impl_str, fails = run_history(ctx, mi, impl, ref, hist, judge=(kind != 'fuzz'))
                report(ctx, mi, hist, fails, kind)
                for i, st in enumerate(hist['stmts']):
                    ctx.case((mi, kind, st[0], str(st[1:]), str(hist['strs']), str(hist['nums'])))
                    ctx.count('stmt:%s:%s' % (kind, st[0]))
                    if hist['tokens'] and hist['tokens'][i]:
                        for t in hist['tokens'][i]:
                            ctx.count('tok:' + t[0])
                if impl_str is not None:
                    ctx.count('status:' + ','.join(sorted(set(x.split('/')[0] for x in impl_str.split(' ')[1].split(';')))))
                    batch.append((mi, hist, impl_str, model_line(mode, hist)))
                if hist.get('selfref'):
                    ctx.count('self-referential substring')
                if len(ctx.samples) < 6 and kind == 'structured':
                    ctx.sample({'screen': mode[2], 'strs': hist['strs'], 'stmts': hist['stmts'], 'impl': impl_str})
                if len(batch) >= 300:
                    compare_batch(ctx, batch)
                    batch = []
        finally:
            impl.close()
            ref.close()
        ctx.log('SCREEN %d done' % mode[2])
    sweep_modes(ctx, batch)
    compare_batch(ctx, batch)
    # DRAW in text mode
    s = basic.new_session()
    try:
        out = s.execute(b'SCREEN 0: DRAW "R5"')
        ctx.case('textmode')
        if b'Illegal function call' not in out:
            ctx.fail('textmode', {'kind': 'textmode'}, 'DRAW in text mode: %r' % out)
    finally:
        s.close()
    lim = ctx.model(['limit'])
    if lim is not None:
        ctx.notes['nesting limit (graphics.MAX_SUBSTRING_NESTING)'] = lim[0]


def replay(ctx, payload):
    case = payload.get('case', payload)
    if case.get('kind') == 'textmode':
        s = basic.new_session()
        try:
            out = s.execute(b'SCREEN 0: DRAW "R5"')
        finally:
            s.close()
        return None if b'Illegal function call' in out else 'DRAW in text mode: %r' % out
    mi = case['mode']
    if case.get('kind') == 'mode':
        impl = Impl(ALL_MODES[mi])
        try:
            out, exc = impl.ex(b'SCREEN %d' % ALL_MODES[mi][2])
        finally:
            impl.close()
        return ('SCREEN %d: %r' % (ALL_MODES[mi][2], exc or out)) if (exc or out.strip()) else None
    hist = unjson(case['hist'])
    impl = Impl(ALL_MODES[mi])
    ref = Impl(ALL_MODES[mi])
    try:
        _, fails = run_history(ctx, mi, impl, ref, hist, judge=(case.get('kind') != 'fuzz'))
    finally:
        impl.close()
        ref.close()
    return fails[0][2] if fails else None
