import PcbV.Lemmas.DecimalErr
import PcbV.Lemmas.C05Promote
/-
  C07 lemmas, part 6: `|exp10|` chained ×10 / ÷10 steps, the final `_normalise`, and the resulting
  error bound of `Float.from_decimal`.
-/
namespace PcbV.Decimal
open PcbV PcbV.Mbf PcbV.Mbf.C04

theorem near_bounds {η v' t : Rat} (h : Near η v' t) : v' ≤ (1 + η) * t ∧ t ≤ (1 + η) * v' := by
  obtain ⟨h1, h2⟩ := h
  obtain ⟨a1, a2⟩ := abs_le.mp h1
  obtain ⟨b1, b2⟩ := abs_le.mp h2
  constructor <;> linarith

/-- `n` steps, each within relative error `η` of multiplying by `c`, stay within `(1+η)^n` of `c^n` -/
theorem near_chain (f : Fmt) (g : Den → Den) (η c : Rat) (Inv : Den → Prop) (hη : 0 ≤ η) (hc : 0 ≤ c)
    (step : ∀ d, Inv d → Inv (g d) ∧ (g d).neg = d.neg ∧ Near η (mag f (g d)) (c * mag f d)) :
    ∀ (n : Nat) (d : Den), Inv d → Inv (iter g n d) ∧ (iter g n d).neg = d.neg ∧
      mag f (iter g n d) ≤ (1 + η) ^ n * (c ^ n * mag f d) ∧
      c ^ n * mag f d ≤ (1 + η) ^ n * mag f (iter g n d) := by
  intro n
  induction n with
  | zero => intro d hd; simp [iter, hd]
  | succ n ih =>
    intro d hd
    obtain ⟨s1, s2, s3⟩ := step d hd
    obtain ⟨i1, i2, i3, i4⟩ := ih (g d) s1
    obtain ⟨n1, n2⟩ := near_bounds s3
    have hA : 0 ≤ (1 + η) ^ n := pow_nonneg (by linarith) n
    have hcn : 0 ≤ c ^ n := pow_nonneg hc n
    have h1η : 0 ≤ 1 + η := by linarith
    show Inv (iter g n (g d)) ∧ (iter g n (g d)).neg = d.neg ∧ _ ∧ _
    refine ⟨i1, by rw [i2, s2], ?_, ?_⟩
    · calc mag f (iter g n (g d)) ≤ (1 + η) ^ n * (c ^ n * mag f (g d)) := i3
        _ ≤ (1 + η) ^ n * (c ^ n * ((1 + η) * (c * mag f d))) :=
            mul_le_mul_of_nonneg_left (mul_le_mul_of_nonneg_left n1 hcn) hA
        _ = (1 + η) ^ (n + 1) * (c ^ (n + 1) * mag f d) := by ring
    · calc c ^ (n + 1) * mag f d = c ^ n * (c * mag f d) := by ring
        _ ≤ c ^ n * ((1 + η) * mag f (g d)) := mul_le_mul_of_nonneg_left n2 hcn
        _ = (1 + η) * (c ^ n * mag f (g d)) := by ring
        _ ≤ (1 + η) * ((1 + η) ^ n * mag f (iter g n (g d))) := mul_le_mul_of_nonneg_left i4 h1η
        _ = (1 + η) ^ (n + 1) * mag f (iter g n (g d)) := by ring

/-- `(1+η)^k ≤ 1 + a·k·η` as long as `a·n·η ≤ a − 1` -/
theorem pow_le_lin (η a : Rat) (n : Nat) (hη : 0 ≤ η) (ha : 1 ≤ a) (h : a * n * η ≤ a - 1) :
    ∀ k : Nat, k ≤ n → (1 + η) ^ k ≤ 1 + a * k * η := by
  intro k
  induction k with
  | zero => intro _; simp
  | succ k ih =>
    intro hk
    have ihk := ih (by omega)
    have hkn : (k : Rat) ≤ n := by exact_mod_cast (by omega : k ≤ n)
    have hakη : a * k * η ≤ a - 1 := by
      have : a * k * η ≤ a * n * η := by
        apply mul_le_mul_of_nonneg_right _ hη
        exact mul_le_mul_of_nonneg_left hkn (by linarith)
      linarith
    have h1η : 0 ≤ 1 + η := by linarith
    calc (1 + η) ^ (k + 1) = (1 + η) ^ k * (1 + η) := pow_succ _ _
      _ ≤ (1 + a * k * η) * (1 + η) := mul_le_mul_of_nonneg_right ihk h1η
      _ = 1 + a * (k + 1) * η + η * (1 + a * k * η - a) := by ring
      _ ≤ 1 + a * (k + 1) * η := by
          have : η * (1 + a * k * η - a) ≤ 0 := mul_nonpos_of_nonneg_of_nonpos hη (by linarith)
          linarith
      _ = 1 + a * ((k + 1 : Nat) : Rat) * η := by push_cast; ring


/-- the closing `_normalise`: half a unit in the last place, plus what the chain left -/
theorem final_round (f : Fmt) (hf : f.WF) (dn : Den) (hn : Norm f dn) (x : F)
    (h : normD f dn = .ok x) (hxe : x.e ≠ 0) (T A : Rat) (hA1 : 1 ≤ A)
    (h1 : mag f dn ≤ A * T) (h2 : T ≤ A * mag f dn) :
    |val f x - sgn dn.neg * T| ≤
      (1 / 2 + A * (A - 1) * (2 * f.signMask : Nat)) * p2 ((x.e : Int) - f.bias) := by
  obtain ⟨hS, _, _, hdm, hdu, _, _, _⟩ := wf_S f hf
  have hman : 0 < dn.man := by have := hn.1; omega
  have hexp : 0 < dn.exp := by
    by_contra hc
    have : normD f dn = .ok zero := by
      unfold normD normalise
      simp [show dn.exp ≤ 0 from by omega]
    rw [this] at h
    injection h with h
    rw [← h] at hxe
    exact hxe rfl
  obtain ⟨R, E, r1, r2, r3, r4, _, r6⟩ := normalise_round f hf dn.exp dn.man dn.neg hman hn.2 hexp
  have hx : checkLimits f (packMan f R dn.neg) E dn.neg = .ok x := by
    rw [← r6]; exact h
  obtain ⟨o1, o2, _, _, _⟩ := round_outcome f hf R E dn.neg x r1 r2 hx hxe
  rw [o2, o1]
  have hu := p2_pos (E - f.bias)
  have hv : mag f dn = dmag f dn.exp dn.man := rfl
  rw [← hv] at r3 r4
  have hmag := mag_nonneg f dn
  generalize mag f dn = v at *
  generalize p2 (E - (f.bias : Int)) = u at *
  have e1 : sgn dn.neg * (R : Rat) * u - sgn dn.neg * T = sgn dn.neg * ((R : Rat) * u - T) := by ring
  rw [e1, abs_sgn_mul]
  obtain ⟨q1, q2⟩ := abs_le.mp r3
  have hAA : 0 ≤ A * (A - 1) := mul_nonneg (by linarith) (by linarith)
  have hT : 0 ≤ T := by
    by_contra hc
    have : A * T < 0 := mul_neg_of_pos_of_neg (by linarith) (by linarith)
    linarith
  -- |v − T| ≤ A(A−1)·v
  have d1 : v - T ≤ A * (A - 1) * v := by
    have : v - T ≤ (A - 1) * T := by linarith
    have t2 : (A - 1) * T ≤ (A - 1) * (A * v) := mul_le_mul_of_nonneg_left h2 (by linarith)
    have : (A - 1) * (A * v) = A * (A - 1) * v := by ring
    linarith
  have d2 : T - v ≤ A * (A - 1) * v := by
    have t1 : T - v ≤ (A - 1) * v := by linarith
    have t2 : (A - 1) * v ≤ A * ((A - 1) * v) := by
      have : 0 ≤ (A - 1) * v := mul_nonneg (by linarith) hmag
      exact le_mul_of_one_le_left this hA1
    have : A * ((A - 1) * v) = A * (A - 1) * v := by ring
    linarith
  have d3 : A * (A - 1) * v ≤ A * (A - 1) * (((2 * f.signMask : Nat) : Rat) * u) :=
    mul_le_mul_of_nonneg_left r4.le hAA
  rw [abs_le]
  constructor
  · have : (1 / 2 + A * (A - 1) * ((2 * f.signMask : Nat) : Rat)) * u =
        u / 2 + A * (A - 1) * (((2 * f.signMask : Nat) : Rat) * u) := by ring
    rw [this]; linarith
  · have : (1 / 2 + A * (A - 1) * ((2 * f.signMask : Nat) : Rat)) * u =
        u / 2 + A * (A - 1) * (((2 * f.signMask : Nat) : Rat) * u) := by ring
    rw [this]; linarith

/-- the accumulated factor in units of the last place, in ℚ: with `η = k/(256·S)` per step, `n ≤ 100`
    steps, `k ≤ 17/8` and `S ≥ 128`: `A(A−1)·2S ≤ (65/64)²·k·n/128` for `A = (1+η)^n` -/
theorem chain_const_rat (S k : Rat) (n : Nat) (hS : 128 ≤ S) (hk0 : 0 ≤ k) (hk : k ≤ 17 / 8) (hn : n ≤ 100) :
    1 ≤ (1 + k / (256 * S)) ^ n ∧
    (1 + k / (256 * S)) ^ n * ((1 + k / (256 * S)) ^ n - 1) * (2 * S) ≤ (65 / 64) ^ 2 * k * n / 128 := by
  have hMpos : (0 : Rat) < 256 * S := by linarith
  have hη0 : 0 ≤ k / (256 * S) := div_nonneg hk0 hMpos.le
  have hηM : k / (256 * S) * (256 * S) = k := div_mul_cancel₀ k hMpos.ne'
  generalize k / (256 * S) = η at *
  have hnq : (n : Rat) ≤ 100 := by exact_mod_cast hn
  have hn0 : (0 : Rat) ≤ n := Nat.cast_nonneg n
  have hsmall : (65 / 64 : Rat) * n * η ≤ 65 / 64 - 1 := by
    have h1 : η * 32768 ≤ k := by
      rw [← hηM]
      exact mul_le_mul_of_nonneg_left (by linarith) hη0
    have h2 : (n : Rat) * η ≤ 100 * η := mul_le_mul_of_nonneg_right hnq hη0
    linarith
  have hpow := pow_le_lin η (65 / 64) n hη0 (by norm_num) hsmall n (Nat.le_refl n)
  have hA1 : 1 ≤ (1 + η) ^ n := one_le_pow₀ (by linarith)
  refine ⟨hA1, ?_⟩
  generalize (1 + η) ^ n = A at *
  have hnη : 0 ≤ (n : Rat) * η := mul_nonneg hn0 hη0
  have hθ : A - 1 ≤ 65 / 64 * ((n : Rat) * η) := by linarith
  have hAa : A ≤ 65 / 64 := by linarith
  have h3 : A * (A - 1) ≤ 65 / 64 * (65 / 64 * ((n : Rat) * η)) := by
    calc A * (A - 1) ≤ 65 / 64 * (A - 1) := mul_le_mul_of_nonneg_right hAa (by linarith)
      _ ≤ 65 / 64 * (65 / 64 * ((n : Rat) * η)) := mul_le_mul_of_nonneg_left hθ (by norm_num)
  have h4 : A * (A - 1) * (2 * S) ≤ 65 / 64 * (65 / 64 * ((n : Rat) * η)) * (2 * S) :=
    mul_le_mul_of_nonneg_right h3 (by linarith)
  have h5 : 65 / 64 * (65 / 64 * ((n : Rat) * η)) * (2 * S) = (65 / 64) ^ 2 * k * n / 128 := by
    calc 65 / 64 * (65 / 64 * ((n : Rat) * η)) * (2 * S)
          = (65 / 64) ^ 2 * n * (η * (256 * S)) / 128 := by ring
      _ = (65 / 64) ^ 2 * k * n / 128 := by rw [hηM]; ring
  linarith

theorem chain_const (f : Fmt) (hf : f.WF) (k : Rat) (hk0 : 0 ≤ k) (hk : k ≤ 17 / 8) (n : Nat) (hn : n ≤ 100) :
    1 ≤ (1 + k / f.denMask) ^ n ∧
    (1 + k / f.denMask) ^ n * ((1 + k / f.denMask) ^ n - 1) * ((2 * f.signMask : Nat) : Rat) ≤
      (65 / 64) ^ 2 * k * n / 128 := by
  obtain ⟨hS, _, _, hdm, _⟩ := wf_S f hf
  have hSq : (128 : Rat) ≤ f.signMask := by exact_mod_cast hS
  have hMq : (f.denMask : Rat) = 256 * f.signMask := by rw [hdm]; push_cast; ring
  have hS2 : ((2 * f.signMask : Nat) : Rat) = 2 * f.signMask := by push_cast; ring
  rw [hMq, hS2]
  exact chain_const_rat _ k n hSq hk0 hk hn


theorem denorm_norm (f : Fmt) (hf : f.WF) (x : F) (hx : x.Valid f) : Norm f (denorm f x) := by
  obtain ⟨_, _, _, hdm, hdu, _, _, _⟩ := wf_S f hf
  have h1 := (denorm_man f hf x).1
  have h2 := manOf_range f hf x hx.1
  unfold Norm
  omega

/-- **Error of `Float.from_decimal`** relative to the value `from_int` produced for the digit string
    (`x0`, assumed to hold `m` exactly — true for `|m| < 2^w`): after `n = |exp10| ≤ 100` steps and the
    closing `_normalise`, the stored value is within
    `1/2 + (65/64)²·(17/16)·n/128` ulp (multiplying, `exp10 ≥ 0`) resp.
    `1/2 + (65/64)²·(17/8)·n/128` ulp (dividing, `exp10 < 0`) of `m·10^exp10`. -/
theorem fromDecimal_err (f : Fmt) (hf : f.WF) (ht : TenOK f) (m e : Int) (x0 x : F)
    (h0 : fromInt f m = .ok x0) (hx0 : x0.Valid f) (hv0 : val f x0 = (m : Rat)) (hm : m ≠ 0)
    (hE : e.natAbs ≤ 100) (h : fromDecimal f m e = .ok x) (hxe : x.e ≠ 0) :
    (0 ≤ e → |val f x - (m : Rat) * 10 ^ e.toNat| ≤
        (1 / 2 + (65 / 64) ^ 2 * (17 / 16) * e.toNat / 128) * p2 ((x.e : Int) - f.bias)) ∧
    (e < 0 → |val f x - (m : Rat) * (1 / 10) ^ (-e).toNat| ≤
        (1 / 2 + (65 / 64) ^ 2 * (17 / 8) * (-e).toNat / 128) * p2 ((x.e : Int) - f.bias)) := by
  have hx0e : x0.e ≠ 0 := by
    intro h0e
    have : val f x0 = 0 := by unfold val; simp [h0e]
    rw [this] at hv0
    exact hm (by exact_mod_cast hv0.symm)
  have hd0 := denorm_norm f hf x0 hx0
  have hdv : dval f (denorm f x0) = (m : Rat) := by rw [dval_denorm f hf x0 hx0e, hv0]
  have hexp0 : (0 : Int) ≤ (denorm f x0).exp := by rw [(denorm_man f hf x0).2.1]; omega
  have hu := p2_pos ((x.e : Int) - f.bias)
  have hMpos : (0 : Rat) < f.denMask := by
    obtain ⟨hS, _, _, hdm, _⟩ := wf_S f hf
    have : 0 < f.denMask := by omega
    exact_mod_cast this
  unfold fromDecimal at h
  rw [if_neg hm, h0] at h
  simp only at h
  constructor
  · intro he
    rw [if_neg (by omega)] at h
    have hn : e.toNat ≤ 100 := by omega
    have hη : (17 : Rat) / (16 * f.denMask) = 17 / 16 / f.denMask := by rw [div_div]
    obtain ⟨c1, c2, c3, c4⟩ := near_chain f (mul10Den f) (17 / 16 / f.denMask) 10
      (fun d => Norm f d ∧ 0 ≤ d.exp) (div_nonneg (by norm_num) hMpos.le) (by norm_num)
      (fun d hd => by
        obtain ⟨a, b, c, dd⟩ := mul10_near f hf d hd.2 hd.1
        rw [hη] at dd
        exact ⟨⟨a, c⟩, b, dd⟩) e.toNat (denorm f x0) ⟨hd0, hexp0⟩
    obtain ⟨k1, k2⟩ := chain_const f hf (17 / 16) (by norm_num) (by norm_num) e.toNat hn
    have hfin := final_round f hf _ c1.1 x h hxe _ _ k1 c3 c4
    rw [c2] at hfin
    have hT : sgn (denorm f x0).neg * (10 ^ e.toNat * mag f (denorm f x0)) = (m : Rat) * 10 ^ e.toNat := by
      rw [← hdv]; unfold dval mag; ring
    rw [hT] at hfin
    refine le_trans hfin ?_
    apply mul_le_mul_of_nonneg_right _ hu.le
    linarith
  · intro he
    rw [if_pos he] at h
    have hn : (-e).toNat ≤ 100 := by omega
    have hη : (17 : Rat) / (8 * f.denMask) = 17 / 8 / f.denMask := by rw [div_div]
    obtain ⟨c1, c2, c3, c4⟩ := near_chain f (div10Den f) (17 / 8 / f.denMask) (1 / 10)
      (fun d => Norm f d) (div_nonneg (by norm_num) hMpos.le) (by norm_num)
      (fun d hd => by
        obtain ⟨a, b, dd⟩ := div10_near f hf ht d hd
        rw [hη, show mag f d / 10 = 1 / 10 * mag f d from by ring] at dd
        exact ⟨a, b, dd⟩) (-e).toNat (denorm f x0) hd0
    obtain ⟨k1, k2⟩ := chain_const f hf (17 / 8) (by norm_num) (by norm_num) (-e).toNat hn
    have hfin := final_round f hf _ c1 x h hxe _ _ k1 c3 c4
    rw [c2] at hfin
    have hT : sgn (denorm f x0).neg * ((1 / 10) ^ (-e).toNat * mag f (denorm f x0)) =
        (m : Rat) * (1 / 10) ^ (-e).toNat := by
      rw [← hdv]; unfold dval mag; ring
    rw [hT] at hfin
    refine le_trans hfin ?_
    apply mul_le_mul_of_nonneg_right _ hu.le
    linarith


theorem exists_shift_pow : ∀ (j a : Nat), 0 < a → a < 2 ^ (j + 1) →
    ∃ k, k ≤ j ∧ 2 ^ j ≤ a * 2 ^ k ∧ a * 2 ^ k < 2 ^ (j + 1) := by
  intro j
  induction j with
  | zero => intro a h1 h2; exact ⟨0, by omega, by simp; omega, by simpa using h2⟩
  | succ j ih =>
    intro a h1 h2
    by_cases h : 2 ^ (j + 1) ≤ a
    · exact ⟨0, by omega, by simpa using h, by simpa using h2⟩
    · obtain ⟨k, hk, b1, b2⟩ := ih a h1 (by omega)
      refine ⟨k + 1, by omega, ?_, ?_⟩
      · rw [Nat.pow_succ, Nat.pow_succ 2 k]; nlinarith
      · rw [Nat.pow_succ 2 (j + 1), Nat.pow_succ 2 k]; nlinarith

/-- `from_int` is exact for a non-zero digit string that fits the mantissa (same fact as
    `PcbV.Mbf.fromInt_exact` of C03/C06, re-proved here on the C05 lemma base, which this file shares) -/
theorem fromInt_exact_val (f : Fmt) (hf : f.WF) (hb : f.bias ≤ 255) (m : Int) (hm : m ≠ 0)
    (hlt : m.natAbs < 2 ^ f.w) : ∃ x0, fromInt f m = .ok x0 ∧ x0.Valid f ∧ val f x0 = (m : Rat) := by
  obtain ⟨hS, _, _, _, _, hw, _, hbias⟩ := wf_S f hf
  have hsm : f.signMask = 2 ^ (f.w - 1) := hf.2.2.2.2.2.1
  have hw8 : 8 ≤ f.w := hf.1
  have hpos : 0 < m.natAbs := by omega
  obtain ⟨k, hk, b1, b2⟩ := exists_shift_pow (f.w - 1) m.natAbs hpos
    (by rw [show f.w - 1 + 1 = f.w from by omega]; exact hlt)
  rw [← hsm] at b1
  have b2' : m.natAbs * 2 ^ k < 2 * f.signMask := by
    rw [show f.w - 1 + 1 = f.w from by omega, hw] at b2; exact b2
  have hshape := fromInt_shape f hf m k hm b1 b2' (by omega) (by omega) (by omega)
  have he : f.bias - k ≠ 0 := by omega
  obtain ⟨p1, _, _⟩ := packMan_props f hf (m.natAbs * 2 ^ k) (decide (m < 0)) (f.bias - k) b1 b2'
  refine ⟨_, hshape, ⟨p1, by show f.bias - k < 256; omega⟩, ?_⟩
  rw [val_packed f hf _ _ _ he b1 b2']
  have hp : p2 (((f.bias - k : Nat) : Int) - f.bias) * (2 : Rat) ^ k = 1 := by
    rw [← p2_nat k, ← p2_add]
    have : ((f.bias - k : Nat) : Int) - f.bias + k = 0 := by omega
    rw [this]; unfold p2; simp
  have habs : sgn (decide (m < 0)) * (m.natAbs : Rat) = (m : Rat) := by
    rw [Nat.cast_natAbs, Int.cast_abs]
    by_cases hneg : m < 0
    · have : (m : Rat) < 0 := by exact_mod_cast hneg
      simp only [hneg, decide_true, sgn, if_true, abs_of_neg this]; ring
    · have : (0 : Rat) ≤ m := by exact_mod_cast (by omega : 0 ≤ m)
      simp only [hneg, decide_false, sgn, Bool.false_eq_true, if_false, abs_of_nonneg this]; ring
  calc sgn (decide (m < 0)) * ((m.natAbs * 2 ^ k : Nat) : Rat) * p2 (((f.bias - k : Nat) : Int) - f.bias)
        = sgn (decide (m < 0)) * (m.natAbs : Rat) * (p2 (((f.bias - k : Nat) : Int) - f.bias) * (2 : Rat) ^ k) := by
          push_cast; ring
    _ = (m : Rat) := by rw [hp, habs]; ring


/-! ### the two loops of `to_decimal` are iterations of the same steps -/

theorem divLoop10_iter (f : Fmt) (t : Den) : ∀ (fuel : Nat) (d : Den) (e : Int) (r : Den × Int),
    divLoop10 f t fuel d e = some r → ∃ k : Nat, r.1 = iter (div10Den f) k d ∧ r.2 = e + k := by
  intro fuel
  induction fuel with
  | zero => intro d e r h; simp [divLoop10] at h
  | succ n ih =>
    intro d e r h
    unfold divLoop10 at h
    by_cases hg : absGtDen d t = true
    · simp only [hg, if_true] at h
      obtain ⟨k, h1, h2⟩ := ih _ _ r h
      exact ⟨k + 1, h1, by rw [h2]; push_cast; omega⟩
    · simp only [hg, Bool.false_eq_true, if_false, Option.some.injEq] at h
      subst h
      exact ⟨0, rfl, by simp⟩

theorem mulLoop10_iter (f : Fmt) (b : Den) : ∀ (fuel : Nat) (d : Den) (e : Int) (r : Den × Int),
    mulLoop10 f b fuel d e = some r → ∃ k : Nat, r.1 = iter (mul10Den f) k d ∧ r.2 = e - k := by
  intro fuel
  induction fuel with
  | zero => intro d e r h; simp [mulLoop10] at h
  | succ n ih =>
    intro d e r h
    unfold mulLoop10 at h
    by_cases hg : absGtDen b d = true
    · simp only [hg, if_true] at h
      obtain ⟨k, h1, h2⟩ := ih _ _ r h
      exact ⟨k + 1, h1, by rw [h2]; push_cast; omega⟩
    · simp only [hg, Bool.false_eq_true, if_false, Option.some.injEq] at h
      subst h
      exact ⟨0, rfl, by simp⟩

end PcbV.Decimal
