import PcbV.Model.Viewport
/-
  Model of the integer drawing primitives of `pcbasic/basic/display/graphics.py: Graphics`:
  each primitive is the list of `graph_view[yi, xi] = attr` calls it issues, in order
  (`_draw_line` with the Bresenham loop as coded, `_draw_straight`, `_draw_box`, `_draw_box_filled`,
  `_draw_circle` / `_draw_ellipse` for full circles/ellipses, the interval write of `_flood_fill`,
  `put_`, `_set_view`).  Attributes are not modelled (they do not influence which cells are written);
  line styles are (`pattern`, 16-bit, `mask` walks from 0x8000 down).
  WINDOW scaling and the CIRCLE front end (aspect, arcs) use host floats and are not modelled.
  Shared with C31/C32.
-/
namespace PcbV.Draw
open PcbV PcbV.Viewport

abbrev Ops := List SetItem

def nextMask (mask : Nat) : Nat := if mask / 2 == 0 then 0x8000 else mask / 2

def patOn (pattern mask : Nat) : Bool := pattern &&& mask != 0

/-! ### LINE -/

/-- the Bresenham loop of `_draw_line`: `n` iterations left, running coordinate `x`, other `y` -/
def lineLoop (steep : Bool) (pattern : Nat) (sx sy dx dy : Int) :
    Nat → Int → Int → Nat → Int → Ops
  | 0, _, _, _, _ => []
  | n + 1, x, y, mask, err =>
    let ops := if patOn pattern mask then
        -- steep: `graph_view[x, y]`, i.e. the point (y, x)
        [if steep then SetItem.pixel y x else SetItem.pixel x y] else []
    let mask := nextMask mask
    let err := err - dy
    let y' := if err < 0 then y + sy else y
    let err' := if err < 0 then err + dx else err
    ops ++ lineLoop steep pattern sx sy dx dy n (x + sx) y' mask err'

/-- `_draw_line(x0, y0, x1, y1, attr, pattern)` -/
def drawLine (v : View) (x0 y0 x1 y1 : Int) (pattern : Nat := 0xffff) : Ops :=
  let (x0, y0) := v.cutoffCoord x0 y0
  let (x1, y1) := v.cutoffCoord x1 y1
  -- work from top to bottom, or from x1,y1 if at the same height
  let (x0, y0, x1, y1) := if y1 ≤ y0 then (x1, y1, x0, y0) else (x0, y0, x1, y1)
  let dx := (x1 - x0).natAbs
  let dy := (y1 - y0).natAbs
  let steep := decide (dy > dx)
  let (x0, y0, x1, y1) := if steep then (y0, x0, y1, x1) else (x0, y0, x1, y1)
  let (dx, dy) := if steep then (dy, dx) else (dx, dy)
  let sx : Int := if x1 > x0 then 1 else -1
  let sy : Int := if y1 > y0 then 1 else -1
  -- `range(x0, x1+sx, sx)` has |x1-x0|+1 elements
  lineLoop steep pattern sx sy dx dy ((x1 - x0).natAbs + 1) x0 y0 0x8000 ((dx : Int) / 2)

/-! ### boxes -/

/-- loop of `_draw_straight`: `n` points left at running coordinate `p`; returns ops and the mask -/
def straightLoop (dirX : Bool) (pattern : Nat) (q sp : Int) : Nat → Int → Nat → Ops × Nat
  | 0, _, mask => ([], mask)
  | n + 1, p, mask =>
    let ops := if patOn pattern mask then
        [if dirX then SetItem.pixel p q else SetItem.pixel q p] else []
    let r := straightLoop dirX pattern q sp n (p + sp) (nextMask mask)
    (ops ++ r.1, r.2)

/-- `_draw_straight(x0, y0, x1, y1, attr, pattern, mask)` -/
def drawStraight (x0 y0 x1 y1 : Int) (pattern mask : Nat) : Ops × Nat :=
  let dirX := decide (x0 ≠ x1)
  let (p0, p1, q) := if x0 = x1 then (y0, y1, x0) else (x0, x1, y0)
  let sp : Int := if p1 > p0 then 1 else -1
  straightLoop dirX pattern q sp ((p1 - p0).natAbs + 1) p0 mask

/-- `_draw_box` -/
def drawBox (v : View) (x0 y0 x1 y1 : Int) (pattern : Nat := 0xffff) : Ops :=
  let (x0, y0) := v.cutoffCoord x0 y0
  let (x1, y1) := v.cutoffCoord x1 y1
  let r1 := drawStraight x1 y1 x0 y1 pattern 0x8000
  let r2 := drawStraight x1 y0 x0 y0 pattern r1.2
  -- verticals always drawn top to bottom
  let (y0, y1) := if y0 < y1 then (y1, y0) else (y0, y1)
  let r3 := drawStraight x1 y1 x1 y0 pattern r2.2
  let r4 := drawStraight x0 y1 x0 y0 pattern r3.2
  r1.1 ++ r2.1 ++ r3.1 ++ r4.1

/-- `_draw_box_filled`: one slice assignment `graph_view[y0:y1+1, x0:x1+1]` -/
def drawBoxFilled (v : View) (x0 y0 x1 y1 : Int) : Ops :=
  let (x0, y0) := v.cutoffCoord x0 y0
  let (x1, y1) := v.cutoffCoord x1 y1
  let (y0, y1) := if y1 < y0 then (y1, y0) else (y0, y1)
  let (x0, x1) := if x1 < x0 then (x1, x0) else (x0, x1)
  [⟨.slice (some y0) (some (y1 + 1)), .slice (some x0) (some (x1 + 1))⟩]

/-! ### CIRCLE (integer back end, full circle / ellipse) -/

/-- `_octant_coord` for octants 0..7 in the order of the code's loop -/
def octantPixels (x0 y0 x y : Int) : Ops :=
  [ SetItem.pixel (x0 + x) (y0 - y),   -- 0
    SetItem.pixel (x0 + y) (y0 - x),   -- 1
    SetItem.pixel (x0 - y) (y0 - x),   -- 2
    SetItem.pixel (x0 - x) (y0 - y),   -- 3
    SetItem.pixel (x0 - x) (y0 + y),   -- 4
    SetItem.pixel (x0 - y) (y0 + x),   -- 5
    SetItem.pixel (x0 + y) (y0 + x),   -- 6
    SetItem.pixel (x0 + x) (y0 + y) ]  -- 7

/-- the `while x >= y` loop of `_draw_circle` with no hidden octants -/
def circleLoop (x0 y0 : Int) : Nat → Int → Int → Int → Ops
  | 0, _, _, _ => []
  | fuel + 1, x, y, e =>
    if x ≥ y then
      let y' := y + 1
      let x' := if e < 0 then x else x - 1
      let e' := if e < 0 then e + (2 * y' + 1) else e + 2 * (y' - x' + 1)
      octantPixels x0 y0 x y ++ circleLoop x0 y0 fuel x' y' e'
    else []

/-- `_draw_circle(x0, y0, r, attr)` (whole circle); the loop runs at most `r+1` times -/
def drawCircle (x0 y0 r : Int) : Ops :=
  circleLoop x0 y0 (r.toNat + 2) r 0 (1 - r)

def quadrantPixels (cx cy x y : Int) : Ops :=
  [ SetItem.pixel (cx + x) (cy - y),   -- 0
    SetItem.pixel (cx - x) (cy - y),   -- 1
    SetItem.pixel (cx - x) (cy + y),   -- 2
    SetItem.pixel (cx + x) (cy + y) ]  -- 3

/-- main loop of `_draw_ellipse`; returns the ops and the final `y` (none: fuel exhausted) -/
def ellipseLoop (cx cy ddx ddy : Int) : Nat → Int → Int → Int → Int → Int → Ops × Option Int
  | 0, _, _, _, _, _ => ([], none)
  | fuel + 1, x, y, dx, dy, err =>
    let ops := quadrantPixels cx cy x y
    let e2 := 2 * err
    let c1 := decide (e2 ≤ dy)
    let y1 := if c1 then y + 1 else y
    let dy1 := if c1 then dy + ddy else dy
    let err1 := if c1 then err + dy1 else err
    let c2 := decide (e2 ≥ dx ∨ e2 > dy1)
    let x2 := if c2 then x - 1 else x
    let dx2 := if c2 then dx + ddx else dx
    let err2 := if c2 then err1 + dx2 else err1
    if x2 < 0 then (ops, some y1)
    else
      let r := ellipseLoop cx cy ddx ddy fuel x2 y1 dx2 dy1 err2
      (ops ++ r.1, r.2)

/-- "finish tip of ellipse" loop -/
def tipLoop (cx cy ry : Int) : Nat → Int → Ops
  | 0, _ => []
  | n + 1, y =>
    if y < ry then [SetItem.pixel cx (cy + y), SetItem.pixel cx (cy - y)] ++ tipLoop cx cy ry n (y + 1)
    else []

/-- `_draw_ellipse(cx, cy, rx, ry, attr)` (whole ellipse); `none` if `fuel` did not suffice -/
def drawEllipse (cx cy rx ry : Int) (fuel : Nat) : Option Ops :=
  let dx := 16 * (1 - 2 * rx) * ry * ry
  let dy := 16 * rx * rx
  let ddy := 32 * rx * rx
  let ddx := 32 * ry * ry
  let r := ellipseLoop cx cy ddx ddy fuel rx 0 dx dy (dx + dy)
  match r.2 with
  | none => none
  | some y => some (r.1 ++ tipLoop cx cy ry (ry - y).toNat y)

/-! ### PSET, PAINT interval, PUT -/

/-- `_pset_preset` back end -/
def pset (x y : Int) : Ops := [SetItem.pixel x y]

/-- `_flood_fill`: `graph_view[y, x_left:x_right+1] = …` -/
def fillInterval (y xLeft xRight : Int) : Ops :=
  [⟨.int y, .slice (some xLeft) (some (xRight + 1))⟩]

/-- `put_` after the sprite has been unpacked to `w × h` pixels at physical (x0, y0):
    the whole sprite must fit, else Illegal function call -/
def put (v : View) (x0 y0 w h : Int) : R Ops :=
  let x1 := x0 + w - 1
  let y1 := y0 + h - 1
  if ¬ v.contains x0 y0 then .error ifc
  else if ¬ v.contains x1 y1 then .error ifc
  else .ok [⟨.slice (some y0) (some (y1 + 1)), .slice (some x0) (some (x1 + 1))⟩]

/-- size (columns, rows) of the matrix range that `graph_view[yi, xi] = sprite` assigns to.  `ByteMatrix.__setitem__`
    slice-assigns each sprite row to that column range, so a range narrower than the sprite makes the pixel row
    grow (everything right of it is shifted) - the sprite must be exactly as large as its target. -/
def targetSize (v : View) (op : SetItem) : Int × Int :=
  let r := v.writeRect op.yi op.xi
  (r.1.2 - r.1.1, r.2.2 - r.2.1)

/-- `put_` with the fit test made on a size `(wc, hc)` other than the size `(w, h)` of the sprite that is then
    written (not the code of /repo - a seeded change tested the size record of the array, which in Tandy/PCjr
    SCREEN 6 holds half the width of the sprite that `unpack` builds) -/
def putChecked (v : View) (x0 y0 wc hc w h : Int) : R Ops :=
  if ¬ v.contains x0 y0 then .error ifc
  else if ¬ v.contains (x0 + wc - 1) (y0 + hc - 1) then .error ifc
  else .ok [⟨.slice (some y0) (some (y0 + h - 1 + 1)), .slice (some x0) (some (x0 + w - 1 + 1))⟩]

/-! ### VIEW -/

/-- `view_` + `_set_view` with explicit coordinates on a `W × H` mode: range checks, then fill and
    border are drawn with the viewport unset, then the new viewport is set.
    Result: the ops (relative to the *unset* viewport) and the new viewport. -/
def viewStmt (v : View) (x0 y0 x1 y1 : Int) (absolute hasFill hasBorder : Bool) : R (Ops × View) :=
  if ¬ (0 ≤ x0 ∧ x0 ≤ v.W - 1 ∧ 0 ≤ x1 ∧ x1 ≤ v.W - 1) then .error ifc
  else if ¬ (0 ≤ y0 ∧ y0 ≤ v.H - 1 ∧ 0 ≤ y1 ∧ y1 ≤ v.H - 1) then .error ifc
  else if x0 = x1 ∨ y0 = y1 then .error ifc
  else
    let u := v.unset
    let fill := if hasFill then drawBoxFilled u x0 y0 x1 y1 else []
    let border := if hasBorder then drawBox u (x0 - 1) (y0 - 1) (x1 + 1) (y1 + 1) else []
    .ok (fill ++ border, u.set x0 y0 x1 y1 absolute)

/-! ### pages and the statement front end -/

/-- the pixel contents of one page: attribute at column x, row y -/
abbrev Page := Int → Int → Nat

/-- effect of `graph_view[yi, xi] = attr` on the page the viewport points at -/
def applyOp (v : View) (attr : Nat) (pg : Page) (op : SetItem) : Page :=
  fun x y => if v.written op.yi op.xi x y then attr else pg x y

def applyOps (v : View) (attr : Nat) (pg : Page) (ops : Ops) : Page :=
  ops.foldl (applyOp v attr) pg

/-- the part of the display state the property talks about -/
structure Screen where
  textMode : Bool
  numPages : Nat
  /-- `display.apagenum`: the active page -/
  apage : Nat
  /-- the page whose pixel matrix `graph_view._pixels` points at (set by `GraphicsViewPort.set_page`) -/
  gvPage : Nat
  view : View
  pages : Nat → Page

/-- the integer-level graphics statements -/
inductive Stmt where
  | pset (x y : Int)
  | line (x0 y0 x1 y1 : Int) (pattern : Nat)
  | box (x0 y0 x1 y1 : Int) (pattern : Nat)
  | boxFilled (x0 y0 x1 y1 : Int)
  | circle (x y r : Int)
  | ellipse (x y rx ry : Int) (fuel : Nat)
  /-- the interval write of PAINT -/
  | fill (y xl xr : Int)
  | put (x y w h : Int)
  | view (x0 y0 x1 y1 : Int) (absolute hasFill hasBorder : Bool)
  | viewOff
  /-- `SCREEN ,,apage` -/
  | setPage (n : Nat)
  /-- `SCREEN m[,,apage]` into another video mode (text or graphics, `W × H` pixels, `numPages` pages);
      `apage = none`: the page arguments are omitted and the active page number is kept -/
  | setMode (text : Bool) (W H : Int) (numPages : Nat) (apage : Option Nat)

def Stmt.isGraphics : Stmt → Bool
  | .setPage _ => false
  | .setMode _ _ _ _ _ => false
  | _ => true

def Stmt.isModeSwitch : Stmt → Bool
  | .setMode _ _ _ _ _ => true
  | _ => false

/-- ops issued by a drawing statement under the current viewport -/
def Stmt.ops (v : View) : Stmt → R Ops
  | .pset x y => .ok (Draw.pset x y)
  | .line a b c d p => .ok (drawLine v a b c d p)
  | .box a b c d p => .ok (drawBox v a b c d p)
  | .boxFilled a b c d => .ok (drawBoxFilled v a b c d)
  | .circle x y r => .ok (drawCircle x y r)
  | .ellipse x y rx ry fuel => .ok ((drawEllipse x y rx ry fuel).getD [])
  | .fill y xl xr => .ok (fillInterval y xl xr)
  | .put x y w h => Draw.put v x y w h
  | _ => .ok []

def setPg (pages : Nat → Page) (n : Nat) (pg : Page) : Nat → Page :=
  fun i => if i = n then pg else pages i

/-- drawing goes through the viewport to the page it points at -/
def drawTo (s : Screen) (v : View) (attr : Nat) (ops : Ops) : Nat → Page :=
  setPg s.pages s.gvPage (applyOps v attr (s.pages s.gvPage) ops)

/-- one statement: the text-mode test comes first (every graphics statement starts with it) -/
def step (s : Screen) (attr : Nat) : Stmt → R Screen
  | .setPage n =>
    -- `Display.set_page` → `Graphics.set_page` → `GraphicsViewPort.set_page`
    if n ≥ s.numPages then .error ifc else .ok { s with apage := n, gvPage := n }
  | .view x0 y0 x1 y1 a f b =>
    if s.textMode then .error ifc else
    match viewStmt s.view x0 y0 x1 y1 a f b with
    | .error e => .error e
    | .ok (ops, v') => .ok { s with view := v', pages := drawTo s s.view.unset attr ops }
  | .viewOff => if s.textMode then .error ifc else .ok { s with view := s.view.unset }
  | .setMode t w h np a =>
    -- `Display.screen` → `_set_mode`: new (erased) pages; `Graphics.init_mode` builds a fresh viewport on page 0 of
    -- the new pages, then `Display.set_page` → `Graphics.set_page` points it at the active page, which is the
    -- one given or else the one that was active (too high a page number: Illegal function call; the PCjr
    -- fallback to page 0 is not modelled)
    let a' := a.getD s.apage
    if a' ≥ np ∨ w < 1 ∨ h < 1 then .error ifc
    else .ok { textMode := t, numPages := np, apage := a', gvPage := a', view := View.full w h,
               pages := fun _ _ _ => 0 }
  | st =>
    if s.textMode then .error ifc else
    match st.ops s.view with
    | .error e => .error e
    | .ok ops => .ok { s with pages := drawTo s s.view attr ops }

/-- a history: statements that raise an error leave the state as it was -/
def run (s : Screen) (attr : Nat) : List Stmt → Screen
  | [] => s
  | st :: rest =>
    match step s attr st with
    | .ok s' => run s' attr rest
    | .error _ => run s attr rest

/-! ### statements that fail: VIEW with its attribute arguments, as the sequence of effects of the code -/

/-- `error.range_check(0, 255, attr)`; an omitted argument passes -/
def attrOk : Option Int → Bool
  | none => true
  | some a => decide (0 ≤ a ∧ a ≤ 255)

/-- `view_` + `_set_view` with the fill and border attribute *values*: the state reached and the error raised, if
    any.  Order of the code: text-mode test, coordinate range checks, attribute range checks - all before the
    first effect - then `graph_view.unset()`, fill box, border box, `graph_view.set(...)`. -/
def viewExec (s : Screen) (attr : Nat) (x0 y0 x1 y1 : Int) (absolute : Bool) (fill border : Option Int) :
    Screen × Option Nat :=
  if s.textMode then (s, some ifc)
  else if ¬ (0 ≤ x0 ∧ x0 ≤ s.view.W - 1 ∧ 0 ≤ x1 ∧ x1 ≤ s.view.W - 1) then (s, some ifc)
  else if ¬ (0 ≤ y0 ∧ y0 ≤ s.view.H - 1 ∧ 0 ≤ y1 ∧ y1 ≤ s.view.H - 1) then (s, some ifc)
  else if x0 = x1 ∨ y0 = y1 then (s, some ifc)
  else if ¬ attrOk fill then (s, some ifc)
  else if ¬ attrOk border then (s, some ifc)
  else
    let u := s.view.unset
    let s1 := { s with view := u }
    let s2 := if fill.isSome then { s1 with pages := drawTo s1 u attr (drawBoxFilled u x0 y0 x1 y1) } else s1
    let s3 := if border.isSome then
        { s2 with pages := drawTo s2 u attr (drawBox u (x0 - 1) (y0 - 1) (x1 + 1) (y1 + 1)) } else s2
    ({ s3 with view := u.set x0 y0 x1 y1 absolute }, none)

/-- the same statement with the attribute checks made lazily inside `_set_view`, each right before its box is
    drawn, i.e. after `graph_view.unset()` (not the code of /repo - a seeded reordering): an attribute outside
    0..255 still raises Illegal function call, but the viewport has been dropped (and a valid fill already drawn) -/
def viewExecLazy (s : Screen) (attr : Nat) (x0 y0 x1 y1 : Int) (absolute : Bool) (fill border : Option Int) :
    Screen × Option Nat :=
  if s.textMode then (s, some ifc)
  else if ¬ (0 ≤ x0 ∧ x0 ≤ s.view.W - 1 ∧ 0 ≤ x1 ∧ x1 ≤ s.view.W - 1) then (s, some ifc)
  else if ¬ (0 ≤ y0 ∧ y0 ≤ s.view.H - 1 ∧ 0 ≤ y1 ∧ y1 ≤ s.view.H - 1) then (s, some ifc)
  else if x0 = x1 ∨ y0 = y1 then (s, some ifc)
  else
    let u := s.view.unset
    let s1 := { s with view := u }
    if ¬ attrOk fill then (s1, some ifc) else
    let s2 := if fill.isSome then { s1 with pages := drawTo s1 u attr (drawBoxFilled u x0 y0 x1 y1) } else s1
    if ¬ attrOk border then (s2, some ifc) else
    let s3 := if border.isSome then
        { s2 with pages := drawTo s2 u attr (drawBox u (x0 - 1) (y0 - 1) (x1 + 1) (y1 + 1)) } else s2
    ({ s3 with view := u.set x0 y0 x1 y1 absolute }, none)

/-- the statement alphabet with results "state reached, error raised": the statements of `step` (whose errors are all
    raised by checks that precede the first effect) and VIEW with attribute values -/
inductive Op where
  | stmt (st : Stmt)
  | viewAttr (x0 y0 x1 y1 : Int) (absolute : Bool) (fill border : Option Int)

def exec (s : Screen) (attr : Nat) : Op → Screen × Option Nat
  | .stmt st =>
    match step s attr st with
    | .ok s' => (s', none)
    | .error e => (s, some e)
  | .viewAttr x0 y0 x1 y1 a f b => viewExec s attr x0 y0 x1 y1 a f b

/-- a history of such statements; the session goes on after an error with the state the failing statement left -/
def execAll (s : Screen) (attr : Nat) : List Op → Screen
  | [] => s
  | op :: rest => execAll (exec s attr op).1 attr rest

/-- a mode switch in which `Graphics.set_page` is skipped when the requested page equals the remembered active
    page number ("nothing to do"): the fresh viewport of `init_mode` then stays on page 0.  Not the code of
    /repo - a plausible shortcut, kept to show why `set_page` must run unconditionally after `init_mode`. -/
def setModeShortcut (s : Screen) (t : Bool) (w h : Int) (np : Nat) (a : Option Nat) : R Screen :=
  let a' := a.getD s.apage
  if a' ≥ np ∨ w < 1 ∨ h < 1 then .error ifc
  else .ok { textMode := t, numPages := np, apage := a', gvPage := if a' = s.apage then 0 else a',
             view := View.full w h, pages := fun _ _ _ => 0 }

/-! ### the code before the repairs (for the counterexample theorems) -/

/-- `_set_view` before the repair: an omitted fill / border went through `_get_attr_index(None) = 0`
    and was then drawn with attribute 0 -/
def viewStmtOld (v : View) (x0 y0 x1 y1 : Int) (absolute _hasFill _hasBorder : Bool) : R (Ops × View) :=
  viewStmt v x0 y0 x1 y1 absolute true true

/-- `SCREEN ,,n` before the repair: `GraphicsViewPort.set_page` asserted that the page is as large as the
    viewport *rectangle*; with a smaller VIEW the AssertionError escaped after `apagenum` had been set, and
    the viewport kept pointing at the old page -/
def setPageOld (s : Screen) (n : Nat) : R Screen :=
  if n ≥ s.numPages then .error ifc
  else if s.view.width = s.view.W ∧ s.view.height = s.view.H then .ok { s with apage := n, gvPage := n }
  else .ok { s with apage := n }

end PcbV.Draw
