import PcbV.Model.Rnd
namespace PcbV.Drv.C39
open PcbV PcbV.Rnd

/-
  Requests:
    hist <op;op;…>     ops: `n` RND | `f<8 hex>` RND(single bytes) | `z<4|8|16 hex>` RANDOMIZE bytes | `c` reset;
                       an op prefixed with `q` is applied but not reported
                       reply: ok <seed>[:<value bytes hex>],…   ("-" if nothing is reported)
    from <seed> <ops>  the same, starting from an arbitrary state
    key <hex>          RANDOMIZE key of a byte string
    val <seed>         bytes of the value returned for a state
    orbit <seed> <n>   state after n steps and rolling hash of the n visited states
    consts             the generated constants
-/

def parseOp (w : String) : Option (Bool × Op) :=
  let (quiet, cs) := match w.toList with
    | 'q' :: r => (true, r)
    | r => (false, r)
  match cs with
  | ['n'] => some (quiet, .rnd none)
  | ['c'] => some (quiet, .clear)
  | 'f' :: r =>
    match ofHex (String.ofList r) with
    | some b => if b.length = 4 then some (quiet, .rnd (some b)) else none
    | none => none
  | 'z' :: r =>
    match ofHex (String.ofList r) with
    | some b => if b.length = 2 ∨ b.length = 4 ∨ b.length = 8 then some (quiet, .randomize b) else none
    | none => none
  | _ => none

def parseOps (w : String) : Option (List (Bool × Op)) :=
  if w == "-" then some [] else (w.splitOn ";").mapM parseOp

def showEntry : Nat × Option Bytes → String
  | (s, none) => toString s
  | (s, some v) => toString s ++ ":" ++ toHex v

def history (s : Nat) (w : String) : String :=
  match parseOps w with
  | none => "bad-op"
  | some qops =>
    let tr := trace s (qops.map (·.2))
    let shown := (qops.zip tr).filterMap fun (q, e) => if q.1 then none else some (showEntry e)
    "ok " ++ (if shown.isEmpty then "-" else ",".intercalate shown)

def handle : List String → String
  | ["hist", w] => history clearSeed w
  | ["from", s, w] =>
    match s.toNat? with
    | some s => history s w
    | none => "bad-op"
  | ["key", h] =>
    match ofHex h with
    | some b => "ok " ++ toString (reseedKey b)
    | none => "bad-op"
  | ["val", s] =>
    match s.toNat? with
    | some s => "ok " ++ toHex (resultBytes s)
    | none => "bad-op"
  | ["orbit", s, n] =>
    match s.toNat?, n.toNat? with
    | some s, some n => let r := orbitHash n s 0; "ok " ++ toString r.1 ++ " " ++ toString r.2
    | _, _ => "bad-op"
  | ["consts"] =>
    "ok " ++ showNats [Gen.Rnd.multiplier, Gen.Rnd.increment, Gen.Rnd.period, Gen.Rnd.step, Gen.Rnd.initSeed]
  | _ => "bad-op"

end PcbV.Drv.C39
