"""C27 — BASIC file access stays inside the mounted drives."""
import builtins
import contextlib
import errno
import io
import ntpath
import os
import shutil
import tempfile

from vlib import basic

LEVEL = 'proof'
RULE = ('path strings built from a token alphabet (drive letters incl. unmounted/invalid, backslashes, slashes, ".", "..", '
        'dot-dot followed by blank/tab, wildcards, long / lower-case / non-ASCII / NUL names, UNC and \\\\?\\ \\\\.\\ prefixes, '
        'names of the sentinels outside the mount) crossed with every file statement (OPEN in each mode, KILL, NAME, MKDIR, '
        'RMDIR, CHDIR, FILES, BLOAD, BSAVE, LOAD, SAVE, MERGE, CHAIN, RUN) after a CHDIR history of length 0..4, on a temp '
        'tree with sentinel files beside and above the two mount roots; a case = one (history, statement, path[, path2]); '
        'non-trivial = the path is non-empty; plus random byte strings for ntpath.normpath/split and device-name strings')
EXPLANATION = ('theorems (PcbV.Props.C27): every component returned by the resolution functions is neither "." nor ".." and '
               'contains no separator, for every file system, cwd history and byte string; hence the resolved host path never '
               'rises above the mount root at any prefix (also for an arbitrary function in place of ntpath.normpath); '
               'only a single drive letter with a mount directory resolves at all; counterexamples on the '
               'model of the unrepaired code.  correspondence: ntpath.normpath/split, Files._get_diskdevice_and_path, '
               'DiskDevice._get_native_reldir/_get_native_abspath/_split_pathmask/chdir of a real Session on a real temp '
               'tree compared with the Lean model.  oracle: in-process monitor of every host file-system call made while a '
               'statement executes: each path argument must realpath into a mount root, sentinels outside must be '
               'unchanged, sentinel names/contents must not show up in the output')
TRUSTED_BASE = ['models PcbV.Model.DosNames / PcbV.Model.Paths: hand transcription of disk.py name and path resolution, '
                'files.py device selection and CPython 3.12 ntpath.splitroot/split/normpath (pure-Python versions)',
                'the host file system is a parameter of the model (isDir/isFile/listdir on component lists); '
                'os.path.join/abspath are modelled on split paths']
ASSUMPTIONS = ['no symbolic links inside the mounted directories (a link is followed by the host OS, not by pcbasic)',
               'POSIX host: the only special path components are "", ".", ".." and the only separator is "/"',
               'default code page (437): bytes_to_unicode maps only 0x2E to "." and only 0x2F to "/" (proved of the '
               'regenerated table)',
               'devices are mounted by the embedding program only (Session(devices=...)); SHELL is not a file statement']

MARK_TXT = b'SECRET-MARKER-C27'
MARK_BAS = b'LEAKED-PROGRAM-C27'

# ---------------------------------------------------------------------------------------------
# temp tree


MOUNT_C_DIRS = ['SUB', 'SUB/DEEP', 'A B', 'LongDirectoryName', 'X.', 'lower', '.hid', 'SUB/.. ', '. ', u'\xc4\xd6',
                'SUB ', 'EMPTY']
MOUNT_C_FILES = ['IN.TXT', 'PROG.BAS', 'lower.bas', 'SUB/F.TXT', 'SUB/DEEP/G.DAT', 'LongFileName.txt', 'NOEXT', 'X',
                 'DOT.', '.hidden', u'\xc4\xd6.TXT', 'SUB/DEEP/P.BAS', 'a b.txt', 'SUB/INSIDE.TXT', 'LONGFILE.TXT']
MOUNT_D_DIRS = ['DD']
MOUNT_D_FILES = ['D.TXT', 'DD/E.BAS']
# relative to top; everything here is OUTSIDE the mounts
SENTINEL_DIRS = ['x/SIBLING', 'y/YSIB']
SENTINEL_FILES = ['SENTTOP.TXT', 'SENTTOP.BAS', 'x/OUTSIDE.TXT', 'x/OUTSIDE.BAS', 'x/OUTSIDE', 'x/SIBLING/S.TXT',
                  'y/OUTY.TXT', 'x/IN.TXT', 'x/PROG.BAS']


def _content(rel):
    if rel.upper().endswith('.BAS'):
        return b'10 PRINT "' + MARK_BAS + b'"\r\n'
    return MARK_TXT + b' ' + rel.encode('utf-8') + b'\r\n'


def _inside_content(rel):
    if rel.upper().endswith('.BAS'):
        return b'10 REM inside\r\n'
    return b'inside ' + rel.encode('utf-8') + b'\r\n'


class Tree(object):
    """top/x/mount = C:, top/y/m2 = D:, sentinels beside and above; built under the system temp dir."""

    def __init__(self):
        self.top = os.path.realpath(tempfile.mkdtemp(prefix='pcbv_c27_'))
        self.mount_c = os.path.join(self.top, 'x', 'mount')
        self.mount_d = os.path.join(self.top, 'y', 'm2')
        os.makedirs(os.path.join(self.top, 'x'))
        os.makedirs(os.path.join(self.top, 'y'))
        self.build_outside()
        self.build_mounts()
        self.mount_state = self.mount_snapshot()

    def build_outside(self):
        """(re)create the sentinels; everything else outside the mounts is removed"""
        keep = {os.path.join(self.top, 'x'), os.path.join(self.top, 'y'), self.mount_c, self.mount_d}
        for base in (self.top, os.path.join(self.top, 'x'), os.path.join(self.top, 'y')):
            for n in os.listdir(base):
                p = os.path.join(base, n)
                if p in keep:
                    continue
                if os.path.isdir(p) and not os.path.islink(p):
                    shutil.rmtree(p)
                else:
                    os.remove(p)
        for d in SENTINEL_DIRS:
            os.makedirs(os.path.join(self.top, d))
        for f in SENTINEL_FILES:
            with open(os.path.join(self.top, f), 'wb') as h:
                h.write(_content(f))
        self.sentinel_state = self.outside_snapshot()

    def build_mounts(self):
        for root, dirs, files in ((self.mount_c, MOUNT_C_DIRS, MOUNT_C_FILES), (self.mount_d, MOUNT_D_DIRS, MOUNT_D_FILES)):
            if os.path.isdir(root):
                shutil.rmtree(root)
            os.makedirs(root)
            for d in dirs:
                os.makedirs(os.path.join(root, d))
            for f in files:
                with open(os.path.join(root, f), 'wb') as h:
                    h.write(_inside_content(f))

    def roots(self):
        return [self.mount_c, self.mount_d]

    def inside(self, path):
        try:
            rp = os.path.realpath(path)
        except ValueError:
            # embedded NUL: the OS call itself fails; judge the path lexically
            rp = os.path.normpath(path)
        return any(rp == r or rp.startswith(r + os.sep) for r in self.roots())

    def _snap(self, base, skip):
        snap = {}
        for dp, dns, fns in os.walk(base):
            dns[:] = [d for d in dns if os.path.join(dp, d) not in skip]
            snap[os.path.relpath(dp, base)] = 'dir'
            for fn in fns:
                p = os.path.join(dp, fn)
                with open(p, 'rb') as h:
                    st = os.stat(p)
                    snap[os.path.relpath(p, base)] = (h.read(), st.st_mtime_ns)
        return snap

    def outside_snapshot(self):
        """names, contents and mtimes of everything under top that is not inside a mount"""
        return self._snap(self.top, set(self.roots()))

    def mount_snapshot(self):
        return (self._snap(self.mount_c, ()), self._snap(self.mount_d, ()))

    def restore_if_changed(self):
        if self.mount_snapshot() != self.mount_state:
            self.build_mounts()
            self.mount_state = self.mount_snapshot()
            return True
        return False

    def model_tree(self):
        """the C: mount as the model's tree argument"""
        ents = []
        for dp, dns, fns in os.walk(self.mount_c):
            for n in dns:
                ents.append('D' + enc_path(os.path.relpath(os.path.join(dp, n), self.mount_c).split(os.sep)))
            for n in fns:
                ents.append('F' + enc_path(os.path.relpath(os.path.join(dp, n), self.mount_c).split(os.sep)))
        return ','.join(sorted(ents)) or '-'

    def close(self):
        shutil.rmtree(self.top, ignore_errors=True)


def fail(ctx, key, case, what, _seen={}):
    """ctx.fail, at most 3 reports per key and run (the failure list is capped)"""
    k = (id(ctx), key)
    _seen[k] = _seen.get(k, 0) + 1
    if _seen[k] <= 3:
        ctx.fail(key, case, what)
    else:
        ctx.count('oracle_failures_suppressed_duplicates')


def enc_name(n):
    return '.'.join(str(ord(c)) for c in n) if n else 'e'


def enc_path(comps):
    return '/'.join(enc_name(c) for c in comps) if comps else '-'


def hx(b):
    return bytes(b).hex() or '-'


# ---------------------------------------------------------------------------------------------
# host file-system monitor (in-process wrappers, active only while a statement executes)

_OS_FUNCS = ['listdir', 'mkdir', 'makedirs', 'rmdir', 'removedirs', 'rename', 'renames', 'replace', 'remove', 'unlink',
             'stat', 'lstat', 'scandir', 'open', 'access', 'chdir', 'statvfs', 'truncate', 'utime', 'chmod', 'link',
             'symlink', 'readlink', 'walk', 'mkfifo']
_TWO_PATH = {'rename', 'renames', 'replace', 'link', 'symlink'}
_PATH_FUNCS = ['exists', 'lexists', 'isdir', 'isfile', 'islink', 'getsize', 'getmtime', 'realpath']


_MUTATING = {'os.mkdir', 'os.makedirs', 'os.rmdir', 'os.removedirs', 'os.rename', 'os.renames', 'os.replace', 'os.remove',
             'os.unlink', 'os.truncate', 'os.utime', 'os.chmod', 'os.link', 'os.symlink', 'os.mkfifo', 'os.chdir',
             'shutil.rmtree'}


def _is_write_open(label, a, kw):
    if label in ('io.open', 'open'):
        mode = a[1] if len(a) > 1 else kw.get('mode', 'r')
        return any(c in str(mode) for c in 'wax+')
    if label == 'os.open':
        flags = a[1] if len(a) > 1 else kw.get('flags', 0)
        return bool(flags & (os.O_WRONLY | os.O_RDWR | os.O_CREAT | os.O_TRUNC | os.O_APPEND))
    return False


class Monitor(object):
    """Records every host fs call made while `active`.  SAFETY: a call that could modify the host outside
    `guard_root` (the temp tree of this run) is recorded and then REFUSED with EACCES, so that a broken
    implementation under test cannot damage the machine the check runs on."""

    def __init__(self, guard_root):
        self.events = []
        self.active = False
        self._saved = []
        self.guard_root = os.path.realpath(guard_root)
        self.blocked = 0

    def _outside_guard(self, path):
        try:
            rp = os.path.realpath(os.fsdecode(path))
        except ValueError:
            return False
        return not (rp == self.guard_root or rp.startswith(self.guard_root + os.sep))

    def _wrap(self, mod, name, label):
        orig = getattr(mod, name, None)
        if orig is None:
            return
        mon = self
        two = name in _TWO_PATH

        def wrapper(*a, **kw):
            if mon.active:
                mon.active = False
                try:
                    refuse = False
                    for i, x in enumerate(a[:2 if two else 1]):
                        if isinstance(x, (str, bytes)) or hasattr(x, '__fspath__'):
                            mon.events.append((label, os.fsdecode(x)))
                            if (label in _MUTATING or _is_write_open(label, a, kw)) and mon._outside_guard(x):
                                refuse = True
                    if refuse:
                        mon.blocked += 1
                        raise PermissionError(errno.EACCES, 'refused by the C27 harness: outside the temp tree', str(a[0]))
                finally:
                    mon.active = True
            return orig(*a, **kw)
        wrapper.__wrapped_by_c27__ = True
        self._saved.append((mod, name, orig))
        setattr(mod, name, wrapper)

    def __enter__(self):
        for n in _OS_FUNCS:
            self._wrap(os, n, 'os.' + n)
        for n in _PATH_FUNCS:
            self._wrap(os.path, n, 'os.path.' + n)
        self._wrap(io, 'open', 'io.open')
        self._wrap(builtins, 'open', 'open')
        self._wrap(shutil, 'rmtree', 'shutil.rmtree')
        return self

    def __exit__(self, *a):
        for mod, name, orig in reversed(self._saved):
            setattr(mod, name, orig)
        self._saved = []

    @contextlib.contextmanager
    def recording(self):
        self.events = []
        self.active = True
        try:
            yield
        finally:
            self.active = False


# ---------------------------------------------------------------------------------------------
# generators

DOTS = [b'.', b'..', b'.. ', b'. ', b'..\t', b'..  ', b'.\x0c', b'...', b'.. .', b' ..', b'..\r', b'..\n', b'.. \x0b']
DIRNAMES = [b'SUB', b'sub', b'Sub ', b'DEEP', b'A B', b'LongDirectoryName', b'LONGDIRE', b'X.', b'X', b'lower', b'.hid',
            b'EMPTY', b'\x8e\x99', b'DD', b'mount', b'x', b'SIBLING', b'm2', b'y', b'NOSUCH']
FILENAMES = [b'IN.TXT', b'in.txt', b'PROG', b'PROG.BAS', b'lower.bas', b'F.TXT', b'G.DAT', b'LongFileName.txt',
             b'LONGFILE.TXT', b'NOEXT', b'NOEXT.', b'DOT.', b'.hidden', b'\x8e\x99.TXT', b'P.BAS', b'a b.txt', b'NEW.TXT',
             b'NEW', b'EVIL', b'OUTSIDE.TXT', b'OUTSIDE.BAS', b'OUTSIDE', b'SENTTOP.TXT', b'SENTTOP', b'S.TXT', b'OUTY.TXT',
             b'D.TXT', b'E.BAS', b'NEW2.DAT', b'A\x00B', b'\x00', b'VERYLONGNAME.EXTENSION', b'N.1.2']
WILD = [b'*.*', b'*', b'?', b'*.TXT', b'O*.*', b'????????.???', b'*.', b'.*']
PREFIXES = [b'', b'', b'', b'\\', b'\\\\', b'\\\\?\\', b'\\\\.\\', b'\\\\?\\UNC\\', b'\\\\. \\', b'\\\\.\t\\', b'\\\\SUB\\',
            b'\\\\X\\', b'\\\\. \\.. \\', b'\\\\\\', b'/', b'//']
DRIVES = [b'', b'', b'', b'', b'C:', b'c:', b'D:', b'A:', b'@:', b'Z:', b'AB:', b':', b'C:C:', b'C :', b'CAS1:', b'1:',
          b'[:', b'C:\\\\?\\C:']
SEPS = [b'\\', b'\\', b'\\', b'\\', b'\\\\', b'/', b' \\', b'\\ ']
HISTORY = [b'SUB', b'SUB\\DEEP', b'..', b'\\', b'A B', b'.. ', b'\\\\. \\..', b'SUB\\.. ', b'D:DD', b'LongDirectoryName',
           b'\\\\SUB\\DEEP\\', b'X.', b'.. \\.. ', b'\\..\\..', b'. ', b'EMPTY', b'lower', b'SUB ', b'..\\SUB', b'C:\\SUB']


def gen_path(rng, want_file=True, drives=True):
    kind = rng.random()
    if kind < 0.06:
        n = rng.randrange(1, 12)
        return bytes(rng.choice(b'\\\\\\/..  *?:CcDSUBsub\t\x00\x8eX') for _ in range(n))
    parts = []
    for _ in range(rng.choice([0, 0, 1, 1, 1, 2, 2, 3, 4, 6])):
        r = rng.random()
        if r < 0.35:
            parts.append(rng.choice(DOTS[:4]) if rng.random() < 0.7 else rng.choice(DOTS))
        elif r < 0.9:
            parts.append(rng.choice(DIRNAMES[:12]) if rng.random() < 0.75 else rng.choice(DIRNAMES))
        elif r < 0.95:
            parts.append(rng.choice(FILENAMES))
        else:
            parts.append(b'')
    if want_file:
        r = rng.random()
        if r < 0.6:
            parts.append(rng.choice(FILENAMES))
        elif r < 0.75:
            parts.append(rng.choice(WILD))
        elif r < 0.9:
            parts.append(rng.choice(DOTS))
        elif r < 0.95:
            parts.append(b'')
    body = b''
    for i, p in enumerate(parts):
        if i:
            body += rng.choice(SEPS)
        body += p
    r = rng.random()
    drive = b'' if (not drives and r < 0.93) or r < 0.55 else b'C:' if r < 0.75 else b'D:' if r < 0.82 else rng.choice(DRIVES)
    r = rng.random()
    prefix = b'' if r < 0.5 else b'\\' if r < 0.7 else rng.choice(PREFIXES)
    return (drive + prefix + body)[:200]


def gen_history(rng):
    n = rng.choice([0, 0, 1, 1, 2, 3, 4])
    return [rng.choice(HISTORY) if rng.random() < 0.8 else gen_path(rng, False) for _ in range(n)]


# ---------------------------------------------------------------------------------------------
# part 1: ntpath.normpath / ntpath.split against the Lean transcription

def part_ntpath(ctx, n):
    rng = ctx.rng
    alpha = [b'\\', b'\\', b'\\', b'/', b'.', b'.', b'..', b':', b'?', b'U', b'N', b'C', b'u', b'n', b'c', b'a', b' ', b'*',
             b'\\\\?\\', b'\\\\.\\', b'\\\\?\\UNC\\', b'C:', b'ab', b'\x00', b'\xe9', b'\t']
    cases = set()
    for pre in PREFIXES + DRIVES:
        for d in DOTS + [b'a', b'']:
            cases.add(pre + d)
            cases.add(pre + d + b'\\' + d)
            cases.add(pre + b'a\\' + d + b'\\..\\b')
    while len(cases) < n:
        k = rng.choice([1, 2, 3, 4, 5, 6, 8, 12, 20])
        cases.add(b''.join(rng.choice(alpha) for _ in range(k)))
    cases = sorted(cases)
    lines, outs = [], []
    for c in cases:
        lines.append('np ' + hx(c))
        outs.append('ok ' + hx(ntpath.normpath(c)))
        h, t = ntpath.split(c)
        lines.append('sp ' + hx(c))
        outs.append('ok %s %s' % (hx(h), hx(t)))
        ctx.case(('ntpath', c))
    ctx.count('ntpath-strings', len(cases))
    ctx.compare([{'ntpath': hx(c)} for c in cases for _ in (0, 1)], outs, lines, label='ntpath')
    # oracle (from the library's documented contract, independent of the model): normpath output never
    # contains '/', and split()'s tail never contains a separator
    for c in cases:
        if b'/' in ntpath.normpath(c) or any(s in ntpath.split(c)[1] for s in (b'/', b'\\')):
            fail(ctx, 'ntpath:separator', {'ntpath': hx(c)}, 'ntpath result contains an unexpected separator for %r' % c)


# ---------------------------------------------------------------------------------------------
# the real implementation

def basic_error(e):
    from pcbasic.basic.base import error
    return e.err if isinstance(e, error.BASICError) else None


class Impl(object):
    def __init__(self, tree):
        self.tree = tree
        self.session = basic.new_session(devices={'C': tree.mount_c, 'D': tree.mount_d, 'Z': None, '@': None},
                                         current_device='C')
        self.files = self.session._impl.files
        self.dev = self.files._devices[b'C:']
        self.devd = self.files._devices[b'D:']

    def close(self):
        try:
            self.session.execute(b'CLOSE')
        except Exception:
            pass
        self.session.close()

    def reset_cwd(self):
        self.dev._native_cwd = u''
        self.devd._native_cwd = u''

    def _call(self, fn, *a):
        try:
            return ('ok', fn(*a))
        except Exception as e:
            n = basic_error(e)
            if n is None:
                return ('exc', type(e).__name__)
            return ('err', n)

    def rel(self, s):
        return enc_path(s.split(os.sep))

    def op(self, op):
        """one history operation on the C: device object → canonical reply"""
        kind = op[0]
        if kind == 'cd':
            st, v = self._call(self.dev.chdir, op[1])
            return 'ok ' + self.rel(self.dev._native_cwd) if st == 'ok' else '%s %s' % (st, v)
        if kind == 'rd':
            st, v = self._call(self.dev._get_native_reldir, op[1])
            return 'ok ' + self.rel(v) if st == 'ok' else '%s %s' % (st, v)
        if kind == 'ab':
            _, d, c, p, x = op
            st, v = self._call(self.dev._get_native_abspath, p, x, bool(d), bool(c))
            if st != 'ok':
                return '%s %s' % (st, v)
            r = os.path.relpath(v, self.tree.mount_c)
            comps = [] if r == '.' else r.split(os.sep)
            ups = 0
            while comps and comps[0] == '..':
                ups += 1
                comps = comps[1:]
            return 'ok ^%d %s' % (ups, enc_path(comps))
        if kind == 'pm':
            st, v = self._call(self.dev._split_pathmask, op[1])
            if st != 'ok':
                return '%s %s' % (st, v)
            return 'ok %s %s' % (self.rel(v[1]), hx(v[2]))
        raise ValueError(kind)


def op_line(op):
    if op[0] == 'ab':
        return 'ab,%d,%d,%s,%s' % (op[1], op[2], hx(op[3]), hx(op[4]))
    return '%s,%s' % (op[0], hx(op[1]))


def parse_op(line):
    w = line.split(',')
    unhex = lambda x: b'' if x == '-' else bytes.fromhex(x)
    if w[0] == 'ab':
        return ('ab', int(w[1]), int(w[2]), unhex(w[3]), unhex(w[4]))
    return (w[0], unhex(w[1]))


def judge_ops(impl, ops):
    """oracle on the anchored functions themselves: resolved components, read with their POSIX meaning, never
    leave the mount; no host exception.  Returns (replies, [(key, what)])."""
    impl.reset_cwd()
    res = [impl.op(o) for o in ops]
    found = []
    for o, r in zip(ops, res):
        if r.startswith('ok'):
            words = r.split()
            path = words[2] if o[0] == 'ab' else words[1]
            comps = [] if path == '-' else path.split('/')
            bad = [c for c in comps if c in ('46', '46.46') or '47' in c.split('.')]
            if bad or (o[0] == 'ab' and words[1] != '^0'):
                found.append(('resolve:%s:escapes' % o[0],
                              'resolution %r in the history %r returned %s: contains a ./.. component or lies above '
                              'the mount' % (o, ops, r)))
        if r.startswith('exc'):
            found.append(('resolve:%s:%s' % (o[0], r.replace(' ', ':')),
                          'host exception %s escaped from resolution of %r' % (r, o[1:])))
    return res, found


def judge_spec(impl, sp):
    """oracle: a disk device is reached only for a single valid drive letter (the text before the first colon,
    or the current drive), otherwise a BASIC error"""
    st, v = impl._call(impl.files._get_diskdevice_and_path, sp)
    head = sp.split(b':', 1)[0].upper() if b':' in sp else b'C'
    valid = len(head) == 1 and head in b'@ABCDEFGHIJKLMNOPQRSTUVWXYZ'
    found = None
    if st == 'exc' or (st == 'ok') != valid or (st == 'ok' and v[0].letter != head):
        found = ('device:%s' % ('exc:' + str(v) if st == 'exc' else 'wrong-selection'),
                 '_get_diskdevice_and_path(%r) → %s %r; expected %s'
                 % (sp, st, v, 'drive ' + repr(head) if valid else 'a BASIC error'))
    return st, v, found


def part_resolution(ctx, impl, n):
    """anchored functions of the real DiskDevice vs the model, on CHDIR histories"""
    rng = ctx.rng
    tree = impl.tree
    mt = tree.model_tree()
    cases, outs, lines = [], [], []
    for i in range(n):
        ops = [('cd', h) for h in gen_history(rng)]
        for _ in range(rng.choice([1, 2, 3])):
            r = rng.random()
            if r < 0.3:
                ops.append(('rd', gen_path(rng, False, False)))
            elif r < 0.8:
                ops.append(('ab', rng.randrange(2), rng.randrange(2), gen_path(rng, True, False), rng.choice([b'', b'', b'BAS'])))
            else:
                ops.append(('pm', gen_path(rng, True, False)))
        res, found = judge_ops(impl, ops)
        cases.append({'ops': [op_line(o) for o in ops]})
        outs.append('|'.join(res))
        lines.append('hist new m %s %s' % (mt, ';'.join(op_line(o) for o in ops)))
        for o, r in zip(ops, res):
            ctx.case(('res',) + tuple(o))
            ctx.count('res:%s:%s' % (o[0], r.split()[0] + (' ' + r.split()[1] if r.startswith('err') else '')))
        for key, what in found:
            fail(ctx, key, {'ops': [op_line(x) for x in ops]}, what)
    impl.reset_cwd()
    ctx.compare(cases, outs, lines, label='resolution')
    if cases:
        ctx.sample({'resolution': cases[0], 'impl': outs[0]})
    # unmounted drive: nothing resolves
    deva = impl.files._devices[b'A:']
    for p in [b'', b'X', b'..', b'\\', b'.. \\X']:
        for fn, a in ((deva._get_native_reldir, (p,)), (deva._get_native_abspath, (p, b'', False, True))):
            st, v = impl._call(fn, *a)
            ctx.case(('unmounted', p, len(a)))
            if st == 'ok':
                fail(ctx, 'unmounted:resolves', {'path': hx(p)}, 'unmounted drive A: resolved %r to %r' % (p, v))
    lines = ['hist new u - rd,%s;ab,0,1,%s,-' % (hx(p), hx(p)) for p in [b'X', b'..', b'\\']]
    ctx.compare([{'unmounted': l} for l in lines], ['err 76|err 76'] * 3, lines, label='unmounted')


def part_device(ctx, impl, n):
    rng = ctx.rng
    specs = set()
    for d in DRIVES + [b'A', b'AB', b'', b'c', b'@', b'[', b'Z', b'CD', b'BC:', b'XYZ:', b'@A:', b'ab:', b'a:b:c', b'::',
                       b'C', b'C:', b'\xe9:', b'{:', b'`:', b'@:']:
        for rest in (b'', b'X', b':', b'\\X:Y'):
            specs.add(d + rest)
    alpha = b'@ABCYZabcz[`:: .\\09\xe9'
    while len(specs) < n:
        specs.add(bytes(rng.choice(alpha) for _ in range(rng.randrange(0, 6))))
    specs = sorted(specs)
    lines, outs = [], []
    for sp in specs:
        st, v, found = judge_spec(impl, sp)
        outs.append('ok %d %s' % (ord(v[0].letter), hx(v[1])) if st == 'ok' else '%s %s' % (st, v))
        lines.append('dv new %s %s' % (hx(b'C'), hx(sp)))
        ctx.case(('dv', sp))
        ctx.count('dv:' + outs[-1].split()[0] + (outs[-1].split()[1] if st == 'err' else ''))
        if found:
            fail(ctx, found[0], {'spec': hx(sp)}, found[1])
    ctx.compare([{'spec': hx(s)} for s in specs], outs, lines, label='device')


# ---------------------------------------------------------------------------------------------
# part 3: every file statement through Session.execute under the monitor — the independent oracle

STATEMENTS = {
    'open-i': [b'OPEN P$ FOR INPUT AS 1', b'IF NOT EOF(1) THEN LINE INPUT#1,L$:PRINT L$', b'CLOSE'],
    'open-o': [b'OPEN P$ FOR OUTPUT AS 1', b'PRINT#1,"pwned"', b'CLOSE'],
    'open-a': [b'OPEN P$ FOR APPEND AS 1', b'PRINT#1,"pwned"', b'CLOSE'],
    'open-r': [b'OPEN P$ AS 1 LEN=8', b'FIELD#1,8 AS F$:GET#1,1:PRINT F$:LSET F$="pwned":PUT#1,1', b'CLOSE'],
    'open-old': [b'OPEN "I",1,P$', b'IF NOT EOF(1) THEN PRINT INPUT$(1,1)', b'CLOSE'],
    'kill': [b'KILL P$'],
    'name': [b'NAME P$ AS Q$'],
    'mkdir': [b'MKDIR P$'],
    'rmdir': [b'RMDIR P$'],
    'chdir': [b'CHDIR P$'],
    'files': [b'FILES P$'],
    'bload': [b'DEF SEG=&H9000:BLOAD P$,0'],
    'bsave': [b'DEF SEG=&H9000:BSAVE P$,0,16'],
    'load': [b'LOAD P$', b'LIST'],
    'save': [b'10 REM pwned', b'SAVE P$'],
    'save-a': [b'10 REM pwned', b'SAVE P$,A'],
    'merge': [b'MERGE P$', b'LIST'],
    'chain': [b'10 CHAIN P$', b'RUN'],
    'run': [b'RUN P$'],
    'files-then-open': [b'FILES P$', b'OPEN Q$ FOR INPUT AS 1', b'CLOSE'],
    'cd-then-kill': [b'CHDIR P$', b'KILL "*.*"', b'KILL Q$'],
    'cd-then-save': [b'CHDIR P$', b'10 REM pwned', b'SAVE "NEW"', b'MKDIR "EVIL"', b'OPEN "OUTSIDE.TXT" FOR OUTPUT AS 1',
                     b'CLOSE'],
}
FORBIDDEN_OUTPUT = [MARK_TXT, MARK_BAS, b'OUTSIDE', b'SIBLING', b'SENTTOP', b'OUTY', b'YSIB', b'MOUNT ', b'M2 ']


def run_statement_case(impl, mon, case):
    """Execute one case; returns (list of (label, path) events, output, exception name or None, cwd strings)."""
    s = impl.session
    impl.reset_cwd()
    s.execute(b'CLOSE:NEW')
    out = b''
    exc = None
    p, q = bytes.fromhex(case['p']), bytes.fromhex(case['q'])
    s.set_variable('P$', p)
    s.set_variable('Q$', q)
    with mon.recording():
        try:
            for h in case['hist']:
                s.set_variable('H$', bytes.fromhex(h))
                out += s.execute(b'CHDIR H$')
            for line in STATEMENTS[case['stmt']]:
                out += s.execute(line)
                if line.startswith(b'10 ') or line == b'LIST':
                    continue
        except Exception as e:  # a host exception escaping Session.execute
            exc = '%s: %s' % (type(e).__name__, e)
    events = list(mon.events)
    cwd = (impl.dev._native_cwd, impl.devd._native_cwd)
    try:
        s.execute(b'CLOSE')
    except Exception:
        pass
    return events, out, exc, cwd


def mounted_target(p):
    """drive letter the spec addresses, from the statement text alone (None: not a disk drive)"""
    if b':' in p:
        head = p.split(b':', 1)[0].upper()
    else:
        head = b'C'
    if len(head) == 1 and head in b'@ABCDEFGHIJKLMNOPQRSTUVWXYZ':
        return head
    return None


def judge(ctx, impl, case, events, out, exc, cwd):
    """The oracle, from the property statement: nothing outside the mounted trees is touched or disclosed."""
    tree = impl.tree
    key = None
    what = None
    outside = []
    for label, path in events:
        if not os.path.isabs(path):
            path = os.path.join(os.getcwd(), path)
        if not tree.inside(path):
            outside.append((label, path))
    if outside:
        kinds = sorted(set(l for l, _ in outside))
        mut = [l for l in kinds if not (l.startswith('os.path.') or l in ('os.stat', 'os.lstat', 'os.access'))]
        key = 'escape:%s:%s' % (case['stmt'], 'access' if mut else 'probe')
        what = 'host calls outside the mounted trees: %s' % ', '.join('%s(%r)' % e for e in outside[:4])
    snap = tree.outside_snapshot()
    if snap != tree.sentinel_state:
        diff = sorted(set(snap.items()) ^ set(tree.sentinel_state.items()), key=repr)
        key = 'escape:%s:modified' % case['stmt']
        what = 'files outside the mounted trees changed: %r' % (diff[:3],)
        for r in tree.roots():
            if not os.path.isdir(r):
                os.makedirs(r)
        tree.build_outside()
    for marker in FORBIDDEN_OUTPUT:
        if marker in out.upper().replace(b'\r\n', b'') or marker in out:
            key = key or 'escape:%s:disclosed' % case['stmt']
            what = (what or '') + ' output discloses %r: %r' % (marker, out[:200])
            break
    for c in cwd:
        comps = c.split(os.sep)
        if '..' in comps or '.' in comps:
            key = key or 'escape:%s:cwd' % case['stmt']
            what = (what or '') + ' current directory became %r' % (c,)
    if exc:
        key = key or 'exception:%s:%s' % (case['stmt'], exc.split(':')[0])
        what = (what or '') + ' host exception escaped Session.execute: %s' % exc
    # device selection: a spec that does not name a mounted drive must not reach the file system at all
    letters = [mounted_target(bytes.fromhex(case['p']))]
    if case['stmt'] in ('name', 'files-then-open', 'cd-then-kill'):
        letters.append(mounted_target(bytes.fromhex(case['q'])))
    letters += [mounted_target(bytes.fromhex(h)) for h in case['hist']]
    if all(l not in (b'C', b'D') for l in letters) and events and case['stmt'] not in ('cd-then-kill', 'cd-then-save'):
        key = key or 'device:%s:unmounted-reaches-fs' % case['stmt']
        what = (what or '') + ' no mounted drive is addressed but the host fs was called: %r' % (events[:3],)
    return key, what


def part_statements(ctx, impl, mon, n):
    rng = ctx.rng
    tree = impl.tree
    mt = tree.model_tree()
    stmts = sorted(STATEMENTS)
    # directed cases first: the replay inputs of DESIGN.md D9 and their variants, for every statement
    directed = []
    for p in [b'.. \\*.*', b'.. \\NEW.TXT', b'.. \\EVIL', b'\\\\. \\..\\OUTSIDE.TXT', b'\\\\. \\..', b'..', b'.. ',
              b'..\t\\OUTSIDE.BAS', b'.. \\OUTSIDE', b'.. \\.. \\SENTTOP.TXT', b'\\\\.\t\\..\\SIBLING', b'.. \\SIBLING',
              b'D:.. \\OUTY.TXT', b'SUB\\.. \\.. \\OUTSIDE.TXT', b'\\\\. \\..\\PROG.BAS', b'.. \\IN.TXT', b'. \\.. \\x',
              b'.', b'. ', b'\\\\SUB\\..\\IN.TXT', b'AB:X', b':X', b'A:X', b'@:X', b'.. \\mount\\IN.TXT']:
        for st in stmts:
            directed.append({'hist': [], 'stmt': st, 'p': p.hex(), 'q': b'.. \\OUTSIDE.TXT'.hex()})
    for h in ([b'.. '], [b'\\\\. \\..'], [b'SUB', b'.. \\.. '], [b'\\\\. \\..', b'.. ']):
        for st in stmts:
            directed.append({'hist': [x.hex() for x in h], 'stmt': st, 'p': b'OUTSIDE.TXT'.hex(), 'q': b'NEW.TXT'.hex()})
    # quick tier: the D9 inputs with every statement, the variants with a rotating third of the statements
    cases = [c for i, c in enumerate(directed) if not ctx.quick or i < 8 * len(stmts) or i % 3 == ctx.seed % 3]
    for _ in range(n):
        cases.append({'hist': [h.hex() for h in gen_history(rng)], 'stmt': rng.choice(stmts),
                      'p': gen_path(rng).hex(), 'q': gen_path(rng).hex()})
    cd_cases, cd_outs, cd_lines = [], [], []
    for case in cases:
        events, out, exc, cwd = run_statement_case(impl, mon, case)
        ctx.case(('stmt', case['stmt'], case['p'], case['q'], tuple(case['hist'])))
        ctx.count('stmt:' + case['stmt'])
        ctx.count('host-calls', len(events))
        key, what = judge(ctx, impl, case, events, out, exc, cwd)
        if key:
            fail(ctx, key, case, what)
        if tree.restore_if_changed():
            ctx.count('mount-modified-by-statement')
        # Session-level correspondence: CHDIR histories that stay on C: (tree unchanged by CHDIR itself)
        if case['stmt'] == 'chdir' and not exc:
            hs = [bytes.fromhex(h) for h in case['hist']] + [bytes.fromhex(case['p'])]
            if all(b':' not in h and h for h in hs):
                cd_cases.append(case)
                cd_outs.append('ok ' + enc_path(cwd[0].split(os.sep)))
                cd_lines.append('hist new m %s %s;rd,-' % (mt, ';'.join('cd,' + hx(h) for h in hs)))
    if cd_lines:
        mouts = ctx.model(cd_lines)
        if mouts is not None:
            for c, i, l, m in zip(cd_cases, cd_outs, cd_lines, mouts):
                last = m.split('|')[-1]
                if i != last:
                    ctx.disagree({'label': 'session-chdir', 'input': c}, i, last)
        ctx.count('session-chdir-histories', len(cd_lines))
    ctx.sample({'statement-case': cases[0]})


def run(ctx):
    import logging
    logging.disable(logging.CRITICAL)   # pcbasic logs unmapped errno values; irrelevant here
    n_np = 100000
    part_ntpath(ctx, n_np if ctx.quick else 400000)
    ctx.log('ntpath done')
    tree = Tree()
    try:
        impl = Impl(tree)
        try:
            part_device(ctx, impl, 600 if ctx.quick else 5000)
            part_resolution(ctx, impl, 4000 if ctx.quick else 40000)
            ctx.log('resolution done')
            with Monitor(tree.top) as mon:
                part_statements(ctx, impl, mon, 1400 if ctx.quick else 12000)
                if mon.blocked:
                    ctx.notes['host_modifications_refused_by_harness'] = mon.blocked
            if tree.outside_snapshot() != tree.sentinel_state:
                fail(ctx, 'escape:final:modified', {}, 'sentinels differ at the end of the run')
        finally:
            impl.close()
    finally:
        tree.close()


def replay(ctx, payload):
    import logging
    logging.disable(logging.CRITICAL)
    case = payload.get('case', {})
    if 'stmt' in case or 'ops' in case or 'spec' in case:
        tree = Tree()
        try:
            impl = Impl(tree)
            try:
                if 'stmt' in case:
                    with Monitor(tree.top) as mon:
                        events, out, exc, cwd = run_statement_case(impl, mon, case)
                    key, what = judge(ctx, impl, case, events, out, exc, cwd)
                    return what if key else None
                if 'ops' in case:
                    _, found = judge_ops(impl, [parse_op(l) for l in case['ops']])
                    return found[0][1] if found else None
                _, _, found = judge_spec(impl, bytes.fromhex(case['spec']) if case['spec'] != '-' else b'')
                return found[1] if found else None
            finally:
                impl.close()
        finally:
            tree.close()
    import random
    sub = _Sub(ctx)
    sub.rng = random.Random(payload.get('seed', 0))
    sub.tier = payload.get('tier', 'quick')
    run(sub)
    hits = [f for f in sub.failures if f['key'] == payload.get('key')]
    return hits[0]['what'] if hits else None


class _Sub(object):
    def __init__(self, ctx):
        self.__dict__.update(ctx.__dict__)
        self._ctx = ctx
        self.failures, self.disagreements = [], []

    @property
    def quick(self):
        return self.tier == 'quick'

    def __getattr__(self, name):
        return getattr(self._ctx.__class__, name).__get__(self)
