import PcbV.Model.Funnel
namespace PcbV.Drv.C01
open PcbV PcbV.Funnel

def parseMap (s : String) : Option (List (Nat × Nat)) :=
  if s == "-" then some [] else
  (s.splitOn ",").mapM (fun kv =>
    match kv.splitOn ":" with
    | [a, b] => do let x ← a.toNat?; let y ← b.toNat?; pure (x, y)
    | _ => none)

def handle : List String → String
  | ["renumtrap", m, line] =>
    match parseMap m, line.toNat? with
    | some m, some l =>
      match renumTrap m l with
      | .ok n => "ok " ++ toString n
      | .error _ => "exc"
    | _, _ => "bad-op"
  | _ => "bad-op"

end PcbV.Drv.C01
