import PcbV.Basic
import PcbV.Gen.Errors
import PcbV.Gen.Prec
/-
  PcbV.Model.Expr — the operator-stack loop of pcbasic/basic/parser/expressions.py
  (`ExpressionParser.parse` / `_drain`) over an abstract token alphabet, producing the
  evaluation TREE (the order in which `oper(*args)` is applied), not values.

  Transcription notes
  * `last`/`d`: the loop only ever asks `last in op.OPERATORS or last == b''`; the frame keeps that
    Boolean (`lastOp`), computed when `d` is assigned (for an operator: membership of the possibly
    merged token in OPERATORS; for `(`, a unit or anything else: False; at loop start: True).
  * `operations` / `units` are lists with the top at the head.  `units[0]` is the *bottom* (getLast).
  * The recursive call `units.append(self.parse(ins)); ins.require_read((b')',))` is modelled by an
    explicit stack of suspended caller frames (the Python call stack): on `(` the current frame is
    suspended, on a break of the inner loop the value is computed, then the caller requires `)`.
  * IndexError inside the mid-loop `_drain` is not caught by the code (only the final drain is inside
    `try`); it is the pseudo error `pyIndexError` here (theorem C18.no_index_error: it never happens).
  * Operator tables (precedence, unary/binary keys, combinable tokens, NOT) come from `PcbV.Gen.Prec`.
-/
namespace PcbV.Expr
open PcbV PcbV.Gen

abbrev Key := List Nat

inductive Tok where
  | leaf (i : Nat)   -- an operand: literal, variable, function call (opaque; consumes exactly itself)
  | op (b : Nat)     -- a one-byte keyword token (an operator token iff `[b] ∈ OPERATORS`)
  | lpar
  | rpar
  | sep              -- END_EXPRESSION tokens other than `)` and END_STATEMENT:  `]` `,` `;`
  | stop             -- END_STATEMENT tokens `:` NUL (end of stream is the empty token list)
  | junk             -- any other token that is not the start of an operand (TO, THEN, …)
  deriving DecidableEq, Repr

inductive Tree where
  | leaf (i : Nat)
  | un (k : Key) (a : Tree)
  | bin (k : Key) (a b : Tree)
  deriving DecidableEq, Repr

structure Entry where
  key : Key
  nargs : Nat
  prec : Nat
  deriving DecidableEq, Repr

structure Frame where
  ops : List Entry
  units : List Tree
  lastOp : Bool
  deriving DecidableEq, Repr

/-- pseudo error number: a Python IndexError escaping from the mid-loop `_drain` -/
def pyIndexError : Nat := 1000

def isOperator (k : Key) : Bool := Prec.operators.contains k
def isCombinable (k : Key) : Bool := Prec.combinable.contains k

def lookupPrecIn (tbl : List ((Key × Nat) × Nat)) (k : Key) (n : Nat) : Option Nat :=
  match tbl with
  | [] => none
  | ((k', n'), p) :: rest => if k' = k ∧ n' = n then some p else lookupPrecIn rest k n

/-- `op.PRECEDENCE[(d, nargs)]` -/
def lookupPrec (k : Key) (n : Nat) : Option Nat := lookupPrecIn Prec.precedence k n

def lookupFn (tbl : List (Key × String)) (k : Key) : Option String :=
  match tbl with
  | [] => none
  | (k', s) :: rest => if k' = k then some s else lookupFn rest k

/-- `op.UNARY[d]`, `op.BINARY[d]` (the function is identified by its name) -/
def unaryFn (k : Key) : Option String := lookupFn Prec.unary k
def binaryFn (k : Key) : Option String := lookupFn Prec.binary k

/-- `args = reversed([units.pop() for _ in range(narity)]); units.append(oper(*args))`;
    `none` = IndexError (pop from an empty deque). -/
def applyOp (k : Key) (nargs : Nat) (units : List Tree) : Option (List Tree) :=
  match nargs, units with
  | 1, a :: us => some (Tree.un k a :: us)
  | 2, b :: a :: us => some (Tree.bin k a b :: us)
  | _, _ => none    -- (entries are only ever built with nargs 1 or 2)

/-- `_drain(precedence, operations, units)` -/
def drain (prec : Nat) : List Entry → List Tree → Option (List Entry × List Tree)
  | [], us => some ([], us)
  | e :: ops, us =>
    if prec > e.prec then some (e :: ops, us)
    else match applyOp e.key e.nargs us with
      | none => none
      | some us' => drain prec ops us'

/-- the code after the loop: final drain and `units[0]`, IndexError → Missing operand / Syntax error -/
def finish (final : Bool) (f : Frame) : R Tree :=
  match drain 0 f.ops f.units with
  | some (_, us) =>
    match us.getLast? with
    | some t => .ok t
    | none => .error (if final then E.missing_operand else E.stx)
  | none => .error (if final then E.missing_operand else E.stx)

/-- the `d in op.OPERATORS` branch after the (possibly merged) token `d` has been read -/
def pushOp (f : Frame) (d : Key) : R Frame :=
  if f.lastOp || d == Prec.notTok then
    match unaryFn d, lookupPrec d 1 with
    | some _, some p => .ok { ops := ⟨d, 1, p⟩ :: f.ops, units := f.units, lastOp := isOperator d }
    | _, _ => .error E.stx
  else
    match binaryFn d, lookupPrec d 2 with
    | some _, some p =>
      match drain p f.ops f.units with
      | none => .error pyIndexError
      | some (o, u) => .ok { ops := ⟨d, 2, p⟩ :: o, units := u, lastOp := isOperator d }
    | _, _ => .error E.stx

/-- a `break` at a token that is not `)` (or at `)` with no caller): finish this activation; a suspended
    caller then fails its `require_read((b')',))`. -/
def retHere (final : Bool) (f : Frame) (ps : List Frame) (toks : List Tok) : R (Tree × List Tok) :=
  match finish final f with
  | .error e => .error e
  | .ok t =>
    match ps with
    | [] => .ok (t, toks)
    | _ :: _ => .error E.stx

def emptyFrame : Frame := { ops := [], units := [], lastOp := true }

/-- The loop of `ExpressionParser.parse` (frame `f` = the running activation, `ps` = suspended callers).
    Returns the value tree and the unread tokens. -/
def run (f : Frame) (ps : List Frame) : List Tok → R (Tree × List Tok)
  | [] => retHere true f ps []
  | Tok.op b :: rest =>
    if isOperator [b] then
      if [b] == Prec.notTok && !f.lastOp then
        -- unary NOT ends expression except after another operator or at start
        retHere true f ps (Tok.op b :: rest)
      else
        match rest with
        | Tok.op c :: rest2 =>
          if isCombinable [b] && isCombinable [c] then
            match pushOp f [b, c] with
            | .error e => .error e
            | .ok f' => run f' ps rest2
          else
            match pushOp f [b] with
            | .error e => .error e
            | .ok f' => run f' ps (Tok.op c :: rest2)
        | rest =>
          match pushOp f [b] with
          | .error e => .error e
          | .ok f' => run f' ps rest
    else if !f.lastOp then retHere true f ps (Tok.op b :: rest)
    else .error E.stx
  | Tok.leaf i :: rest =>
    if !f.lastOp then retHere true f ps (Tok.leaf i :: rest)   -- repeated unit ends expression
    else run { f with units := Tree.leaf i :: f.units, lastOp := false } ps rest
  | Tok.lpar :: rest =>
    if !f.lastOp then retHere true f ps (Tok.lpar :: rest)
    else run emptyFrame (f :: ps) rest
  | Tok.rpar :: rest =>
    -- `)`: after a unit the "repeated unit" branch breaks (final stays True); else END_EXPRESSION
    match finish (!f.lastOp) f with
    | .error e => .error e
    | .ok t =>
      match ps with
      | [] => .ok (t, Tok.rpar :: rest)
      | p :: ps' => run { p with units := t :: p.units, lastOp := false } ps' rest
  | Tok.sep :: rest => retHere (!f.lastOp) f ps (Tok.sep :: rest)
  | Tok.stop :: rest => retHere true f ps (Tok.stop :: rest)
  | Tok.junk :: rest =>
    if !f.lastOp then retHere true f ps (Tok.junk :: rest)
    else .error E.stx    -- read_number_literal: not a number

/-- `ExpressionParser.parse(ins)` on a fresh activation -/
def parse (toks : List Tok) : R (Tree × List Tok) := run emptyFrame [] toks

/-! ### Specification side: printers from operator trees to token lists -/

def keyToks (k : Key) : List Tok := k.map Tok.op

def precB (k : Key) : Nat := (lookupPrec k 2).getD 0
def precU (k : Key) : Nat := (lookupPrec k 1).getD 0

/-- Minimal parentheses.  `lp` = precedence of the operator whose right operand / unary operand this
    tree is (0 at the start or after `(`); `rp` = precedence of the binary operator that follows the
    tree (0 before `)` or at the end).  A binary node needs parentheses iff the operator on its left
    binds at least as tightly (left associativity) or the one on its right binds more tightly; a unary
    node only iff the operator that follows binds more tightly than the unary operator. -/
def showMin (lp rp : Nat) : Tree → List Tok
  | Tree.leaf i => [Tok.leaf i]
  | Tree.un k a =>
    if rp ≤ precU k then keyToks k ++ showMin (precU k) rp a
    else [Tok.lpar] ++ keyToks k ++ showMin (precU k) 0 a ++ [Tok.rpar]
  | Tree.bin k a b =>
    if lp < precB k ∧ rp ≤ precB k then showMin lp (precB k) a ++ keyToks k ++ showMin (precB k) rp b
    else [Tok.lpar] ++ showMin 0 (precB k) a ++ keyToks k ++ showMin (precB k) 0 b ++ [Tok.rpar]

/-- Redundant parentheses: every operator node is parenthesised. -/
def showFull : Tree → List Tok
  | Tree.leaf i => [Tok.leaf i]
  | Tree.un k a => [Tok.lpar] ++ keyToks k ++ showFull a ++ [Tok.rpar]
  | Tree.bin k a b => [Tok.lpar] ++ showFull a ++ keyToks k ++ showFull b ++ [Tok.rpar]

/-! ### Result typing (values.py: match_types and the operator functions) -/

inductive Ty where
  | int | sng | dbl | str
  deriving DecidableEq, Repr

def Ty.isStr : Ty → Bool
  | .str => true
  | _ => false

/-- `Number.to_float()`: Integer → Single, floats unchanged (strings do not get here) -/
def toFloatTy : Ty → Ty
  | .int => .sng
  | t => t

/-- `match_types(left, right)`: common type or Type mismatch -/
def matchTypes (l r : Ty) : R Ty :=
  if l = .dbl ∨ r = .dbl then (if l.isStr || r.isStr then .error E.type_mismatch else .ok .dbl)
  else if l = .sng ∨ r = .sng then (if l.isStr || r.isStr then .error E.type_mismatch else .ok .sng)
  else if l = .int ∨ r = .int then (if l.isStr || r.isStr then .error E.type_mismatch else .ok .int)
  else .ok .str

/-- type of `fn(left, right)` for the functions in `op.BINARY` (`dm` = the session's double_math). -/
def binType (dm : Bool) (fn : String) (l r : Ty) : R Ty :=
  if fn = "add" then
    matchTypes (if l.isStr then l else toFloatTy l) r
  else if fn = "sub" then
    if l.isStr || r.isStr then .error E.type_mismatch else matchTypes (toFloatTy l) r
  else if fn = "mul" ∨ fn = "div" then
    if l.isStr || r.isStr then .error E.type_mismatch
    else if l = .dbl ∨ r = .dbl then .ok .dbl else .ok .sng
  else if fn = "pow" then
    if l.isStr || r.isStr then .error E.type_mismatch
    else if dm && (l = .dbl ∨ r = .dbl) then .ok .dbl else .ok .sng
  else if fn = "intdiv" ∨ fn = "mod_" ∨ fn = "and_" ∨ fn = "or_" ∨ fn = "xor_" ∨ fn = "eqv_" ∨ fn = "imp_" then
    if l.isStr || r.isStr then .error E.type_mismatch else .ok .int
  else if fn = "gt" ∨ fn = "eq" ∨ fn = "lt" ∨ fn = "gte" ∨ fn = "lte" ∨ fn = "neq" then
    match matchTypes l r with
    | .ok _ => .ok .int
    | .error e => .error e
  else .error E.internal_error

def unType (fn : String) (a : Ty) : R Ty :=
  if fn = "neg" then .ok (if a.isStr then a else toFloatTy a)
  else if fn = "ident" then .ok a
  else if fn = "not_" then (if a.isStr then .error E.type_mismatch else .ok .int)
  else .error E.internal_error

/-- type of the value of a tree (operators applied in post-order; the first error wins) -/
def typeOf (dm : Bool) (leafTy : Nat → Ty) : Tree → R Ty
  | Tree.leaf i => .ok (leafTy i)
  | Tree.un k a =>
    match typeOf dm leafTy a with
    | .error e => .error e
    | .ok ta => match unaryFn k with
      | some fn => unType fn ta
      | none => .error E.internal_error
  | Tree.bin k a b =>
    match typeOf dm leafTy a with
    | .error e => .error e
    | .ok ta =>
      match typeOf dm leafTy b with
      | .error e => .error e
      | .ok tb => match binaryFn k with
        | some fn => binType dm fn ta tb
        | none => .error E.internal_error

end PcbV.Expr
