"""C23 — RUN, CLEAR and NEW reset state; CHAIN keeps exactly the COMMON variables."""
import binascii
import re
import shutil
import struct
import tempfile
from fractions import Fraction

from vlib import basic

LEVEL = 'proof'
RULE = ('one case = one generated program P1 (random DEFtype ranges, OPTION BASE, scalars of all four types, 1-3 '
        'dimensional arrays, strings of every provenance in random order - program literals (also the same literal twice), '
        'concatenations, CHR$ bytes, long STRING$ values, empty strings computed at run time (MID$/LEFT$/RIGHT$ of nothing, '
        '""+"", SPACE$(0), STRING$(0,..)) placed after non-empty ones, copies of other variables, FIELD variables, '
        'unassigned array elements -, DEF FN, '
        'ON ERROR trap (optionally inside the handler), ON KEY trap, RND and READ positions, an open file, optional '
        'CLEAR ,n leaving only a few hundred bytes, garbage strings) stopped inside GOSUB+FOR+WHILE, followed by one of '
        'CLEAR [,mem][,stack] / NEW / RUN line / CHAIN [MERGE] file[,line][,ALL] with a random COMMON list (declared '
        'arrays, undeclared names, names typed through DEFtype), missing file, undefined start line, oversized target '
        'program; executed as a program statement or in direct mode; then every observable is probed through BASIC '
        'statements and Session.get_variable; non-trivial = at least one variable defined before the operation')
EXPLANATION = ('theorems (PcbV.Props.C23 over PcbV.Model.ClearChain): clear/new/run_resets_all, run_undefined_line_resets_all, '
               'chain_keeps_commons, chain_all_keeps_everything, chain_exactly_commons, chain_rebuilt_heap_wf, '
               'chain_clears_rest, chain_failure_releases_hold; correspondence: the canonical dump of all probes is '
               'compared with the model run on the same abstract pre-state; oracle: expectations written from the '
               'statement (values of candidates, FN undefined, default types, base, NEXT/WEND/RETURN errors, untrapped '
               'error, soft math error, RND restart, READ restart, ERR=0, memory accounting of FRE, collector alive; a CHAIN whose '
               'file cannot be opened: File not found reported or trapped by an active ON ERROR, nothing changed)')
TRUSTED_BASE = ['model PcbV.Model.ClearChain is a hand transcription of _clear_all/clear_/new_/run_/chain_, '
                'DataSegment.clear/preserve_commons, Interpreter.clear/clear_stacks_and_pointers (repaired code)',
                'the translation of a generated scenario into BASIC text and into the abstract pre-state of the model',
                'probe statements (GOTO into the stopped program, OPTION BASE/ERASE probe, type probe by 1/3)']
ASSUMPTIONS = ['the error-handling-in-progress state is read from Interpreter.error_handle_mode right after the reset '
               'statement (soft internal peek: an absent attribute means not observed); every later behavioural probe would '
               'reset it with its first untrapped error',
               'values used are exactly representable (integers, k/8), so PRINT-free comparison through get_variable is exact',
               'event traps are observed through BasicEvents internals only when accessible (not part of the statement)']

TOTAL0 = 65534
STACK0 = 512
SIGILS = {'%': 2, '!': 4, '#': 8, '$': 3}
FRESH_RND = b' .1213501 \r\n'


# ---------------------------------------------------------------------------------------------------
# values

def mbf(fs, v):
    """MBF bytes of an exactly representable rational."""
    v = Fraction(v)
    w, bias, size = (24, 152, 4) if fs == '!' else (56, 184, 8)
    if v == 0:
        return b'\0' * size
    neg, a = v < 0, abs(v)
    e = bias
    man = a
    while man >= 1 << w:
        man /= 2
        e += 1
    while man < 1 << (w - 1):
        man *= 2
        e -= 1
    assert man.denominator == 1 and 0 < e < 256, v
    m = int(man) & ((1 << (w - 1)) - 1)
    if neg:
        m |= 1 << (w - 1)
    return m.to_bytes(size - 1, 'little') + bytes([e])


def val_bytes(sigil, val):
    """scenario value -> bytes as BASIC stores it (numbers) / content (strings)"""
    if sigil == '%':
        return struct.pack('<h', val)
    if sigil in '!#':
        return mbf(sigil, Fraction(val, 8))
    return binascii.unhexlify(val)


def py_bytes(sigil, v):
    """value returned by Session.get_variable -> the same representation"""
    if sigil == '%':
        return struct.pack('<h', int(v))
    if sigil in '!#':
        return mbf(sigil, Fraction(v))
    return bytes(v)


def zero(sigil):
    return b'' if sigil == '$' else b'\0' * SIGILS[sigil]


def hx(b):
    return binascii.hexlify(bytes(b)).decode() or '-'


def cell_txt(sigil, b):
    return ('S' + hx(b)) if sigil == '$' else hx(b)


def num_src(sigil, val):
    if sigil == '%':
        return '%d' % val
    return '%d/8' % val if val >= 0 else '-%d/8' % -val


def str_src(mode, content):
    """BASIC expression producing `content`"""
    if mode == 'lit':
        return '"%s"' % content.decode('latin-1')
    if mode == 'cat':
        k = len(content) // 2
        return '"%s"+"%s"' % (content[:k].decode('latin-1'), content[k:].decode('latin-1'))
    if mode == 'long':
        return 'STRING$(%d,%d)+"%s"' % (len(content) - 2, content[0], content[-2:].decode('latin-1'))
    return '+'.join('CHR$(%d)' % c for c in content) or '""'


# ---------------------------------------------------------------------------------------------------
# generator

LETTERS = 'ABCDEFGHIJKLMNOPQRSTUVWXY'
TEXT = b'abcdefghijklmnopqrstuvwxyz0123456789 .,;:-+*/()<>=?!#$%&@[]^_{}|~'


def gen_name(rng, used, hot=''):
    while True:
        form = rng.randrange(6)
        a = rng.choice(hot) if hot and rng.random() < 0.5 else rng.choice(LETTERS)
        if form == 0:
            nm = a
        elif form in (1, 2):
            nm = a + rng.choice('0123456789')
        elif form in (3, 4):
            nm = a + rng.choice('ABCDEFGHIJKLMNOPQRSTUVWXYZ') + rng.choice('0123456789')
        else:
            nm = a + ''.join(rng.choice('BCDGHJKLMQVWXZ') for _ in range(rng.randrange(2, 9))) + rng.choice('0123456789')
        if nm not in used and not nm.startswith('FN'):
            used.add(nm)
            return nm


def deftype_table(deftypes):
    t = ['!'] * 26
    for kind, a, b in deftypes:
        for i in range(ord(a) - 65, ord(b) - 64):
            t[i] = {'INT': '%', 'SNG': '!', 'DBL': '#', 'STR': '$'}[kind]
    return t


def complete(src, table):
    return src if src[-1] in SIGILS else src + table[ord(src[0]) - 65]


def gen_string(rng, near_limit):
    mode = rng.choice(['lit', 'cat', 'cat', 'chr', 'long', 'long' if near_limit else 'cat', 'empty'])
    if mode == 'empty':
        return 'chr', b''
    if mode == 'long':
        n = rng.choice([255, 254, 200, 128, 100, rng.randrange(3, 256)])
        return mode, bytes([rng.choice(b'xyzw')]) * (n - 2) + bytes(rng.choice(TEXT) for _ in range(2))
    if mode == 'chr':
        return mode, bytes(rng.choice([0, 1, 13, 10, 26, 34, 127, 128, 255, rng.randrange(256)])
                           for _ in range(rng.randrange(1, 5)))
    n = rng.choice([1, 2, 3, 8, 20, rng.randrange(1, 40)])
    return mode, bytes(rng.choice(TEXT) for _ in range(n))


EMPTY_EXPRS = ['MID$("ab",9)', 'LEFT$("abc",0)', 'RIGHT$("q",0)', '""+""', 'SPACE$(0)', 'STRING$(0,65)',
               'MID$("xyz",4)', 'STRING$(0,"k")']


def gen_empty_expr(rng, prev):
    """an expression whose value is an empty string COMPUTED at run time: it is stored as a zero-length
    pointer to the address of the string allocated just before it"""
    if prev and rng.random() < 0.5:
        return rng.choice(['LEFT$(%s,0)', 'RIGHT$(%s,0)', 'MID$(%s,1,0)', 'MID$(%s,2,0)']) % prev
    return rng.choice(EMPTY_EXPRS)


def gen_value(rng, sigil, near_limit):
    if sigil == '%':
        return None, rng.choice([1, -1, 7, 255, 256, 32767, -32768, rng.randrange(-32768, 32768)])
    if sigil == '!':
        return None, rng.choice([1, -1, 8, 99, -12345, (1 << 20) - 1, rng.randrange(-(1 << 20), 1 << 20)]) or 3
    if sigil == '#':
        return None, rng.choice([1, -8, 1 << 33, (1 << 40) + 5, -(1 << 39) - 3, rng.randrange(-(1 << 40), 1 << 40)]) or 5
    mode, content = gen_string(rng, near_limit)
    return mode, binascii.hexlify(content).decode()


def gen_scenario(rng, kind=None):
    kind = kind or rng.choice(['clear', 'clear', 'new', 'run', 'chain', 'chain', 'chain', 'chain', 'chain'])
    near_limit = rng.random() < 0.35
    sc = {'kind': kind}
    deftypes = []
    if rng.random() < 0.6:
        for _ in range(rng.randrange(1, 4)):
            a = rng.choice(LETTERS)
            b = rng.choice(LETTERS[LETTERS.index(a):LETTERS.index(a) + 4])
            deftypes.append([rng.choice(['INT', 'SNG', 'DBL', 'STR']), a, b])
    sc['deftypes'] = deftypes
    table = deftype_table(deftypes)
    # letters whose default type is not single: names starting with them are typed through DEFtype
    hot = ''.join(c for c in LETTERS if table[ord(c) - 65] != '!')
    sc['base'] = rng.choice([None, None, 0, 1])
    used = set()
    scalars = []
    fields = []
    for _ in range(rng.choice([0, 1, 3, 5, 8]) if not near_limit else rng.choice([3, 6, 10])):
        nm = gen_name(rng, used, hot)
        src = nm + ('' if nm[0] in hot and rng.random() < 0.6 else
                    rng.choice(['', '', '%', '!', '#', '$', '$', '$' if near_limit else '']))
        full = complete(src, table)
        if any(s['full'] == full for s in scalars):
            continue
        mode, val = gen_value(rng, full[-1], near_limit)
        ent = {'src': src, 'full': full, 'mode': mode, 'val': val}
        if full[-1] == '$':
            strs = [x for x in scalars if x['full'][-1] == '$']
            u = rng.random()
            if u < 0.22:
                # computed empty string, placed right after whatever was allocated before
                ent.update(mode='cat', val='', expr=gen_empty_expr(rng, strs[-1]['src'] if strs else None))
            elif u < 0.34 and strs:
                # assigned from another variable: a program literal is shared (same pointer), anything else
                # is copied into string space
                o = rng.choice(strs)
                ent.update(mode='lit' if o['mode'] == 'lit' else 'cat', val=o['val'], expr=o['src'])
            elif u < 0.42 and src[-1] == '$' and len(fields) < 3:
                # FIELD variable: points into the buffer of random file #2
                w = rng.choice([1, 3, 8, 20])
                text = bytes(rng.choice(TEXT) for _ in range(rng.choice([1, 2, w, w + 3])))
                ent.update(mode='field', val=binascii.hexlify(text[:w].ljust(w, b' ')).decode(), width=w,
                           expr=str_src('cat', text))
                fields.append(ent)
            elif u < 0.50 and strs and strs[-1]['mode'] == 'lit':
                # the same literal text again (a second literal in the program)
                ent.update(mode='lit', val=strs[-1]['val'])
        scalars.append(ent)
    arrays = []
    for _ in range(rng.choice([0, 0, 1, 2, 3])):
        nm = gen_name(rng, used, hot)
        src = nm + ('' if nm[0] in hot and rng.random() < 0.5 else rng.choice(['', '%', '!', '#', '$', '$']))
        full = complete(src, table)
        if any(a['full'] == full for a in arrays):
            continue
        nd = rng.choice([1, 1, 2, 2, 3])
        lo = sc['base'] or 0
        dims = [rng.choice([lo, lo + 1, 2, 3, 5]) for _ in range(nd)]
        if nd == 1 and rng.random() < 0.3:
            dims = [rng.choice([10, 12, 20])]
        flat = 1
        for d in dims:
            flat *= d + 1 - lo
        cells, exprs = {}, {}
        for _ in range(rng.choice([0, 1, 2, flat, flat // 2 + 1])):
            i = rng.randrange(flat)
            mode, val = gen_value(rng, full[-1], False)
            cells[str(i)] = [mode, val]
            if full[-1] == '$' and rng.random() < 0.25:
                cells[str(i)] = ['cat', '']
                exprs[str(i)] = gen_empty_expr(rng, None)
        implicit = nd == 1 and dims == [10] and rng.random() < 0.5
        arrays.append({'src': src, 'full': full, 'dims': dims, 'cells': cells, 'implicit': implicit,
                       'exprs': {k: v for k, v in exprs.items() if cells[k][1] == ''}})
    if kind == 'chain' and rng.random() < 0.4:
        # boundary: a string of the maximal length (or one less), usually made COMMON below
        nm = gen_name(rng, used) + '$'
        n = rng.choice([255, 255, 254])
        content = bytes([rng.choice(b'xyzw')]) * (n - 2) + bytes(rng.choice(TEXT) for _ in range(2))
        scalars.insert(rng.randrange(len(scalars) + 1),
                       {'src': nm, 'full': nm, 'mode': 'long', 'val': binascii.hexlify(content).decode(), 'edge': True})
    if kind == 'chain' and rng.random() < 0.5:
        n1, n2 = gen_name(rng, used) + '$', gen_name(rng, used) + '$'
        v1 = binascii.hexlify(bytes(rng.choice(TEXT) for _ in range(rng.choice([1, 2, 5, 30])))).decode()
        pair = [{'src': n1, 'full': n1, 'mode': 'cat', 'val': v1, 'edge': True},
                {'src': n2, 'full': n2, 'mode': 'cat', 'val': '', 'expr': gen_empty_expr(rng, n1), 'edge': True}]
        k = rng.randrange(len(scalars) + 1)
        scalars[k:k] = pair
    sc['scalars'], sc['arrays'] = scalars, arrays
    sc['fns'] = [gen_name(rng, used) + rng.choice(['', '', '%', '#']) for _ in range(rng.choice([0, 1, 2]))]
    if rng.random() < 0.25:
        sc['fns'].append(gen_name(rng, used) + '$')
    sc['onerror'] = rng.random() < 0.6
    sc['err'] = sc['onerror'] and rng.random() < 0.4
    sc['keytrap'] = rng.random() < 0.4
    sc['file'] = rng.random() < 0.4
    sc['rnd'] = rng.choice([0, 1, 2, 5])
    sc['reads'] = rng.choice([0, 1, 3])
    sc['nest'] = rng.random() < 0.8
    sc['garbage'] = rng.choice([0, 0, 1, 4])
    sc['room'] = rng.choice([40, 120, 300, 700]) if near_limit else None
    sc['late'] = rng.random() < 0.5      # probe the reset by a later history compared with a fresh session
    inprog = rng.random() < 0.6
    if kind == 'clear':
        form = rng.choice(['plain', 'plain', 'mem', 'stack', 'both', 'expr', 'bad'])
        op = {'inprog': inprog, 'mem': None, 'stack': None, 'expr': form == 'expr', 'bad': None}
        if form in ('mem', 'both'):
            op['mem'] = rng.choice([20, 100, 1000])          # shrink by this many bytes
        if form in ('stack', 'both'):
            op['stack'] = rng.choice([256, 600, 1024])
        if form == 'bad':
            op['bad'] = rng.choice(['mem0', 'stack0', 'memhigh'])
            sc['onerror'] = sc['err'] = False      # the argument error must reach the console
    elif kind == 'new':
        op = {'inprog': inprog}
    elif kind == 'run':
        op = {'inprog': inprog, 'line': rng.choice([5000, 5000, 5000, 4999])}
    else:
        names_s = [s['src'] for s in scalars]
        names_a = [a['src'] for a in arrays]
        cs = [x['src'] for x in scalars if rng.random() < (0.85 if x.get('edge') else 0.5)]
        ca = [n for n in names_a if rng.random() < 0.6]
        if rng.random() < 0.3:
            cs.append(gen_name(rng, used) + rng.choice(['', '$', '%']))      # declared, never defined
        if rng.random() < 0.15:
            ca.append(gen_name(rng, used))
        if rng.random() < 0.2 and names_a:
            cs.append(rng.choice(names_a))      # array name declared as a scalar: does not make the array common
        if rng.random() < 0.15:
            cs, ca = [], []
        rng.shuffle(cs)
        merge = rng.random() < 0.4
        op = {'inprog': inprog, 'merge': merge, 'all': rng.random() < 0.3, 'cs': cs, 'ca': ca,
              'jump': (7000 if merge else rng.choice([None, None, 1001])), 'exists': rng.random() < 0.9,
              'big': near_limit and rng.random() < 0.5, 'ascii': merge or rng.random() < 0.3,
              'arrnum': rng.random() < 0.3, 'fit': rng.choice([350, 500, 800, 1500])}
        if rng.random() < 0.06:
            op['jump'] = 6999           # undefined start line
    sc['op'] = op
    return sc


# ---------------------------------------------------------------------------------------------------
# scenario -> BASIC text

def helper_vars(sc):
    """variables that P1 itself creates (name, sigil, bytes value at the time of the operation)"""
    hv = []
    if sc['fns']:
        hv.append(('ZP!', mbf('!', 0)))       # DEF FN allocates its parameter
    if sc['garbage']:
        hv.append(('ZG$', b' ' * (200 - sc['garbage'] + 1)))
    if sc['rnd']:
        seed = 5228370
        for _ in range(sc['rnd']):
            seed = (seed * 214013 + 2531011) % (1 << 24)
        hv.append(('ZR!', mbf('!', Fraction(seed, 1 << 24))))
    if sc['reads']:
        hv.append(('ZD!', mbf('!', [11, 22, 33, 44, 55][sc['reads'] - 1])))
    hv.append(('ZI!', mbf('!', 0)))        # ZW is only read before the operation: reading does not create it
    return hv


def op_text(sc, total, stack):
    op, kind = sc['op'], sc['kind']
    if kind == 'clear':
        if op['bad'] == 'mem0':
            return 'CLEAR ,0'
        if op['bad'] == 'stack0':
            return 'CLEAR ,,0'
        if op['bad'] == 'memhigh':
            return 'CLEAR ,%d' % min(65535, total + 1)
        t = 'CLEAR'
        if op['expr']:
            t += ' 7'
        if op['mem'] is not None or op['stack'] is not None:
            t += ' ,%s' % ('' if op['mem'] is None else total - op['mem'])
        if op['stack'] is not None:
            t += ',%d' % op['stack']
        return t
    if kind == 'new':
        return 'NEW'
    if kind == 'run':
        return 'RUN %d' % op['line']
    t = 'CHAIN %s"%s"' % ('MERGE ' if op['merge'] else '', 'P2' if op['exists'] else 'NOFILE')
    if op['jump'] is not None or op['all']:
        t += ',%s' % ('' if op['jump'] is None else op['jump'])
    if op['all']:
        t += ',ALL'
    return t


def build_p1(sc, clear_n, total, stack):
    L = []
    n = [10]

    def add(txt):
        L.append('%d %s' % (n[0], txt))
        n[0] += 1
    if clear_n is not None:
        L.append('1 CLEAR ,%d' % clear_n)
    for kind, a, b in sc['deftypes']:
        add('DEF%s %s%s' % (kind, a, '' if a == b else '-' + b))
    if sc['base'] is not None:
        add('OPTION BASE %d' % sc['base'])
    if sc['kind'] == 'chain':
        op = sc['op']
        items = list(op['cs']) + [a + ('(2)' if op['arrnum'] else '()') for a in op['ca']]
        if items:
            k = max(1, len(items) // 2)
            add('COMMON ' + ','.join(items[:k]))
            if items[k:]:
                add('COMMON ' + ','.join(items[k:]))
        elif op['arrnum']:
            add('COMMON')
    after_err = None
    if sc['onerror']:
        add('ON ERROR GOTO 9000')
    if sc['err']:
        add('ERROR 77')
        after_err = n[0]
    if sc['keytrap']:
        add('ON KEY(1) GOSUB 9100:KEY(1) ON')
    if sc['file']:
        add('OPEN "F.DAT" FOR OUTPUT AS 1')
    for a in sc['arrays']:
        if not a['implicit']:
            add('DIM %s(%s)' % (a['src'], ','.join(str(d) for d in a['dims'])))
    table_ = deftype_table(sc['deftypes'])
    for i, f in enumerate(sc['fns']):
        if complete(f, table_)[-1] == '$':
            add('DEF FN%s(ZP)="f"+"n"' % f)
        else:
            add('DEF FN%s(ZP)=ZP+%d' % (f, i + 1))
    flds = [x for x in sc['scalars'] if x['mode'] == 'field']
    if flds:
        add('OPEN "R.DAT" FOR RANDOM AS 2 LEN=96')
        add('FIELD #2,' + ','.join('%d AS %s' % (x['width'], x['src']) for x in flds))
    for s in sc['scalars']:
        sig = s['full'][-1]
        if s['mode'] == 'field':
            add('LSET %s=%s' % (s['src'], s['expr']))
        elif 'expr' in s:
            add('%s=%s' % (s['src'], s['expr']))
        else:
            add('%s=%s' % (s['src'], str_src(s['mode'], binascii.unhexlify(s['val'])) if sig == '$'
                           else num_src(sig, s['val'])))
    lo = sc['base'] or 0
    for a in sc['arrays']:
        sig = a['full'][-1]
        if a['implicit'] and not a['cells']:
            add('%s(%d)=%s' % (a['src'], lo, '""' if sig == '$' else '0'))
        for i, (mode, val) in sorted(a['cells'].items(), key=lambda kv: int(kv[0])):
            idx, r = [], int(i)
            for d in a['dims']:
                idx.append(r % (d + 1 - lo) + lo)
                r //= d + 1 - lo
            add('%s(%s)=%s' % (a['src'], ','.join(map(str, idx)),
                               a.get('exprs', {}).get(i) or
                               (str_src(mode, binascii.unhexlify(val)) if sig == '$' else num_src(sig, val))))
    if sc['garbage']:
        add(':'.join('ZG$=SPACE$(%d)' % (200 - i) for i in range(sc['garbage'])))
    if sc['rnd']:
        add(':'.join(['ZR=RND'] * sc['rnd']))
    if sc['reads']:
        add(':'.join(['READ ZD'] * sc['reads']))
    if sc['nest']:
        add('GOSUB 1000')
        add('END')
    else:
        add('GOTO 1000')
    assert n[0] < 1000
    optxt = op_text(sc, total, stack)
    L += ['1000 FOR ZI=0 TO 2',
          '1010 WHILE ZW=0',
          '1020 IF ZI=0 THEN %sSTOP' % ((optxt + ':') if sc['op']['inprog'] else ''),
          '1030 ZW=1',
          '1040 WEND',
          '1050 NEXT',
          '1060 %s' % ('RETURN' if sc['nest'] else 'END'),
          '2000 ERROR 78',
          '2010 STOP',
          '3000 PRINT 1/0:PRINT "SOFT":END',
          '5000 STOP',
          '9000 GOTO %d' % (after_err or 2010),
          '9100 RETURN',
          '9500 DATA 11,22,33,44,55']
    return L, optxt


def build_p2(sc):
    op = sc['op']
    pad = ['%d REM %s' % (1100 + i, 'x' * 200) for i in range(12)] if op.get('big') else []
    if op['merge']:
        return ['7000 STOP', '9500 DATA 71,72'] + pad
    return ['1001 STOP'] + pad + ['2000 ERROR 78', '2010 END', '3000 PRINT 1/0:PRINT "SOFT":END',
                                '9000 PRINT "TRAPPED":END', '9100 RETURN', '9500 DATA 71,72']


# ---------------------------------------------------------------------------------------------------
# running one scenario on the real interpreter

class HostExc(Exception):
    pass


class _NoYield(object):
    """`time` for pcbasic.basic.eventcycle in this single-threaded, headless harness: the three sleep(0)
    per statement only yield the processor to an interface thread that does not exist here (on a busy
    machine they cost more than the interpretation itself); real waits are kept."""

    def __init__(self, real):
        self._real = real

    def sleep(self, t):
        if t > 0:
            self._real.sleep(t)

    def __getattr__(self, name):
        return getattr(self._real, name)


def _fast_events():
    try:
        from pcbasic.basic import eventcycle
        if not isinstance(eventcycle.time, _NoYield):
            eventcycle.time = _NoYield(eventcycle.time)
    except Exception:       # noqa  (a refactored event cycle just runs at its normal speed)
        pass


def ex(s, text):
    try:
        return s.execute(text.encode('latin-1') if isinstance(text, str) else text)
    except Exception as e:       # noqa
        raise HostExc('%s: %s on %r' % (type(e).__name__, e, text[:80]))


def fre_of(out):
    m = re.search(br'(-?\d+)', out)
    return int(m.group(1)) if m else None


_ERRTAB = {}


def err_of(out):
    """BASIC error number reported in an output, or None"""
    if not _ERRTAB:
        _ERRTAB.update(basic.error_table())
    for line in out.replace(b'\xff', b'').split(b'\r\n'):
        line = line.strip()
        m = re.match(br'^(.*?)(?: in \d+)?$', line)
        if m and m.group(1) in _ERRTAB:
            return _ERRTAB[m.group(1)]
    return None


def flatten(nested, ndims):
    """Session.get_variable nests the first dimension outermost; the buffer has the first index fastest"""
    if ndims == 1:
        return list(nested)
    if ndims == 2:
        return [nested[i][j] for j in range(len(nested[0])) for i in range(len(nested))]
    return [nested[i][j][k] for k in range(len(nested[0][0])) for j in range(len(nested[0]))
            for i in range(len(nested))]


def scal_size(full):
    return max(3, len(full)) + 1 + SIGILS[full[-1]]


def arr_size(full, dims, lo):
    flat = 1
    for d in dims:
        flat *= d + 1 - lo
    return 1 + max(3, len(full)) + 3 + 2 * len(dims) + flat * SIGILS[full[-1]]


# a history of later statements whose results depend on state that a reset must have cleared, including
# state that only shows through LATER behaviour (e.g. "the base was implied by DIM": only an ERASE of the last
# array after an explicit OPTION BASE reveals it).  All statements are independent of the program in memory.
LATE_HISTORY = [
    'OPTION BASE 1', 'DIM ZH1!(2)', 'LOCATE 1,1:ZH1!(0)=1', 'LOCATE 1,1:ZH1!(1)=7:PRINT ZH1!(1);ZH1!(2)', 'ERASE ZH1!',
    'LOCATE 1,1:OPTION BASE 0', 'DIM ZH2%(1),ZH6$(1,1)', 'LOCATE 1,1:ZH2%(0)=5', 'ERASE ZH2%', 'LOCATE 1,1:ZH6$(1,0)="q"',
    'ERASE ZH6$', 'LOCATE 1,1:OPTION BASE 0', 'LOCATE 1,1:ZH5(3)=2:PRINT ZH5(3);ZH5(10)', 'LOCATE 1,1:ZH5(0)=1',
    'LOCATE 1,1:ZH5(11)=1', 'ERASE ZH5', 'LOCATE 1,1:OPTION BASE 0', 'LOCATE 1,1:OPTION BASE 1',
    'LOCATE 1,1:ZH3=1/3:PRINT ZH3', 'LOCATE 1,1:ZH4$="a"+"b":PRINT ZH4$;LEN(ZH4$)', 'LOCATE 1,1:PRINT RND;RND',
    'LOCATE 1,1:NEXT', 'LOCATE 1,1:WEND', 'LOCATE 1,1:RETURN', 'LOCATE 1,1:RESUME', 'LOCATE 1,1:ERROR 200',
    'LOCATE 1,1:PRINT 1/0',
]
_FRESH = {}


def fresh_late_history():
    """the specification: the same history in a fresh session (after the one RND the probes have drawn)"""
    if 'out' not in _FRESH:
        s = basic.new_session(max_memory=TOTAL0)
        try:
            ex(s, 'LOCATE 1,1:PRINT RND')
            _FRESH['out'] = [ex(s, h) for h in LATE_HISTORY]
        finally:
            s.close()
    return _FRESH['out']


def run_scenario(sc):
    """Returns dict(pre=..., obs=..., req=model request line, impl=canonical string)."""
    _fast_events()
    d = tempfile.mkdtemp(prefix='c23_')
    try:
        s = basic.new_session(devices={'C': d}, current_device='C', max_memory=TOTAL0)
        try:
            return _run(sc, s)
        finally:
            s.close()
    finally:
        shutil.rmtree(d, ignore_errors=True)


def _run(sc, s):
    kind, op = sc['kind'], sc['op']
    table = deftype_table(sc['deftypes'])
    top0 = TOTAL0 - STACK0 - 2
    code_start = top0 - fre_of(ex(s, 'PRINT FRE(0)')) - 3     # an empty program occupies 3 bytes
    p2_lines = []
    if kind == 'chain' and op['exists']:
        p2 = build_p2(sc)
        for l in p2:
            ex(s, l)
        p2_size = top0 - fre_of(ex(s, 'PRINT FRE(0)')) - code_start
        ex(s, 'SAVE "P2"%s' % (',A' if op['ascii'] else ''))
        ex(s, 'NEW')
        p2_lines = [int(l.split()[0]) for l in p2]
    # enter P1 (with a placeholder of the final size for CLEAR ,n), measure its size, fix CLEAR ,n
    total, stack = TOTAL0, STACK0
    lines, optxt = build_p1(sc, 9999 if sc['room'] is not None else None, total, stack)
    for l in lines:
        ex(s, l)
    vs_old = top0 - fre_of(ex(s, 'PRINT FRE(0)'))
    hv = helper_vars(sc)
    lo = sc['base'] or 0
    need = sum(scal_size(x['full']) for x in sc['scalars']) + sum(scal_size(n) for n, _ in hv) \
        + sum(scal_size(complete(f, table)) for f in sc['fns']) \
        + sum(arr_size(a['full'], a['dims'], lo) for a in sc['arrays'])
    strbytes = sum(len(binascii.unhexlify(x['val'])) for x in sc['scalars']
                   if x['full'][-1] == '$' and x['mode'] not in ('lit', 'field')) \
        + sum(len(binascii.unhexlify(v)) for a in sc['arrays'] if a['full'][-1] == '$'
              for m, v in a['cells'].values() if m != 'lit') + (200 if sc['garbage'] else 0)
    if sc['room'] is not None:
        total = vs_old + need + strbytes + 160 + sc['room'] + STACK0 + 2
        if kind == 'chain' and op['exists']:
            # the target program must fit; `fit` bytes are left for the COMMON variables
            total = max(total, (vs_old if op['merge'] else code_start) + p2_size + STACK0 + 2 + op['fit'])
        total = min(32767, max(1024, total))
        lines, optxt = build_p1(sc, total, total, stack)
        ex(s, lines[0])
        for l in lines:
            if l.startswith('1020 '):
                ex(s, l)
        vs_old = top0 - fre_of(ex(s, 'PRINT FRE(0)'))
    if kind == 'clear' and not op['bad']:
        avail = total - STACK0 - 2 - vs_old
        inc = (op['stack'] or STACK0) - STACK0
        if inc > avail - 500:
            op['stack'] = None
            inc = 0
        if op['mem'] is not None:
            op['mem'] = max(1, min(op['mem'], avail - 500 - inc))
        lines, optxt = build_p1(sc, total if sc['room'] is not None else None, total, stack)
        for l in lines:
            if l.startswith('1020 '):
                ex(s, l)
        vs_old = top0 - fre_of(ex(s, 'PRINT FRE(0)'))
    top = total - stack - 2
    p1_nums = [int(l.split()[0]) for l in lines]
    # pre-state of the model
    # (name, sigil, value, storage class: 'lit' = the bytes live outside string space - program text or FIELD buffer)
    pre_sc = [(x['full'], x['full'][-1], val_bytes(x['full'][-1], x['val']),
               'lit' if x['mode'] in ('lit', 'field') else x['mode']) for x in sc['scalars']]
    pre_sc += [(n, n[-1], v, 'cat') for n, v in hv]
    # DEF FN keeps a record among the scalars: first name byte + 0x80, a code address as value
    fn_recs = [chr(ord(complete(f, table)[0]) + 128) + complete(f, table)[1:] for f in sc['fns']]
    pre_ar = []
    for a in sc['arrays']:
        sig = a['full'][-1]
        flat = 1
        for dd in a['dims']:
            flat *= dd + 1 - lo
        cells = [(zero(sig), 'chr')] * flat
        for i, (mode, val) in a['cells'].items():
            cells[int(i)] = (val_bytes(sig, val), mode)
        pre_ar.append((a['full'], sig, a['dims'], cells))
    # run P1 up to the STOP (or through the in-program operation)
    out_run = ex(s, 'RUN')
    res = {'out_run': out_run, 'optxt': optxt}
    if not op['inprog']:
        if b'Break in 1020' not in out_run:
            res['setup_failed'] = out_run
            return res
        out_op = ex(s, optxt)
    else:
        out_op = out_run
        m = re.search(br' in (\d+)', out_run)
        if m and int(m.group(1)) < 1000 and b'Break' not in out_run:
            res['setup_failed'] = out_run
            return res
    res['out_op'] = out_op
    total_op, stack_op = total, stack
    # new memory parameters
    clear_err = None
    if kind == 'clear':
        if op['bad']:
            clear_err = err_of(out_op)
        else:
            if op['mem'] is not None:
                total -= op['mem']
            if op['stack'] is not None:
                stack = op['stack']
    top_after = total - stack - 2
    obs = {}
    obs['err_op'] = err_of(out_op)
    # "an error handler is in progress" is error-trap state too: if it survived, a later ON ERROR GOTO would not trap
    # the next error.  Read from the interpreter (internal peek, soft: absent attribute = not observed) right after the
    # statement: the first untrapped error of the probes below resets it.
    try:
        obs['inh'] = 1 if s._impl.interpreter.error_handle_mode else 0
    except Exception:       # noqa
        obs['inh'] = 0
    # a CHAIN whose file cannot be opened must leave everything as it was (the file is opened first)
    nofile = kind == 'chain' and not op['exists']
    # ---- probes (order matters) ----
    # (unchanged memory still holds the garbage of the set-up: collect it first to make FRE predictable)
    obs['fre'] = fre_of(ex(s, 'PRINT FRE("")' if nofile else 'PRINT FRE(0)'))
    m = re.findall(br'-?\d+', ex(s, 'PRINT ERR;ERL'))
    obs['err'] = int(m[0]) if m else None
    if nofile:
        obs['trapped'] = obs['err_op'] is None and b'Break in 2010' in out_op
        if obs['trapped'] and obs['err'] == 53:
            obs['err_op'] = 53          # went to the ON ERROR handler, which stops in line 2010
    direct = not op['inprog']
    if direct and kind in ('clear', 'new') and not clear_err:
        obs['cont'] = err_of(ex(s, 'CONT'))
    if sc['file']:
        obs['files'] = 0 if err_of(ex(s, 'LOCATE 1,1:PRINT LOF(1)')) == 52 else 1
    else:
        obs['files'] = 0
    obs['rnd'] = 1 if ex(s, 'LOCATE 1,1:PRINT RND') == FRESH_RND else 0
    # variables
    sc_after = {}
    for name, sig, _, _ in pre_sc:
        try:
            sc_after[name] = py_bytes(sig, s.get_variable(name))
        except Exception as e:      # noqa
            raise HostExc('get_variable(%s): %s: %s' % (name, type(e).__name__, e))
    ar_after = {}
    for name, sig, dims, _ in pre_ar:
        try:
            v = s.get_variable(name + '()')
        except Exception as e:      # noqa
            raise HostExc('get_variable(%s()): %s: %s' % (name, type(e).__name__, e))
        if v == []:
            ar_after[name] = None
        else:
            nd, shape, x = 0, [], v
            while isinstance(x, list):
                shape.append(len(x))
                nd += 1
                x = x[0]
            ar_after[name] = (shape, [py_bytes(sig, c) for c in flatten(v, nd)])
    obs['sc'], obs['ar'] = sc_after, ar_after
    # DEF FN
    fn_alive = []
    for i, f in enumerate(sc['fns']):
        if kind == 'chain' and op['all'] and op['exists']:
            break       # kept by ALL but pointing into the replaced program text: not called
        out = ex(s, 'LOCATE 1,1:PRINT FN%s(1)' % f)
        if err_of(out) != 18:
            fn_alive.append(f)
    obs['fn'] = fn_alive
    # has P1 survived?
    p1_here = kind in ('clear', 'run') or (kind == 'chain' and (op['merge'] or obs['err_op'] is not None))
    if kind == 'chain' and obs['err_op'] is not None and not op['merge'] and op['exists'] and obs['err_op'] != 53:
        p1_here = False        # the new program was loaded before the failure
    prog_here = p1_here or (kind == 'chain')
    obs['p1_here'] = p1_here
    # stacks
    if nofile:
        # nothing may have changed, so the stacks are alive: probing them by NEXT/WEND/RETURN would resume
        # the program; they are read from the interpreter instead (expected values if not accessible)
        try:
            it_ = s._impl.interpreter
            obs['gosub'] = 1 if it_.gosub_stack else 0
            obs['for'] = 1 if it_.for_stack else 0
            obs['while'] = 1 if it_.while_stack else 0
            obs['trap'] = it_.on_error or 0
            obs['math'] = 1 if s._impl.values.error_handler._do_raise else 0
        except Exception:       # noqa
            obs['gosub'], obs['for'], obs['while'] = (1 if sc['nest'] else 0), 1, 1
            obs['trap'] = 9000 if sc['onerror'] else 0
            obs['math'] = 1 if sc['onerror'] else 0
        obs['trap_out'] = obs['math_out'] = b''
        # the trap is (rightly) still armed: switch it off, or the probes below that work by provoking an
        # error would run the handler and with it parts of the program
        ex(s, 'ON ERROR GOTO 0')
    elif p1_here:
        o = ex(s, 'GOTO 1040')
        obs['while'] = 0 if err_of(o) == 30 else 1
        o = ex(s, 'GOTO 1050')
        obs['for'] = 0 if err_of(o) == 1 else 1
        if sc['nest']:
            o = ex(s, 'GOTO 1060')
        else:
            o = ex(s, 'RETURN')
        obs['gosub'] = 0 if err_of(o) == 3 else 1
    else:
        obs['while'] = obs['for'] = 0
        obs['gosub'] = 0 if err_of(ex(s, 'RETURN')) == 3 else 1
    # error trap, soft math errors
    if nofile:
        o = None
    elif prog_here:
        o = ex(s, 'GOTO 2000')
        obs['trap'] = 0 if o.replace(b'\xff', b'').strip() == b'Unprintable error in 2000' else 9000
        obs['trap_out'] = o
        o = ex(s, 'GOTO 3000')
    else:
        o = ex(s, 'ERROR 78')
        obs['trap'] = 0 if o.replace(b'\xff', b'').strip() == b'Unprintable error' else 9000
        obs['trap_out'] = o
        o = ex(s, 'LOCATE 1,1:PRINT 1/0:PRINT "SOFT"')
    if o is not None:
        obs['math'] = 0 if (b'Division by zero\r\n' in o and b'SOFT' in o) else 1
        obs['math_out'] = o
    # make room for the remaining probes: the values have been recorded, drop the strings
    for name, sig, _, _ in pre_sc:
        if sig == '$' and obs['sc'][name]:
            ex(s, '%s=""' % name)
    ex(s, 'LOCATE 1,1:PRINT FRE("")')
    obs['read'] = ex(s, 'LOCATE 1,1:READ ZD9!:PRINT ZD9!')
    # events (internal peek, soft)
    try:
        be = s._impl.basic_events
        obs['ev'] = len(be.enabled) + sum(1 for h in be.all if getattr(h, 'gosub', None) is not None)
    except Exception:       # noqa
        obs['ev'] = None
    # program text
    obs['list5000'] = ex(s, 'LOCATE 1,1:LIST 5000')
    # OPTION BASE
    full_reset = (kind in ('clear', 'new', 'run') and not clear_err) or \
        (kind == 'chain' and obs['err_op'] is None and not (op['cs'] or op['ca'] or op['all']))
    if full_reset and sc.get('late'):
        # "reset" = what a fresh session does: a history of later statements must behave exactly as in a
        # fresh session (this exposes state that no single probe can see, e.g. flags that only matter to a
        # later OPTION BASE / ERASE).  It replaces the classifying probe below, which would itself
        # overwrite such state; a matching history leaves the base unset-or-1, reported as unset.
        f = fre_of(ex(s, 'LOCATE 1,1:PRINT FRE(0)')) or 0
        if f < 250:
            res['tight'] = f
            return res
        obs['late'] = [ex(s, h) for h in LATE_HISTORY]
        obs['base'] = '-' if obs['late'] == fresh_late_history() else 'H'
    else:
        o = ex(s, 'DIM ZQ7!(1)')
        n1 = len(s.get_variable('ZQ7!()') or [])
        ex(s, 'ERASE ZQ7!')
        o = ex(s, 'OPTION BASE 1')
        obs['base'] = '1' if n1 == 1 else ('0' if err_of(o) == 10 else '-')
    for name, sig, dims, _ in pre_ar:
        if ar_after[name] is not None:
            ex(s, 'ERASE %s' % name)
    f = fre_of(ex(s, 'LOCATE 1,1:PRINT FRE(0)')) or 0
    if f < 150:
        res['tight'] = f
        return res
    # default types (reading an undefined variable allocates nothing)
    dt = []
    for c in 'ABCDEFGHIJKLMNOPQRSTUVWXYZ':
        o = ex(s, 'LOCATE 1,1:PRINT %sQ.9+1/3' % c)
        if err_of(o) == 13:
            dt.append('$')
        elif b'.3333333432674408' in o:
            dt.append('#')
        elif b'.3333334' in o:
            # integer or single: needs an assignment; a temporary array is given back by ERASE
            o = ex(s, 'LOCATE 1,1:%sQ.9(1)=1/3:PRINT %sQ.9(1)' % (c, c))
            ex(s, 'ERASE %sQ.9' % c)
            dt.append('%' if o.strip() == b'0' else '!' if b'.3333334' in o else '?')
        else:
            dt.append('?')
    obs['dt'] = ''.join(dt)
    # collector alive?  (fill string space several times over)
    f = fre_of(ex(s, 'LOCATE 1,1:PRINT FRE(0)')) or 0
    if f < 100:
        obs['gc'], obs['gc_out'] = 1, b'(not probed: %d bytes free)' % f
    else:
        ln = min(200, (f - 40) // 3)
        o = ex(s, 'FOR ZZ9=1 TO %d:ZS9$=STRING$(%d,"x")+"y":NEXT:PRINT "GCOK"' % (min(f // ln + 6, 400), ln - 1))
        obs['gc'] = 1 if b'GCOK' in o else 0
        obs['gc_out'] = o
        ex(s, 'ZS9$=""')
    # size of the program now in memory
    vs_new = top_after - fre_of(ex(s, 'CLEAR:PRINT FRE(0)'))
    res.update(code_start=code_start, fn_recs=fn_recs, obs=obs, pre_sc=pre_sc, pre_ar=pre_ar, vs_old=vs_old, vs_new=vs_new, total=total, stack=stack,
               top_after=top_after, p1_nums=p1_nums, p2_lines=p2_lines, table=table, clear_err=clear_err,
               total_op=total_op, stack_op=stack_op)
    return res


# ---------------------------------------------------------------------------------------------------
# model request and canonical implementation string

def hexname(n):
    return binascii.hexlify(n.encode('latin-1')).decode()


def model_request(sc, r):
    kind, op = sc['kind'], sc['op']
    total_b, stack_b = r['total_op'], r['stack_op']
    if kind == 'clear':
        if op['bad'] == 'mem0':
            opw = 'clear:0:-'
        elif op['bad'] == 'stack0':
            opw = 'clear:-:0'
        elif op['bad'] == 'memhigh':
            opw = 'clear:%d:-' % min(65535, total_b + 1)
        else:
            opw = 'clear:%s:%s' % ('-' if op['mem'] is None else total_b - op['mem'],
                                   '-' if op['stack'] is None else op['stack'])
    elif kind == 'new':
        opw = 'new'
    elif kind == 'run':
        opw = 'run:%d' % op['line']
    else:
        if op['exists']:
            lines = sorted(set(r['p2_lines']) | (set(r['p1_nums']) if op['merge'] else set()))
            size, lw = str(r['vs_new_chain'] - r['code_start']), '.'.join(map(str, lines))
        else:
            size, lw = 'x', '-'
        opw = 'chain:%d%d:%s:%s:%s' % (op['merge'], op['all'], '-' if op['jump'] is None else op['jump'], size, lw)
    mem = '%d,%d,%d,%d,0,%s' % (total_b, stack_b, r['code_start'], r['vs_old'] - r['code_start'],
                                '.'.join(map(str, r['p1_nums'])))
    dt = ''.join(r['table'])
    if sc['base'] is not None:
        base = str(sc['base'])
    else:
        base = '0d' if sc['arrays'] else '-'
    def strw(v, mode):
        # L: bytes outside string space; E: empty string computed at run time (shares the address of the
        # string stored before it); S: in string space ('chr' with no bytes is a "" literal / unassigned)
        return 'L' + hx(v) if mode == 'lit' else 'E' if (not v and mode != 'chr') else 'S' + hx(v)
    scw = ';'.join('%s=%s' % (hexname(n), strw(v, mode) if sig == '$' else hx(v))
                   for n, sig, v, mode in r['pre_sc'])
    scw = ';'.join([x for x in [scw] if x] + ['%s=%s' % (hexname(n), '00' * SIGILS[n[-1]]) for n in r['fn_recs']]) or '-'
    arw = ';'.join('%s=%s=%s' % (hexname(n), '.'.join(map(str, dims)),
                                 ','.join(strw(v, mode) if sig == '$' else hx(v) for v, mode in cells))
                   for n, sig, dims, cells in r['pre_ar']) or '-'
    fns = ','.join(hexname(complete(f, r['table'])) for f in sc['fns']) or '-'
    interp = '%d,1,1,%d,%d,%d,%d,%d,%d,%d,%d' % (1 if sc['nest'] else 0, 9000 if sc['onerror'] else 0,
                                                  77 if sc['err'] else 0, 5 if sc['err'] else 0,
                                                  1 if sc['onerror'] else 0, 1 if sc['keytrap'] else 0,
                                                  sc['reads'], sc['rnd'], 1 if op['inprog'] else 0)
    files = '1' if sc['file'] else '0'
    if kind == 'chain':
        cs = ','.join(hexname(complete(n, r['table'])) for n in op['cs']) or '-'
        ca = ','.join(hexname(complete(n, r['table'])) for n in op['ca']) or '-'
    else:
        cs = ca = '-'
    return ' '.join([opw, mem, dt, base, scw, arw, fns, interp, files, cs, ca])


def impl_string(sc, r):
    kind, op, obs = sc['kind'], sc['op'], r['obs']
    if kind == 'clear' and op['bad']:
        return 'err %s' % r['clear_err']
    head = 'ok' if obs['err_op'] is None else 'err %d' % obs['err_op']
    scw = ';'.join('%s=%s' % (hexname(n), cell_txt(sig, obs['sc'][n])) for n, sig, _, _ in r['pre_sc']) or '-'
    parts = []
    for n, sig, dims, _ in r['pre_ar']:
        a = obs['ar'][n]
        if a is None:
            parts.append('%s=-' % hexname(n))
        else:
            lo = int(obs['base']) if obs['base'] in '01' else 0
            parts.append('%s=%s=%s' % (hexname(n), '.'.join(str(k - 1 + lo) for k in a[0]),
                                       ','.join(cell_txt(sig, c) for c in a[1])))
    arw = ';'.join(parts) or '-'
    if kind == 'chain' and op['all'] and op['exists']:
        fn = [complete(f, r['table']) for f in sc['fns']]     # not probed: calling them would run stale code
    else:
        fn = [complete(f, r['table']) for f in obs['fn']]
    ev = obs['ev'] if obs['ev'] is not None else 0
    exp_first = {b' 11 \r\n': 0, b' 71 \r\n': 0}
    if kind == 'new':
        dp = 0 if err_of(obs['read']) == 4 else 1
    else:
        dp = exp_first.get(obs['read'], 1)
    return ('%s sc=%s ar=%s dt=%s base=%s fn=%s st=%d,%d,%d oe=%d err=%s mr=%d ev=%d dp=%d rnd=%d files=%d fre=%s gc=%d'
            % (head, scw, arw, obs['dt'], obs['base'], ','.join(hexname(f) for f in fn) or '-',
               obs['gosub'], obs['for'], obs['while'], obs['trap'], obs['err'], obs['math'], ev, dp, obs['rnd'],
               obs['files'], obs['fre'], obs['gc']))


# ---------------------------------------------------------------------------------------------------
# the independent oracle (from the statement)

def oracle(ctx, sc, r):
    kind, op, obs = sc['kind'], sc['op'], r['obs']
    case = {'scenario': sc}
    tag = kind + (':prog' if op['inprog'] else ':direct')

    def fail(what, msg):
        ctx.fail('%s:%s' % (kind, what), case, '%s after `%s` (%s): %s' % (what, r['optxt'], tag, msg))
    if kind == 'clear' and op['bad']:
        want = {'mem0': 5, 'stack0': 5, 'memhigh': 7}[op['bad']]
        if r['clear_err'] != want:
            fail('bad-argument', 'expected error %d, got %r' % (want, r['out_op']))
        return
    if kind == 'chain' and not op['exists']:
        return oracle_nofile(sc, r, fail)
    e = obs['err_op']
    failed = e is not None
    keep_all = False
    commons_s, commons_a = set(), set()
    if kind == 'chain':
        commons_s = {complete(n, r['table']) for n in op['cs']}
        commons_a = {complete(n, r['table']) for n in op['ca']}
        keep_all = op['all']
        # expected outcome of the CHAIN itself
        if op['jump'] == 6999:
            if e != 5:
                fail('undefined-start-line', 'expected Illegal function call, got %r' % r['out_op'])
        else:
            lo = sc['base'] or 0
            kept_s = [(n, sig, v) for n, sig, v, _ in r['pre_sc'] if keep_all or n in commons_s]
            kept_a = [(n, sig, dims, cells) for n, sig, dims, cells in r['pre_ar'] if keep_all or n in commons_a]
            need = r['vs_new_chain'] + sum(scal_size(n) for n, _, _ in kept_s) \
                + (sum(scal_size(n) for n in r['fn_recs']) if keep_all else 0) \
                + sum(arr_size(n, dims, lo) for n, _, dims, _ in kept_a) \
                + sum(len(v) for n, sig, v in kept_s if sig == '$') \
                + sum(len(c) for n, sig, dims, cells in kept_a if sig == '$' for c, _ in cells)
            r['need'], r['fits'] = need, need < r['top_after']
            if e == 14:
                fail('out-of-string-space', 'the COMMON strings need %d of %d bytes, got %r'
                     % (need, r['top_after'], r['out_op']))
            elif e == 7 and need < r['top_after'] - 1:
                fail('out-of-memory', 'the COMMON variables need %d of %d bytes, got %r'
                     % (need, r['top_after'], r['out_op']))
            elif e is None and need > r['top_after']:
                fail('memory-overcommitted', 'CHAIN succeeded although %d > %d bytes are needed' % (need, r['top_after']))
            elif e not in (None, 7, 14):
                fail('unexpected-error', 'got %r' % r['out_op'])
    elif kind == 'run':
        if op['line'] == 4999:
            if e != 8:
                fail('undefined-line', 'expected Undefined line number, got %r' % r['out_op'])
        elif e is not None:
            fail('unexpected-error', 'got %r' % r['out_op'])
    elif e is not None:
        fail('unexpected-error', 'got %r' % r['out_op'])
    # the collector must work afterwards, whatever happened
    if not obs['gc']:
        fail('collector-dead', 'a loop assigning 200-byte strings ends in %r' % obs['gc_out'])
    ok_chain = kind == 'chain' and not failed
    # variables
    for n, sig, v, _ in r['pre_sc']:
        got = obs['sc'][n]
        if ok_chain and (keep_all or n in commons_s):
            if got != v:
                fail('common-%s-changed' % ('string' if sig == '$' else 'number'),
                     '%s was %r, now %r' % (n, v, got))
        elif kind == 'chain' and failed:
            continue        # the statement says nothing about the variables after a failed CHAIN
        elif got != zero(sig):
            fail('scalar-survives', '%s still reads %r' % (n, got))
    for n, sig, dims, cells in r['pre_ar']:
        got = obs['ar'][n]
        if ok_chain and (keep_all or n in commons_a):
            lo = sc['base'] or 0
            if got is None:
                fail('common-array-lost', '%s() is not defined any more' % n)
            elif got[0] != [dd + 1 - lo for dd in dims]:
                fail('common-array-reshaped', '%s() had dimensions %r, now shape %r' % (n, dims, got[0]))
            elif got[1] != [c for c, _ in cells]:
                bad = [i for i, (a, b) in enumerate(zip(got[1], [c for c, _ in cells])) if a != b]
                fail('common-array-changed', '%s() differs at flat indices %r' % (n, bad[:5]))
        elif kind == 'chain' and failed:
            continue
        elif got is not None:
            fail('array-survives', '%s() is still dimensioned' % n)
    if kind == 'chain' and failed:
        return
    # everything else is reset
    if obs['fn'] and not (kind == 'chain' and op['all']):
        fail('def-fn-survives', 'FN%s still callable' % obs['fn'][0])
    want_dt = ''.join(r['table']) if (kind == 'chain' and op['merge']) else '!' * 26
    if obs['dt'] != want_dt:
        fail('deftype', 'default types %s, expected %s' % (obs['dt'], want_dt))
    want_base = '-'
    if kind == 'chain' and (op['cs'] or op['ca'] or op['all']):
        # OPTION BASE stays in force when something is COMMON (as in GW-BASIC); a base that was only
        # implied by DIM is visible as long as an array exists
        if sc['base'] is not None:
            want_base = str(sc['base'])
        elif any(keep_all or a['full'] in commons_a for a in sc['arrays']):
            want_base = '0'
    if 'late' in obs:
        ref = fresh_late_history()
        bad = [i for i, (a, b) in enumerate(zip(obs['late'], ref)) if a != b]
        if bad:
            i = bad[0]
            fail('later-history-differs-from-fresh-session',
                 'statement %d `%s` of the history %r gave %r, a fresh session gives %r'
                 % (i, LATE_HISTORY[i], LATE_HISTORY[:i + 1], obs['late'][i], ref[i]))
    elif obs['base'] != want_base:
        fail('option-base', 'OPTION BASE probe says %s, expected %s' % (obs['base'], want_base))
    if obs['for']:
        fail('for-stack-survives', 'NEXT after the reset did not raise NEXT without FOR')
    if obs['while']:
        fail('while-stack-survives', 'WEND after the reset did not raise WEND without WHILE')
    if obs['gosub']:
        fail('gosub-stack-survives', 'RETURN after the reset did not raise RETURN without GOSUB')
    if obs['trap']:
        fail('error-trap-survives', 'ERROR 78 gave %r' % obs['trap_out'])
    if obs.get('inh'):
        fail('error-handler-state-survives', 'the interpreter still is in error-handling mode after the reset (it was '
             'executed inside an ON ERROR handler): the next trapped error would be fatal')
    if obs['math']:
        fail('math-error-trap-survives', 'PRINT 1/0 gave %r (soft handling stays suspended)' % obs['math_out'])
    if obs['err'] != (e or 0):
        fail('err-survives', 'ERR = %r' % obs['err'])
    if not obs['rnd']:
        fail('rnd-sequence-survives', 'RND does not restart the sequence')
    first = {'clear': b' 11 \r\n', 'run': b' 11 \r\n', 'chain': b' 71 \r\n'}.get(kind)
    if kind == 'new':
        if err_of(obs['read']) != 4:
            fail('data-pointer', 'READ after NEW gave %r' % obs['read'])
    elif obs['read'] != first:
        fail('data-pointer', 'READ gave %r, expected %r' % (obs['read'], first))
    if 'cont' in obs and obs['cont'] != 17:
        fail('cont-survives', "CONT did not raise Can't continue")
    if kind == 'new' and obs['list5000'].strip():
        fail('program-survives', 'LIST shows %r' % obs['list5000'])
    if kind in ('clear', 'run') and b'5000 STOP' not in obs['list5000']:
        fail('program-lost', 'LIST 5000 shows %r' % obs['list5000'])
    # memory accounting: free memory = everything minus the program minus the kept variables and strings
    if ok_chain:
        want_fre = r['top_after'] - r['need'] if 'need' in r else None
    else:
        want_fre = r['top_after'] - r['vs_new']
    if want_fre is not None and obs['fre'] != want_fre:
        fail('fre-accounting', 'FRE(0) = %r, expected %r' % (obs['fre'], want_fre))


def oracle_nofile(sc, r, fail):
    """CHAIN of a file that cannot be opened: File not found (trapped if a trap is active), nothing changed."""
    obs = r['obs']
    want_trapped = sc['onerror'] and not sc['err']      # inside a handler errors are not trapped again
    if want_trapped:
        if not obs.get('trapped') or obs['err'] != 53 or b'File not found' in r['out_op']:
            fail('missing-file-not-trapped', 'ON ERROR GOTO 9000 is active, expected the handler (Break in 2010, ERR=53), '
                 'got %r, ERR=%r' % (r['out_op'], obs['err']))
    elif err_of(r['out_op']) != 53 or obs['err'] != 53:
        fail('missing-file', 'expected File not found, got %r, ERR=%r' % (r['out_op'], obs['err']))
    if not obs['gc']:
        fail('collector-dead', 'a loop assigning strings ends in %r' % obs['gc_out'])
    for n, sig, v, _ in r['pre_sc']:
        if obs['sc'][n] != v:
            fail('failed-open-changed-scalar', '%s was %r, now %r' % (n, v, obs['sc'][n]))
    lo = sc['base'] or 0
    for n, sig, dims, cells in r['pre_ar']:
        got = obs['ar'][n]
        if got is None:
            fail('failed-open-lost-array', '%s() is not defined any more' % n)
        elif got[0] != [dd + 1 - lo for dd in dims] or got[1] != [c for c, _ in cells]:
            fail('failed-open-changed-array', '%s() changed' % n)
    if sorted(obs['fn']) != sorted(sc['fns']):
        fail('failed-open-lost-def-fn', 'still callable: %r of %r' % (obs['fn'], sc['fns']))
    if obs['dt'] != ''.join(r['table']):
        fail('failed-open-changed-deftype', 'default types %s, expected %s' % (obs['dt'], ''.join(r['table'])))
    want_base = str(sc['base']) if sc['base'] is not None else ('0' if sc['arrays'] else '-')
    if obs['base'] != want_base:
        fail('failed-open-changed-option-base', 'OPTION BASE probe says %s, expected %s' % (obs['base'], want_base))
    if (obs['gosub'], obs['for'], obs['while']) != (1 if sc['nest'] else 0, 1, 1):
        fail('failed-open-cleared-stacks', 'GOSUB/FOR/WHILE records present: %r'
             % ((obs['gosub'], obs['for'], obs['while']),))
    if obs['trap'] != (9000 if sc['onerror'] else 0):
        fail('failed-open-changed-error-trap', 'ON ERROR line %r' % obs['trap'])
    if obs['math'] != (1 if sc['onerror'] else 0):
        fail('failed-open-changed-math-trap', 'PRINT 1/0 gave %r' % obs['math_out'])
    if obs['rnd'] != (1 if sc['rnd'] == 0 else 0):
        fail('failed-open-changed-rnd', 'RND sequence %s' % ('restarted' if obs['rnd'] else 'moved'))
    want_read = b' %d \r\n' % [11, 22, 33, 44, 55][sc['reads']]
    if obs['read'] != want_read:
        fail('failed-open-changed-data-pointer', 'READ gave %r, expected %r' % (obs['read'], want_read))
    if sc['file'] and not obs['files']:
        fail('failed-open-closed-files', 'file #1 is closed')
    need = r['vs_old'] + sum(scal_size(n) for n, _, _, _ in r['pre_sc']) + sum(scal_size(n) for n in r['fn_recs']) \
        + sum(arr_size(n, dims, lo) for n, _, dims, _ in r['pre_ar']) \
        + sum(len(v) for n, sig, v, mode in r['pre_sc'] if sig == '$' and mode != 'lit') \
        + sum(len(c) for n, sig, dims, cells in r['pre_ar'] if sig == '$' for c, mode in cells if mode != 'lit')
    if obs['fre'] != r['top_after'] - need:
        fail('failed-open-fre-accounting', 'FRE("") = %r, expected %r' % (obs['fre'], r['top_after'] - need))


# ---------------------------------------------------------------------------------------------------

def evaluate(ctx, scenarios):
    cases, outs, lines = [], [], []
    for sc in scenarios:
        kind, op = sc['kind'], sc['op']
        try:
            r = run_scenario(sc)
        except HostExc as e:
            ctx.case(repr(sc))
            ctx.fail('%s:host-exception' % kind, {'scenario': sc}, str(e))
            continue
        if 'tight' in r:
            ctx.count('skipped:too-little-memory-left-for-the-probes')
            continue
        if 'setup_failed' in r:
            ctx.count('setup-failed')
            ctx.notes.setdefault('setup_failed_examples', [])
            if len(ctx.notes['setup_failed_examples']) < 3:
                ctx.notes['setup_failed_examples'].append(repr(r['setup_failed'])[:200])
            continue
        r['vs_new_chain'] = r['vs_new']
        ctx.case(repr(sc))
        ctx.count('op:' + kind + (':prog' if op['inprog'] else ':direct'))
        if kind == 'chain':
            ctx.count('chain:%s%s%s' % ('merge' if op['merge'] else 'load', ':all' if op['all'] else '',
                                        ':ascii' if op['ascii'] else ''))
            ctx.count('chain:commons=%d' % min(5, len(op['cs']) + len(op['ca'])))
        e = r['obs']['err_op'] if not (kind == 'clear' and op['bad']) else r['clear_err']
        ctx.count('result:' + ('ok' if e is None else 'err%s' % e))
        if sc['room'] is not None:
            ctx.count('near-limit')
        nstr = sum(1 for _, sig, v, _ in r['pre_sc'] if sig == '$' and v)
        ctx.count('strings:%s' % ('0' if not nstr else '1-3' if nstr < 4 else '4+'))
        ctx.count('arrays:%d' % len(r['pre_ar']))
        oracle(ctx, sc, r)
        cases.append({'scenario': sc})
        outs.append(impl_string(sc, r))
        lines.append(model_request(sc, r))
        ctx.sample({'op': r['optxt'], 'impl': outs[-1][:300]}, limit=6)
    ctx.compare(cases, outs, lines, label='scenario')


def run(ctx):
    rng = ctx.rng
    n = 500 if ctx.quick else 5000
    scenarios = []
    # every operation kind in both modes with a rich state (boundary-dense part)
    for kind in ('clear', 'new', 'run', 'chain', 'chain', 'chain'):
        for _ in range(3 if ctx.quick else 15):
            scenarios.append(gen_scenario(rng, kind))
    while len(scenarios) < n:
        scenarios.append(gen_scenario(rng))
    ctx.log('%d scenarios' % len(scenarios))
    for i in range(0, len(scenarios), 50):
        evaluate(ctx, scenarios[i:i + 50])


class _Sub(object):
    def __init__(self, ctx):
        self.__dict__.update(ctx.__dict__)
        self._ctx = ctx
        self.failures = []
        self.disagreements = []

    def __getattr__(self, name):
        return getattr(self._ctx.__class__, name).__get__(self)


def replay(ctx, payload):
    case = payload.get('case', {})
    sub = _Sub(ctx)
    evaluate(sub, [case['scenario']])
    hits = [f for f in sub.failures if f['key'] == payload.get('key')]
    return hits[0]['what'] if hits else None
