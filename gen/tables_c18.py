"""Generate lean/PcbV/Gen/Prec.lean: the operator tables of pcbasic/basic/parser/operators.py
(PRECEDENCE, OPERATORS, COMBINABLE, UNARY, BINARY) and the token classes the expression loop tests."""
from gen_tables import generator, HEADER, lean_bytes, lean_str


def _fname(fn):
    name = getattr(fn, '__name__', repr(fn))
    if name == '<lambda>':
        # the only lambda in the tables is unary plus (identity)
        probe = object()
        try:
            name = 'ident' if fn(probe) is probe else 'lambda'
        except Exception:  # noqa
            name = 'lambda'
    return name


def _keysort(k):
    return (len(k), bytes(k))


@generator('Prec')
def gen_prec():
    from pcbasic.basic.parser import operators as op
    from pcbasic.basic.base import tokens as tk
    out = [HEADER, 'namespace PcbV.Gen.Prec\n']
    out.append('/-- operators.PRECEDENCE: ((token bytes, nargs), precedence), in source order -/')
    out.append('def precedence : List ((List Nat × Nat) × Nat) := [')
    out.append(',\n'.join('  ((%s, %d), %d)' % (lean_bytes(k), n, p) for (k, n), p in op.PRECEDENCE.items()))
    out.append(']\n')
    out.append('/-- operators.OPERATORS (a set; listed sorted) -/')
    out.append('def operators : List (List Nat) := [%s]\n'
               % ', '.join(lean_bytes(k) for k in sorted(op.OPERATORS, key=_keysort)))
    out.append('/-- operators.COMBINABLE -/')
    out.append('def combinable : List (List Nat) := [%s]\n' % ', '.join(lean_bytes(k) for k in op.COMBINABLE))
    out.append('/-- operators.UNARY: token bytes -> name of the function applied -/')
    out.append('def unary : List (List Nat × String) := [%s]\n'
               % ', '.join('(%s, %s)' % (lean_bytes(k), lean_str(_fname(f))) for k, f in op.UNARY.items()))
    out.append('/-- operators.BINARY: token bytes -> name of the function applied -/')
    out.append('def binary : List (List Nat × String) := [')
    out.append(',\n'.join('  (%s, %s)' % (lean_bytes(k), lean_str(_fname(f))) for k, f in op.BINARY.items()))
    out.append(']\n')
    out.append('/-- tk.NOT -/')
    out.append('def notTok : List Nat := %s\n' % lean_bytes(tk.NOT))
    out.append('/-- the operator tokens by name (tokens.py) -/')
    for lname, tok in (('tCaret', tk.O_CARET), ('tPlus', tk.O_PLUS), ('tMinus', tk.O_MINUS), ('tTimes', tk.O_TIMES),
                       ('tDiv', tk.O_DIV), ('tIntDiv', tk.O_INTDIV), ('tMod', tk.MOD), ('tGt', tk.O_GT),
                       ('tEq', tk.O_EQ), ('tLt', tk.O_LT), ('tNot', tk.NOT), ('tAnd', tk.AND), ('tOr', tk.OR),
                       ('tXor', tk.XOR), ('tEqv', tk.EQV), ('tImp', tk.IMP)):
        out.append('def %s : List Nat := %s' % (lname, lean_bytes(tok)))
    out.append('')
    out.append('end PcbV.Gen.Prec\n')
    return '\n'.join(out)
