import PcbV.Lemmas.C04Div
/-
  C04 — Floating-point arithmetic stays within a fixed error of the exact result.

  All theorems are about the shared MBF model (`PcbV.Mbf`, transcription of numbers.py:Float) for
  ANY format with well-formed masks (`Fmt.WF`; `single_wf`, `double_wf`: the regenerated constants
  of the current source are well formed).  `val f x : Rat` is the exact value of a stored pattern,
  `p2 z = 2^z`, `S = f.signMask = 2^(w-1)`, so stored mantissas with the implied bit lie in [S, 2S),
  one unit in the last place of a result `z` is `p2 (z.e - bias)`, the smallest positive number is
  `p2 (-128)` and the largest is `maxVal f = (2S-1)·2^(255-bias)`.
  `dmag f exp man = man·2^(exp-bias-8)` is the magnitude a denormalised pair stands for.
  `imulFixed` is `Float.imul` after the repair of defect D5, `imul` the code before it.

  PROVED at full strength: `_normalise`/`_check_limits` (validity, half-ulp half-even rounding,
  overflow/underflow thresholds), division by zero, multiplication (exact product, error ≤ 5/8 ulp
  < 1 ulp including the low-nibble-9 quirk, Overflow only above the maximum, zero only below 2^-128),
  ADDITION and SUBTRACTION for all stored operands and every exponent difference (`add_error`,
  `sub_error`: ≤ 3/2 ulp ≤ 2 ulp; alignment loss, sticky bit, carry, shortcut and the GW-BASIC
  subtraction quirk included), DIVISION for all stored operands (`div_error`: ≤ (1/2 + w/128) ulp < 1 ulp
  for every format with w ≤ 63 mantissa bits, so for Single and Double; loop invariant of the
  shift-and-subtract loop with the lossy right-shifting divisor in Lemmas/C04Div.lean).
  `add_error_partial` / `div_error_partial` (the fragments proved first) are kept as corollaries.
  STILL OPEN (correspondence + oracle only): for + − / the statements "Overflow only when the exact
  result exceeds the maximum" and "zero only when the exact result is below 2^-128" are proved relative
  to the denormalised value handed to `_normalise` (`normalise_overflow_only_above_max`,
  `normalise_zero_only_below_min`), not yet relative to the exact sum/quotient (the ≤ 128-unit
  pre-rounding error would have to be tracked across the binade boundary); for * they are proved exactly.
-/
namespace PcbV.C04
open PcbV PcbV.Mbf PcbV.Mbf.C04

/-- largest representable magnitude -/
def maxVal (f : Fmt) : Rat := ((2 * f.signMask : Nat) - 1 : Rat) * p2 (255 - f.bias)

/-- the signed maximum delivered with Overflow / Division by zero -/
def signedMax (f : Fmt) (neg : Bool) : F := if neg then f.negMax else f.posMax

/-! ### `_normalise` and `_check_limits` -/

/-- the output of `_normalise` is always a stored value (mantissa bytes and exponent byte in range),
    for every input whatsoever; an error is Overflow carrying the signed maximum -/
theorem normalise_wf (f : Fmt) (h : f.WF) (exp : Int) (man : Nat) (neg : Bool) :
    (∀ z, normalise f exp man neg = .ok z → F.Valid f z) ∧
    (∀ c v, normalise f exp man neg = .error (c, v) → c = overflow ∧ v = signedMax f neg) := by
  unfold normalise
  split
  · refine ⟨fun z hz => ?_, fun c v hz => by cases hz⟩
    injection hz with hz; subst hz
    exact ⟨Nat.two_pow_pos _, by decide⟩
  · generalize shiftUp (f.w + 8) (f.denMask - 1) exp man = p
    obtain ⟨e', m'⟩ := p
    simp only []
    exact ⟨fun z hz => checkLimits_valid f h _ _ _ z hz,
      fun c v hz => (checkLimits_error f _ _ _ c v hz).2⟩

/-- a non-zero result of `_normalise` carries the requested sign and a normalised mantissa, and
    its exponent byte is in 1..255 -/
theorem normalise_nonzero_shape (f : Fmt) (h : f.WF) (exp : Int) (man : Nat) (neg : Bool)
    (hm : man < f.denUpper) (z : F) (hz : normalise f exp man neg = .ok z) (hze : z.e ≠ 0) :
    isNeg f z = neg ∧ f.signMask ≤ manOf f z ∧ manOf f z < 2 * f.signMask ∧ 1 ≤ z.e ∧ z.e ≤ 255 := by
  by_cases h0 : man = 0 ∨ exp ≤ 0
  · unfold normalise at hz; rw [if_pos h0] at hz
    injection hz with hz; subst hz; exact absurd rfl hze
  · obtain ⟨R, E, hR1, hR2, _, _, _, hn⟩ := normalise_round f h exp man neg (by omega) hm (by omega)
    rw [hn] at hz
    obtain ⟨_, hzE, hv, hneg, hman⟩ := round_outcome f h R E neg z hR1 hR2 hz hze
    have := (checkLimits_ok f _ E neg z hz).1
    exact ⟨hneg, by omega, by omega, by omega, by omega⟩

/-- half-even rounding of the low byte: a non-zero result of `_normalise` is within HALF a unit in
    its last place of the exact value of the denormalised input -/
theorem normalise_value (f : Fmt) (h : f.WF) (exp : Int) (man : Nat) (neg : Bool)
    (hm0 : 0 < man) (hm : man < f.denUpper) (he : 0 < exp)
    (z : F) (hz : normalise f exp man neg = .ok z) (hze : z.e ≠ 0) :
    |val f z - sgn neg * dmag f exp man| ≤ p2 ((z.e : Int) - f.bias) / 2 := by
  obtain ⟨R, E, hR1, hR2, hab, _, _, hn⟩ := normalise_round f h exp man neg hm0 hm he
  rw [hn] at hz
  obtain ⟨hv, hzE, _⟩ := round_outcome f h R E neg z hR1 hR2 hz hze
  rw [hv, hzE, mul_assoc, ← mul_sub, abs_sgn_mul]
  exact hab

/-- the rounding of `_normalise` in integers: the mantissa is shifted left by `k` bits to
    `M = man·2^k` in [den_mask-1, den_upper), then the low byte is rounded to nearest, ties to EVEN,
    giving `R` (|256·R − M| ≤ 128, and R even when M's low byte is exactly 0x80); a carry out of the
    top (c = 1) gives R = S at the next exponent -/
theorem normalise_half_even (f : Fmt) (h : f.WF) (exp : Int) (man : Nat) (neg : Bool)
    (hm0 : 0 < man) (hm : man < f.denUpper) (he : 0 < exp) :
    ∃ k R c : Nat, k ≤ f.w + 8 ∧ c ≤ 1 ∧
      f.denMask - 1 ≤ man * 2 ^ k ∧ man * 2 ^ k < f.denUpper ∧
      f.signMask ≤ R ∧ R < 2 * f.signMask ∧
      (c = 0 → 256 * R ≤ man * 2 ^ k + 128 ∧ man * 2 ^ k ≤ 256 * R + 128 ∧
        (man * 2 ^ k % 256 = 128 → R % 2 = 0)) ∧
      (c = 1 → R = f.signMask ∧ f.denUpper ≤ man * 2 ^ k + 128) ∧
      normalise f exp man neg = checkLimits f (packMan f R neg) (exp - k + c) neg := by
  obtain ⟨k, R, c, h1, h2, h3, h4, _, h6, h7, h8, h9, h10⟩ := normalise_spec f h exp man neg hm0 hm he
  exact ⟨k, R, c, h1, h2, h3, h4, h6, h7, h8, h9, h10⟩

/-- limits: `_normalise` rounds to a mantissa `R` in [S,2S) at an exponent `E` (within half a unit
    2^(E-bias) of the exact input); Overflow with the signed maximum is raised iff the rounded
    exponent `E` exceeds 255, the result is a zero iff `E ≤ 0`, otherwise (R, E) is stored -/
theorem limits_spec (f : Fmt) (h : f.WF) (exp : Int) (man : Nat) (neg : Bool)
    (hm0 : 0 < man) (hm : man < f.denUpper) (he : 0 < exp) :
    ∃ (R : Nat) (E : Int), f.signMask ≤ R ∧ R < 2 * f.signMask ∧
      |(R : Rat) * p2 (E - f.bias) - dmag f exp man| ≤ p2 (E - f.bias) / 2 ∧
      normalise f exp man neg =
        (if E > 255 then .error (overflow, signedMax f neg)
         else if E ≤ 0 then .ok ⟨packMan f R neg, 0⟩
         else .ok ⟨packMan f R neg, E.toNat⟩) := by
  obtain ⟨R, E, hR1, hR2, hab, _, _, hn⟩ := normalise_round f h exp man neg hm0 hm he
  exact ⟨R, E, hR1, hR2, hab, hn⟩

/-- Overflow is raised only when the exact magnitude EXCEEDS the largest representable number -/
theorem normalise_overflow_only_above_max (f : Fmt) (h : f.WF) (exp : Int) (man : Nat) (neg : Bool)
    (hm0 : 0 < man) (hm : man < f.denUpper) (he : 0 < exp) (c : Nat) (v : F)
    (hz : normalise f exp man neg = .error (c, v)) :
    maxVal f < dmag f exp man ∧ c = overflow ∧ v = signedMax f neg := by
  obtain ⟨R, E, _, _, _, _, hdn, hn⟩ := normalise_round f h exp man neg hm0 hm he
  rw [hn] at hz
  obtain ⟨hE, hc, hv⟩ := checkLimits_error f _ E neg c v hz
  refine ⟨?_, hc, hv⟩
  have hmono : p2 (256 - f.bias) ≤ p2 (E - f.bias) := p2_mono (by omega)
  have e1 : p2 (256 - (f.bias : Int)) = 2 * p2 (255 - f.bias) := by
    have : (256 : Int) - f.bias = (255 - f.bias) + 1 := by omega
    rw [this, p2_1]
  have hS : (128 : Rat) ≤ f.signMask := by exact_mod_cast (wf_S f h).1
  have hp := p2_pos (255 - (f.bias : Int))
  unfold maxVal
  push_cast
  have t1 : ((f.signMask : Rat) - 1 / 4) * p2 (256 - f.bias) ≤ ((f.signMask : Rat) - 1 / 4) * p2 (E - f.bias) :=
    mul_le_mul_of_nonneg_left hmono (by linarith)
  rw [e1] at t1
  nlinarith

/-- … and it IS raised whenever the exact magnitude reaches 2^127 (the top of the last binade) -/
theorem normalise_overflow_from_2p127 (f : Fmt) (h : f.WF) (exp : Int) (man : Nat) (neg : Bool)
    (hm0 : 0 < man) (hm : man < f.denUpper) (he : 0 < exp) (hbig : p2 127 ≤ dmag f exp man) :
    normalise f exp man neg = .error (overflow, signedMax f neg) := by
  obtain ⟨R, E, _, _, _, hup, _, hn⟩ := normalise_round f h exp man neg hm0 hm he
  rw [hn]
  have hE : 255 < E := by
    by_contra hle
    have hmono : p2 (E - f.bias) ≤ p2 (255 - f.bias) := p2_mono (by omega)
    have := twoS_p2 f h 255
    rw [show (255 : Int) - 128 = 127 by rfl] at this
    push_cast at hup
    have hS : (0 : Rat) < 2 * f.signMask := by
      have : (128 : Rat) ≤ f.signMask := by exact_mod_cast (wf_S f h).1
      linarith
    have := mul_le_mul_of_nonneg_left hmono hS.le
    linarith
  unfold checkLimits signedMax
  rw [if_pos hE]

/-- a non-zero input is replaced by a zero only when its exact magnitude is below 2^-128, the
    smallest representable positive number -/
theorem normalise_zero_only_below_min (f : Fmt) (h : f.WF) (exp : Int) (man : Nat) (neg : Bool)
    (hm0 : 0 < man) (hm : man < f.denUpper) (he : 0 < exp)
    (z : F) (hz : normalise f exp man neg = .ok z) (hze : z.e = 0) :
    dmag f exp man < p2 (-128) := by
  obtain ⟨R, E, _, _, _, hup, _, hn⟩ := normalise_round f h exp man neg hm0 hm he
  rw [hn] at hz
  have hE := (checkLimits_ok f _ E neg z hz).2.2 hze
  have hmono : p2 (E - f.bias) ≤ p2 (0 - f.bias) := p2_mono (by omega)
  have := twoS_p2 f h 0
  rw [show (0 : Int) - 128 = -128 by rfl] at this
  push_cast at hup
  have hS : (0 : Rat) < 2 * f.signMask := by
    have : (128 : Rat) ≤ f.signMask := by exact_mod_cast (wf_S f h).1
    linarith
  have := mul_le_mul_of_nonneg_left hmono hS.le
  linarith

/-- division by a zero (any pattern with exponent byte 0) raises Division by zero carrying the
    maximum with the sign of the dividend -/
theorem div_by_zero (f : Fmt) (x z : F) (hz : z.e = 0) :
    idiv f x z = .error (divZero, signedMax f (isNeg f x)) := by
  simp [idiv, F.isZero, hz, signedMax]

/-! ### multiplication -/

/-- `imul` forms the EXACT 2w-bit product `65536·A·B` of the two mantissas before it drops
    precision: `m'` is that product shifted right by `j` bits (at most 2 units of 2^j are lost,
    low-nibble-9 quirk included), in the window [16S, 32S], and `_normalise` gets (lexp + j, m') -/
theorem mul_exact_product (f : Fmt) (h : f.WF) (x y : F) (hx : F.Valid f x) (hy : F.Valid f y)
    (hxe : x.e ≠ 0) (hye : y.e ≠ 0) :
    ∃ j m' : Nat, 16 * f.signMask ≤ m' ∧ m' ≤ 32 * f.signMask ∧
      m' * 2 ^ j ≤ 65536 * (manOf f x * manOf f y) ∧
      65536 * (manOf f x * manOf f y) < (m' + 2) * 2 ^ j ∧
      imulFixed f x y =
        if (x.e : Int) + y.e - f.bias - 8 < mulThreshold f then .ok zero
        else normalise f ((x.e : Int) + y.e - f.bias - 8 + j) m' (isNeg f x != isNeg f y) :=
  imulThr_struct f h (mulThreshold f) x y hx hy hxe hye

/-- … and that product IS the exact product of the values -/
theorem mul_exact_value (f : Fmt) (x y : F) (hxe : x.e ≠ 0) (hye : y.e ≠ 0) :
    val f x * val f y = sgn (isNeg f x != isNeg f y) *
      dmag f ((x.e : Int) + y.e - f.bias - 8) (65536 * (manOf f x * manOf f y)) :=
  val_mul_eq f x y hxe hye

/-- |x*y − exact| ≤ 5/8 ulp of the result, hence < 1 ulp (truncation to the 28/60-bit window, the
    low-nibble-9 quirk and the half-even rounding together), for every early-exit threshold -/
theorem mul_error_thr (f : Fmt) (h : f.WF) (thr : Int) (x y : F) (hx : F.Valid f x) (hy : F.Valid f y)
    (hxe : x.e ≠ 0) (hye : y.e ≠ 0) (z : F) (hz : imulThr thr f x y = .ok z) (hze : z.e ≠ 0) :
    |val f z - val f x * val f y| ≤ 5 / 8 * p2 ((z.e : Int) - f.bias) ∧
    |val f z - val f x * val f y| < p2 ((z.e : Int) - f.bias) := by
  rcases imulThr_round f h thr x y hx hy hxe hye with ⟨h0, _⟩ | ⟨R, E, hR1, hR2, hab, _, _, hn⟩
  · rw [h0] at hz; injection hz with hz; subst hz; exact absurd rfl hze
  · rw [hn] at hz
    obtain ⟨hv, hzE, _⟩ := round_outcome f h R E _ z hR1 hR2 hz hze
    have hp := p2_pos (E - f.bias)
    rw [hv, hzE, mul_sign f x y hxe hye, mul_assoc, ← mul_sub, abs_sgn_mul]
    exact ⟨hab, by linarith⟩

theorem mul_error (f : Fmt) (h : f.WF) (x y : F) (hx : F.Valid f x) (hy : F.Valid f y)
    (hxe : x.e ≠ 0) (hye : y.e ≠ 0) (z : F) (hz : imulFixed f x y = .ok z) (hze : z.e ≠ 0) :
    |val f z - val f x * val f y| < p2 ((z.e : Int) - f.bias) :=
  (mul_error_thr f h _ x y hx hy hxe hye z hz hze).2

/-- a product with a zero operand is the canonical zero (exact) -/
theorem mul_zero_operand (f : Fmt) (x y : F) (h0 : x.e = 0 ∨ y.e = 0) :
    imulFixed f x y = .ok zero ∧ val f x * val f y = 0 := by
  constructor
  · rcases h0 with h0 | h0 <;> simp [imulFixed, imulThr, F.isZero, h0]
  · rcases h0 with h0 | h0 <;> simp [val, h0]

/-- multiplication raises Overflow only when the exact product exceeds the largest number, with the
    maximum of the product's sign; and a non-error result means the product is below 2^127
    (for the repaired threshold -(w+7) and for the old literal -31 alike: any threshold ≤ 247-w) -/
theorem mul_overflow (f : Fmt) (h : f.WF) (thr : Int) (hthr : thr ≤ 247 - (f.w : Int))
    (x y : F) (hx : F.Valid f x) (hy : F.Valid f y) (hxe : x.e ≠ 0) (hye : y.e ≠ 0) :
    (∀ c v, imulThr thr f x y = .error (c, v) →
      maxVal f < |val f x * val f y| ∧ c = overflow ∧ v = signedMax f (isNeg f x != isNeg f y)) ∧
    (∀ z, imulThr thr f x y = .ok z → |val f x * val f y| < p2 127) := by
  have hS : (128 : Rat) ≤ f.signMask := by exact_mod_cast (wf_S f h).1
  rcases imulThr_round f h thr x y hx hy hxe hye with ⟨h0, hsm⟩ | ⟨R, E, hR1, hR2, hab, hup, hdn, hn⟩
  · refine ⟨fun c v hz => (by rw [h0] at hz; cases hz), fun z _ => ?_⟩
    rcases hsm with hlt | hlt
    · -- early exit: the product is below 2^(2w+16+lexp-bias-8)
      rw [val_mul_eq f x y hxe hye, abs_sgn_mul, abs_of_nonneg (dmag_nonneg _ _ _)]
      obtain ⟨_, ax2⟩ := manOf_range f h x hx.1
      obtain ⟨_, ay2⟩ := manOf_range f h y hy.1
      have hx2 := hx.2
      have hy2 := hy.2
      unfold dmag
      have hb : f.bias = 128 + f.w := h.2.1
      have hmono : p2 ((x.e : Int) + y.e - f.bias - 8 - f.bias - 8) ≤ p2 (127 - 2 * (f.w : Int) - 16) :=
        p2_mono (by omega)
      have hP : ((65536 * (manOf f x * manOf f y) : Nat) : Rat) < 65536 * (2 * f.signMask) * (2 * f.signMask) := by
        have : manOf f x * manOf f y < (2 * f.signMask) * (2 * f.signMask) :=
          Nat.mul_lt_mul_of_lt_of_lt ax2 ay2
        have : 65536 * (manOf f x * manOf f y) < 65536 * ((2 * f.signMask) * (2 * f.signMask)) := by omega
        have := (Nat.cast_lt (α := Rat)).2 this
        push_cast at this ⊢; linarith
      have e2S : (2 * f.signMask : Rat) = p2 (f.w : Int) := by
        rw [signMask_p2 f h]
        have : (f.w : Int) = ((f.w : Int) - 1) + 1 := by omega
        conv_rhs => rw [this, p2_1]
      have e16 : (65536 : Rat) = p2 16 := by
        rw [show (16 : Int) = ((16 : Nat) : Int) by rfl, p2_nat]; norm_num
      have etot : (65536 : Rat) * (2 * f.signMask) * (2 * f.signMask) * p2 (127 - 2 * (f.w : Int) - 16) = p2 127 := by
        rw [e2S, e16, ← p2_add, ← p2_add, ← p2_add]; congr 1; omega
      have hq := p2_pos ((x.e : Int) + y.e - f.bias - 8 - f.bias - 8)
      calc ((65536 * (manOf f x * manOf f y) : Nat) : Rat) * p2 ((x.e : Int) + y.e - f.bias - 8 - f.bias - 8)
          < 65536 * (2 * f.signMask) * (2 * f.signMask) * p2 ((x.e : Int) + y.e - f.bias - 8 - f.bias - 8) :=
            mul_lt_mul_of_pos_right hP hq
        _ ≤ 65536 * (2 * f.signMask) * (2 * f.signMask) * p2 (127 - 2 * (f.w : Int) - 16) :=
            mul_le_mul_of_nonneg_left hmono (by positivity)
        _ = p2 127 := etot
    · exact lt_trans hlt (by unfold p2; exact zpow_lt_zpow_right₀ (by norm_num) (by norm_num))
  · constructor
    · intro c v hz
      rw [hn] at hz
      obtain ⟨hE, hc, hv⟩ := checkLimits_error f _ E _ c v hz
      refine ⟨?_, hc, hv⟩
      have hmono : p2 (256 - f.bias) ≤ p2 (E - f.bias) := p2_mono (by omega)
      have e1 : p2 (256 - (f.bias : Int)) = 2 * p2 (255 - f.bias) := by
        have : (256 : Int) - f.bias = (255 - f.bias) + 1 := by omega
        rw [this, p2_1]
      have hp := p2_pos (255 - (f.bias : Int))
      unfold maxVal
      push_cast
      have t1 : ((f.signMask : Rat) - 1 / 4) * p2 (256 - f.bias) ≤ ((f.signMask : Rat) - 1 / 4) * p2 (E - f.bias) :=
        mul_le_mul_of_nonneg_left hmono (by linarith)
      rw [e1] at t1
      nlinarith
    · intro z hz
      rw [hn] at hz
      have hE := (checkLimits_ok f _ E _ z hz).1
      have hmono : p2 (E - f.bias) ≤ p2 (255 - f.bias) := p2_mono (by omega)
      have := twoS_p2 f h 255
      rw [show (255 : Int) - 128 = 127 by rfl] at this
      push_cast at hup
      have := mul_le_mul_of_nonneg_left hmono (show (0 : Rat) ≤ 2 * f.signMask by linarith)
      linarith

/-- the same for the repaired `imul` of the current source -/
theorem mul_overflow_fixed (f : Fmt) (h : f.WF)
    (x y : F) (hx : F.Valid f x) (hy : F.Valid f y) (hxe : x.e ≠ 0) (hye : y.e ≠ 0) :
    (∀ c v, imulFixed f x y = .error (c, v) →
      maxVal f < |val f x * val f y| ∧ c = overflow ∧ v = signedMax f (isNeg f x != isNeg f y)) ∧
    (∀ z, imulFixed f x y = .ok z → |val f x * val f y| < p2 127) := by
  have hb : f.bias = 128 + f.w := h.2.1
  exact mul_overflow f h (mulThreshold f) (by unfold mulThreshold; omega) x y hx hy hxe hye

/-- core of the underflow statement for `imul` with any early-exit threshold at or below the
    format's own bound -(w+7): a zero result means the exact product is below 2^-128 -/
theorem underflow_only_below_min_thr (f : Fmt) (h : f.WF) (thr : Int) (hthr : thr ≤ -((f.w : Int) + 7))
    (x y : F) (hx : F.Valid f x) (hy : F.Valid f y) (hxe : x.e ≠ 0) (hye : y.e ≠ 0)
    (z : F) (hz : imulThr thr f x y = .ok z) (hze : z.e = 0) :
    |val f x * val f y| < p2 (-128) := by
  have hS : (128 : Rat) ≤ f.signMask := by exact_mod_cast (wf_S f h).1
  rcases imulThr_round f h thr x y hx hy hxe hye with ⟨_, hsm⟩ | ⟨R, E, hR1, hR2, hab, hup, hdn, hn⟩
  · rcases hsm with hlt | hlt
    · rw [val_mul_eq f x y hxe hye, abs_sgn_mul, abs_of_nonneg (dmag_nonneg _ _ _)]
      obtain ⟨_, ax2⟩ := manOf_range f h x hx.1
      obtain ⟨_, ay2⟩ := manOf_range f h y hy.1
      unfold dmag
      have hb : f.bias = 128 + f.w := h.2.1
      have hmono : p2 ((x.e : Int) + y.e - f.bias - 8 - f.bias - 8) ≤ p2 (-128 - 2 * (f.w : Int) - 16) :=
        p2_mono (by omega)
      have hP : ((65536 * (manOf f x * manOf f y) : Nat) : Rat) < 65536 * (2 * f.signMask) * (2 * f.signMask) := by
        have : manOf f x * manOf f y < (2 * f.signMask) * (2 * f.signMask) :=
          Nat.mul_lt_mul_of_lt_of_lt ax2 ay2
        have : 65536 * (manOf f x * manOf f y) < 65536 * ((2 * f.signMask) * (2 * f.signMask)) := by omega
        have := (Nat.cast_lt (α := Rat)).2 this
        push_cast at this ⊢; linarith
      have e2S : (2 * f.signMask : Rat) = p2 (f.w : Int) := by
        rw [signMask_p2 f h]
        have : (f.w : Int) = ((f.w : Int) - 1) + 1 := by omega
        conv_rhs => rw [this, p2_1]
      have e16 : (65536 : Rat) = p2 16 := by
        rw [show (16 : Int) = ((16 : Nat) : Int) by rfl, p2_nat]; norm_num
      have etot : (65536 : Rat) * (2 * f.signMask) * (2 * f.signMask) * p2 (-128 - 2 * (f.w : Int) - 16) = p2 (-128) := by
        rw [e2S, e16, ← p2_add, ← p2_add, ← p2_add]; congr 1; omega
      have hq := p2_pos ((x.e : Int) + y.e - f.bias - 8 - f.bias - 8)
      calc ((65536 * (manOf f x * manOf f y) : Nat) : Rat) * p2 ((x.e : Int) + y.e - f.bias - 8 - f.bias - 8)
          < 65536 * (2 * f.signMask) * (2 * f.signMask) * p2 ((x.e : Int) + y.e - f.bias - 8 - f.bias - 8) :=
            mul_lt_mul_of_pos_right hP hq
        _ ≤ 65536 * (2 * f.signMask) * (2 * f.signMask) * p2 (-128 - 2 * (f.w : Int) - 16) :=
            mul_le_mul_of_nonneg_left hmono (by positivity)
        _ = p2 (-128) := etot
    · exact hlt
  · rw [hn] at hz
    have hE := (checkLimits_ok f _ E _ z hz).2.2 hze
    have hmono : p2 (E - f.bias) ≤ p2 (0 - f.bias) := p2_mono (by omega)
    have := twoS_p2 f h 0
    rw [show (0 : Int) - 128 = -128 by rfl] at this
    push_cast at hup
    have := mul_le_mul_of_nonneg_left hmono (show (0 : Rat) ≤ 2 * f.signMask by linarith)
    linarith

/-- the repaired `imul` (threshold `-(_shift+8)` = -(w+7)) replaces a non-zero product by zero only
    when its magnitude is below the smallest representable positive number, for BOTH formats -/
theorem underflow_only_below_min (f : Fmt) (h : f.WF)
    (x y : F) (hx : F.Valid f x) (hy : F.Valid f y) (hxe : x.e ≠ 0) (hye : y.e ≠ 0)
    (z : F) (hz : imulFixed f x y = .ok z) (hze : z.e = 0) :
    |val f x * val f y| < p2 (-128) := by
  have hb : f.bias = 128 + f.w := h.2.1
  exact underflow_only_below_min_thr f h (mulThreshold f) (by unfold mulThreshold; omega)
    x y hx hy hxe hye z hz hze

/-- the code before the repair (literal threshold -31) was right for singles … -/
theorem underflow_only_below_min_old_single
    (x y : F) (hx : F.Valid single x) (hy : F.Valid single y) (hxe : x.e ≠ 0) (hye : y.e ≠ 0)
    (z : F) (hz : imul single x y = .ok z) (hze : z.e = 0) :
    |val single x * val single y| < p2 (-128) :=
  underflow_only_below_min_thr single single_wf (-31) (by decide) x y hx hy hxe hye z hz hze

/-- … and wrong for doubles (D5): 2^-98 · 1 gave 0 (`PRINT 1D-31*1#` printed 0), although the
    repaired code returns the operand; a product of two values ≥ 2^-98 and ≥ 1 is not below 2^-128 -/
theorem underflow_old_double_counterexample :
    ¬ (∀ x y z : F, F.Valid double x → F.Valid double y → x.e ≠ 0 → y.e ≠ 0 →
        imul double x y = .ok z → z.e = 0 → (x.e : Int) + y.e < 130) := by
  intro hall
  have := hall ⟨0, 31⟩ double.one zero (by decide) (by decide) (by decide) (by decide) (by decide) rfl
  revert this
  decide

example : imulFixed double ⟨0, 31⟩ double.one = .ok ⟨0, 31⟩ := by decide
example : imul double ⟨0, 31⟩ double.one = .ok zero := by decide

/-! ### division -/

/-- division by ±2^n (divisor mantissa = S) is EXACT: the long division returns the dividend's
    mantissa, at exponent byte `ex − ey + 129`, subject only to `_check_limits` -/
theorem div_pow2_exact (f : Fmt) (h : f.WF) (x y : F) (hx : F.Valid f x) (hxe : x.e ≠ 0) (hye : y.e ≠ 0)
    (hy : manOf f y = f.signMask) (z : F) (hz : idiv f x y = .ok z) (hze : z.e ≠ 0) :
    val f z = val f x / val f y ∧ manOf f z = manOf f x ∧ (z.e : Int) = (x.e : Int) - y.e + 129 := by
  obtain ⟨r1, r2⟩ := manOf_range f h x hx.1
  rw [idiv_pow2 f h x y hx hxe hye hy] at hz
  split at hz
  · injection hz with hz; subst hz; exact absurd rfl hze
  · obtain ⟨hv, hzE, _, _, hman⟩ := round_outcome f h _ _ _ z r1 r2 hz hze
    refine ⟨?_, hman, hzE⟩
    have hb : f.bias = 128 + f.w := h.2.1
    have hSpos : (0 : Rat) < f.signMask := by
      have : (128 : Rat) ≤ f.signMask := by exact_mod_cast (wf_S f h).1
      linarith
    rw [hv, val_nonzero f x hxe, val_nonzero f y hye, hy, sgn_xor, signMask_p2 f h]
    have e1 : p2 ((x.e : Int) - f.bias) =
        p2 ((x.e : Int) - y.e + 129 - f.bias) * (p2 ((f.w : Int) - 1) * p2 ((y.e : Int) - f.bias)) := by
      rw [← p2_add, ← p2_add]; congr 1; rw [hb]; push_cast; omega
    rw [e1]
    have hp1 := p2_pos ((f.w : Int) - 1)
    have hp2 := p2_pos ((y.e : Int) - f.bias)
    have hsy : sgn (isNeg f y) ≠ 0 := by cases isNeg f y <;> simp [sgn]
    have hsq : sgn (isNeg f y) * sgn (isNeg f y) = 1 := by cases isNeg f y <;> simp [sgn]
    rw [eq_div_iff (mul_ne_zero (mul_ne_zero hsy hp1.ne') hp2.ne')]
    calc sgn (isNeg f x) * sgn (isNeg f y) * ↑(manOf f x) * p2 ((x.e : Int) - y.e + 129 - f.bias) *
          (sgn (isNeg f y) * p2 ((f.w : Int) - 1) * p2 ((y.e : Int) - f.bias))
        = sgn (isNeg f x) * ↑(manOf f x) * (p2 ((x.e : Int) - y.e + 129 - f.bias) *
            (p2 ((f.w : Int) - 1) * p2 ((y.e : Int) - f.bias))) * (sgn (isNeg f y) * sgn (isNeg f y)) := by ring
      _ = _ := by rw [hsq, mul_one]

/-! ### addition and subtraction -/

/-- exponent-aligned operands (same exponent byte): the sum handed to `_normalise` is EXACT, so the
    result is within half an ulp of x+y (in particular within the 2 ulp of the statement) -/
theorem add_aligned (f : Fmt) (h : f.WF) (x y : F) (hx : F.Valid f x) (hy : F.Valid f y)
    (hxe : x.e ≠ 0) (hye : y.e = x.e) (z : F) (hz : iadd f x y = .ok z) (hze : z.e ≠ 0) :
    |val f z - (val f x + val f y)| ≤ p2 ((z.e : Int) - f.bias) / 2 := by
  obtain ⟨hS, _, _, hdm, hdu, _, _, _⟩ := wf_S f h
  have hye' : y.e ≠ 0 := by omega
  obtain ⟨hmx, hex, hnx⟩ := denorm_man f h x
  obtain ⟨hmy, hey, hny⟩ := denorm_man f h y
  obtain ⟨ax1, ax2⟩ := manOf_range f h x hx.1
  obtain ⟨ay1, ay2⟩ := manOf_range f h y hy.1
  have dx : denorm f x = ⟨(x.e : Int), 256 * manOf f x, isNeg f x⟩ := by
    cases hd : denorm f x; simp_all
  have dy : denorm f y = ⟨(x.e : Int), 256 * manOf f y, isNeg f y⟩ := by
    cases hd : denorm f y; simp_all
  have hvx := dval_denorm f h x hxe
  have hvy := dval_denorm f h y hye'
  rw [dx] at hvx; rw [dy] at hvy
  obtain ⟨hsum, hlt, hexp⟩ := dval_addDen_aligned f h (x.e : Int) (manOf f x) (manOf f y) (isNeg f x) (isNeg f y)
    (by omega) ax1 ax2 ay1 ay2
  unfold iadd normD at hz
  rw [dx, dy] at hz
  generalize addDen f ⟨(x.e : Int), 256 * manOf f x, isNeg f x⟩ ⟨(x.e : Int), 256 * manOf f y, isNeg f y⟩ = d at *
  by_cases hd0 : d.man = 0
  · unfold normalise at hz; rw [if_pos (Or.inl hd0)] at hz
    injection hz with hz; subst hz; exact absurd rfl hze
  · have := normalise_value f h d.exp d.man d.neg (by omega) hlt (by omega) z hz hze
    rw [← hvx, ← hvy, ← hsum]
    exact this

/-- the same for subtraction -/
theorem sub_aligned (f : Fmt) (h : f.WF) (x y : F) (hx : F.Valid f x) (hy : F.Valid f y)
    (hxe : x.e ≠ 0) (hye : y.e = x.e) (z : F) (hz : isub f x y = .ok z) (hze : z.e ≠ 0) :
    |val f z - (val f x - val f y)| ≤ p2 ((z.e : Int) - f.bias) / 2 := by
  obtain ⟨hS, _, _, hdm, hdu, _, _, _⟩ := wf_S f h
  have hye' : y.e ≠ 0 := by omega
  obtain ⟨hmx, hex, hnx⟩ := denorm_man f h x
  obtain ⟨hmy, hey, hny⟩ := denorm_man f h y
  obtain ⟨ax1, ax2⟩ := manOf_range f h x hx.1
  obtain ⟨ay1, ay2⟩ := manOf_range f h y hy.1
  have dx : denorm f x = ⟨(x.e : Int), 256 * manOf f x, isNeg f x⟩ := by
    cases hd : denorm f x; simp_all
  have dy : denorm f y = ⟨(x.e : Int), 256 * manOf f y, isNeg f y⟩ := by
    cases hd : denorm f y; simp_all
  have hvx := dval_denorm f h x hxe
  have hvy := dval_denorm f h y hye'
  rw [dx] at hvx; rw [dy] at hvy
  obtain ⟨hsum, hlt, hexp⟩ := dval_addDen_aligned f h (x.e : Int) (manOf f x) (manOf f y) (isNeg f x) (!isNeg f y)
    (by omega) ax1 ax2 ay1 ay2
  have hneg : dval f ⟨(x.e : Int), 256 * manOf f y, !isNeg f y⟩ = - dval f ⟨(x.e : Int), 256 * manOf f y, isNeg f y⟩ := by
    unfold dval; cases isNeg f y <;> simp [sgn]
  unfold isub normD at hz
  rw [dx, dy] at hz
  simp only [] at hz
  generalize addDen f ⟨(x.e : Int), 256 * manOf f x, isNeg f x⟩ ⟨(x.e : Int), 256 * manOf f y, !isNeg f y⟩ = d at *
  by_cases hd0 : d.man = 0
  · unfold normalise at hz; rw [if_pos (Or.inl hd0)] at hz
    injection hz with hz; subst hz; exact absurd rfl hze
  · have := normalise_value f h d.exp d.man d.neg (by omega) hlt (by omega) z hz hze
    have e : val f x - val f y = dval f d := by rw [hsum, hneg, hvx, hvy]; ring
    rw [e]
    exact this

/-- the general statements for + and / (proved below: `add_error`, `div_error`) -/
def AddErrorBound (f : Fmt) : Prop :=
  ∀ x y z : F, F.Valid f x → F.Valid f y → iadd f x y = .ok z → z.e ≠ 0 →
    |val f z - (val f x + val f y)| ≤ 2 * p2 ((z.e : Int) - f.bias)

def DivErrorBound (f : Fmt) : Prop :=
  ∀ x y z : F, F.Valid f x → F.Valid f y → y.e ≠ 0 → idiv f x y = .ok z → z.e ≠ 0 →
    |val f z - val f x / val f y| < p2 ((z.e : Int) - f.bias)


/-- FULL STRENGTH for + : for ALL stored operands (any exponent difference, zeros included, same or
    opposite signs) a non-zero sum is within 3/2 ulp of the exact sum — alignment loss, sticky bit,
    carry, subtraction shortcut and the GW-BASIC subtraction quirk (clearing bit 7) all included -/
theorem add_error_three_halves (f : Fmt) (h : f.WF) (x y z : F) (hx : F.Valid f x) (hy : F.Valid f y)
    (hz : iadd f x y = .ok z) (hze : z.e ≠ 0) :
    |val f z - (val f x + val f y)| ≤ 3 / 2 * p2 ((z.e : Int) - f.bias) := by
  have side : ∀ v : F, F.Valid f v → (denorm f v).exp = 0 ∨ SD f (denorm f v) := by
    intro v hv
    by_cases h0 : v.e = 0
    · left; show ((v.e : Nat) : Int) = 0; exact_mod_cast h0
    · right; exact SD_denorm f h v hv h0 _
  have := addDen_error f h _ _ (side x hx) (side y hy) z hz hze
  rwa [sval_denorm f h, sval_denorm f h] at this

/-- the statement's bound for + (≤ 2 ulp), for all stored operands -/
theorem add_error (f : Fmt) (h : f.WF) : AddErrorBound f := by
  intro x y z hx hy hz hze
  have := add_error_three_halves f h x y z hx hy hz hze
  have hp := p2_pos ((z.e : Int) - f.bias)
  linarith

/-- FULL STRENGTH for − : the same for subtraction -/
theorem sub_error_three_halves (f : Fmt) (h : f.WF) (x y z : F) (hx : F.Valid f x) (hy : F.Valid f y)
    (hz : isub f x y = .ok z) (hze : z.e ≠ 0) :
    |val f z - (val f x - val f y)| ≤ 3 / 2 * p2 ((z.e : Int) - f.bias) := by
  have hl : (denorm f x).exp = 0 ∨ SD f (denorm f x) := by
    by_cases h0 : x.e = 0
    · left; show ((x.e : Nat) : Int) = 0; exact_mod_cast h0
    · right; exact SD_denorm f h x hx h0 _
  have hr : (⟨(denorm f y).exp, (denorm f y).man, !(denorm f y).neg⟩ : Den).exp = 0 ∨
      SD f ⟨(denorm f y).exp, (denorm f y).man, !(denorm f y).neg⟩ := by
    by_cases h0 : y.e = 0
    · left; show ((y.e : Nat) : Int) = 0; exact_mod_cast h0
    · right; exact SD_denorm f h y hy h0 _
  have := addDen_error f h _ _ hl hr z hz hze
  rw [sval_denorm f h] at this
  have hneg : sval f ⟨(denorm f y).exp, (denorm f y).man, !(denorm f y).neg⟩ = - val f y := by
    rw [← sval_denorm f h y]
    unfold sval dval
    simp only []
    split
    · simp
    · rw [sgn_not]; ring
  rw [hneg, ← sub_eq_add_neg] at this
  exact this

def SubErrorBound (f : Fmt) : Prop :=
  ∀ x y z : F, F.Valid f x → F.Valid f y → isub f x y = .ok z → z.e ≠ 0 →
    |val f z - (val f x - val f y)| ≤ 2 * p2 ((z.e : Int) - f.bias)

theorem sub_error (f : Fmt) (h : f.WF) : SubErrorBound f := by
  intro x y z hx hy hz hze
  have := sub_error_three_halves f h x y z hx hy hz hze
  have hp := p2_pos ((z.e : Int) - f.bias)
  linarith


/-- FULL STRENGTH for / : for ALL stored operands with a non-zero divisor, a non-zero quotient is within
    (1/2 + w/128) ulp of the exact quotient: the shift-and-subtract loop of `_div_den` with its strict
    comparison and its right-shifting divisor (which loses at most w one bits, `divLoop_spec`) is off by
    at most w units of the (w+8)-bit quotient, `_normalise` shifts that by at most one bit and rounds -/
theorem div_error_bound (f : Fmt) (h : f.WF) (hw : f.w ≤ 128) (x y z : F) (hx : F.Valid f x) (hy : F.Valid f y)
    (hye : y.e ≠ 0) (hz : idiv f x y = .ok z) (hze : z.e ≠ 0) :
    |val f z - val f x / val f y| ≤ (1 / 2 + (f.w : Rat) / 128) * p2 ((z.e : Int) - f.bias) := by
  by_cases hxe : x.e = 0
  · exfalso
    have : idiv f x y = .ok x := by simp [idiv, F.isZero, hye, hxe]
    rw [this] at hz; injection hz with hz; subst hz; exact hze hxe
  · obtain ⟨d, heq, hlt, hbig, hexp, hT⟩ := idiv_dval f h hw x y hx hy hxe hye
    rw [heq] at hz
    by_cases hpos : 0 < d.exp
    · exact normD_error f h d hlt hpos _ (f.w : Rat) (Nat.cast_nonneg _) hT (fun _ => hbig) z hz hze
    · exfalso
      unfold normD normalise at hz
      rw [if_pos (Or.inr (by omega))] at hz
      injection hz with hz; subst hz; exact hze rfl

/-- the statement's bound for / (< 1 ulp) for every format with at most 63 mantissa bits -/
theorem div_error (f : Fmt) (h : f.WF) (hw : f.w ≤ 63) : DivErrorBound f := by
  intro x y z hx hy hye hz hze
  have := div_error_bound f h (by omega) x y z hx hy hye hz hze
  have hp := p2_pos ((z.e : Int) - f.bias)
  have hwq : (f.w : Rat) ≤ 63 := by exact_mod_cast hw
  have : (1 / 2 + (f.w : Rat) / 128) * p2 ((z.e : Int) - f.bias) < 1 * p2 ((z.e : Int) - f.bias) :=
    mul_lt_mul_of_pos_right (by linarith) hp
  linarith

/-- … in particular for the two formats of the current source -/
theorem div_error_single : DivErrorBound single := div_error single single_wf (by decide)
theorem div_error_double : DivErrorBound double := div_error double double_wf (by decide)
theorem add_error_single : AddErrorBound single := add_error single single_wf
theorem add_error_double : AddErrorBound double := add_error double double_wf

/-- fragment of `AddErrorBound` proved first (exponent-aligned operands); now a special case of `add_error` -/
theorem add_error_partial (f : Fmt) (h : f.WF) (x y z : F) (hx : F.Valid f x) (hy : F.Valid f y)
    (hxe : x.e ≠ 0) (hye : y.e = x.e) (hz : iadd f x y = .ok z) (hze : z.e ≠ 0) :
    |val f z - (val f x + val f y)| ≤ 2 * p2 ((z.e : Int) - f.bias) := by
  have := add_aligned f h x y hx hy hxe hye z hz hze
  have hp := p2_pos ((z.e : Int) - f.bias)
  linarith

/-- fragment of `DivErrorBound` proved first (divisors ±2^n, exact quotient); the general case is `div_error` -/
theorem div_error_partial (f : Fmt) (h : f.WF) (x y z : F) (hx : F.Valid f x) (hxe : x.e ≠ 0) (hye : y.e ≠ 0)
    (hy : manOf f y = f.signMask) (hz : idiv f x y = .ok z) (hze : z.e ≠ 0) :
    |val f z - val f x / val f y| < p2 ((z.e : Int) - f.bias) := by
  rw [(div_pow2_exact f h x y hx hxe hye hy z hz hze).1, sub_self, abs_zero]
  exact p2_pos _

/-! ### commutativity (bit for bit, including error results) -/

theorem add_comm_bytes (f : Fmt) (h : f.WF) (x y : F) : iadd f x y = iadd f y x := iadd_comm f h x y
theorem mul_comm_bytes (f : Fmt) (x y : F) : imulFixed f x y = imulFixed f y x := imulThr_comm _ f x y

/-! ### non-vacuity: the hypotheses are satisfiable for the formats of the current source -/

example : single.WF ∧ double.WF := ⟨single_wf, double_wf⟩
-- 3 * 5 = 15 (single): a non-zero result
example : imulFixed single ⟨0x400000, 130⟩ ⟨0x200000, 131⟩ = .ok ⟨0x700000, 132⟩ := by decide
-- largest * 2 overflows with the positive maximum
example : imulFixed single ⟨0x7fffff, 255⟩ ⟨0, 130⟩ = .error (overflow, single.posMax) := by decide
-- smallest * 1/2 becomes zero
example : imulFixed single ⟨0, 1⟩ ⟨0, 128⟩ = .ok zero := by decide
-- 1 + 1 = 2 (aligned), 6 / 2 = 3 (power-of-two divisor)
example : iadd single ⟨0, 129⟩ ⟨0, 129⟩ = .ok ⟨0, 130⟩ := by decide
example : idiv single ⟨0x400000, 131⟩ ⟨0, 130⟩ = .ok ⟨0x400000, 130⟩ := by decide
example : idiv double ⟨0, 129⟩ ⟨0x12, 0⟩ = .error (divZero, double.posMax) := by decide
-- 1 / 3 (inexact quotient, divisor not a power of two), single and double
example : idiv single ⟨0, 129⟩ ⟨0x400000, 130⟩ = .ok ⟨2796203, 127⟩ := by decide
example : idiv double ⟨0, 129⟩ ⟨0x40000000000000, 130⟩ = .ok ⟨12009599006321323, 127⟩ := by decide +kernel
-- 1 + 1/3 (exponent difference 2, inexact), 1 − (1 − 2^-24) (cancellation of 24 bits)
example : iadd single ⟨0, 129⟩ ⟨2796203, 127⟩ = .ok ⟨2796203, 129⟩ := by decide
example : isub single ⟨0, 129⟩ ⟨0x7FFFFF, 128⟩ = .ok ⟨0, 105⟩ := by decide

end PcbV.C04
