import PcbV.Model.Strings
/-
  Support lemmas for PcbV.Props.C09 about the building blocks of PcbV.Model.Strings:
  Python slicing helpers, range checks, `bytes.find`, slice assignment and the in-buffer copy loop.
-/
namespace PcbV.Strings
open PcbV

def InInt (n : Int) : Prop := -32768 ≤ n ∧ n ≤ 32767
instance (n : Int) : Decidable (InInt n) := inferInstanceAs (Decidable (_ ∧ _))

theorem pyIdx_nonneg (len : Nat) (i : Int) (h : 0 ≤ i) : pyIdx len i = min i.toNat len := by
  unfold pyIdx; rw [if_neg (by omega)]

theorem pySlice_zero (s : Bytes) (n : Int) (h : 0 ≤ n) : pySlice s 0 n = s.take n.toNat := by
  unfold pySlice
  rw [pyIdx_nonneg _ 0 (by omega), pyIdx_nonneg _ n h]
  simp only [Int.toNat_zero, Nat.zero_min, List.drop_zero, Nat.sub_zero]
  exact (List.take_eq_take_min).symm

theorem pySliceFrom_neg (s : Bytes) (n : Int) (h : 0 < n) :
    pySliceFrom s (-n) = s.drop (s.length - n.toNat) := by
  unfold pySliceFrom pyIdx
  rw [if_pos (by omega)]
  congr 1; omega

theorem pySliceFrom_nonneg (s : Bytes) (n : Int) (h : 0 ≤ n) :
    pySliceFrom s n = s.drop n.toNat := by
  unfold pySliceFrom
  rw [pyIdx_nonneg _ _ h]
  by_cases h' : n.toNat ≤ s.length
  · rw [Nat.min_eq_left h']
  · rw [Nat.min_eq_right (by omega), List.drop_length, List.drop_eq_nil_of_le (by omega)]

theorem pySlice_window (s : Bytes) (a n : Int) (ha : 0 ≤ a) (hn : 0 ≤ n) :
    pySlice s a (a + n) = (s.drop a.toNat).take n.toNat := by
  unfold pySlice
  rw [pyIdx_nonneg _ a ha, pyIdx_nonneg _ (a + n) (by omega)]
  simp only
  by_cases h' : a.toNat ≤ s.length
  · rw [Nat.min_eq_left h']
    rw [List.take_eq_take_iff, List.length_drop]
    omega
  · have e : min a.toNat s.length = s.length := by omega
    rw [e, List.drop_length, List.drop_eq_nil_of_le (by omega : s.length ≤ a.toNat)]
    simp

theorem store_ok (b : Bytes) (h : b.length ≤ 255) : store b = .ok b := by
  unfold store; rw [if_neg (by omega)]


theorem toInt16_ok (i : Int) (h : InInt i) : toInt16 i = .ok i := by
  unfold toInt16; exact if_pos h
theorem toInt16_err (i : Int) (h : ¬ InInt i) : toInt16 i = .error overflow := by
  unfold toInt16; exact if_neg h
theorem rangeCheck_ok (lo hi v : Int) (h : lo ≤ v ∧ v ≤ hi) : rangeCheck lo hi v = .ok () := by
  unfold rangeCheck; rw [if_pos h]
theorem rangeCheck_err (lo hi v : Int) (h : ¬ (lo ≤ v ∧ v ≤ hi)) : rangeCheck lo hi v = .error ifc := by
  unfold rangeCheck; rw [if_neg h]
theorem inInt_of_byte {v : Int} (h : 0 ≤ v ∧ v ≤ 255) : InInt v := by unfold InInt; omega


/-- `bytes.find` returns the least index at which `small` occurs (−1 = `none` when there is none) -/
theorem find_spec (small : Bytes) : ∀ l : Bytes,
    match find small l with
    | some k => k ≤ l.length ∧ small <+: l.drop k ∧ ∀ j, j < k → ¬ small <+: l.drop j
    | none => ∀ j, j ≤ l.length → ¬ small <+: l.drop j
  | [] => by
    unfold find
    by_cases h : small.isEmpty = true
    · rw [if_pos h]
      rw [List.isEmpty_iff] at h
      subst h
      exact ⟨Nat.le_refl _, List.nil_prefix, fun j hj => absurd hj (Nat.not_lt_zero _)⟩
    · rw [if_neg h]
      intro j _ hp
      rw [List.drop_nil, List.prefix_nil] at hp
      exact h (List.isEmpty_iff.mpr hp)
  | x :: xs => by
    unfold find
    by_cases h : small.isPrefixOf (x :: xs) = true
    · rw [if_pos h]
      exact ⟨Nat.zero_le _, List.isPrefixOf_iff_prefix.mp h, fun j hj => absurd hj (Nat.not_lt_zero _)⟩
    · rw [if_neg h]
      have ih := find_spec small xs
      have h0 : ¬ small <+: (x :: xs) := fun hp => h (List.isPrefixOf_iff_prefix.mpr hp)
      cases hf : find small xs with
      | none =>
        rw [hf] at ih
        simp only [Option.map]
        intro j hj hp
        cases j with
        | zero => exact h0 hp
        | succ j => exact ih j (by simpa using hj) (by simpa using hp)
      | some k =>
        rw [hf] at ih
        simp only [Option.map]
        refine ⟨by simpa using ih.1, by simpa using ih.2.1, ?_⟩
        intro j hj hp
        cases j with
        | zero => exact h0 hp
        | succ j => exact ih.2.2 j (by omega) (by simpa using hp)


theorem sliceAssign_all (t src : Bytes) (h : src.length = t.length) :
    sliceAssign t 0 t.length src = .ok src := by
  unfold sliceAssign
  rw [pyIdx_nonneg _ 0 (by omega), pyIdx_nonneg _ _ (by omega)]
  simp only [Int.toNat_zero, Nat.zero_min, Int.toNat_natCast, Nat.min_self, Nat.sub_zero, Nat.zero_add,
    List.take_zero, List.nil_append, List.drop_length, List.append_nil]
  rw [if_pos h.symm]


theorem midNum_eq (length offset num vlen : Int) :
    midNum length offset num vlen = min (min num vlen) (length - offset) := by
  unfold midNum
  simp only
  split <;> omega


/-- the byte-by-byte copy inside one buffer: result of `copyLoop`, characterised position-wise -/
theorem copyLoop_spec (offset : Nat) : ∀ (n : Nat) (buf : Bytes) (i : Nat), i + offset + n ≤ buf.length →
    ∃ r, copyLoop buf offset i n = .ok r ∧ r.length = buf.length ∧
      (∀ p, (p < i + offset ∨ i + offset + n ≤ p) → r[p]? = buf[p]?) ∧
      (∀ q, q < n → r[i + offset + q]? = r[i + q]?)
  | 0, buf, i, _ => ⟨buf, rfl, rfl, fun _ _ => rfl, fun _ hq => absurd hq (Nat.not_lt_zero _)⟩
  | n + 1, buf, i, hb => by
    have hi : i < buf.length := by omega
    have hio : i + offset < buf.length := by omega
    -- one step is `buf.set (i+offset) buf[i]`
    have step : sliceAssign buf ((i + offset : Nat) : Int) ((i + offset + 1 : Nat) : Int)
        (pySlice buf (i : Int) ((i + 1 : Nat) : Int)) = .ok (buf.set (i + offset) buf[i]) := by
      have ps : pySlice buf (i : Int) ((i + 1 : Nat) : Int) = [buf[i]] := by
        have : ((i + 1 : Nat) : Int) = (i : Int) + 1 := by omega
        rw [this, pySlice_window _ _ _ (by omega) (by omega)]
        simp only [Int.toNat_natCast, Int.toNat_one]
        rw [List.drop_eq_getElem_cons hi]; rfl
      rw [ps]
      unfold sliceAssign
      rw [pyIdx_nonneg _ _ (by omega), pyIdx_nonneg _ _ (by omega)]
      simp only [Int.toNat_natCast]
      have e1 : min (i + offset) buf.length = i + offset := by omega
      have e2 : min (i + offset + 1) buf.length = i + offset + 1 := by omega
      rw [e1, e2]
      have e3 : i + offset + 1 - (i + offset) = 1 := by omega
      rw [e3, if_pos (by simp), List.set_eq_take_append_cons_drop, if_pos hio]
      simp
    obtain ⟨r, hr, hlen, hout, hrec⟩ :=
      copyLoop_spec offset n (buf.set (i + offset) buf[i]) (i + 1) (by rw [List.length_set]; omega)
    refine ⟨r, ?_, ?_, ?_, ?_⟩
    · show (do let b ← sliceAssign _ _ _ _; copyLoop b offset (i + 1) n) = _
      rw [step]; exact hr
    · rw [hlen, List.length_set]
    · intro p hp
      rw [hout p (by omega), List.getElem?_set, if_neg (by omega)]
    · intro q hq
      cases q with
      | zero =>
        simp only [Nat.add_zero]
        rw [hout (i + offset) (by omega), hout i (by omega), List.getElem?_set, List.getElem?_set]
        by_cases h0 : i + offset = i
        · simp only [h0, if_true, if_pos hi]
        · simp only [if_true, if_pos hio, if_neg h0]; exact (List.getElem?_eq_getElem hi).symm
      | succ q =>
        have := hrec q (by omega)
        have e1 : i + offset + (q + 1) = i + 1 + offset + q := by omega
        have e2 : i + (q + 1) = i + 1 + q := by omega
        rw [e1, e2]; exact this

end PcbV.Strings
