#!/bin/sh
# tools/run_all.sh [ids…]  — run quick checks sequentially against /repo, print one line each
cd /verif
ids="$@"
[ -z "$ids" ] && ids=$(python3 -c "import json;print(' '.join(c['property_id'] for c in json.load(open('MANIFEST.json'))['checks']))")
for p in $ids; do
  out=$(timeout 1500 ./check $p --tier quick 2>&1); rc=$?
  echo "$p rc=$rc $(echo "$out" | grep -c '^VIOLATION') viol; $(echo "$out" | tail -1 | cut -c1-120)"
done
