"""C36: constants of the text screen model, read from the live objects of /repo (VGA adapter)."""
from gen_tables import generator, HEADER, lean_list, lean_bytes


@generator('TextModes')
def gen_textmodes():
    from pcbasic.basic.display import modes
    from pcbasic.basic.base import error
    adapter, monitor, mem = 'vga', 'rgb', 262144
    out = [HEADER, 'namespace PcbV.Gen.TextModes\n']
    nrs = sorted(n for n in modes.TO_WIDTH[adapter] if isinstance(n, int) and n)
    rows = []
    heights = set()
    for nr in nrs:
        m = modes.get_mode(nr, None, adapter, monitor, mem)
        rows.append('(%d, %d)' % (nr, m.width))
        heights.add(m.height)
    for w in (40, 80):
        m = modes.get_mode(0, w, adapter, monitor, mem)
        assert m.width == w and m.is_text_mode
        heights.add(m.height)
    assert len(heights) == 1
    out.append('/-- text rows of every VGA screen mode used by the model -/')
    out.append('def height : Nat := %d' % heights.pop())
    out.append('/-- (SCREEN number, text columns) of the VGA graphics modes that WIDTH can reach -/')
    out.append('def graphicsWidth : List (Nat × Nat) := [%s]' % ', '.join(rows))
    tw = []
    for nr in nrs:
        for w, target in sorted(modes.TO_WIDTH[adapter][nr].items()):
            tw.append('(%d, %d, %d)' % (nr, w, target))
    out.append('/-- modes.TO_WIDTH[vga]: (current SCREEN number, requested width, new SCREEN number) -/')
    out.append('def toWidth : List (Nat × Nat × Nat) := [%s]' % ', '.join(tw))
    out.append('/-- widths for which SCREEN 0 has a text mode -/')
    out.append('def textWidths : List Nat := %s' % lean_list(sorted(
        k[1] for k in modes._MODES[adapter] if isinstance(k, tuple) and k[0] == 0)))
    msg = error.BASICError(error.IFC).get_message(None)
    out.append('/-- the direct-mode message of error 5 -/')
    out.append('def ifcMessage : List Nat := %s' % lean_bytes(msg))
    out.append('\nend PcbV.Gen.TextModes\n')
    return '\n'.join(out)
